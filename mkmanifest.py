#!/usr/bin/env python3
"""Regenerates MANIFEST.json from theorems.json + the texts below (kept in one place so it stays valid)."""
import json
T = json.load(open('theorems.json'))
TXT = {
 "C01": ("Lean theorems over the interpreter model: a raw node writes exactly its bytes (raw_emits), a node list is rendered node by node in source order (seq_concat, raw_raw), a print node writes prefix, value text, suffix exactly when the value is non-empty (print_emits, print_value_bytes, setBytes_then_print), and the output only grows at its end and does not depend on what was written before (output_extends, from the frame induction over the whole interpreter). Tie: Go output = the model run on the REAL parsed tree over random templates of text, comments and prints (paths of depth 1-4, indexed paths, prefix/suffix in both spellings, both keepFmt values, boundary numbers, empty strings/bytes, nil pointers, missing fields, variables re-assigned through different setters). The source pre-processing is checked by the parser oracle (compile(AST) = dumped tree), not by these theorems.",
         "Lean 4 proof about the interpreter model + differential correspondence"),
 "C02": ("Lean theorems: an if renders exactly the branch evalCond selects (cond_selects, cond_false_no_else), the decision of a comparison is the same in any two contexts carrying the same variables (nodeCmp_same / cmp_same / get_same: history independence), literal-on-the-left uses the mirrored operator correctly (swap_int, literal_left_int), switch takes the first matching case, else the default, else nothing. Tie: random condition nests, all operators/placements/kinds, Go = model on the dumped tree.",
         "Lean 4 proof about the interpreter model + differential correspondence"),
 "C03": ("Lean theorems about the loop functions with ANY plain body (no error, no pending break): a range loop runs exactly once per element in collection order with key and value bound (rloop_once_per_element, rloop_binds, rloopWith_plain), a counter loop once per counter value while the bound comparison holds (cloop_once_per_value; closed form counterVals_lt_inc / trips_lt_inc for i<b; i++), the separator is written before every iteration but the first (sep_not_before_first, sep_before_every_later), the else branch runs iff there was no iteration (else_iff_no_iteration, rloop_nonempty_n). Tie: Go output = the model on the dumped real tree over random loop nests/sequences, every collection kind, empty collections, separators and else branches.",
         "Lean 4 proof about loop combinators + differential correspondence"),
 "C04": ("Lean theorems lookup_latest_key / _id / _fallback / _bkeys, set_refines, notfound_*, parse_own_source(_session) for histories of unbounded length over the model of db.go (as repaired); tie: exhaustive registration histories (length <=4 quick, 5-6 thorough) with a full lookup sweep; CRC-64 collision is a known finding.",
         "Lean 4 proof (invariant by induction over the history, refinement to a two-map spec) + exhaustive correspondence"),
 "C05": ("Lean theorem render_reset_eq_new: for every context c (any history), registry, template and fault-free writer, rendering with c.Reset() equals rendering with a new context up to the ghost log — via interp_frame (the interpreter never reads the log / accepted output). That Reset clears every Go field is tied at run time: hook VerifCtxShape after every reset vs NewCtx(), every later render vs the model, returned slices re-checked.",
         "Lean 4 proof (equivariance of the interpreter, mutual induction) + history correspondence"),
 "C06": ("Partial. Lean theorems over a lock-level interleaving model (any number of threads, every schedule): readers and the writer exclude each other (quiescent_only, writer_exclusive, no_read_during_write), every lookup observes a committed registry state and returns what the sequential lookup returns on a commit prefix (atomic_get, found_sequential, observed_is_committed), a lookup after a finished registration sees it or a later one (read_your_registration), a render is a function of the trees found and its own context (render_snapshot, render_linearizable). The hypotheses are facts REGENERATED from /repo by a go/ast extractor on every run and discharged by decide (generated_locks_ok, generated_no_tree_writes). The real code is additionally run under the race detector and an in-process stress with a linearizability oracle. Not modelled: Go memory model, sync.Pool.",
         "Lean 4 proof over a regenerated lock/write fact base + race detector + linearizability stress"),
 "C07": None, "C08": None, "C09": None, "C10": None,
 "C11": ("Exhaustive directive strings over {h,a,j,q,J,u,l,c} up to length 4 and modifier chains up to length 3 (literal / variable / key-value arguments, every scalar kind) — Go output = Lean model (runMods is a left fold; escape modifiers iterate their escaper) on the dumped real tree. Theorems about the letter parser are pending: level 'other'.",
         "exhaustive correspondence with an executable Lean model (theorems pending)"),
 "C12": ("Lean theorems nest_accepts_iff (the control skeleton of parseTpl accepts exactly the three-bracket Dyck words, any depth/length), parse_terminates, extractArgs_total; tie: every well-nested skeleton up to depth 3-4 with every single-tag deletion/insertion/swap, exhaustive argument strings, keyword-bearing operands; totality beyond the model: mutation/random stream with recover + watchdog (exploration). Partial: RE2 and the classification regexes are not modelled.",
         "Lean 4 proof (nesting automaton, checked indexing) + exhaustive correspondence + exploration"),
 "C13": ("Exploration: every registered modifier/helper x argument tuples of every kind (all singles, all pairs, sampled triples), every node kind against values of unexpected kinds, self-including templates, mutated repository templates; recover + watchdog; panics attributed to /repo frames. The model predicts 'no panic, bounded' by construction (total functions); nothing is proved about Go's partial operations: level 'other'.",
         "matrix + fuzz exploration with panic attribution and watchdog"),
 "C14": ("Lean theorems about the loop functions with ANY body: a pending depth d+1 after a body ends the loop and leaves d (pending_stops), no pending depth continues (no_pending_continues), break always ends its own loop, lazybreak returns no error and the rest of the body runs, a loop node preserves the depth pending for its parents (loopNode_depth, pending_survives_sibling), the 'if' forms equal the wrapped forms (xif_eq_wrapped). Tie: random nests to depth 3 with every instruction/N/placement.",
         "Lean 4 proof about loop combinators + differential correspondence"),
 "C15": ("Lean theorems get_set / get_set_other (read-your-write and frame for every store and name), the five setters, counter_step / counter_init (initial value plus increments, Go int wrap-around), ok_iff_nonempty, ctx_assigns. Tie: assignment/read histories on one context. Known finding: a ctx variable assigned from a counter aliases it.",
         "Lean 4 proof about the variable store + history correspondence"),
 "C16": ("Lean theorems: include_inline (an include tag = rendering the included tree in place: same error, context and output; nothing written on error — via interp_frame), include_notfound, first registered name wins; exit_stops_list, interrupt passes lists/conditions/loops (exit_in_range_loop), exit_ends_template_ok (success, output so far), an exit inside an include ends only that template. Tie: random include graphs and exit placements.",
         "Lean 4 proof (writer equivariance) + differential correspondence"),
 "C17": ("Lean theorem write_error_reported: for EVERY tree, registry, context, fuel and fault position, if any Write call fails the render returns the writer's error (never success, never masked) — mutual induction over the whole interpreter incl. loops, includes, switches. Tie / fault enumeration: every k in 1..W for every generated template; prefix clause checked there.",
         "Lean 4 proof (invariant over the interpreter) + exhaustive fault enumeration"),
 "C18": ("Lean theorems: while a tree is rendered (includes to any depth, loops, exit, errors) only registrations and acquisitions happen (tree_only_registers, by mutual induction interp_mono); a successful or interrupted render runs exactly the registered functions, once each, in registration order, after the writer is final, and empties the list (deferred_once_in_order_after_output); Reset releases every acquired object exactly once (pool_release_once). Tie: event log of the real engine with harness modifiers over render / render / reset sequences.",
         "Lean 4 proof (history invariant by mutual induction) + event-log correspondence"),
 "C20": ("Partial. Lean theorems: the exact specification of floor/ceil/trunc/round-half-away at k decimals (defining inequalities, uniqueness, idempotence, monotonicity) and the operand selection of the math modifiers (pipe form = function-call form, carrier independence). The deciding component at run time is the tie: every rounding case against the Lean spec on the float64's exact value (math/big second opinion), arithmetic against Go's math on converted operands for all 28x28 carrier pairs, dates against the clock formatter on independently computed instants, time::add unit spellings. IEEE rounding of the scaled product is a known finding class.",
         "Lean 4 spec theorems + differential/oracle correspondence (partial)"),
 "C19": ("Measurement decides: testing.AllocsPerRun after warm-up on the repository's benchmark templates and generated compositions, held context and reset+re-set regimes. Lean: grow-only store model store_fixpoint (a repeated render causes no growth event). Go's allocator / escape analysis cannot be modelled: level 'other'.",
         "measurement (AllocsPerRun) + small Lean model of grow-only stores"),
}
ESC = {c["property_id"]: c for c in json.load(open('MANIFEST.json'))["checks"] if c["property_id"] in ("C07","C08","C09","C10")}
def chk(pid):
    if pid in ESC and TXT.get(pid) is None:
        return ESC[pid]
    text, tech = TXT[pid]
    level = T[pid].get("level", "proof")
    return {"property_id": pid, "quick_cmd": f"./check {pid} --tier quick", "thorough_cmd": f"./check {pid} --tier thorough",
            "evidence_file": f"/verif/evidence/{pid}.json", "replay_cmd_template": f"./check {pid} --replay {{path}}",
            "engine": "lean-proof+correspondence",
            "level_claimed": {"category": level, "text": text, "design_ref": f"DESIGN.md §4 {pid}"},
            "level_note": "Trusted: Lean 4.33 kernel (axioms propext, Classical.choice, Quot.sound only), the hand-written Lean model and its tie (harness + driver); " + "; ".join(T[pid].get("trusted_base", []))[:900],
            "technique": tech}
props = [json.loads(l)["id"] for l in open('properties.jsonl')]
m = json.load(open('MANIFEST.json'))
m["checks"] = [chk(p) for p in props if p in T and (p in TXT or p in ESC)]
claimed = {c["property_id"] for c in m["checks"]}
m["not_applicable"] = [{"property_id": p, "reason": "check under construction in this round (not yet claimed)"} for p in props if p not in claimed]
m["engines"][0]["serves_properties"] = sorted(claimed)
m["hooks"]["source_commits"] = [l.split()[0] for l in __import__('subprocess').run(["git","-C","/repo","log","--format=%h %s"],capture_output=True,text=True).stdout.splitlines() if "verif hooks" in l]
json.dump(m, open('MANIFEST.json', 'w'), indent=1)
print("claimed:", sorted(claimed), "not claimed:", [x["property_id"] for x in m["not_applicable"]])
