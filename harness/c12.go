package main

// C12 — Parse is total and accepts exactly the properly nested templates.
//
// Three streams:
//  (a) skeletons: every well-nested block skeleton up to a depth / tag bound, plus every single-tag
//      deletion, insertion and adjacent swap, rendered to real template text with concrete tags,
//      parsed by dyntpl.Parse and by the Lean model Nest.parse (driver request `nest`).
//      Property oracle: the generator's own stack check of the skeleton (independent of both).
//  (b) totality: mutated repository templates and random strings; no panic, no hang.
//  (c) arguments: all strings over a 7-symbol alphabet through `{%= x|default(ARGS) %}` and through
//      the Lean model Args.extractArgsM (driver request `args`).
//
// Violation signatures (for known_findings.txt `match=`):
//   skeleton=<letters> go=<ok|err:unbalanced|err:eof|err:bad|panic|timeout>
//   panic site=<file:line> src=<hex>      timeout src=<hex>

import (
	"bytes"
	"encoding/hex"
	"encoding/json"
	"errors"
	"fmt"
	"hash/fnv"
	"io/fs"
	"os"
	"os/exec"
	"path/filepath"
	"sort"
	"strconv"
	"strings"
	"time"

	"github.com/koykov/dyntpl"
)

func init() { props["C12"] = c12 }

const c12Watchdog = 2 * time.Second

type c12ParseRes struct {
	Tree    *dyntpl.Tree
	Err     error
	Panic   string
	Timeout bool
}

// c12ParseWatch runs dyntpl.Parse with recover under a watchdog. A hung parse leaks its goroutine.
func c12ParseWatch(src []byte, keepFmt bool) c12ParseRes {
	ch := make(chan c12ParseRes, 1)
	go func() {
		t, e, p := parseSafe(src, keepFmt)
		ch <- c12ParseRes{Tree: t, Err: e, Panic: p}
	}()
	tm := time.NewTimer(c12Watchdog)
	defer tm.Stop()
	select {
	case x := <-ch:
		return x
	case <-tm.C:
		return c12ParseRes{Timeout: true}
	}
}

// kind maps a parse result to the vocabulary of the Lean driver.
func (p c12ParseRes) kind() string {
	switch {
	case p.Timeout:
		return "timeout"
	case p.Panic != "":
		return "panic"
	case p.Err == nil:
		return "ok"
	case errors.Is(p.Err, dyntpl.ErrUnbalancedCtl):
		return "err:unbalanced"
	case errors.Is(p.Err, dyntpl.ErrUnexpectedEOF):
		return "err:eof"
	}
	return "err:bad"
}

// c12PanicSite returns "file.go:line" of the innermost non-runtime frame of a recovered panic.
func c12PanicSite(p string) string {
	for _, l := range strings.Split(p, "\n") {
		l = strings.TrimSpace(l)
		if strings.HasPrefix(l, "/") && strings.Contains(l, ".go:") {
			if strings.Contains(l, "verif/harness") && strings.Contains(l, "engine.go") {
				continue
			}
			if i := strings.IndexByte(l, ' '); i > 0 {
				l = l[:i]
			}
			if strings.HasPrefix(l, "/repo/") {
				return l[len("/repo/"):]
			}
			return l
		}
	}
	return "?"
}

func c12(r *Run) {
	r.Rule = "(a) all well-nested skeletons over if/for/switch blocks and leaves up to depth " +
		"3 / 6 tags (quick) or 4 / 8 tags (thorough), each with every single-tag deletion, every single-tag insertion " +
		"(9 token classes × every position; an unterminated tag only at the end) and every adjacent swap; rendered with rotating " +
		"concrete tag shapes and interleaved text, keepFmt alternating; oracle = the generator's stack check of the skeleton; " +
		"non-trivial = unbalanced variants and balanced skeletons of depth ≥ 2; distinct by (skeleton, rendering). " +
		"(b) mutated /repo/testdata/**/*.tpl (byte flips, tag deletion / duplication / swap, truncation, spliced tag fragments, " +
		"dictionary tokens, stacked) and random strings over an alphabet rich in { % } # = | ( ) , : \" ' and keywords; " +
		"non-trivial = the source still contains a tag; distinct by source. " +
		"(c) every string over the alphabet { } , : \" a space up to length 5 (quick) / 6 (thorough) as ARGS in " +
		"{%= x|default(ARGS) %}; reMod `([^(]+)\\(*([^)]*)\\)*` cuts the argument string at the first ')' and strips leading '(' " +
		"before extractArgs sees it: the 7-symbol alphabet has neither, a second sub-stream over 9 symbols (with '(' and ')') up to " +
		"length 4 mirrors the cut when building the model input; non-trivial = at least one argument or a brace in ARGS"
	if r.replayFile != "" {
		c12Replay(r)
		return
	}
	c12Skeletons(r)
	c12DeepNest(r)
	c12Branches(r)
	c12ModeHistory(r)
	parseVerdictStable(r, "c12:")
	parseFileRel(r, "")
	c12Keywords(r)
	c12Totality(r)
	c12Args(r)
}

// ---------------------------------------------------------------------------------------------
// (a) skeleton stream

var (
	c12If     = []string{"{% if v == 1 %}", "{% if len(v.list) > 0 %}", "{% if x, ok := f(v); ok %}", "{% if !v.flag %}", "{% if v.a != \"x\" %}"}
	c12For    = []string{"{% for i:=0; i<2; i++ %}", "{% for _, x := range v.list %}", "{% for k, x := range v.m separator , %}", "{% for i = 5; i > 0; i-- %}"}
	c12Switch = []string{"{% switch v %}{% case 1 %}", "{% switch %}{% case v == 1 %}", "{% switch v.x %}"}
	c12Leaf   = []string{"{%= v %}", "{% else %}", "{% break %}", "{%j= v.x|default(0) %}", "{% continue %}", "{% case 2 %}",
		"{% default %}", "{% include sub %}", "{% endl %}", "{% ctx a = v.b %}", "{% counter c = 0 %}", "{% lazybreak %}",
		"{% break if v == 2 %}", "{%= v.a prefix < suffix > %}", "{% exit %}", "{% counter c++ %}", "{% break 2 %}",
		"{%= v == 1 ? \"a\" : \"b\" %}", "{% jsonquote %}", "{% . sub %}"}
	c12Bad   = []string{"{% bogus tag %}", "{% if a && b %}", "{% for x %}", "{% counter c = 99999999999999999999 %}", "{% endfi %}", "{% break if a || b %}"}
	c12Unt   = []string{"{% if v == 1", "{%= v", "{%", "{% endif %", "{% for i:=0; i<2; i++ }"}
	c12Texts = []string{"", "t", " x ", "\n\t", "<b>", "}%{ %", "", "{ #"}
)

// c12RenderSkeleton turns letters into template text. It returns the effective skeleton too: a switch shape
// may carry a `case` tag of its own, which is one more leaf for the model.
func c12RenderSkeleton(letters string, style int) (src string, eff string) {
	var sb, eb strings.Builder
	pick := func(set []string, pos int) string { return set[(style+pos*7)%len(set)] }
	for pos := 0; pos < len(letters); pos++ {
		sb.WriteString(c12Texts[(style/3+pos)%len(c12Texts)])
		c := letters[pos]
		switch c {
		case 'i':
			sb.WriteString(pick(c12If, pos))
		case 'f':
			sb.WriteString(pick(c12For, pos))
		case 's':
			t := pick(c12Switch, pos)
			sb.WriteString(t)
			if strings.Count(t, "{%") == 2 {
				eb.WriteString("sl")
				continue
			}
		case 'I':
			sb.WriteString("{% endif %}")
		case 'F':
			sb.WriteString("{% endfor %}")
		case 'S':
			sb.WriteString("{% endswitch %}")
		case 'l':
			sb.WriteString(pick(c12Leaf, pos))
		case 'b':
			sb.WriteString(pick(c12Bad, pos))
		case 'u':
			sb.WriteString(pick(c12Unt, pos))
		}
		eb.WriteByte(c)
	}
	if !strings.HasSuffix(letters, "u") {
		sb.WriteString(c12Texts[(style/3+len(letters))%len(c12Texts)])
	}
	return sb.String(), eb.String()
}

// c12SkBalanced is the generator's knowledge: a plain stack check (three bracket pairs, leaves; no b, no u).
func c12SkBalanced(s string) (bool, int) {
	var st []byte
	depth := 0
	for i := 0; i < len(s); i++ {
		switch c := s[i]; c {
		case 'i', 'f', 's':
			st = append(st, c)
			if len(st) > depth {
				depth = len(st)
			}
		case 'I', 'F', 'S':
			if len(st) == 0 || st[len(st)-1] != c+('a'-'A') {
				return false, depth
			}
			st = st[:len(st)-1]
		case 'l':
		default:
			return false, depth
		}
	}
	return len(st) == 0, depth
}

// c12GenBalanced enumerates every balanced skeleton with at most n tags and depth at most d, each once.
func c12GenBalanced(n, d int, emit func(string)) {
	cur := make([]byte, 0, n)
	st := make([]byte, 0, d)
	var rec func()
	rec = func() {
		if len(st) == 0 {
			emit(string(cur))
		}
		room := n - len(cur)
		if room-1 >= len(st) {
			cur = append(cur, 'l')
			rec()
			cur = cur[:len(cur)-1]
		}
		if len(st) < d && room-1 >= len(st)+1 {
			for _, k := range []byte("ifs") {
				cur = append(cur, k)
				st = append(st, k)
				rec()
				st = st[:len(st)-1]
				cur = cur[:len(cur)-1]
			}
		}
		if len(st) > 0 && room >= 1 {
			top := st[len(st)-1]
			cur = append(cur, top-('a'-'A'))
			st = st[:len(st)-1]
			rec()
			st = append(st, top)
			cur = cur[:len(cur)-1]
		}
	}
	rec()
}

type c12SkCase struct {
	Stream   string `json:"stream"`
	Letters  string `json:"skeleton"`
	Eff      string `json:"effective_skeleton"`
	Style    int    `json:"style"`
	KeepFmt  bool   `json:"keep_fmt"`
	Src      string `json:"src"`
	Origin   string `json:"origin"`
	Balanced bool   `json:"balanced"`
}

func c12Skeletons(r *Run) {
	maxTags, maxDepth := 6, 3
	if r.Thorough() {
		maxTags, maxDepth = 8, 4
	}
	seen := map[string]struct{}{}
	var cases []*c12SkCase
	add := func(letters, origin string) {
		if _, ok := seen[letters]; ok {
			return
		}
		seen[letters] = struct{}{}
		style := len(cases)
		src, eff := c12RenderSkeleton(letters, style)
		cases = append(cases, &c12SkCase{Stream: "skeleton", Letters: letters, Eff: eff, Style: style, KeepFmt: style%2 == 0, Src: src, Origin: origin})
	}
	var bases []string
	c12GenBalanced(maxTags, maxDepth, func(s string) { bases = append(bases, s) })
	for _, b := range bases {
		add(b, "base")
	}
	r.Dist["sk:bases"] = len(bases)
	// deep nests (the enumeration above stops at depth 3-4): properly nested to depth d, and the same with one
	// closing tag dropped / one added
	for _, d := range []int{5, 8, 15, 16, 17, 18, 24, 31, 32, 33, 48, 64, 65, 100} {
		var op, cl []byte
		for k := 0; k < d; k++ {
			c := "ifi"[k%3]
			if k%5 == 4 {
				c = 's'
			}
			op = append(op, c)
			cl = append([]byte{c - 'a' + 'A'}, cl...)
		}
		deep := string(op) + "l" + string(cl)
		add(deep, "deep")
		add(deep[:len(deep)-1], "deep-delete")
		add(deep+"I", "deep-insert")
		add(string(op)+"l"+string(cl[1:]), "deep-delete-inner")
		r.Dist["sk:deep"]++
	}
	const alphabet = "ifsIFSlbu"
	for _, b := range bases {
		for i := 0; i < len(b); i++ {
			add(b[:i]+b[i+1:], "delete")
		}
		for i := 0; i <= len(b); i++ {
			for j := 0; j < len(alphabet); j++ {
				if alphabet[j] == 'u' && i != len(b) {
					continue // an unterminated tag swallows what follows: only meaningful at the end
				}
				add(b[:i]+alphabet[j:j+1]+b[i:], "insert")
			}
		}
		for i := 0; i+1 < len(b); i++ {
			if b[i] != b[i+1] {
				add(b[:i]+b[i+1:i+2]+b[i:i+1]+b[i+2:], "swap")
			}
		}
	}
	lines := make([]string, len(cases))
	for i, c := range cases {
		lines[i] = "nest " + c.Eff
	}
	ans := r.Drive(lines)
	for i, c := range cases {
		bal, depth := c12SkBalanced(c.Eff)
		c.Balanced = bal
		res := c12ParseWatch([]byte(c.Src), c.KeepFmt)
		gk := res.kind()
		r.Count("sk:"+c.Eff+"/"+strconv.Itoa(c.Style%60), !bal || depth >= 2)
		r.Dist["sk:origin:"+c.Origin]++
		r.Dist["sk:go:"+gk]++
		r.Dist["sk:depth:"+strconv.Itoa(depth)]++
		if bal {
			r.Dist["sk:balanced"]++
		} else {
			r.Dist["sk:unbalanced"]++
		}
		if i%(len(cases)/6+1) == 0 {
			r.Sample(map[string]any{"stream": "skeleton", "skeleton": c.Eff, "src": c.Src, "balanced": bal, "go": gk, "model": ans[i]})
		}
		sig := fmt.Sprintf("skeleton=%s go=%s", c.Eff, gk)
		switch {
		case res.Timeout:
			r.Violate("timeout "+sig+" src="+hx([]byte(c.Src)), "Parse did not return within 2 s", c)
		case res.Panic != "":
			r.Violate("panic site="+c12PanicSite(res.Panic)+" "+sig+" src="+hx([]byte(c.Src)), "Parse panicked: "+c12FirstLine(res.Panic), c)
		case gk == "ok" && !bal:
			r.Violate(sig, "a template with a missing, surplus or crossed closing tag (or a rejected / unterminated tag) parsed without error", c)
		case gk != "ok" && bal:
			r.Violate(sig, "a properly nested and closed template was rejected: "+res.Err.Error(), c)
		case gk != ans[i]:
			r.TieBreak("Nest model ≙ parseTpl", c, gk, ans[i])
		}
		// comments are removed before anything else: the same skeleton with comments written between its tags —
		// two or more on ONE line, with tags between them — parses to the same result (same verdict, same tree)
		if i%3 == 0 && !res.Timeout && res.Panic == "" {
			spans := c12TagSpans([]byte(c.Src))
			if len(spans) >= 1 {
				var sb strings.Builder
				prev := 0
				for k, sp := range spans {
					sb.WriteString(c.Src[prev:sp[0]])
					if k == 0 || k == len(spans)-1 || (i+k)%2 == 0 {
						if (i/3)%2 == 0 {
							sb.WriteString("{# note " + strconv.Itoa(k) + " #}")
						} else {
							// a comment of several lines that comments OUT tags (an opener, a closer, a print)
							sb.WriteString("{# disabled " + strconv.Itoa(k) + ":\n  {% if old == 1 %}\n\t{%= old %}{% endfor %}\n  {% endswitch %} {% endif %}\n#}")
						}
					}
					sb.WriteString(c.Src[sp[0]:sp[1]])
					prev = sp[1]
				}
				sb.WriteString(c.Src[prev:])
				sb.WriteString("{# end #}")
				res2 := c12ParseWatch([]byte(sb.String()), c.KeepFmt)
				r.Dist["sk:commented"]++
				same := res2.kind() == gk
				if same && gk == "ok" && res.Tree != nil && res2.Tree != nil {
					same = string(dyntpl.VerifDumpTree(res.Tree)) == string(dyntpl.VerifDumpTree(res2.Tree))
				}
				if !same {
					r.Violate("comments-change-parse "+sig+" src="+hx([]byte(sb.String())), "the same template with comments between its tags parses differently (verdict "+gk+" vs "+res2.kind()+")",
						map[string]any{"skeleton": c.Eff, "src": c.Src, "src_with_comments": sb.String(), "go": gk, "go_with_comments": res2.kind()})
				}
			}
		}
	}
	r.Exhaustive = true
	r.Notes = append(r.Notes, fmt.Sprintf("skeleton stream: %d balanced bases (≤ %d tags, depth ≤ %d), %d distinct skeletons with all single-tag edits; enumeration complete",
		len(bases), maxTags, maxDepth, len(cases)))
}

func c12FirstLine(s string) string {
	if i := strings.IndexByte(s, '\n'); i >= 0 {
		return s[:i]
	}
	return s
}

// ---------------------------------------------------------------------------------------------
// (a') keyword-bearing operands: the same skeletons, but one tag carries a keyword of another tag class
// inside a string literal / operand. The tag's class is what its leading keyword says; the classification
// regexes of processCtl are unanchored and tested in a fixed order, so such a tag can be taken for a tag of
// another class. Oracle as in (a): the generator's stack check of the intended skeleton.

type c12KwShape struct {
	ID    string // stable id used in the violation signature: shape=<id>
	Class byte   // intended class: 'i' opens an if block, 'l' leaf
	Text  string
}

var c12KwShapes = []c12KwShape{
	{"if~for", 'i', `{% if status == "for review" %}`},
	{"if~ctx", 'i', `{% if msg == "ctx a = b" %}`},
	{"if~counter", 'i', `{% if msg == "counter x" %}`},
	{"if~break-if", 'i', `{% if cmd == "break if x" %}`},
	{"if~break-n", 'i', `{% if cmd == "break 2" %}`},
	{"if~lazybreak-n", 'i', `{% if cmd == "lazybreak 2" %}`},
	{"if~continue-if", 'i', `{% if cmd == "continue if x" %}`},
	{"if~if", 'i', `{% if cmd == "what if" %}`},
	{"if~case", 'i', `{% if cmd == "case 1" %}`},
	{"if~include", 'i', `{% if cmd == "include x" %}`},
	{"if~endif", 'i', `{% if cmd == "endif" %}`},
	{"case~if", 'l', `{% case "what if not" %}`},
	{"case~for", 'l', `{% case "for sale" %}`},
	{"case~ctx", 'l', `{% case "ctx a = b" %}`},
	{"include~for", 'l', `{% include for you %}`},
	{"include~if", 'l', `{% include what if not %}`},
	{"break-if~for", 'l', `{% break if msg == "for x" %}`},
	{"ctx~for", 'l', `{% ctx a = "for b" %}`},
	{"ctx~if", 'l', `{% ctx a = "what if b" %}`},
	{"print~if-for", 'l', `{%= v|default("if for x") %}`},
}

var c12KwStd = map[byte]string{'i': "{% if v == 1 %}", 'f': "{% for i:=0; i<2; i++ %}", 's': "{% switch v %}", 'I': "{% endif %}",
	'F': "{% endfor %}", 'S': "{% endswitch %}", 'l': "{%= v %}"}

// contexts: X is the keyword-bearing tag
var c12KwCtx = map[byte][]string{
	'i': {"XI", "fXIF", "lXlIl", "sliXISl", "X", "XII", "XF", "fXFI"},
	'l': {"X", "sXS", "iXI", "fXF", "XI", "sXIS", "XF", "iXFI", "XS"},
}

type c12KwCase struct {
	Stream   string `json:"stream"`
	Shape    string `json:"shape"`
	Letters  string `json:"skeleton"`
	Src      string `json:"src"`
	KeepFmt  bool   `json:"keep_fmt"`
	Balanced bool   `json:"balanced"`
}

func c12Keywords(r *Run) {
	var cases []*c12KwCase
	var lines []string
	for _, sh := range c12KwShapes {
		for ci, ctx := range c12KwCtx[sh.Class] {
			var sb, lb strings.Builder
			for pos := 0; pos < len(ctx); pos++ {
				c := ctx[pos]
				if c == 'X' {
					sb.WriteString(sh.Text)
					lb.WriteByte(sh.Class)
					continue
				}
				sb.WriteString(c12KwStd[c]) // standard shapes for the other tags
				lb.WriteByte(c)
			}
			bal, _ := c12SkBalanced(lb.String())
			cases = append(cases, &c12KwCase{Stream: "keyword", Shape: sh.ID, Letters: lb.String(), Src: sb.String(), KeepFmt: ci%2 == 0, Balanced: bal})
			lines = append(lines, "nest "+lb.String())
		}
	}
	ans := r.Drive(lines)
	for i, c := range cases {
		c12JudgeKw(r, c, ans[i])
	}
}

func c12JudgeKw(r *Run, c *c12KwCase, model string) {
	res := c12ParseWatch([]byte(c.Src), c.KeepFmt)
	gk := res.kind()
	r.Count("kw:"+c.Shape+"/"+c.Letters, true)
	r.Dist["kw:go:"+gk]++
	sig := fmt.Sprintf("skeleton=%s go=%s shape=%s", c.Letters, gk, c.Shape)
	switch {
	case res.Timeout:
		r.Violate("timeout "+sig+" src="+hx([]byte(c.Src)), "Parse did not return within 2 s", c)
	case res.Panic != "":
		r.Violate("panic site="+c12PanicSite(res.Panic)+" "+sig+" src="+hx([]byte(c.Src)), "Parse panicked: "+c12FirstLine(res.Panic), c)
	case gk == "ok" && !c.Balanced:
		r.Dist["kw:accepted_unbalanced"]++
		r.Dist["kw:viol:"+c.Shape]++
		r.Violate(sig, "a template with a missing, surplus or crossed closing tag parsed without error: "+c.Src, c)
	case gk != "ok" && c.Balanced:
		r.Dist["kw:rejected_balanced"]++
		r.Dist["kw:viol:"+c.Shape]++
		r.Violate(sig, "a properly nested and closed template was rejected ("+res.Err.Error()+"): "+c.Src, c)
	case gk != model:
		// accept/reject is right but the error kind differs from the model's: the tag was classified differently
		// Not a tie break: the token-level correspondence is the business of stream (a); here only the class of one tag is at stake.
		r.Dist["kw:kind_differs"]++
		r.Dist["kw:kind_differs:"+c.Shape]++
	}
}

// ---------------------------------------------------------------------------------------------
// (b) totality stream

type c12TotCase struct {
	Stream  string `json:"stream"`
	SrcHex  string `json:"src_hex"`
	Src     string `json:"src"`
	KeepFmt bool   `json:"keep_fmt"`
	Origin  string `json:"origin"`
}

var c12Dict = []string{"{%", "%}", "{%=", "{#", "#}", " if ", " for ", "range ", "switch ", "case ", "default", "endif", "endfor", "endswitch",
	"else", "break ", "lazybreak ", "continue ", "include ", "ctx ", "counter ", " as ", " prefix ", " suffix ", " pfx ", " sfx ", ":=", "==", "!=", ">=",
	"<=", "++", "--", "&&", "||", " ? ", " : ", "|", "(", ")", "{", "}", ",", ":", ";", "\"", "'", "`", ".", "=", "j=", "hh=", "f.3=", "F.=", "q=",
	"default(", "ifThenElse(", "len(", "separator ", " sep ", "exit", "endl", "jsonquote", "endjsonquote", "0", "1", "v", "x.y", "\n", "\t", " ", "%", "#"}

const c12Alphabet = "{%}#=|(),:\"' ;.<>!?&+-_`\n\tivfx019"

// c12TagSpans finds the `{% … %}` spans of a source.
func c12TagSpans(src []byte) [][2]int {
	var out [][2]int
	s := string(src)
	i := 0
	for {
		a := strings.Index(s[i:], "{%")
		if a < 0 {
			return out
		}
		a += i
		b := strings.Index(s[a:], "%}")
		if b < 0 {
			return out
		}
		b += a + 2
		out = append(out, [2]int{a, b})
		i = b
	}
}

func c12Totality(r *Run) {
	var corpus [][]byte
	_ = filepath.WalkDir("/repo/testdata", func(p string, d fs.DirEntry, err error) error {
		if err == nil && !d.IsDir() && strings.HasSuffix(p, ".tpl") {
			if b, e := os.ReadFile(p); e == nil {
				corpus = append(corpus, b)
			}
		}
		return nil
	})
	sort.Slice(corpus, func(i, j int) bool { return string(corpus[i]) < string(corpus[j]) })
	if len(corpus) == 0 {
		r.Internal("no templates under /repo/testdata")
		return
	}
	r.Dist["tot:corpus"] = len(corpus)
	var allTags [][]byte
	for _, c := range corpus {
		for _, sp := range c12TagSpans(c) {
			allTags = append(allTags, c[sp[0]:sp[1]])
		}
	}
	rng := r.Rng
	n := r.N(20000, 400000)
	check := func(src []byte, keepFmt bool, origin string) {
		res := c12ParseWatch(src, keepFmt)
		h := fnv.New64a()
		h.Write(src)
		hasTag := len(c12TagSpans(src)) > 0
		r.Count("tot:"+strconv.FormatUint(h.Sum64(), 16), hasTag)
		r.Dist["tot:mut:"+origin]++
		r.Dist["tot:go:"+res.kind()]++
		if hasTag {
			r.Dist["tot:with_tag"]++
		}
		if !res.Timeout && res.Panic == "" {
			return
		}
		c12ReportCrash(r, src, keepFmt, origin, res)
	}
	// the corpus itself, unmodified
	for i, c := range corpus {
		check(c, i%2 == 0, "corpus")
	}
	for it := 0; it < n; it++ {
		var src []byte
		var origin string
		if it%5 == 4 {
			// random string over the rich alphabet and the dictionary
			l := rng.Intn(40)
			for k := 0; k < l; k++ {
				if rng.Intn(3) == 0 {
					src = append(src, c12Dict[rng.Intn(len(c12Dict))]...)
				} else {
					src = append(src, c12Alphabet[rng.Intn(len(c12Alphabet))])
				}
			}
			origin = "random"
		} else {
			src = append([]byte(nil), corpus[rng.Intn(len(corpus))]...)
			steps := 1 + rng.Intn(3)
			var names []string
			for s := 0; s < steps; s++ {
				var nm string
				src, nm = c12Mutate(r, src, allTags)
				names = append(names, nm)
			}
			origin = names[0]
			if len(names) > 1 {
				origin = "stacked"
			}
			r.Dist["tot:steps:"+strconv.Itoa(steps)]++
		}
		check(src, it%2 == 0, origin)
		if it%(n/4+1) == 0 {
			s := src
			if len(s) > 120 {
				s = s[:120]
			}
			r.Sample(map[string]any{"stream": "totality", "origin": origin, "src_prefix": string(s), "len": len(src)})
		}
	}
}

// c12Mutate applies one mutation.
func c12Mutate(r *Run, src []byte, allTags [][]byte) ([]byte, string) {
	rng := r.Rng
	spans := c12TagSpans(src)
	at := func() int {
		if len(src) == 0 {
			return 0
		}
		return rng.Intn(len(src) + 1)
	}
	ins := func(pos int, b []byte) []byte {
		out := make([]byte, 0, len(src)+len(b))
		out = append(out, src[:pos]...)
		out = append(out, b...)
		return append(out, src[pos:]...)
	}
	switch k := rng.Intn(9); {
	case k == 0 && len(src) > 0:
		out := append([]byte(nil), src...)
		for c := 1 + rng.Intn(3); c > 0; c-- {
			i := rng.Intn(len(out))
			if rng.Intn(2) == 0 {
				out[i] ^= 1 << uint(rng.Intn(8))
			} else {
				out[i] = c12Alphabet[rng.Intn(len(c12Alphabet))]
			}
		}
		return out, "byteflip"
	case k == 1 && len(spans) > 0:
		sp := spans[rng.Intn(len(spans))]
		return append(append([]byte(nil), src[:sp[0]]...), src[sp[1]:]...), "tagdel"
	case k == 2 && len(spans) > 0:
		sp := spans[rng.Intn(len(spans))]
		to := spans[rng.Intn(len(spans))]
		pos := to[rng.Intn(2)]
		return ins(pos, src[sp[0]:sp[1]]), "tagdup"
	case k == 3 && len(spans) > 1:
		a, b := rng.Intn(len(spans)), rng.Intn(len(spans))
		if a > b {
			a, b = b, a
		}
		if a == b {
			return src, "tagswap"
		}
		var out []byte
		out = append(out, src[:spans[a][0]]...)
		out = append(out, src[spans[b][0]:spans[b][1]]...)
		out = append(out, src[spans[a][1]:spans[b][0]]...)
		out = append(out, src[spans[a][0]:spans[a][1]]...)
		out = append(out, src[spans[b][1]:]...)
		return out, "tagswap"
	case k == 4 && len(src) > 0:
		if rng.Intn(2) == 0 {
			return append([]byte(nil), src[:rng.Intn(len(src))]...), "truncate"
		}
		return append([]byte(nil), src[rng.Intn(len(src)):]...), "truncate"
	case k == 5 && len(allTags) > 0:
		t := allTags[rng.Intn(len(allTags))]
		a := rng.Intn(len(t))
		b := a + 1 + rng.Intn(len(t)-a)
		return ins(at(), t[a:b]), "splice"
	case k == 6 && len(spans) > 0:
		// edit inside a tag: insert a dictionary token
		sp := spans[rng.Intn(len(spans))]
		w := sp[1] - sp[0] - 3 // `{%}` is a (degenerate) tag for the parser too
		if w < 1 {
			w = 1
		}
		pos := sp[0] + 2 + rng.Intn(w)
		return ins(pos, []byte(c12Dict[rng.Intn(len(c12Dict))])), "intag"
	case k == 7 && len(spans) > 0:
		// cut a piece out of a tag
		sp := spans[rng.Intn(len(spans))]
		a := sp[0] + rng.Intn(sp[1]-sp[0])
		b := a + 1 + rng.Intn(sp[1]-a)
		return append(append([]byte(nil), src[:a]...), src[b:]...), "tagcut"
	default:
		return ins(at(), []byte(c12Dict[rng.Intn(len(c12Dict))])), "dict"
	}
}

// c12ReportCrash minimises a panicking / hanging source (greedy chunk removal that keeps the same
// panic site) and records the violation.
func c12ReportCrash(r *Run, src []byte, keepFmt bool, origin string, res c12ParseRes) {
	same := func(x c12ParseRes) bool {
		if res.Timeout {
			return x.Timeout
		}
		return x.Panic != "" && c12PanicSite(x.Panic) == c12PanicSite(res.Panic)
	}
	min := append([]byte(nil), src...)
	if !res.Timeout { // shrinking a hang costs 2 s per probe; report it as found
		for chunk := len(min) / 2; chunk >= 1; chunk /= 2 {
			for i := 0; i+chunk <= len(min); {
				cand := append(append([]byte(nil), min[:i]...), min[i+chunk:]...)
				if same(c12ParseWatch(cand, keepFmt)) {
					min = cand
				} else {
					i += chunk
				}
			}
		}
	}
	c := c12TotCase{Stream: "totality", SrcHex: hx(min), Src: string(min), KeepFmt: keepFmt, Origin: origin}
	switch {
	case res.Timeout:
		r.Dist["tot:timeout"]++
		r.Violate("timeout src="+hx(min), "Parse did not return within 2 s", c)
	case panicInRepo(res.Panic):
		r.Dist["tot:panic_in_repo"]++
		r.Violate("panic site="+c12PanicSite(res.Panic)+" src="+hx(min), "Parse panicked: "+c12FirstLine(res.Panic)+" at "+c12PanicSite(res.Panic), c)
	default:
		// innermost frame in a dependency: outside the property's wording, reported separately
		r.Dist["tot:panic_in_dependency"]++
		r.Notes = append(r.Notes, "panic with innermost frame outside /repo at "+c12PanicSite(res.Panic)+" src="+hx(min))
	}
}

// ---------------------------------------------------------------------------------------------
// (c) argument stream

type c12ArgCase struct {
	Stream string `json:"stream"`
	Args   string `json:"args"`
	ArgHex string `json:"args_hex"`
	Model  string `json:"model_input_hex"`
	Src    string `json:"src"`
}

// c12DumpReader walks the token stream of dyntpl.VerifDumpTree (/repo/verif_hooks.go).
type c12DumpReader struct {
	t  []string
	i  int
	ok bool
}

func (d *c12DumpReader) next() string {
	if d.i >= len(d.t) {
		d.ok = false
		return ""
	}
	d.i++
	return d.t[d.i-1]
}

func (d *c12DumpReader) num() int {
	n, err := strconv.Atoi(d.next())
	if err != nil || n < 0 {
		d.ok = false
		return 0
	}
	return n
}

// args reads one verifArgs list in the driver's canonical form.
func (d *c12DumpReader) args() (string, bool) {
	n := d.num()
	var parts []string
	global := false
	for k := 0; k < n && d.ok; k++ {
		name, val, st, gl := d.next(), d.next(), d.next(), d.next()
		parts = append(parts, name+":"+val+":"+st)
		global = global || gl == "1"
	}
	if n == 0 {
		return "empty", false
	}
	return strings.Join(parts, "|"), global
}

type c12DumpMod struct{ ID, Args string }

// node reads one node; collects all mods (of the node and its descendants) into mods.
func (d *c12DumpReader) nodes(mods *[]c12DumpMod, hlp *[]string) {
	n := d.num()
	for k := 0; k < n && d.ok; k++ {
		if d.next() != "N" {
			d.ok = false
			return
		}
		for f := 0; f < 23; f++ { // typ … condHlp
			d.next()
		}
		a, _ := d.args() // condHlpArg
		*hlp = append(*hlp, a)
		for f := 0; f < 21; f++ { // condIns … caseHlp
			d.next()
		}
		a, _ = d.args() // caseHlpArg
		*hlp = append(*hlp, a)
		for nt := d.num(); nt > 0 && d.ok; nt-- {
			d.next()
		}
		for nm := d.num(); nm > 0 && d.ok; nm-- {
			id := d.next()
			a, _ := d.args()
			*mods = append(*mods, c12DumpMod{id, a})
		}
		d.nodes(mods, hlp)
	}
}

func c12DumpMods(tree *dyntpl.Tree) ([]c12DumpMod, bool) {
	s := string(dyntpl.VerifDumpTree(tree))
	if !strings.HasPrefix(s, "T") {
		return nil, false
	}
	d := &c12DumpReader{t: strings.Fields(s[1:]), ok: true}
	var mods []c12DumpMod
	var hlp []string
	d.nodes(&mods, &hlp)
	return mods, d.ok && d.i == len(d.t)
}

// c12ReModCut mirrors reMod `([^(]+)\(*([^)]*)\)*` applied to `default(ARGS)`: leading '(' are swallowed by
// `\(*`, the argument group stops at the first ')'.
func c12ReModCut(args string) string {
	args = strings.TrimLeft(args, "(")
	if i := strings.IndexByte(args, ')'); i >= 0 {
		args = args[:i]
	}
	return args
}

func c12Args(r *Run) {
	idDefault := hex.EncodeToString([]byte("default"))
	var cases []*c12ArgCase
	enum := func(alpha string, maxLen int) {
		buf := make([]byte, 0, maxLen)
		var rec func()
		rec = func() {
			a := string(buf)
			m := c12ReModCut(a)
			cases = append(cases, &c12ArgCase{Stream: "args", Args: a, ArgHex: hx([]byte(a)), Model: hx([]byte(m)),
				Src: "{%= x|default(" + a + ") %}"})
			if len(buf) == maxLen {
				return
			}
			for i := 0; i < len(alpha); i++ {
				buf = append(buf, alpha[i])
				rec()
				buf = buf[:len(buf)-1]
			}
		}
		rec()
	}
	enum("{},:\"a ", r.N(5, 6))
	n7 := len(cases)
	enum("{},:\"a ()", 4)
	lines := make([]string, len(cases))
	for i, c := range cases {
		lines[i] = "args " + c.Model
	}
	ans := r.Drive(lines)
	for i, c := range cases {
		res := c12ParseWatch([]byte(c.Src), true)
		sub := "7sym"
		if i >= n7 {
			sub = "9sym"
		}
		r.Dist["args:"+sub]++
		r.Dist["args:go:"+res.kind()]++
		nontrivial := ans[i] != "empty" || strings.ContainsAny(c.Args, "{}")
		r.Count("args:"+sub+":"+c.ArgHex, nontrivial)
		if i%(len(cases)/4+1) == 1 {
			r.Sample(map[string]any{"stream": "args", "args": c.Args, "model": ans[i], "go": res.kind()})
		}
		switch {
		case res.Timeout:
			r.Violate("timeout src="+hx([]byte(c.Src)), "Parse did not return within 2 s", c)
			continue
		case res.Panic != "":
			r.Violate("panic site="+c12PanicSite(res.Panic)+" src="+hx([]byte(c.Src)),
				"Parse panicked on an argument list: "+c12FirstLine(res.Panic)+" at "+c12PanicSite(res.Panic), c)
			continue
		case ans[i] == "panic" || ans[i] == "fuel":
			r.TieBreak("Args model ≙ extractArgs", c, res.kind(), ans[i])
			continue
		case res.Err != nil:
			// a single print tag at root level is balanced: an error here is a rejected well-formed template
			r.Violate("skeleton=l go="+res.kind()+" src="+hx([]byte(c.Src)), "a template consisting of one print tag was rejected: "+res.Err.Error(), c)
			continue
		}
		mods, ok := c12DumpMods(res.Tree)
		if !ok || len(mods) != 1 || mods[0].ID != idDefault {
			r.TieBreak("Args model ≙ extractArgs (tag shape: one print tag with one `default` modifier)", c,
				fmt.Sprintf("dump ok=%v mods=%v", ok, mods), ans[i])
			continue
		}
		if mods[0].Args != ans[i] {
			r.TieBreak("Args model ≙ extractArgs", c, mods[0].Args, ans[i])
		}
		if mods[0].Args == "empty" {
			r.Dist["args:n=0"]++
		} else {
			r.Dist["args:n="+strconv.Itoa(strings.Count(mods[0].Args, "|")+1)]++
		}
	}
	r.Notes = append(r.Notes, fmt.Sprintf("argument stream: %d strings over the 7-symbol alphabet (complete up to length %d), %d over 9 symbols (complete up to length 4)",
		n7, r.N(5, 6), len(cases)-n7))
}

// ---------------------------------------------------------------------------------------------
// replay

func c12Replay(r *Run) {
	b, err := os.ReadFile(r.replayFile)
	if err != nil {
		r.Internal("cannot read replay file: " + err.Error())
		return
	}
	var doc struct {
		Case      json.RawMessage `json:"case"`
		Diverging []struct {
			Case json.RawMessage `json:"case"`
		} `json:"diverging_cases"`
	}
	if err := json.Unmarshal(b, &doc); err != nil {
		r.Internal("replay file is not JSON: " + err.Error())
		return
	}
	raws := []json.RawMessage{}
	if len(doc.Case) > 0 {
		raws = append(raws, doc.Case)
	}
	for _, d := range doc.Diverging {
		raws = append(raws, d.Case)
	}
	for _, raw := range raws {
		var head struct {
			Stream string `json:"stream"`
		}
		_ = json.Unmarshal(raw, &head)
		switch head.Stream {
		case "skeleton":
			var c c12SkCase
			_ = json.Unmarshal(raw, &c)
			ans := r.Drive([]string{"nest " + c.Eff})
			bal, _ := c12SkBalanced(c.Eff)
			res := c12ParseWatch([]byte(c.Src), c.KeepFmt)
			gk := res.kind()
			r.Count("sk:"+c.Eff, true)
			sig := fmt.Sprintf("skeleton=%s go=%s", c.Eff, gk)
			switch {
			case res.Timeout:
				r.Violate("timeout "+sig+" src="+hx([]byte(c.Src)), "Parse did not return within 2 s", c)
			case res.Panic != "":
				r.Violate("panic site="+c12PanicSite(res.Panic)+" "+sig+" src="+hx([]byte(c.Src)), "Parse panicked: "+c12FirstLine(res.Panic), c)
			case gk == "ok" && !bal:
				r.Violate(sig, "an improperly nested template parsed without error", c)
			case gk != "ok" && bal:
				r.Violate(sig, "a properly nested and closed template was rejected", c)
			case gk != ans[0]:
				r.TieBreak("Nest model ≙ parseTpl", c, gk, ans[0])
			}
		case "keyword":
			var c c12KwCase
			_ = json.Unmarshal(raw, &c)
			c.Balanced, _ = c12SkBalanced(c.Letters)
			ans := r.Drive([]string{"nest " + c.Letters})
			c12JudgeKw(r, &c, ans[0])
		case "totality":
			var c c12TotCase
			_ = json.Unmarshal(raw, &c)
			src, _ := unhx(c.SrcHex)
			res := c12ParseWatch(src, c.KeepFmt)
			r.Count("tot:"+c.SrcHex, true)
			if res.Timeout || res.Panic != "" {
				c12ReportCrash(r, src, c.KeepFmt, c.Origin, res)
			}
		case "args":
			var c c12ArgCase
			_ = json.Unmarshal(raw, &c)
			ans := r.Drive([]string{"args " + c.Model})
			res := c12ParseWatch([]byte(c.Src), true)
			r.Count("args:"+c.ArgHex, true)
			switch {
			case res.Timeout:
				r.Violate("timeout src="+hx([]byte(c.Src)), "Parse did not return within 2 s", c)
			case res.Panic != "":
				r.Violate("panic site="+c12PanicSite(res.Panic)+" src="+hx([]byte(c.Src)), "Parse panicked on an argument list: "+c12FirstLine(res.Panic), c)
			case res.Err != nil:
				r.Violate("skeleton=l go="+res.kind()+" src="+hx([]byte(c.Src)), "a template consisting of one print tag was rejected", c)
			default:
				mods, ok := c12DumpMods(res.Tree)
				if !ok || len(mods) != 1 || mods[0].Args != ans[0] {
					r.TieBreak("Args model ≙ extractArgs", c, fmt.Sprintf("%v", mods), ans[0])
				}
			}
		default:
			r.Internal("replay case has no known stream: " + string(raw))
		}
	}
}

// ---------------------------------------------------------------------------------------------
// (a2) branch tags: every block kind (every condition / loop / switch form, helper and len() conditions, if-ok)
// with two or three branch-like leaves inside it on ONE level — a doubled else, an else in a loop after an else, a
// default after a default, case after default, else inside switch … The blocks are properly nested and closed, so
// Parse must return a tree (what the surplus branch tags mean is not specified; that it returns is).
func c12Branches(r *Run) {
	type blk struct{ open, close string }
	var blocks []blk
	for _, o := range append(append([]string(nil), c12If...), "{% if lenGt0(v) %}", "{% if myHelper(v, 1) %}", "{% if cap(v.b) >= 1 %}", "{% if x, ok := f(v).(T); !ok %}", "{% if 1 == v %}") {
		blocks = append(blocks, blk{o, "{% endif %}"})
	}
	for _, o := range c12For {
		blocks = append(blocks, blk{o, "{% endfor %}"})
	}
	for _, o := range append(append([]string(nil), c12Switch...), "{% switch %}{% case lenGt0(v) %}") {
		blocks = append(blocks, blk{o, "{% endswitch %}"})
	}
	leaves := []string{"{% else %}", "{% default %}", "{% case 2 %}", "{% case v == 2 %}", "{% case lenEq0(v) %}", "{% break %}", "{% continue %}", "{% lazybreak 2 %}", "{% exit %}"}
	n := 0
	try := func(src, what string) {
		n++
		for _, keep := range []bool{false, true} {
			res := c12ParseWatch([]byte(src), keep)
			gk := res.kind()
			r.Count("branches:"+src, true)
			r.Dist["branches:go:"+gk]++
			sig := fmt.Sprintf("branches %s go=%s src=%s", what, gk, src)
			c := map[string]any{"source": src, "keepFmt": keep, "go": gk}
			switch {
			case res.Timeout:
				r.Violate("timeout "+sig, "Parse did not return within 2 s", c)
			case res.Panic != "":
				c["panic"] = res.Panic
				r.Violate("panic site="+c12PanicSite(res.Panic)+" "+sig, "Parse panicked: "+c12FirstLine(res.Panic), c)
			case gk != "ok":
				r.Violate(sig, "a properly nested and closed template was rejected: "+res.Err.Error(), c)
			}
		}
	}
	for _, b := range blocks {
		for _, l1 := range leaves {
			for _, l2 := range leaves {
				try(b.open+"a"+l1+"b"+l2+"c"+b.close, "two")
			}
			try(b.open+"a"+l1+"b"+l1+"c"+l1+"d"+b.close, "three")
			try(b.open+l1+b.close, "bare")
			// the same one level down, and next to a nested block that has a branch of its own
			try("{% if v == 1 %}"+b.open+"a"+l1+"b{% else %}c"+l1+b.close+"{% else %}z{% endif %}", "nested")
		}
	}
	r.Notes = append(r.Notes, fmt.Sprintf("branch stream: %d sources x 2 keepFmt values", n))
}

// ---------------------------------------------------------------------------------------------
// (a3) the verdict of Parse(src, keepFmt) belongs to THAT pair: sources whose verdict (or tree) differs between the
// two keepFmt values (a tag broken over two lines, a line break inside the tag brackets) are parsed in one mode,
// registered, and parsed in the other mode — verdict and tree must be those of the other mode on an empty registry.
func c12ModeHistory(r *Run) {
	srcs := []string{"{% if v == 1 %}x{% endif\n%}", "{\n%= v %}", "a{%= v\n%}b", "{% if v == 1 %}\n\tx\n{% endif %}", "{% for i:=0; i<2; i++ %}x{% endfor\n\t%}", "{%\nif v == 1 %}x{% endif %}",
		"{% if v == 1 %}x{%\n\tendif %}", "{% switch v %}\n{% case 1 %}a{% endswitch\n%}", "x{% endif\n%}", "{\n\t% if v == 1 %}x", "{% if v == 1 %}{\n% endif %}", "a\n\tb{%= v %}\n"}
	type ref struct {
		kind, dump string
	}
	verdict := func(src string, keep bool) ref {
		res := c12ParseWatch([]byte(src), keep)
		v := ref{kind: res.kind()}
		if res.Tree != nil && v.kind == "ok" {
			v.dump = string(dyntpl.VerifDumpTree(res.Tree))
		}
		return v
	}
	for _, src := range srcs {
		var refs [2]ref
		for k := 0; k < 2; k++ {
			dyntpl.VerifResetRegistry()
			refs[k] = verdict(src, k == 1)
		}
		if refs[0] == refs[1] {
			r.Dist["mode-history:insensitive"]++
			continue
		}
		for first := 0; first < 2; first++ {
			dyntpl.VerifResetRegistry()
			hist := []string{}
			res := c12ParseWatch([]byte(src), first == 1)
			hist = append(hist, fmt.Sprintf("Parse(src, keepFmt=%v) -> %s", first == 1, res.kind()))
			if res.Tree != nil && res.kind() == "ok" {
				dyntpl.RegisterTplKey("c12mode", res.Tree)
				hist = append(hist, "RegisterTplKey(\"c12mode\", tree)")
			}
			for _, second := range []int{1 - first, first, 1 - first} {
				got := verdict(src, second == 1)
				hist = append(hist, fmt.Sprintf("Parse(src, keepFmt=%v) -> %s", second == 1, got.kind))
				r.Count(fmt.Sprintf("mode-history:%s:%d:%d", src, first, second), true)
				r.Dist["mode-history"]++
				if got != refs[second] {
					r.Violate(fmt.Sprintf("mode-history src=%q first=%d second=%d go=%s", src, first, second, got.kind), "Parse(src, keepFmt) gives another verdict or tree after the same source was parsed and registered with the other keepFmt value",
						map[string]any{"source": src, "history": hist, "verdict": got.kind, "verdict_on_empty_registry": refs[second].kind, "same_tree": got.dump == refs[second].dump})
					break
				}
			}
		}
	}
	dyntpl.VerifResetRegistry()
}

// ---------------------------------------------------------------------------------------------
// (a4) nesting far deeper than the skeleton stream goes. The parser recurses once per open block; a fatal stack
// overflow is not a panic (it cannot be recovered and ends the process), so every depth is parsed in a CHILD
// process (this binary, `--c12-deepnest <depth> <kind>`), with the Go runtime's default stack limit.
func c12DeepNestChild(depth, kind string) {
	n, _ := strconv.Atoi(depth)
	open_, close_ := "{% if a == 1 %}", "{% endif %}"
	switch kind {
	case "for":
		open_, close_ = "{% for i := 0; i < 1; i++ %}", "{% endfor %}"
	case "switch":
		open_, close_ = "{% switch a %}{% case 1 %}", "{% endswitch %}"
	}
	src := append(bytes.Repeat([]byte(open_), n), bytes.Repeat([]byte(close_), n)...)
	t, err := dyntpl.Parse(src, true)
	fmt.Printf("deepnest-result tree=%v err=%v\n", t != nil, err)
}

func c12DeepNest(r *Run) {
	exe, err := os.Executable()
	if err != nil {
		r.Internal("C12 deep nesting: cannot find the harness binary: " + err.Error())
		return
	}
	depths := []int{2000, 20000, 100000}
	if r.Thorough() {
		depths = []int{2000, 20000, 50000, 100000, 200000}
	}
	for _, kind := range []string{"if", "for"} {
		for _, d := range depths {
			cmd := exec.Command(exe, "--c12-deepnest", strconv.Itoa(d), kind)
			var out bytes.Buffer
			cmd.Stdout, cmd.Stderr = &out, &out
			done := make(chan error, 1)
			if err := cmd.Start(); err != nil {
				r.Internal("C12 deep nesting: cannot start the child process: " + err.Error())
				return
			}
			go func() { done <- cmd.Wait() }()
			result := ""
			select {
			case werr := <-done:
				txt := out.String()
				switch {
				case strings.Contains(txt, "deepnest-result tree=true err=<nil>"):
					result = "ok"
				case strings.Contains(txt, "deepnest-result"):
					result = "rejected"
				case strings.Contains(txt, "stack overflow"):
					result = "fatal-stack-overflow"
				case strings.Contains(txt, "panic:"):
					result = "panic"
				default:
					result = fmt.Sprintf("died (%v)", werr)
				}
			case <-time.After(120 * time.Second):
				_ = cmd.Process.Kill()
				result = "timeout"
			}
			r.Count(fmt.Sprintf("deep-nesting:%s:%d", kind, d), true)
			r.Dist["deep-nesting:"+result]++
			if result != "ok" {
				head := out.String()
				if len(head) > 600 {
					head = head[:600]
				}
				// the recorded finding F-deep-nesting is the stack overflow of the recursive parser at depths of 50000 and
				// more (about 14 KB per level against the runtime's 1 GB); anything else — an overflow at a smaller
				// depth, a panic, a rejection, a timeout — has a signature of its own
				class := fmt.Sprintf("at=%d:%s", d, result)
				if result == "fatal-stack-overflow" && d >= 50000 {
					class = "stack-overflow-beyond-50000-levels"
				}
				r.Violate(fmt.Sprintf("deep-nesting kind=%s %s", kind, class),
					fmt.Sprintf("Parse of %d properly nested and closed %s blocks (%d bytes) did not return a tree: %s", d, kind, d*len("{% if a == 1 %}{% endif %}"), result),
					map[string]any{"source": fmt.Sprintf("%d x the opening tag of an %s block, then %d x its closing tag", d, kind, d), "depth": d, "result": result, "child_output_head": head,
						"replay": "harness/vharness --c12-deepnest " + strconv.Itoa(d) + " " + kind})
				break // deeper nests of this kind fail the same way
			}
		}
	}
}
