package main

import (
	"fmt"
	"os"
	"path/filepath"
	"time"

	"github.com/koykov/dyntpl"
)

// parseFileRel: ParseFile(name, keepFmt) is Parse(contents of the file, keepFmt) — the same verdict and the same tree
// (a relation on the real engine alone), for well-formed and malformed files, files that end with a line break, and
// for a HISTORY of one file name whose contents are replaced by others of the same length while the modification
// time is kept (cp -p, rsync -t, two writes within one tick of the file system clock): every ParseFile reads what the
// file holds NOW. The registry is emptied before each pair so that the tree cache plays no part.
func parseFileRel(r *Run, prefix string) {
	dir, err := os.MkdirTemp("", "vharness-parsefile-")
	if err != nil {
		r.Internal("ParseFile relation: no scratch directory: " + err.Error())
		return
	}
	defer os.RemoveAll(dir)
	name := filepath.Join(dir, "page.tpl")
	mtime := time.Date(2021, 3, 4, 5, 6, 7, 0, time.UTC)
	parseSafeFile := func(keep bool) (tree *dyntpl.Tree, err error, pan string) {
		defer func() {
			if x := recover(); x != nil {
				pan = fmt.Sprint(x)
			}
		}()
		tree, err = dyntpl.ParseFile(name, keep)
		return
	}
	verdict := func(t *dyntpl.Tree, err error, pan string) string {
		switch {
		case pan != "":
			return "panic " + pan
		case err != nil:
			return "error " + err.Error()
		case t == nil:
			return "nil tree"
		}
		return "ok " + string(dyntpl.VerifDumpTree(t))
	}
	// groups of contents of equal length (a history on one file name runs through a whole group and back)
	groups := [][]string{
		{"<p>A{%= v %}</p>\n", "<p>B{%= v %}</p>\n", "<p>C{%= w %}</p>\n"},
		{"line one\n\tline two {%= v %}\n\n", "line ONE\n\tline two {%= v %}\n\n"},
		{"{% if v == 1 %}x{% endif %}\n", "{% if v == 1 %}x{% endfor %}\n", "{% if v == 1 %}x{% else  %}\n"},
		{"{% for i := 0; i < 2; i++ %}{%= i %}{% endfor %}\n", "{% for i := 0; i < 2; i++ %}{%= i %}{% endif  %}\n"},
		{"plain", "PLAIN", "pl\nin"},
		{""},
	}
	for gi, g := range groups {
		seq := append(append([]string(nil), g...), g...)
		if len(g) > 1 {
			seq = append(seq, g[0])
		}
		var hist []string
		for si, content := range seq {
			if err := os.WriteFile(name, []byte(content), 0o644); err != nil {
				r.Internal("ParseFile relation: cannot write the scratch file: " + err.Error())
				return
			}
			_ = os.Chtimes(name, mtime, mtime)
			for _, keep := range []bool{true, false} {
				dyntpl.VerifResetRegistry()
				want := verdict(parseSafe([]byte(content), keep))
				dyntpl.VerifResetRegistry()
				got := verdict(parseSafeFile(keep))
				hist = append(hist, fmt.Sprintf("write %q (mtime kept); ParseFile(keepFmt=%v)", content, keep))
				sig := fmt.Sprintf("%sparse-file group=%d step=%d keepFmt=%v", prefix, gi, si, keep)
				r.Count(sig, true)
				r.Dist["parse-file"]++
				if got != want {
					short := func(s string) string {
						if len(s) > 300 {
							return s[:300] + "…"
						}
						return s
					}
					r.Violate(sig, "ParseFile does not give what Parse gives for the contents the file holds now (verdict or tree differ)",
						map[string]any{"history": hist, "file_contents": content, "keepFmt": keep, "ParseFile": short(got), "Parse_of_contents": short(want)})
					dyntpl.VerifResetRegistry()
					return
				}
			}
		}
	}
	// a missing file is an error (and no tree to register)
	_ = os.Remove(name)
	t, err2, pan := parseSafeFile(true)
	r.Count(prefix+"parse-file missing", true)
	if pan != "" || err2 == nil || t != nil {
		r.Violate(prefix+"parse-file missing-file", "ParseFile of a file that does not exist does not return (nil, error)", map[string]any{"tree_is_nil": t == nil, "error": fmt.Sprint(err2), "panic": pan})
	}
	dyntpl.VerifResetRegistry()
}
