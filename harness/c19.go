package main

import (
	"bytes"
	"fmt"
	"os"
	"path/filepath"
	"runtime"
	"strings"
	"testing"

	"github.com/koykov/dyntpl"
	"github.com/koykov/inspector"
	"github.com/koykov/inspector/testobj"
	"github.com/koykov/inspector/testobj_ins"
)

// the object used by the repository's own tests and benchmarks (common_test.go)
var c19User = &testobj.TestObject{
	Id: "115", Name: []byte("John"), Status: 78,
	Flags: testobj.TestFlag{"export": 17, "ro": 4, "rw": 7, "Valid": 1},
	Finance: &testobj.TestFinance{Balance: 9000.015, AllowBuy: false, History: []testobj.TestHistory{
		{DateUnix: 152354345634, Cost: 14.345241, Comment: []byte("pay for domain")},
		{DateUnix: 153465345246, Cost: -3.0000342543, Comment: []byte("got refund")},
		{DateUnix: 156436535640, Cost: 2325242534.35324523, Comment: []byte("maintenance")},
	}},
}

type c19Pre struct {
	kind string
	name string
	val  any // pre-boxed
	ins  inspector.Inspector
	b    []byte
	n    int
}

func c19Prebox(ops []SOp) []c19Pre {
	var out []c19Pre
	for _, o := range ops {
		switch o.Kind {
		case "static":
			v := o.Val
			if b, ok := v.([]byte); ok {
				cp := append([]byte(nil), b...)
				v = &cp
			}
			out = append(out, c19Pre{kind: "set", name: o.Name, val: v, ins: inspector.StaticInspector{}})
		case "obj":
			out = append(out, c19Pre{kind: "set", name: o.Name, val: o.Val.(UserSpec).Build(), ins: testobj_ins.TestObjectInspector{}})
		case "strs":
			ss := append([]string(nil), o.Val.([]string)...)
			out = append(out, c19Pre{kind: "set", name: o.Name, val: ss, ins: inspector.StringsInspector{}})
		case "bytes":
			out = append(out, c19Pre{kind: "bytes", name: o.Name, b: o.Val.([]byte)})
		case "string":
			out = append(out, c19Pre{kind: "bytes", name: o.Name, b: []byte(o.Val.(string))})
		case "counter":
			out = append(out, c19Pre{kind: "counter", name: o.Name, n: o.Val.(int)})
		}
	}
	return out
}

func c19Apply(ctx *dyntpl.Ctx, pre []c19Pre) {
	for i := range pre {
		p := &pre[i]
		switch p.kind {
		case "set":
			ctx.Set(p.name, p.val, p.ins)
		case "bytes":
			ctx.SetBytes(p.name, p.b)
		case "counter":
			ctx.SetCounter(p.name, p.n)
		}
	}
}

// c19Measure: warm up, then allocations per render (a) on the held context as is, (b) with Reset + same
// variables set again before every render.
func c19Measure(key string, pre []c19Pre) (held, reset float64, err error) {
	ctx := dyntpl.NewCtx()
	var buf bytes.Buffer
	c19Apply(ctx, pre)
	for i := 0; i < 3; i++ {
		buf.Reset()
		err = dyntpl.Write(&buf, key, ctx)
	}
	held = testing.AllocsPerRun(20, func() {
		buf.Reset()
		_ = dyntpl.Write(&buf, key, ctx)
	})
	for i := 0; i < 3; i++ {
		ctx.Reset()
		c19Apply(ctx, pre)
		buf.Reset()
		_ = dyntpl.Write(&buf, key, ctx)
	}
	reset = testing.AllocsPerRun(20, func() {
		ctx.Reset()
		c19Apply(ctx, pre)
		buf.Reset()
		_ = dyntpl.Write(&buf, key, ctx)
	})
	return
}

// c19SecondRender: "once a context, an output buffer and a template have been used ONCE" — the mallocs of the second
// render alone (new context, one render, Reset + same variables, then the measured render), the minimum over a few
// trials so that a stray allocation of the runtime is not charged.
func c19SecondRender(key string, pre []c19Pre) (allocs uint64, err error) {
	defer runtime.GOMAXPROCS(runtime.GOMAXPROCS(1))
	allocs = ^uint64(0)
	for trial := 0; trial < 5; trial++ {
		ctx := dyntpl.NewCtx()
		var buf bytes.Buffer
		c19Apply(ctx, pre)
		err = dyntpl.Write(&buf, key, ctx)
		ctx.Reset()
		c19Apply(ctx, pre)
		buf.Reset()
		var m0, m1 runtime.MemStats
		runtime.ReadMemStats(&m0)
		_ = dyntpl.Write(&buf, key, ctx)
		runtime.ReadMemStats(&m1)
		if d := m1.Mallocs - m0.Mallocs; d < allocs {
			allocs = d
		}
	}
	return
}

// c19NestedIncludes: chains of includes a → b → c (→ d), each level writing more than a small buffer holds, rendered
// through an include and directly: the second render must not allocate (a nested include used to move the slice of
// include writers under the including template, whose writer kept the capacity of the moment and grew again).
func c19NestedIncludes(r *Run, pre []c19Pre) {
	pad := strings.Repeat("0123456789", 9)
	for depth := 2; depth <= 5; depth++ {
		for _, inLoop := range []bool{false, true} {
			dyntpl.VerifResetRegistry()
			okc := true
			for lv := depth; lv >= 1; lv-- {
				src := fmt.Sprintf("L%d[%s{%%= user.Id %%}", lv, pad)
				if lv < depth {
					src += fmt.Sprintf("{%% include nest%d %%}", lv+1)
				}
				src += "]" + pad
				tree, err, pan := parseSafe([]byte(src), true)
				if err != nil || pan != "" {
					okc = false
					break
				}
				dyntpl.RegisterTplKey(fmt.Sprintf("nest%d", lv), tree)
			}
			main := `{% include nest1 %}`
			if inLoop {
				main = `{% for i := 0; i < 2; i++ %}{% include nest1 %}{% endfor %}`
			}
			tree, err, pan := parseSafe([]byte(main), true)
			if !okc || err != nil || pan != "" {
				r.Internal("C19 nested includes: sources do not parse")
				return
			}
			dyntpl.RegisterTplKey("nestmain", tree)
			allocs, rerr := c19SecondRender("nestmain", pre)
			sig := fmt.Sprintf("second-render nested-includes depth=%d in-loop=%v", depth, inLoop)
			r.Count(sig, true)
			r.Dist[fmt.Sprintf("second-render nested includes allocs=%d", allocs)]++
			if allocs != 0 || rerr != nil {
				r.Violate(fmt.Sprintf("allocs second-render depth=%d in-loop=%v allocs=%d", depth, inLoop, allocs), fmt.Sprintf("the SECOND render of %d nested includes on a context used once allocates %d objects", depth, allocs),
					map[string]any{"depth": depth, "in_loop": inLoop, "main": main, "allocs_second_render": allocs, "render_error": fmt.Sprint(rerr)})
			}
		}
	}
	dyntpl.VerifResetRegistry()
}

func init() {
	props["C19"] = func(r *Run) {
		r.Rule = "measurement (testing.AllocsPerRun after 3 warm-up renders, held context and output buffer): the repository's benchmark templates (testdata/tpl) with the test object, and generated compositions of prints, escape directives and " +
			"built-in modifiers, conditions, switches, counter/range loops with separators, ctx and counter tags, includes, regions; two regimes: same context re-rendered, and Reset + same variables + render; any allocation is a violation; " +
			"non-trivial = template with at least one tag; distinct by template"
		userPre := []c19Pre{{kind: "set", name: "user", val: c19User, ins: testobj_ins.TestObjectInspector{}},
			{kind: "set", name: "begin", val: 0, ins: inspector.StaticInspector{}}, {kind: "set", name: "end", val: 3, ins: inspector.StaticInspector{}}}
		files, _ := filepath.Glob("/repo/testdata/tpl/*.tpl")
		skip := map[string]string{"conditionOK": "uses a test-only if-ok helper", "strAnyMap": "map data of the benchmark is built per test"}
		for _, f := range files {
			name := strings.TrimSuffix(filepath.Base(f), ".tpl")
			if why, ok := skip[name]; ok {
				r.Dist["corpus_skipped:"+name+" ("+why+")"]++
				continue
			}
			src, _ := os.ReadFile(f)
			tree, err, pan := parseSafe(src, false)
			if err != nil || pan != "" {
				continue
			}
			dyntpl.RegisterTplKey(name, tree)
		}
		for _, f := range files {
			name := strings.TrimSuffix(filepath.Base(f), ".tpl")
			if _, ok := skip[name]; ok {
				continue
			}
			held, reset, err := c19Measure(name, userPre)
			r.Count("corpus:"+name, true)
			r.Dist[fmt.Sprintf("corpus allocs held=%v reset=%v", held, reset)]++
			desc := map[string]any{"template_file": f, "allocs_held_ctx": held, "allocs_reset_ctx": reset, "render_error": fmt.Sprint(err)}
			if held != 0 || reset != 0 {
				r.Violate(fmt.Sprintf("allocs corpus=%s held=%v reset=%v", name, held, reset), fmt.Sprintf("steady-state render of %s allocates (held ctx: %v, reset ctx: %v allocs/op)", name, held, reset), desc)
			}
			r.Sample(desc)
		}
		// sizes and boundaries: outputs of many KiB through includes / regions / modifiers, counters beyond the
		// small-integer range, deep loop nests — a buffer that is dropped or re-created above some size, or a value
		// boxed outside 0..255, allocates only here
		big := strings.Repeat("lorem <ipsum> \"dolor\" & sit amet/", 200)
		scalePre := append(append([]c19Pre(nil), userPre...), c19Pre{kind: "set", name: "big", val: &big, ins: inspector.StaticInspector{}},
			c19Pre{kind: "set", name: "lst", val: []string{"a", "b", "c", "d"}, ins: inspector.StringsInspector{}})
		// a value with every class of byte an escaper treats differently: control bytes with and without a short escape,
		// DEL, quotes, markup, slash and backslash, 2- / 3- / 4-byte runes, the line separators, invalid UTF-8
		odd := "\x00\x01\x07\x08\t\n\x0b\x0c\r\x1b\x1f \"'`<>&/\\=+%;:@#?\x7f\u00e9\u0416\u2028\u2029\u20ac\U0001F600\xff\xc3(\xe2\x82"
		scalePre = append(scalePre, c19Pre{kind: "set", name: "odd", val: &odd, ins: inspector.StaticInspector{}})
		scale := map[string][]string{
			"scale-escape-classes": {"main", `{%j= odd %}{%q= odd %}{%h= odd %}{%a= odd %}{%u= odd %}{%l= odd %}{%J= odd %}{%c= odd %}{%jj= odd %}{%= odd|jsonEscape|htmlEscape %}` +
				`{% jsonquote %}{%= odd %}{% endjsonquote %}{% htmlescape %}{%= odd %}{% endhtmlescape %}{% urlencode %}{%= odd %}{% endurlencode %}{% for _, v := range lst sep , %}{%q= odd %}{% endfor %}`},
			"scale-include":   {"sub", `{% for i:=0; i<400; i++ %}<li>item {%= i %} of the list</li>{% endfor %}`, "main", `head{% include sub %}mid{% include sub %}tail`},
			// an include whose output is far above any "small buffer" threshold (64 KiB, 1 MiB): the writers of includes are kept
			"scale-include-big": {"sub", `{% for i:=0; i<6000; i++ %}<li>item number {%= i %} of the rather long list of items that fills the page</li>{% endfor %}`, "main", `head{% include sub %}mid{% include sub %}{% include sub %}{% include sub %}tail`},
			"scale-include-2": {"sub2", `{%= big %}{%h= big %}`, "sub1", `[{% include sub2 %}]`, "main", `{% for i:=0; i<3; i++ %}{% include sub1 %}{% endfor %}`},
			"scale-regions":   {"main", `{% htmlescape %}{%= big %}{% jsonquote %}{%= big %}{% endjsonquote %}{% endhtmlescape %}{% urlencode %}{%= big %}{% endurlencode %}`},
			"scale-mods":      {"main", `{%= big|htmlEscape|jsonQuote %}{%u= big %}{%jj= big %}{%a= big %}{%c= big %}{%J= big %}{%l= big %}`},
			"scale-counters":  {"main", `{% counter c = 1000 %}{% for i:=250; i<270; i++ %}{% counter c+500 %}{%= c %},{%= i %};{% if c > 1200 %}x{% endif %}{% endfor %}{% ctx y = c %}{%= y %}`},
			"scale-nest":      {"main", `{% for _, a := range lst %}{% for _, b := range lst %}{% for _, d := range lst %}{% for k, e := range user.Finance.History %}{%= a %}{%= b %}{%= d %}{%= k %}{%= e.Cost %}{% endfor %}{% endfor %}{% endfor %}{% endfor %}`},
			"scale-raw":       {"main", strings.Repeat("static text with some length, ", 700) + "{%= user.Id %}"},
			// lengths beyond the small-integer range in len() / cap() conditions, on a field, a static value and a ctx-made bytes variable
			"scale-len": {"main", `{% if len(big) >= 300 %}L{% endif %}{% if cap(big) > 256 %}C{% endif %}{% ctx bb = big %}{% if len(bb) >= 1000 %}B{% else %}b{% endif %}{% if len(lst) > 3 %}4{% endif %}`},
			// template names longer than a small-string buffer, in a key list with missing entries
			"scale-long-names": {"a/rather/long/path-like/template/name/with/more/than/thirty-two/bytes.tpl", `<li>{%= user.Id %}</li>`, "main",
				`{% include a/rather/long/path-like/template/name/with/more/than/thirty-two/bytes.tpl %}{% . no/such/template/under/this/long/path/either/anywhere.tpl a/rather/long/path-like/template/name/with/more/than/thirty-two/bytes.tpl %}`},
			// helper / modifier / global names longer than a small-string buffer (namespaced registrations)
			"scale-long-registry-names": {"main", `{% if vnamespace_longer_than_thirty_two_bytes::helperWithAnEquallyLongName(user.Id) %}Y{% endif %}{% switch %}{% case vnamespace_longer_than_thirty_two_bytes::helperWithAnEquallyLongName(user.Id) %}C{% endswitch %}` +
				`{%= user.Id|vnamespace_longer_than_thirty_two_bytes::modifierWithAnEquallyLongName() %}{%= nope|default(vnamespace_longer_than_thirty_two_bytes::globalWithAnEquallyLongName) %}` +
				`{% for i := 0; i < 3; i++ %}{% break if vnamespace_longer_than_thirty_two_bytes::helperWithAnEquallyLongName() %}{% endfor %}`},
			// ctx tags whose source ends with a numeric modifier (the result lives in the context's scratch cells)
			"scale-ctx-numeric": {"main", `{% ctx r = user.Finance.Balance|ceilPrec(2) %}{%= r %}{% ctx q = user.Cost|round %}{%= q %}{% for i := 0; i < 3; i++ %}{% ctx nx = i|math::add(1) %}{%= nx %}{% ctx fl = user.Cost|floorPrec(1) %}{% endfor %}{% ctx ab = user.Status|math::abs() %}{%= ab %}`},
			// includes (also nested) executed while bound tags are open, and bound tags opened inside the included template
			"scale-include-in-region": {"subr", `<b>{%= user.Id %}</b>{% jsonquote %}"q"{% endjsonquote %}`, "main",
				`{% htmlescape %}{% include subr %}{% jsonquote %}{% include subr %}{% urlencode %}{% . subr %}{% endurlencode %}{% endjsonquote %}{% for i:=0; i<3; i++ %}{% include subr %}{% endfor %}{% endhtmlescape %}`},
		}
		for name, defs := range scale {
			dyntpl.VerifResetRegistry()
			okc := true
			for i := 0; i+1 < len(defs); i += 2 {
				tree, err, pan := parseSafe([]byte(defs[i+1]), true)
				if err != nil || pan != "" {
					r.Internal("scale template does not parse: " + name)
					okc = false
					break
				}
				dyntpl.RegisterTplKey(defs[i], tree)
			}
			if !okc {
				continue
			}
			held, reset, err := c19Measure("main", scalePre)
			r.Count("scale:"+name, true)
			r.Dist[fmt.Sprintf("scale allocs held=%v reset=%v", held, reset)]++
			if held != 0 || reset != 0 {
				r.Violate(fmt.Sprintf("allocs scale=%s held=%v reset=%v", name, held, reset), fmt.Sprintf("steady-state render of %s allocates (held ctx: %v, reset ctx: %v allocs/op)", name, held, reset),
					map[string]any{"templates": defs, "allocs_held_ctx": held, "allocs_reset_ctx": reset, "render_error": fmt.Sprint(err)})
			}
		}
		cfgs := []GenCfg{
			{MaxDepth: 3, MaxNodes: 14, Loops: true, Switch: true, Ternary: true, Letters: true, PreSuf: true, Helpers: true, Region: true, Mods: true, BuiltinOnly: true},
			{MaxDepth: 3, MaxNodes: 14, Loops: true, Ctl: true, BreakN: true, LazyBreak: true, CtxSet: true, Counter: true, Include: true, Exit: true, BuiltinOnly: true},
			// includes inside regions, regions inside includes
			{MaxDepth: 3, MaxNodes: 14, Loops: true, Include: true, Region: true, Letters: true, PreSuf: true, Helpers: true, BuiltinOnly: true},
		}
		c19NestedIncludes(r, userPre)
		for i := 0; i < r.N(600, 12000); i++ {
			c, _ := genCase(r, cfgs[i%3])
			dyntpl.VerifResetRegistry()
			okc := true
			for _, t := range c.Tpls {
				tree, err, pan := parseSafe([]byte(t.Src), t.KeepFmt)
				if err != nil || pan != "" {
					okc = false
					break
				}
				dyntpl.RegisterTplKey(t.Key, tree)
			}
			if !okc {
				continue
			}
			pre := c19Prebox(c.Ops)
			held, reset, err := c19Measure("main", pre)
			src := c.Tpls[len(c.Tpls)-1].Src
			r.Count("gen:"+src, strings.Contains(src, "{%"))
			r.Dist[fmt.Sprintf("generated allocs held=%v reset=%v", held, reset)]++
			if held != 0 || reset != 0 {
				d := c.Describe()
				d["allocs_held_ctx"], d["allocs_reset_ctx"], d["render_error"] = held, reset, fmt.Sprint(err)
				r.Violate(fmt.Sprintf("allocs held=%v reset=%v tpl=%s", held, reset, src), fmt.Sprintf("steady-state render allocates (held ctx: %v, reset ctx: %v allocs/op)", held, reset), d)
			}
		}
	}
}
