package main

import (
	"fmt"
	"strings"
)

// regionRel is the property-level check of "everything rendered inside a <kind> region is escaped":
// for a random template body T (text, prints with letters / modifiers / prefix / suffix, conditions, loops
// with separators, switches, includes, nested regions of every kind, exit — no |raw prints), render T and
// {% kind %}T{% endkind %} from the same data on fresh contexts. Escaping is applied per written chunk and
// the three escapers work character by character, so the second output must be exactly the escaping of the
// first: the Lean model of the escaper gives E(out(T)), and its alphabet / decoding predicates are evaluated
// on the real output. The oracle does not involve the interpreter model.
func regionRel(r *Run, kind, cmd string, n int) {
	cfg := GenCfg{MaxDepth: 3, MaxNodes: 14, Loops: true, Switch: true, Ternary: true, Include: true, Exit: true, Region: true, NoRaw: true, NoCross: true,
		Letters: true, Mods: true, PreSuf: true, CtxSet: true, Counter: true, Helpers: true}
	var cases []*RCase
	var lines []string
	for i := 0; i < n; i++ {
		c, body := genCase(r, cfg)
		main := &c.Tpls[len(c.Tpls)-1]
		main.KeepFmt = true
		wrapped := []TNode{Region{Kind: kind, Body: body}}
		c.Tpls = append(c.Tpls, TplDef{Key: "wrapped", Src: Source(wrapped), KeepFmt: true, Ast: wrapped})
		env := append([]SOp(nil), c.Ops[:len(c.Ops)-1]...)
		ops := append([]SOp(nil), env...)
		ops = append(ops, SOp{Kind: "render", Key: "main"}, SOp{Kind: "reset"})
		ops = append(ops, env...)
		ops = append(ops, SOp{Kind: "render", Key: "wrapped"})
		c.Ops = ops
		if !runWatched(r, c) {
			break
		}
		if c.Panic != "" && panicInDependency(c.Panic) {
			r.Dist["panic_in_dependency"]++
			continue
		}
		if c.Panic != "" {
			r.Violate("region-rel panic "+firstLine(c.Panic), "render panicked", c.Describe())
			continue
		}
		if c.PErr != "" {
			r.Violate("region-rel parse-error "+c.PErr, "a generated well-formed template is rejected by Parse", c.Describe())
			continue
		}
		if len(c.GoRes) != 2 {
			r.Internal("region-rel: expected two renders")
			continue
		}
		a, b := strings.Fields(c.GoRes[0]), strings.Fields(c.GoRes[1])
		if len(a) < 2 || len(b) < 2 {
			r.Internal("region-rel: malformed render result")
			continue
		}
		c.Meta = map[string]any{"region": kind, "plain": c.GoRes[0], "wrapped": c.GoRes[1]}
		if a[0] != b[0] {
			r.Violate(fmt.Sprintf("region-rel kind=%s status %s vs %s", kind, a[0], b[0]), "wrapping a template into a region changes the result of the render", c.Describe())
			continue
		}
		cases = append(cases, c)
		lines = append(lines, fmt.Sprintf("%s 1 %s %s", cmd, a[1], b[1]))
		r.Dist["region-rel:"+kind]++
	}
	checkParseBatch(r, cases) // the parser oracle on the same templates (the raw flag of every print is compared there)
	ans := r.Drive(lines)
	for i, c := range cases {
		fs := strings.Fields(ans[i])
		req := strings.Fields(lines[i])
		if len(fs) < 3 {
			r.Internal("region-rel: driver could not answer: " + lines[i] + " -> " + ans[i])
			continue
		}
		out0, out1 := req[2], req[3]
		r.Count("region-rel/"+kind+"/"+out0, fs[0] != out0)
		d := c.Describe()
		d["region"] = kind
		d["expected_wrapped_hex"] = fs[0]
		switch {
		case fs[0] != out1:
			r.Violate(fmt.Sprintf("region-rel kind=%s not-escaped", kind), "the output of {% "+kind+" %}T{% end"+kind+" %} is not the "+cmd+"-escaping of the output of T: something rendered inside the region escaped the escaping (or was escaped twice)", d)
		case fs[1] != "1":
			r.Violate(fmt.Sprintf("region-rel kind=%s alphabet", kind), "the output of the region leaves the safe alphabet", d)
		case fs[2] != out0:
			r.Violate(fmt.Sprintf("region-rel kind=%s decode", kind), "decoding the output of the region does not give the output of the plain template", d)
		}
		if i%997 == 0 {
			r.Sample(d)
		}
	}
}

// regionRaw: values marked raw are the one exception inside a region. Templates with |raw prints and
// ternaries whose alternatives carry their own raw flag, inside regions of every kind: Go output = the
// interpreter model on the real tree, and the parser oracle compares the raw flag of every print node.
func regionRaw(r *Run, n int) {
	cfg := GenCfg{MaxDepth: 3, MaxNodes: 12, Ternary: true, Region: true, Letters: true, Mods: true, PreSuf: true, Loops: true}
	var cases []*RCase
	for i := 0; i < n; i++ {
		c, _ := genCase(r, cfg)
		cases = append(cases, c)
	}
	runSessions(r, cases, outputDiffers)
}
