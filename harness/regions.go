package main

import (
	"bytes"
	"fmt"
	"math"
	"strings"

	"github.com/koykov/dyntpl"
	"github.com/koykov/inspector"
)

// regionRel is the property-level check of "everything rendered inside a <kind> region is escaped":
// for a random template body T (text, prints with letters / modifiers / prefix / suffix, conditions, loops
// with separators, switches, includes, nested regions of every kind, exit — no |raw prints), render T and
// {% kind %}T{% endkind %} from the same data on fresh contexts. Escaping is applied per written chunk and
// the three escapers work character by character, so the second output must be exactly the escaping of the
// first: the Lean model of the escaper gives E(out(T)), and its alphabet / decoding predicates are evaluated
// on the real output. The oracle does not involve the interpreter model.
func regionRel(r *Run, kind, cmd string, n int) {
	cfg := GenCfg{MaxDepth: 3, MaxNodes: 14, Loops: true, Switch: true, Ternary: true, Include: true, Exit: true, Region: true, NoRaw: true, NoCross: true,
		Letters: true, Mods: true, PreSuf: true, CtxSet: true, Counter: true, Helpers: true}
	var cases []*RCase
	var lines []string
	for i := 0; i < n; i++ {
		c, body := genCase(r, cfg)
		main := &c.Tpls[len(c.Tpls)-1]
		main.KeepFmt = true
		wrapped := []TNode{Region{Kind: kind, Body: body}}
		c.Tpls = append(c.Tpls, TplDef{Key: "wrapped", Src: Source(wrapped), KeepFmt: true, Ast: wrapped})
		env := append([]SOp(nil), c.Ops[:len(c.Ops)-1]...)
		ops := append([]SOp(nil), env...)
		ops = append(ops, SOp{Kind: "render", Key: "main"}, SOp{Kind: "reset"})
		ops = append(ops, env...)
		ops = append(ops, SOp{Kind: "render", Key: "wrapped"})
		c.Ops = ops
		if !runWatched(r, c) {
			break
		}
		if c.Panic != "" && panicInDependency(c.Panic) {
			r.Dist["panic_in_dependency"]++
			continue
		}
		if c.Panic != "" {
			r.Violate("region-rel panic "+firstLine(c.Panic), "render panicked", c.Describe())
			continue
		}
		if c.PErr != "" {
			r.Violate("region-rel parse-error "+c.PErr, "a generated well-formed template is rejected by Parse", c.Describe())
			continue
		}
		if len(c.GoRes) != 2 {
			r.Internal("region-rel: expected two renders")
			continue
		}
		a, b := strings.Fields(c.GoRes[0]), strings.Fields(c.GoRes[1])
		if len(a) < 2 || len(b) < 2 {
			r.Internal("region-rel: malformed render result")
			continue
		}
		c.Meta = map[string]any{"region": kind, "plain": c.GoRes[0], "wrapped": c.GoRes[1]}
		if a[0] != b[0] {
			r.Violate(fmt.Sprintf("region-rel kind=%s status %s vs %s", kind, a[0], b[0]), "wrapping a template into a region changes the result of the render", c.Describe())
			continue
		}
		cases = append(cases, c)
		lines = append(lines, fmt.Sprintf("%s 1 %s %s", cmd, a[1], b[1]))
		r.Dist["region-rel:"+kind]++
	}
	checkParseBatch(r, cases) // the parser oracle on the same templates (the raw flag of every print is compared there)
	ans := r.Drive(lines)
	for i, c := range cases {
		fs := strings.Fields(ans[i])
		req := strings.Fields(lines[i])
		if len(fs) < 3 {
			r.Internal("region-rel: driver could not answer: " + lines[i] + " -> " + ans[i])
			continue
		}
		out0, out1 := req[2], req[3]
		r.Count("region-rel/"+kind+"/"+out0, fs[0] != out0)
		d := c.Describe()
		d["region"] = kind
		d["expected_wrapped_hex"] = fs[0]
		switch {
		case fs[0] != out1:
			r.Violate(fmt.Sprintf("region-rel kind=%s not-escaped", kind), "the output of {% "+kind+" %}T{% end"+kind+" %} is not the "+cmd+"-escaping of the output of T: something rendered inside the region escaped the escaping (or was escaped twice)", d)
		case fs[1] != "1":
			r.Violate(fmt.Sprintf("region-rel kind=%s alphabet", kind), "the output of the region leaves the safe alphabet", d)
		case fs[2] != out0:
			r.Violate(fmt.Sprintf("region-rel kind=%s decode", kind), "decoding the output of the region does not give the output of the plain template", d)
		}
		if i%997 == 0 {
			r.Sample(d)
		}
	}
}

// regionRaw: values marked raw are the one exception inside a region. Templates with |raw prints and
// ternaries whose alternatives carry their own raw flag, inside regions of every kind: Go output = the
// interpreter model on the real tree, and the parser oracle compares the raw flag of every print node.
func regionRaw(r *Run, n int) {
	cfg := GenCfg{MaxDepth: 3, MaxNodes: 12, Ternary: true, Region: true, Letters: true, Mods: true, PreSuf: true, Loops: true}
	var cases []*RCase
	for i := 0; i < n; i++ {
		c, _ := genCase(r, cfg)
		cases = append(cases, c)
	}
	runSessions(r, cases, outputDiffers)
}

// escRuns covers what the per-input sweeps of the escape properties hold fixed: the LENGTH of a letter run and
// the KIND of the value.
//   - long runs: a directive of n = 10, 11, 12, 21 equal letters (and the named call with that count) must print
//     what n single-letter renders fed into one another print (a relation on the real engine alone), and the
//     same as the interpreter model;
//   - typed values: negative and unsigned integers of several widths, floats, booleans, a counter, bytes, and
//     fields of an inspected struct go through every letter and named modifier of the property (Go vs model:
//     the escaper sees the value's text, whatever its Go type).
func escRuns(r *Run, letters []string, mods []string, regionKind string) {
	var cases []*RCase
	ins := []string{"a-b", `x"y\`, "<&>'", "é z/?=%", "-15", "hello wide world"}
	for li, l := range letters {
		for ni, n := range []int{2, 3, 10, 11, 12, 21} {
			in := ins[(li+ni)%len(ins)]
			if n > 12 {
				in = "a-b" // the output doubles with every pass on an escapable byte: keep the long one short
			}
			if n < 10 {
				in = "hello wide world" // blanks only: a pass that does not change the LENGTH still changes the value
			}
			d := strings.Repeat(l, n)
			c := &RCase{Tpls: []TplDef{{Key: "main", Src: "{%" + d + "= v %}", KeepFmt: true}}, Meta: map[string]any{"directive": d, "input": in}}
			c.Ops = []SOp{{Kind: "static", Name: "v", Val: in}, {Kind: "render", Key: "main"}}
			cases = append(cases, c)
			r.Dist["long-run"]++
			guardCase("long-run "+d+" in="+in, c.Describe())
			// n single passes fed into one another
			k1, err, pan := regTpl("{%"+l+"= v %}", true)
			kn, err2, pan2 := regTpl("{%"+d+"= v %}", true)
			if err != nil || err2 != nil || pan != "" || pan2 != "" {
				r.Violate("long-run parse "+d, "a directive of repeated letters is rejected by Parse", c.Describe())
				continue
			}
			cur := []byte(in)
			okc := true
			for i := 0; i < n && okc; i++ {
				ctx := dyntpl.NewCtx()
				ctx.SetBytes("v", cur)
				res := renderSafe(k1, ctx)
				if res.Err != nil || res.Panic != "" {
					okc = false
				}
				cur = res.Out
			}
			ctx := dyntpl.NewCtx()
			ctx.SetBytes("v", []byte(in))
			res := renderSafe(kn, ctx)
			r.Count("long-run:"+d, true)
			if okc && (res.Err != nil || res.Panic != "" || !bytes.Equal(res.Out, cur)) {
				c.Meta["n_single_passes"] = string(cur)
				c.Meta["directive_output"] = string(res.Out)
				r.Violate("long-run "+d+" in="+in, fmt.Sprintf("a directive of %d letters %q does not print what %d single passes print", n, l, n), c.Describe())
			}
		}
	}
	for mi, m := range mods {
		for ni, n := range []int{10, 12} {
			in := ins[(mi+ni)%len(ins)]
			src := fmt.Sprintf("{%%= v|%s(%d) %%}", m, n)
			c := &RCase{Tpls: []TplDef{{Key: "main", Src: src, KeepFmt: true}}, Meta: map[string]any{"chain": src, "input": in}}
			c.Ops = []SOp{{Kind: "static", Name: "v", Val: in}, {Kind: "render", Key: "main"}}
			cases = append(cases, c)
			r.Dist["long-run"]++
		}
	}
	// print-tag pipelines in which a modifier written WITHOUT an argument list follows something that left a numeric
	// first argument behind (another modifier of the chain, an earlier tag, a letter run), in the long and the short name
	alias := map[string]string{"jsonEscape": "je", "jsonQuote": "jq", "htmlEscape": "he", "attrEscape": "ae", "cssEscape": "ce", "jsEscape": "jse", "urlEncode": "ue", "linkEscape": "le"}
	for _, m0 := range mods {
		for _, m := range []string{m0, alias[m0]} {
			if m == "" {
				continue
			}
			for _, src := range []string{`{%= v|default(0)|` + m + ` %}`, `{%= w|default(0) %}|{%= v|` + m + ` %}`, `{%` + letters[0] + letters[0] + `= w %}|{%= v|` + m + ` %}|{%= v|` + m + `|` + m + ` %}`,
				`{% if lenGt0(w) %}{%= v|` + m + ` %}{% endif %}`, `{%= v|default(2)|` + m + `() %}`} {
				c := &RCase{Tpls: []TplDef{{Key: "main", Src: src, KeepFmt: true}}, Meta: map[string]any{"print-pipeline": src}}
				c.Ops = []SOp{{Kind: "static", Name: "v", Val: `a b&c<d>"e'/f?g=%-`}, {Kind: "static", Name: "w", Val: "x y"}, {Kind: "render", Key: "main"}, {Kind: "render", Key: "main"}}
				cases = append(cases, c)
				r.Dist["print-pipeline"]++
			}
		}
	}
	// a letter directive with prefix and suffix inside each of the three regions (the value comes out of the modifier's
	// buffer, the prefix goes through the region's escaper before it)
	for _, l := range letters {
		for _, reg := range []string{"jsonquote", "htmlescape", "urlencode"} {
			src := "{% " + reg + " %}{%" + l + "= v pfx <b> sfx </b> %}|{%" + l + l + "= v prefix \"p\" %}{% end" + reg + " %}"
			c := &RCase{Tpls: []TplDef{{Key: "main", Src: src, KeepFmt: true}}, Meta: map[string]any{"letter-in-region": src}}
			c.Ops = []SOp{{Kind: "static", Name: "v", Val: `a b&c<d>"e'/f`}, {Kind: "render", Key: "main"}, {Kind: "render", Key: "main"}}
			cases = append(cases, c)
			r.Dist["letter-in-region"]++
		}
	}
	// a ctx variable made by the property's modifiers keeps its value while OTHER tags use the same modifiers / letters
	for _, m := range mods {
		for _, l := range letters {
			src := `{% ctx e = v|` + m + ` %}{%` + l + `= w %}|{%= w|` + m + ` %}|[{%= e %}]{%` + l + l + `= w %}[{%= e %}]`
			c := &RCase{Tpls: []TplDef{{Key: "main", Src: src, KeepFmt: true}}, Meta: map[string]any{"ctx-var-then-other-tags": src}}
			c.Ops = []SOp{{Kind: "static", Name: "v", Val: `a b&c<d>"e'/f?g=%`}, {Kind: "static", Name: "w", Val: `x "y" <z>`}, {Kind: "render", Key: "main"}, {Kind: "render", Key: "main"}}
			cases = append(cases, c)
			r.Dist["ctx-var-then-other-tags"]++
		}
	}
	// an end tag of a bound type that is NOT open (a stray or doubled end tag) closes nothing; an include inside the
	// region whose template prints raw-marked values, opens and leaves open / closes bound tags of its own
	if regionKind != "" {
		open_, close_ := "{% "+regionKind+" %}", "{% end"+regionKind+" %}"
		var strays []string
		for _, k := range []string{"jsonquote", "htmlescape", "urlencode"} {
			if k != regionKind {
				strays = append(strays, "{% end"+k+" %}")
			}
		}
		for _, stray := range append(strays, strays[0]+strays[1], close_+close_) {
			src := open_ + `<a "1">` + stray + `<b '2'>{%= v %}` + close_ + `|` + open_ + `{% jsonquote %}x` + stray + `"{%= v %}"{% endjsonquote %}` + close_ + `{%= v %}`
			if stray == close_+close_ {
				src = open_ + `<a>` + close_ + close_ + `<b>{%= v %}|` + open_ + `"{%= v %}"` + close_
			}
			c := &RCase{Tpls: []TplDef{{Key: "main", Src: src, KeepFmt: true}}, Meta: map[string]any{"stray-end-tag": stray}}
			c.Ops = []SOp{{Kind: "static", Name: "v", Val: `a b&c<d>"e'/f`}, {Kind: "render", Key: "main"}, {Kind: "render", Key: "main"}}
			cases = append(cases, c)
			r.Dist["stray-end-tag"]++
		}
		for _, sub := range []string{`s"{%= v|raw %}"<{%= v %}>t`, `s{%= v|raw pfx <p> sfx </p> %}t`, `s{% htmlescape %}<{%= v|raw %}>`, `s` + close_ + `<{%= v %}>`, `s{% jsonquote %}"q"{% endjsonquote %}{%= v|raw %}`} {
			src := open_ + `[{% include escsub %}]<{%= v %}>` + close_ + `|{%= v %}`
			c := &RCase{Tpls: []TplDef{{Key: "escsub", Src: sub, KeepFmt: true}, {Key: "main", Src: src, KeepFmt: true}}, Meta: map[string]any{"include-in-region": sub}}
			c.Ops = []SOp{{Kind: "static", Name: "v", Val: `a b&c<d>"e'/f`}, {Kind: "render", Key: "main"}, {Kind: "render", Key: "main"}}
			cases = append(cases, c)
			r.Dist["include-in-region"]++
		}
	}
	// escape letters in front of the call form of a modifier (no variable): the letters apply to the modifier's result
	// exactly as to a variable holding it (a relation on the real engine alone)
	callFormLetters(r, letters)
	// a letter that FOLLOWS a bare f / F directive (no precision, or a precision without the dot) is applied: on a
	// value that is no number the f / F directive changes nothing, so the tag prints what the letter alone prints
	for _, l := range letters {
		k0, err0, pan0 := regTpl("{%"+l+"= v %}", true)
		if err0 != nil || pan0 != "" {
			continue
		}
		mkc := func() *dyntpl.Ctx { c := dyntpl.NewCtx(); c.SetString("v", `a b&c<d>"e'/f?g=%\`); return c }
		plain := renderSafe(k0, mkc())
		for _, d := range []string{"f" + l, "F" + l, "f2" + l, "F9" + l, "f" + l + l, l + "f", "ff" + l, "f.2" + l} {
			k, err, pan := regTpl("{%"+d+"= v %}", true)
			var got rendered
			if err == nil && pan == "" {
				got = renderSafe(k, mkc())
			}
			want := string(plain.Out)
			if d == "f"+l+l {
				k2, _, _ := regTpl("{%"+l+l+"= v %}", true)
				want = string(renderSafe(k2, mkc()).Out)
			}
			sig := "letter-after-f " + d
			r.Count(sig, true)
			r.Dist["letter-after-f"]++
			if err != nil || pan != "" || got.Err != nil || got.Panic != "" || string(got.Out) != want {
				r.Violate(sig, "an escape letter next to a bare f / F directive is not applied (the value is printed as if the letter were not there)",
					map[string]any{"source": "{%" + d + "= v %}", "output": string(got.Out), "expected": want, "letter_alone": "{%" + l + "= v %}", "error": got.ErrStr()})
			}
		}
	}
	// the same modifiers in the pipeline of a ctx tag (a separate copy of the print tag's pipeline), after modifiers and
	// tags that leave a numeric first argument behind
	for _, m := range mods {
		for _, src := range []string{`{% ctx e = v|default("0")|` + m + ` %}[{%= e %}]`, `{%` + letters[0] + letters[0] + `= w %}|{% ctx e = v|` + m + ` %}[{%= e %}]`,
			`{%= w|default(2) %}|{% ctx e = v|` + m + ` %}[{%= e %}]{% ctx e2 = nope|default("3")|` + m + `|` + m + ` %}[{%= e2 %}]`} {
			c := &RCase{Tpls: []TplDef{{Key: "main", Src: src, KeepFmt: true}}, Meta: map[string]any{"ctx-pipeline": src}}
			c.Ops = []SOp{{Kind: "static", Name: "v", Val: `a b&c<d>"e'/f?g=%`}, {Kind: "static", Name: "w", Val: "x y"}, {Kind: "render", Key: "main"}, {Kind: "render", Key: "main"}}
			cases = append(cases, c)
			r.Dist["ctx-pipeline"]++
		}
	}
	// values of several KiB inside the property's region (the escaper then works on a chunk that is large relative to
	// what the context's buffers hold), first thing on a new context; and small values in nested regions
	if regionKind != "" {
		open_, close_ := "{% "+regionKind+" %}", "{% end"+regionKind+" %}"
		for _, n := range []int{600, 4100, 9000, 70000} {
			unit := "q\"uo\\te <&> 'x' /?= "
			big := strings.Repeat(unit, n/len(unit)+1)[:n]
			for _, src := range []string{open_ + "{%= big %}" + close_, "a" + open_ + "[{%= big pfx <p> sfx </p> %}]" + open_ + "{%= big %}" + close_ + close_ + "z"} {
				c := &RCase{Tpls: []TplDef{{Key: "main", Src: src, KeepFmt: true}}, Meta: map[string]any{"big-value-in-region": n}}
				c.Ops = []SOp{{Kind: "static", Name: "big", Val: big}, {Kind: "render", Key: "main"}, {Kind: "render", Key: "main"}}
				cases = append(cases, c)
				r.Dist["big-value-in-region"]++
			}
		}
	}
	if regionKind != "" {
		open_, close_ := "{% "+regionKind+" %}", "{% end"+regionKind+" %}"
		// chunks made of control characters (and of DEL / non-ASCII bytes) only — none of the characters that have a short
		// escape — as static text and as values, inside the region
		for _, chunk := range []string{"\x01", "a\x1bb", "\x0b", "\x0e\x1f", "x\x7f", "\x02\x03\x04", "\u00e9\x05", "\x00"} {
			for _, val := range []string{"\x06", "plain", "\x1c-\x1d", ""} {
				src := open_ + chunk + "{%= v %}" + chunk + "{%= v pfx ( sfx ) %}" + close_ + "|" + open_ + open_ + chunk + close_ + chunk + close_
				c := &RCase{Tpls: []TplDef{{Key: "main", Src: src, KeepFmt: true}}, Meta: map[string]any{"control-chunk-in-region": fmt.Sprintf("%q", chunk), "value": fmt.Sprintf("%q", val)}}
				c.Ops = []SOp{{Kind: "static", Name: "v", Val: val}, {Kind: "render", Key: "main"}, {Kind: "render", Key: "main"}}
				cases = append(cases, c)
				r.Dist["control-chunk-in-region"]++
			}
		}
		// a render that FAILS inside the region (a missing include, a failing modifier in a ctx tag, a failing writer)
		// leaves nothing open: the next render on the same context — without Reset — escapes once, and what follows its
		// own region not at all
		for _, bad := range []string{open_ + `x y{% include escnosuch %}` + close_, open_ + `x{% for i := 0; i < 2; i++ %}{% include escnosuch %}{% endfor %}`, open_ + open_ + `{% ctx e = v|vfail() %}z`} {
			main := open_ + `<a "b"> {%= v %}` + close_ + `|<{%= v %}>`
			c := &RCase{Tpls: []TplDef{{Key: "bad", Src: bad, KeepFmt: true}, {Key: "main", Src: main, KeepFmt: true}}, Meta: map[string]any{"render-after-failed-render-in-region": bad}}
			c.Ops = []SOp{{Kind: "static", Name: "v", Val: `a b&c<d>"e'/f`}, {Kind: "render", Key: "bad"}, {Kind: "render", Key: "main"}, {Kind: "render", Key: "main", FailAt: 2}, {Kind: "render", Key: "main"},
				{Kind: "render", Key: "bad"}, {Kind: "render", Key: "bad"}, {Kind: "render", Key: "main"}}
			cases = append(cases, c)
			r.Dist["render-after-failed-render-in-region"]++
		}
	}
	typed := []SOp{{Kind: "static", Name: "v", Val: math.Inf(1)}, {Kind: "static", Name: "v", Val: math.Inf(-1)}, {Kind: "static", Name: "v", Val: math.NaN()}, {Kind: "static", Name: "v", Val: 1e21},
		{Kind: "static", Name: "v", Val: int64(-15)}, {Kind: "static", Name: "v", Val: int8(-3)}, {Kind: "static", Name: "v", Val: int64(math.MinInt64)},
		{Kind: "static", Name: "v", Val: uint64(7)}, {Kind: "static", Name: "v", Val: -0.5}, {Kind: "static", Name: "v", Val: 1e-7}, {Kind: "static", Name: "v", Val: true},
		{Kind: "counter", Name: "v", Val: -4}, {Kind: "bytes", Name: "v", Val: []byte("-1 <")}, {Kind: "static", Name: "v", Val: []byte("-2 \"")}}
	u := UserSpec{Id: "-7", Name: "n-m", Status: -42, Ustate: 3, Cost: -1.25}
	var forms []string
	for _, l := range letters {
		forms = append(forms, "{%"+l+"= @ %}", "{%"+l+l+"= @ %}")
	}
	for _, m := range mods {
		forms = append(forms, "{%= @|"+m+" %}")
	}
	for _, f := range forms {
		for _, v := range typed {
			src := strings.ReplaceAll(f, "@", "v")
			c := &RCase{Tpls: []TplDef{{Key: "main", Src: src, KeepFmt: true}}, Meta: map[string]any{"typed-value": v.Desc()}}
			c.Ops = []SOp{v, {Kind: "render", Key: "main"}}
			cases = append(cases, c)
			r.Dist["typed-value"]++
		}
		for _, p := range []string{"user.Status", "user.Cost", "user.Id", "user.Name"} {
			src := strings.ReplaceAll(f, "@", p)
			c := &RCase{Tpls: []TplDef{{Key: "main", Src: src, KeepFmt: true}}, Meta: map[string]any{"typed-value": p}}
			c.Ops = []SOp{{Kind: "obj", Name: "user", Val: u}, {Kind: "render", Key: "main"}}
			cases = append(cases, c)
			r.Dist["typed-value"]++
		}
	}
	runSessions(r, cases, outputDiffers)
}

// callFormLetters: {%<letters>= mod(args) %} must print what {%<letters>= res %} prints for a variable res holding the
// output of {%= mod(args) %}.
func callFormLetters(r *Run, letters []string) {
	var runs []string
	for _, l := range letters {
		runs = append(runs, l, l+l)
	}
	if len(letters) >= 2 {
		runs = append(runs, letters[0]+letters[1], letters[1]+letters[0])
	}
	for _, call := range []string{`vcat(v)`, `vcat("a b<c>&'d'")`, `vcat(v, {k: w})`, `default(v)`, `default("</script>'")`, `math::abs(n)`} {
		kc, err, pan := regTpl("{%= "+call+" %}", true)
		if err != nil || pan != "" {
			r.Violate("call-form parse "+call, "the call form of a modifier is rejected by Parse", map[string]any{"source": "{%= " + call + " %}", "error": fmt.Sprint(err), "panic": pan})
			continue
		}
		mk := func() *dyntpl.Ctx {
			c := dyntpl.NewCtx()
			c.SetString("v", `x<y>&"z" /?'`)
			c.SetStatic("w", int64(-7))
			c.SetStatic("n", -5.5)
			return c
		}
		plain := renderSafe(kc, mk())
		for _, run := range runs {
			kl, err1, pan1 := regTpl("{%"+run+"= "+call+" %}", true)
			kv, err2, pan2 := regTpl("{%"+run+"= res %}", true)
			if err1 != nil || err2 != nil || pan1 != "" || pan2 != "" {
				r.Violate("call-form parse "+run+" "+call, "escape letters with the call form of a modifier are rejected by Parse", map[string]any{"source": "{%" + run + "= " + call + " %}"})
				continue
			}
			got := renderSafe(kl, mk())
			cv := mk()
			cv.SetBytes("res", plain.Out)
			want := renderSafe(kv, cv)
			r.Count("call-form:"+run+":"+call, true)
			r.Dist["call-form-letters"]++
			if got.Panic != "" || got.ErrStr() != want.ErrStr() || !bytes.Equal(got.Out, want.Out) {
				r.Violate("call-form "+run+" "+call, "escape letters in front of the call form of a modifier do not escape the modifier's result",
					map[string]any{"source": "{%" + run + "= " + call + " %}", "output": string(got.Out), "modifier_result": string(plain.Out), "letters_on_that_result": string(want.Out), "error": got.ErrStr()})
			}
		}
	}
}

// escViaCtxVar: an escaped value kept in a template variable ({% ctx e = v|mod %}, also with an explicit count
// {% ctx e = v|mod(n) %}) is the value the print tag {%= v|mod(n) %} prints, and stays that value while it is printed
// later — after other prints, inside counter and range loops, next to other variables made the same way (a
// relation on the real engine alone: the variable must own its bytes).
func escViaCtxVar(r *Run, mods []string) {
	vals := []string{`a'b"c</script>&`, "x y;{}\n\té", `<b>"q" & 'r'`, "\x01\x1f\\/"}
	for _, mod := range mods {
		for cnt := 0; cnt <= 3; cnt++ {
			call := mod
			if cnt > 0 {
				call = fmt.Sprintf("%s(%d)", mod, cnt)
			}
			for vi, v := range vals {
				w := vals[(vi+1)%len(vals)]
				direct, err, pan := regTpl(`{%= v|`+call+` %}`, true)
				directW, err2, pan2 := regTpl(`{%= w|`+call+` %}`, true)
				if err != nil || pan != "" || err2 != nil || pan2 != "" {
					r.Internal("escape via ctx variable: the print form does not parse: " + call)
					return
				}
				mk := func() *dyntpl.Ctx {
					c := dyntpl.NewCtx()
					c.SetString("v", v)
					c.SetString("w", w)
					c.Set("lst", []string{"p", "q"}, inspector.StringsInspector{})
					return c
				}
				ev, ew := renderSafe(direct, mk()), renderSafe(directW, mk())
				if ev.Err != nil || ew.Err != nil || ev.Panic != "" || ew.Panic != "" {
					r.Internal("escape via ctx variable: the print form fails: " + call)
					return
				}
				E, W := string(ev.Out), string(ew.Out)
				type shape struct{ src, want string }
				shapes := []shape{
					{`{% ctx e = v|` + call + ` %}[{%= e %}]`, "[" + E + "]"},
					{`{% ctx e = v|` + call + ` %}{%= w %}[{%= e %}]{%= w|` + call + ` %}[{%= e %}]`, w + "[" + E + "]" + W + "[" + E + "]"},
					{`{% ctx e = v|` + call + ` %}{% for i := 0; i < 2; i++ %}{%= w %}[{%= e %}]{% endfor %}`, w + "[" + E + "]" + w + "[" + E + "]"},
					{`{% ctx e = v|` + call + ` %}{% for i := 0; i < 2; i++ %}{%= i %}{%= w|` + call + ` %}[{%= e %}]{% endfor %}`, "0" + W + "[" + E + "]1" + W + "[" + E + "]"},
					{`{% ctx e = v|` + call + ` %}{% for _, x := range lst %}{%= x %}[{%= e %}]{% endfor %}`, "p[" + E + "]q[" + E + "]"},
					{`{% ctx e = v|` + call + ` %}{% ctx f = w|` + call + ` %}[{%= e %}][{%= f %}][{%= e %}]`, "[" + E + "][" + W + "][" + E + "]"},
					{`{% for i := 0; i < 2; i++ %}{% ctx e = v|` + call + ` %}{%= w %}[{%= e %}]{% endfor %}[{%= e %}]`, w + "[" + E + "]" + w + "[" + E + "][" + E + "]"},
				}
				for si, sh := range shapes {
					key, err, pan := regTpl(sh.src, true)
					var got rendered
					if err == nil && pan == "" {
						got = renderSafe(key, mk())
					}
					sig := fmt.Sprintf("escape-via-ctx-var mod=%s shape=%d in=%s", call, si, hx([]byte(v)))
					r.Count(sig, E != v)
					r.Dist["escape-via-ctx-var"]++
					if err != nil || pan != "" || got.Err != nil || got.Panic != "" || string(got.Out) != sh.want {
						r.Violate(sig, "an escaped value kept in a template variable is not printed as the print tag with the same modifier prints it",
							map[string]any{"template": sh.src, "v": v, "w": w, "output": string(got.Out), "expected": sh.want, "print_form": `{%= v|` + call + ` %}`, "print_form_output": E, "error": got.ErrStr(), "parse_error": fmt.Sprint(err), "panic": got.Panic + pan})
					}
				}
			}
		}
	}
}

// helperNamespaces: a user's condition helper registered under a namespace keeps its own meaning whatever its base
// name is — `vns::len`, `vns::cap`, `vns::lenEq0` are the user's functions, not the built-in pseudo-helpers of those
// names (a relation on the real engine alone: each form with `vns::<name>` renders what the same form renders with
// the un-namespaced twin `vyes`, which is the same function).
func helperNamespaces(r *Run) {
	for _, name := range []string{"len", "cap", "lenEq0", "veq", "default"} {
		for _, form := range []string{`{% if H(x) %}Y{% else %}N{% endif %}`, `{%= H(x) ? ya : na %}`, `{% switch %}{% case H(x) %}C{% default %}D{% endswitch %}`, `{% for i := 0; i < 3; i++ %}{% break if H(x) %}{%= i %}{% endfor %}`,
			`{% if H(y) %}Y{% else %}N{% endif %}{% if H(x) %}Y{% endif %}`} {
			var outs [2]rendered
			bad := ""
			for k, h := range []string{"vns::" + name, "vyes"} {
				key, err, pan := regTpl(strings.ReplaceAll(form, "H", h), true)
				if err != nil || pan != "" {
					bad = fmt.Sprintf("Parse rejects %s: %v %s", h, err, pan)
					break
				}
				ctx := dyntpl.NewCtx()
				ctx.SetString("x", "yes")
				ctx.SetString("y", "no")
				ctx.SetStatic("ya", "a")
				ctx.SetStatic("na", "b")
				outs[k] = renderSafe(key, ctx)
			}
			sig := "helper-namespace vns::" + name + " form=" + form
			r.Count(sig, true)
			r.Dist["helper-namespace"]++
			if bad != "" || outs[0].ErrStr() != outs[1].ErrStr() || !bytes.Equal(outs[0].Out, outs[1].Out) {
				r.Violate(sig, "a condition helper registered under a namespace (RegisterCondFnNS) does not render what the same function renders under a plain name",
					map[string]any{"form": form, "helper": "vns::" + name + " = vyes = func(args) bool { text(args[0]) == \"yes\" }", "output": string(outs[0].Out), "plain_name_output": string(outs[1].Out), "error": outs[0].ErrStr(), "problem": bad})
			}
		}
	}
}

// modifierSpellings: relations on the real engine alone, for the escape modifiers of one property (mods) and the region
// they belong to (open / close; "" when there is none):
//   - blanks around the NAME of a modifier belong to the spelling of the chain: `x| M`, `x|M (2)`, `x|M |default(..)`
//     render what `x|M`, `x|M(2)`, `x|M|default(..)` render (a modifier with a blank next to its name used to be dropped
//     silently: the value was printed unescaped);
//   - an escape modifier that is asked for makes one pass at least: a count of 0 or less — a literal, or text from the
//     data — renders what the count 1 renders;
//   - a value marked raw stays marked whatever modifiers follow the mark: inside the region `x|raw|default(d)` renders
//     what `x|default(d)|raw` renders.
func modifierSpellings(r *Run, mods []string, open, close string) {
	val := "<a href=\"x y\">&'\\/\n\t é</a>"
	render := func(src string) (rendered, string) {
		key, err, pan := regTpl(src, true)
		if err != nil || pan != "" {
			return rendered{}, fmt.Sprintf("Parse rejects %s: %v %s", src, err, pan)
		}
		ctx := dyntpl.NewCtx()
		ctx.SetString("x", val)
		ctx.SetString("e", "")
		ctx.SetBytes("zero", []byte("0"))
		ctx.SetString("neg", "-2")
		ctx.SetStatic("szero", "0")
		return renderSafe(key, ctx), ""
	}
	same := func(kind, a, b string) {
		ra, ba := render(a)
		rb, bb := render(b)
		sig := "modifier-spelling " + kind + " " + b
		r.Count(sig, true)
		r.Dist["modifier-spelling:"+kind]++
		if ba != "" || bb != "" || ra.ErrStr() != rb.ErrStr() || !bytes.Equal(ra.Out, rb.Out) {
			r.Violate(sig, "two spellings of the same modifier chain render differently ("+kind+")",
				map[string]any{"reference": a, "spelling": b, "reference_output": string(ra.Out), "spelling_output": string(rb.Out), "reference_error": ra.ErrStr(), "spelling_error": rb.ErrStr(), "problem": ba + bb, "value": val})
		}
	}
	for _, m := range mods {
		same("blank", `[{%= x|`+m+` %}]`, `[{%= x| `+m+` %}]`)
		same("blank", `[{%= x|`+m+`(2) %}]`, `[{%= x|`+m+` (2) %}]`)
		same("blank", `[{%= x|`+m+`|default("-") %}]`, `[{%= x|`+m+` |default("-") %}]`)
		same("blank", `[{%= e|default(x)|`+m+` %}]`, `[{%= e|default(x)|  `+m+`  %}]`)
		same("blank", `{% ctx y = x|`+m+` %}[{%= y %}]`, `{% ctx y = x| `+m+` %}[{%= y %}]`)
		same("blank", `[{%= x|`+m+` pfx ( sfx ) %}]`, `[{%= x| `+m+` pfx ( sfx ) %}]`)
		for _, cnt := range []string{"0", "-1", "00", "zero", "neg", "szero"} {
			same("count", `[{%= x|`+m+`(1) %}]`, `[{%= x|`+m+`(`+cnt+`) %}]`)
		}
	}
	if open != "" {
		same("raw", open+`{%= x|default("-")|raw %}|{%= e|default(x)|raw %}`+close, open+`{%= x|raw|default("-") %}|{%= e|raw|default(x) %}`+close)
		same("raw", open+`{%= x|default("-")|noesc %}`+close, open+`{%= x|noesc|default("-") %}`+close)
		same("raw", open+`{%= x|raw %}`+close, open+`{%= x| raw %}`+close)
	}
}
