// Command racecheck is the race-detector side of property C06: the same kind of stress as /verif/harness/c06.go
// (renderers with pooled contexts over templates with includes, loops, conditions and escaping regions; writers that
// Parse and Register* new versions of the same names), small enough to be built with -race on every check:
//
//	go run -race . -seconds 3
//
// Data races are reported by the Go race detector on stderr ("WARNING: DATA RACE"); /verif/harness/c06.go turns
// every report whose stacks mention /repo into a violation of C06. A coarse self-check of the outputs (head tag =
// tail tag, known template) prints "BAD ..." lines on stdout.
package main

import (
	"bytes"
	"flag"
	"fmt"
	"math/rand"
	"regexp"
	"runtime"
	"strconv"
	"sync"
	"sync/atomic"
	"time"

	"github.com/koykov/dyntpl"
	"github.com/koykov/inspector/testobj"
	"github.com/koykov/inspector/testobj_ins"
)

var names = []string{"k0", "k1", "k2", "i0", "i1"}

func src(name string, v int) string {
	tag := name + "#" + strconv.Itoa(v)
	if name[0] == 'i' {
		if v%2 == 0 {
			// (condition helpers, modifiers by long and short name: the
			// registries' getters are shared by all renderers)
			return "(" + tag + " {%= user.Id %}{% if user.Status == 7 %}+{% else %}-{% endif %}{% if lenGt0(user.Id) %}g{% endif %}{% if lenEq0(user.Id) %}e{% endif %}" +
				"{% switch %}{% case lenGtq0(user.Name) %}q{% default %}d{% endswitch %}{%= user.Id|default(\"x\")|he %}{%= nope|def(\"y\")|htmlEscape %})"
		}
		return "(" + tag + " {% for i := 0; i < 2; i++ separator . %}{%= i %}{% endfor %}{% htmlescape %}{%= user.Name %}{% endhtmlescape %})"
	}
	switch v % 2 {
	case 0:
		return "[" + tag + " {%= user.Name %}|{% for i := 0; i < 3; i++ separator , %}{%= i %}{% endfor %}|{% include i0 %}" +
			"|{% if user.Status == 7 %}Y{% else %}N{% endif %}|{% jsonquote %}{%= user.Name %}{% endjsonquote %}|{% include i1 %}" +
			"|{% for _, h := range user.Finance.History separator ; %}{%= h.Comment %}{% endfor %}|{% include i0 %} " + tag + "]"
	default:
		return "[" + tag + " {% include i1 %}{% urlencode %}{%= user.Name %}{% endurlencode %}{% include i0 %}{%= tag %} " + tag + "]"
	}
}

func obj(ci int) *testobj.TestObject {
	o := &testobj.TestObject{Id: "u" + strconv.Itoa(ci), Name: []byte([]string{"Ann\x01", "a\"b<c&d\x17", "x/y?z\x1e\x0b"}[ci%3]), Status: []int32{7, 3}[ci%2]}
	f := &testobj.TestFinance{}
	for j := 0; j < ci; j++ {
		f.History = append(f.History, testobj.TestHistory{Comment: []byte("c" + strconv.Itoa(j))})
	}
	o.Finance = f
	return o
}

var shape = regexp.MustCompile(`^\[(k\d#\d+) .* (k\d#\d+)\]$`)

func main() {
	secs := flag.Int("seconds", 3, "duration")
	seed := flag.Int64("seed", 1, "seed")
	// -dynstr: pass freshly built (heap) strings to Ctx.SetString instead of constants. SetString converts its argument
	// with byteconv.S2B, which goes through a reflect.SliceHeader VALUE (a uintptr, invisible to the GC): if the
	// argument was the last reference, the collector may free the bytes while SetBytes still copies them. Seen once in
	// ~80 s of this stress as "read: Ctx.SetBytes < Ctx.SetString | write: <whoever got the memory next>". Off by
	// default so that the check is deterministic; /verif/harness/c06.go turns it on when the finding is listed as
	// open in known_findings.txt.
	dynstr := flag.Bool("dynstr", false, "build the strings given to Ctx.SetString at run time")
	flag.Parse()
	tags := []string{"T0", "T1", "T2", "T3"}
	var vers [5]int64
	reg := func(ni int, way int) {
		v := int(atomic.AddInt64(&vers[ni], 1))
		// the loader's buffer is reused (overwritten) after Parse has returned: a tree must own its bytes
		lb := []byte(src(names[ni], v))
		tree, err := dyntpl.Parse(lb, v%4 < 2)
		for i := range lb {
			lb[i] = '#'
		}
		if err != nil {
			fmt.Printf("BAD parse %s#%d: %v\n", names[ni], v, err)
			return
		}
		switch {
		case ni < 3 && way%3 == 0:
			dyntpl.RegisterTpl(ni, names[ni], tree)
		case ni < 3 && way%3 == 1:
			dyntpl.RegisterTplID(ni, tree)
		default:
			dyntpl.RegisterTplKey(names[ni], tree)
		}
	}
	for ni := range names {
		reg(ni, 0)
	}
	var stop int32
	var renders, bad int64
	var wg sync.WaitGroup
	for _, gmp := range []int{2, 8} {
		runtime.GOMAXPROCS(gmp)
		atomic.StoreInt32(&stop, 0)
		for w := 0; w < 3; w++ {
			wg.Add(1)
			go func(w int) {
				defer wg.Done()
				rng := rand.New(rand.NewSource(*seed*31 + int64(w)))
				for atomic.LoadInt32(&stop) == 0 {
					reg(rng.Intn(len(names)), rng.Intn(3))
					time.Sleep(time.Duration(50+rng.Intn(300)) * time.Microsecond)
				}
			}(w)
		}
		for g := 0; g < 6; g++ {
			wg.Add(1)
			go func(g int) {
				defer wg.Done()
				rng := rand.New(rand.NewSource(*seed*77 + int64(g)))
				objs := []*testobj.TestObject{obj(0), obj(1), obj(2), obj(3)}
				var buf bytes.Buffer
				var heldLive, heldCopy []byte
				for atomic.LoadInt32(&stop) == 0 {
					ki, ci := rng.Intn(3), rng.Intn(len(objs))
					ctx := dyntpl.AcquireCtx()
					ctx.Set("user", objs[ci], testobj_ins.TestObjectInspector{})
					if *dynstr {
						ctx.SetString("tag", "T"+strconv.Itoa(ci))
					} else {
						ctx.SetString("tag", tags[ci])
					}
					buf.Reset()
					var err error
					var live []byte
					switch rng.Intn(6) {
					case 0:
						err = dyntpl.Write(&buf, names[ki], ctx)
					case 1:
						err = dyntpl.WriteByID(&buf, ki, ctx)
					case 2:
						err = dyntpl.WriteFallback(&buf, "missing", names[ki], ctx)
					case 3:
						live, err = dyntpl.Render(names[ki], ctx)
					case 4:
						live, err = dyntpl.RenderByID(ki, ctx)
					default:
						live, err = dyntpl.RenderFallback("missing", names[ki], ctx)
					}
					// a slice returned by an earlier Render* call is the caller's: it is read again after later renders
					if heldLive != nil && !bytes.Equal(heldLive, heldCopy) {
						if atomic.AddInt64(&bad, 1) <= 5 {
							fmt.Printf("BAD result of Render* changed after a later render: %q -> %q\n", heldCopy, heldLive)
						}
					}
					if live != nil {
						buf.Write(live)
						heldLive, heldCopy = live, append(heldCopy[:0], live...)
					}
					atomic.AddInt64(&renders, 1)
					m := shape.FindSubmatch(buf.Bytes())
					if err != nil || m == nil || !bytes.Equal(m[1], m[2]) || string(m[1][:2]) != names[ki] {
						if atomic.AddInt64(&bad, 1) <= 5 {
							fmt.Printf("BAD render %s err=%v out=%q\n", names[ki], err, buf.String())
						}
					}
					dyntpl.ReleaseCtx(ctx)
					if rng.Intn(8) == 0 {
						runtime.Gosched()
					}
				}
			}(g)
		}
		time.Sleep(time.Duration(*secs) * time.Second / 2)
		atomic.StoreInt32(&stop, 1)
		wg.Wait()
	}
	nv := int64(0)
	for i := range vers {
		nv += atomic.LoadInt64(&vers[i])
	}
	fmt.Printf("racecheck: renders=%d versions=%d bad=%d\n", renders, nv, bad)
}
