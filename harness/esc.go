package main

import (
	"fmt"
	"strings"
	"sync"

	"github.com/koykov/dyntpl"
)

// escForm is one way of invoking an escaper from template text.
type escForm struct {
	Name string // e.g. "uu"
	Tpl  string // template source using variable v
	Cmd  string // driver command
	Itr  int
	key  string
}

// escCase is one (form, input) evaluation.
type escCase struct {
	Form    *escForm
	In      []byte
	Carrier string
	Go      rendered
}

// escJudge decides, from the driver's answer fields after the model output, whether the
// property holds on the Go output; returns "" if it does, else what fails.
type escJudge func(c *escCase, fields []string) string

// runEsc renders every input through every form, asks the Lean driver for the model output and the
// property predicates on the Go output, and records violations / tie breaks.
func runEsc(r *Run, forms []*escForm, inputs func(emit func(in []byte, class string)), judge escJudge, second func(c *escCase) string) {
	for _, f := range forms {
		k, err, pan := regTpl(f.Tpl, true)
		if err != nil || pan != "" {
			r.Internal(fmt.Sprintf("form %s does not parse: %v %s", f.Name, err, pan))
			return
		}
		f.key = k
	}
	var cases []*escCase
	var lines []string
	ctx := dyntpl.NewCtx()
	n := 0
	inputs(func(in []byte, class string) {
		for _, f := range forms {
			ctx.Reset()
			car := setVal(ctx, "v", in, n)
			n++
			c := &escCase{Form: f, In: append([]byte(nil), in...), Carrier: car}
			c.Go = renderSafe(f.key, ctx)
			cases = append(cases, c)
			lines = append(lines, fmt.Sprintf("%s %d %s %s", f.Cmd, f.Itr, hx(in), hx(c.Go.Out)))
			r.Dist["form:"+f.Name]++
			r.Dist["class:"+class]++
		}
	})
	ans := r.Drive(lines)
	for i, c := range cases {
		fs := strings.Fields(ans[i])
		desc := map[string]any{"form": c.Form.Name, "template": c.Form.Tpl, "input_hex": hx(c.In), "input": string(c.In),
			"carrier": c.Carrier, "go_out": string(c.Go.Out), "go_out_hex": hx(c.Go.Out), "go_result": c.Go.ErrStr(), "request": lines[i]}
		if len(fs) < 1 || fs[0] == "bad-op" {
			r.Internal("driver could not answer: " + lines[i] + " -> " + ans[i])
			continue
		}
		model := fs[0]
		desc["model_out_hex"] = model
		r.Count(c.Form.Name+"/"+hx(c.In), model != hx(c.In))
		if i%9973 == 0 {
			r.Sample(desc)
		}
		sig := fmt.Sprintf("form=%s in=%s", c.Form.Name, hx(c.In))
		if c.Go.Panic != "" {
			desc["panic"] = c.Go.Panic
			r.Violate(sig+" panic", "render panicked", desc)
			continue
		}
		if c.Go.Err != nil {
			r.Violate(sig+" err", "render returned error "+c.Go.Err.Error(), desc)
			continue
		}
		bad := judge(c, fs[1:])
		if bad == "" && second != nil {
			bad = second(c)
		}
		if bad != "" {
			r.Violate(sig+" "+bad, bad, desc)
			continue
		}
		if c.Form.Cmd == "jsonq" && len(c.In) == 0 {
			// quoting an empty value: "" for an empty string, nothing for a missing variable
			// (SetBytes/SetString of length 0 read back as missing); covered by the interpreter checks.
			continue
		}
		if model != hx(c.Go.Out) {
			r.TieBreak(c.Form.Cmd+" model ≙ implementation", desc, hx(c.Go.Out), model)
		}
	}
}

// stdInputs: all single bytes, byte pairs (all or a slice), random byte strings.
func byteInputs(r *Run, allPairs bool, nRandom int, alphabet []byte) func(emit func([]byte, string)) {
	return func(emit func([]byte, string)) {
		emit(nil, "empty")
		for a := 0; a < 256; a++ {
			emit([]byte{byte(a)}, "single")
		}
		if allPairs {
			for a := 0; a < 256; a++ {
				for b := 0; b < 256; b++ {
					emit([]byte{byte(a), byte(b)}, "pair")
				}
			}
		} else {
			for i := 0; i < 4096; i++ {
				emit([]byte{byte(r.Rng.Intn(256)), byte(r.Rng.Intn(256))}, "pair-sample")
			}
		}
		for i := 0; i < nRandom; i++ {
			l := 1 + r.Rng.Intn(24)
			b := make([]byte, l)
			for j := range b {
				if len(alphabet) > 0 && r.Rng.Intn(3) > 0 {
					b[j] = alphabet[r.Rng.Intn(len(alphabet))]
				} else {
					b[j] = byte(r.Rng.Intn(256))
				}
			}
			emit(b, "random")
		}
	}
}

// escConcurrent: the escapers running in several goroutines at once, each goroutine with a context of its own and
// inputs of its own (the library's contract for concurrent use). Every render must give what the same render gives
// running alone — in particular it still decodes to ITS input (a relation on the real engine alone; scratch state
// shared between goroutines shows as a mix of two goroutines' inputs).
func escConcurrent(r *Run, forms []*escForm, rounds int) {
	const workers = 8
	for _, f := range forms {
		if f.key == "" {
			k, err, pan := regTpl(f.Tpl, true)
			if err != nil || pan != "" {
				r.Internal(fmt.Sprintf("form %s does not parse: %v %s", f.Name, err, pan))
				return
			}
			f.key = k
		}
	}
	// inputs: every goroutine its own control characters, punctuation and non-ASCII letters
	inputs := make([][]string, workers)
	for g := 0; g < workers; g++ {
		for k := 0; k < 6; k++ {
			var sb strings.Builder
			for j := 0; j < 4+k; j++ {
				switch (g + j + k) % 4 {
				case 0:
					sb.WriteRune(rune(1 + (g*4+j*7+k*3)%31))
				case 1:
					sb.WriteByte("<>\"'&/\\ ;=+%#"[(g*3+j+k)%13])
				case 2:
					sb.WriteRune(rune(0x80 + (g*37+j*11+k*5)%0x700))
				default:
					sb.WriteByte(byte('a' + (g+j)%26))
				}
			}
			inputs[g] = append(inputs[g], sb.String())
		}
	}
	for _, f := range forms {
		want := make([][]string, workers)
		for g := 0; g < workers; g++ {
			for _, in := range inputs[g] {
				ctx := dyntpl.NewCtx()
				ctx.SetString("v", in)
				res := renderSafe(f.key, ctx)
				want[g] = append(want[g], string(res.Out)+"\x00"+res.ErrStr())
			}
		}
		type bad struct {
			g         int
			in, got   string
			want      string
			iteration int
		}
		var mu sync.Mutex
		var bads []bad
		var wg sync.WaitGroup
		start := make(chan struct{})
		for g := 0; g < workers; g++ {
			wg.Add(1)
			go func(g int) {
				defer wg.Done()
				ctx := dyntpl.NewCtx()
				<-start
				for it := 0; it < rounds; it++ {
					i := it % len(inputs[g])
					ctx.Reset()
					ctx.SetString("v", inputs[g][i])
					res := renderSafe(f.key, ctx)
					if got := string(res.Out) + "\x00" + res.ErrStr(); got != want[g][i] {
						mu.Lock()
						if len(bads) < 3 {
							bads = append(bads, bad{g, inputs[g][i], got, want[g][i], it})
						}
						mu.Unlock()
						return
					}
				}
			}(g)
		}
		close(start)
		wg.Wait()
		r.Count("concurrent:"+f.Name, true)
		r.Dist["concurrent-renders"] += workers * rounds
		for _, b := range bads {
			r.Violate(fmt.Sprintf("concurrent form=%s in=%s", f.Name, hx([]byte(b.in))), "an escape rendered while other goroutines escape other values (each with its own context) gives another result than the same render running alone",
				map[string]any{"form": f.Name, "template": f.Tpl, "input": b.in, "input_hex": hx([]byte(b.in)), "output": b.got, "output_alone": b.want, "goroutines": workers, "iteration": b.iteration})
		}
	}
}
