package main

import (
	"fmt"
	"strings"

	"github.com/koykov/dyntpl"
)

// escForm is one way of invoking an escaper from template text.
type escForm struct {
	Name string // e.g. "uu"
	Tpl  string // template source using variable v
	Cmd  string // driver command
	Itr  int
	key  string
}

// escCase is one (form, input) evaluation.
type escCase struct {
	Form    *escForm
	In      []byte
	Carrier string
	Go      rendered
}

// escJudge decides, from the driver's answer fields after the model output, whether the
// property holds on the Go output; returns "" if it does, else what fails.
type escJudge func(c *escCase, fields []string) string

// runEsc renders every input through every form, asks the Lean driver for the model output and the
// property predicates on the Go output, and records violations / tie breaks.
func runEsc(r *Run, forms []*escForm, inputs func(emit func(in []byte, class string)), judge escJudge, second func(c *escCase) string) {
	for _, f := range forms {
		k, err, pan := regTpl(f.Tpl, true)
		if err != nil || pan != "" {
			r.Internal(fmt.Sprintf("form %s does not parse: %v %s", f.Name, err, pan))
			return
		}
		f.key = k
	}
	var cases []*escCase
	var lines []string
	ctx := dyntpl.NewCtx()
	n := 0
	inputs(func(in []byte, class string) {
		for _, f := range forms {
			ctx.Reset()
			car := setVal(ctx, "v", in, n)
			n++
			c := &escCase{Form: f, In: append([]byte(nil), in...), Carrier: car}
			c.Go = renderSafe(f.key, ctx)
			cases = append(cases, c)
			lines = append(lines, fmt.Sprintf("%s %d %s %s", f.Cmd, f.Itr, hx(in), hx(c.Go.Out)))
			r.Dist["form:"+f.Name]++
			r.Dist["class:"+class]++
		}
	})
	ans := r.Drive(lines)
	for i, c := range cases {
		fs := strings.Fields(ans[i])
		desc := map[string]any{"form": c.Form.Name, "template": c.Form.Tpl, "input_hex": hx(c.In), "input": string(c.In),
			"carrier": c.Carrier, "go_out": string(c.Go.Out), "go_out_hex": hx(c.Go.Out), "go_result": c.Go.ErrStr(), "request": lines[i]}
		if len(fs) < 1 || fs[0] == "bad-op" {
			r.Internal("driver could not answer: " + lines[i] + " -> " + ans[i])
			continue
		}
		model := fs[0]
		desc["model_out_hex"] = model
		r.Count(c.Form.Name+"/"+hx(c.In), model != hx(c.In))
		if i%9973 == 0 {
			r.Sample(desc)
		}
		sig := fmt.Sprintf("form=%s in=%s", c.Form.Name, hx(c.In))
		if c.Go.Panic != "" {
			desc["panic"] = c.Go.Panic
			r.Violate(sig+" panic", "render panicked", desc)
			continue
		}
		if c.Go.Err != nil {
			r.Violate(sig+" err", "render returned error "+c.Go.Err.Error(), desc)
			continue
		}
		bad := judge(c, fs[1:])
		if bad == "" && second != nil {
			bad = second(c)
		}
		if bad != "" {
			r.Violate(sig+" "+bad, bad, desc)
			continue
		}
		if c.Form.Cmd == "jsonq" && len(c.In) == 0 {
			// quoting an empty value: "" for an empty string, nothing for a missing variable
			// (SetBytes/SetString of length 0 read back as missing); covered by the interpreter checks.
			continue
		}
		if model != hx(c.Go.Out) {
			r.TieBreak(c.Form.Cmd+" model ≙ implementation", desc, hx(c.Go.Out), model)
		}
	}
}

// stdInputs: all single bytes, byte pairs (all or a slice), random byte strings.
func byteInputs(r *Run, allPairs bool, nRandom int, alphabet []byte) func(emit func([]byte, string)) {
	return func(emit func([]byte, string)) {
		emit(nil, "empty")
		for a := 0; a < 256; a++ {
			emit([]byte{byte(a)}, "single")
		}
		if allPairs {
			for a := 0; a < 256; a++ {
				for b := 0; b < 256; b++ {
					emit([]byte{byte(a), byte(b)}, "pair")
				}
			}
		} else {
			for i := 0; i < 4096; i++ {
				emit([]byte{byte(r.Rng.Intn(256)), byte(r.Rng.Intn(256))}, "pair-sample")
			}
		}
		for i := 0; i < nRandom; i++ {
			l := 1 + r.Rng.Intn(24)
			b := make([]byte, l)
			for j := range b {
				if len(alphabet) > 0 && r.Rng.Intn(3) > 0 {
					b[j] = alphabet[r.Rng.Intn(len(alphabet))]
				} else {
					b[j] = byte(r.Rng.Intn(256))
				}
			}
			emit(b, "random")
		}
	}
}
