module verifharness

go 1.18

require (
	github.com/koykov/bytebuf v1.0.7
	github.com/koykov/clock v1.1.4
	github.com/koykov/dyntpl v0.0.0
	github.com/koykov/inspector v1.4.6
	github.com/koykov/x2bytes v1.0.2
)

require (
	github.com/koykov/bytealg v1.0.4 // indirect
	github.com/koykov/byteconv v1.0.0 // indirect
	github.com/koykov/byteseq v1.0.1 // indirect
	github.com/koykov/entry v1.0.2 // indirect
	golang.org/x/sys v0.10.0 // indirect
	golang.org/x/tools v0.11.1 // indirect
)

replace github.com/koykov/dyntpl => /repo
