package main

import (
	"bytes"
	"encoding/json"
	"fmt"
	"html"
	"strconv"
	"strings"
	"unicode/utf16"
	"unicode/utf8"
)

func init() {
	props["C07"] = c07
	props["C08"] = c08
	props["C10"] = c10
}

// runeReps: class representatives used for ordered pairs.
var runeReps = []rune{0, 1, 8, 9, 10, 12, 13, 0x1f, ' ', '"', '&', '\'', '+', ',', '-', '.', '/', '0', '9', ':', ';', '<', '=', '>',
	'A', 'F', 'Z', '\\', '_', 'a', 'f', 'z', '~', 0x7f, 0x80, 0x9f, 0xa0, 0xe9, 0x7ff, 0x800, 0x2028, 0x2029, 0xd7ff, 0xe000, 0xfffd,
	0xffff, 0x10000, 0x1f600, 0x10ffff, '#', 'x', 'u', 'n', '%', '{', '}'}

// runeInputs: every scalar value (thorough) or all < 0x800 plus samples (quick), ordered pairs of
// representatives, random valid-UTF-8 strings, entity / escape look-alikes.
func runeInputs(r *Run, nRandom int) func(emit func([]byte, string)) {
	return func(emit func([]byte, string)) {
		emit(nil, "empty")
		lim := rune(0x800)
		if r.Thorough() {
			lim = 0x110000
		}
		for c := rune(0); c < lim; c++ {
			if c >= 0xd800 && c <= 0xdfff {
				continue
			}
			emit([]byte(string(c)), "scalar")
		}
		if !r.Thorough() {
			for _, c := range runeReps {
				emit([]byte(string(c)), "scalar-rep")
			}
			for i := 0; i < 3000; i++ {
				c := rune(r.Rng.Intn(0x110000))
				if c >= 0xd800 && c <= 0xdfff {
					continue
				}
				emit([]byte(string(c)), "scalar-sample")
			}
		}
		for _, a := range runeReps {
			for _, b := range runeReps {
				emit([]byte(string(a)+string(b)), "pair")
			}
		}
		for _, s := range []string{"&amp;", "&lt;b&gt;", "&#39;", "&#x27;", "&amp;amp;", "\\u0041", "\\\\", "\\\"", "\\n", "\\41 ", "\\20", "%41", "a&b;c",
			"</script>", "<!--", "]]>", " x", "x\\", "\\", "&", "&#", "&#x", "'\"", "\"\"", "a\x00b"} {
			emit([]byte(s), "lookalike")
		}
		for i := 0; i < nRandom; i++ {
			l := 1 + r.Rng.Intn(16)
			var sb strings.Builder
			for j := 0; j < l; j++ {
				switch r.Rng.Intn(4) {
				case 0:
					sb.WriteRune(runeReps[r.Rng.Intn(len(runeReps))])
				case 1:
					sb.WriteRune(rune(32 + r.Rng.Intn(95)))
				case 2:
					sb.WriteRune(rune(r.Rng.Intn(0x250)))
				default:
					c := rune(r.Rng.Intn(0x110000))
					if c >= 0xd800 && c <= 0xdfff {
						c = 0x41
					}
					sb.WriteRune(c)
				}
			}
			emit([]byte(sb.String()), "random")
		}
	}
}

func c07(r *Run) {
	r.Rule = "every input through j, jj, jjj, |jsonEscape, q, |jsonQuote; inputs: empty, all 256 bytes, byte pairs (all in thorough), every scalar value as UTF-8 (all in thorough, <U+0800 + samples in quick), " +
		"ordered pairs of class representatives, look-alikes, random strings; non-trivial = model output differs from input; distinct by (form,input)"
	forms := []*escForm{
		{Name: "j", Tpl: "{%j= v %}", Cmd: "json", Itr: 1},
		{Name: "jj", Tpl: "{%jj= v %}", Cmd: "json", Itr: 2},
		{Name: "jjj", Tpl: "{%jjj= v %}", Cmd: "json", Itr: 3},
		{Name: "|jsonEscape", Tpl: "{%= v|jsonEscape %}", Cmd: "json", Itr: 1},
		{Name: "q", Tpl: "{%q= v %}", Cmd: "jsonq", Itr: 1},
		{Name: "|jsonQuote", Tpl: "{%= v|jsonQuote %}", Cmd: "jsonq", Itr: 1},
	}
	judge := func(c *escCase, fs []string) string {
		if len(fs) < 2 {
			return "driver answer too short"
		}
		if c.Form.Cmd == "jsonq" && len(c.In) == 0 {
			return "" // quoting an empty/missing value: nothing is printed or "" — no claim
		}
		if fs[0] != "1" {
			return "output is not a valid JSON string body (raw quote, control byte or bad escape)"
		}
		if dec, ok := unhx(fs[1]); !ok || !bytes.Equal(dec, c.In) {
			return "JSON decoding does not return the input"
		}
		return ""
	}
	second := func(c *escCase) string {
		if !utf8.Valid(c.In) || (c.Form.Cmd == "jsonq" && len(c.In) == 0) {
			return ""
		}
		s := string(c.Go.Out)
		for i := 0; i < c.Form.Itr; i++ {
			lit := s
			if c.Form.Cmd != "jsonq" {
				lit = `"` + s + `"`
			}
			var d string
			if err := json.Unmarshal([]byte(lit), &d); err != nil {
				return "encoding/json rejects the output: " + err.Error()
			}
			s = d
		}
		if s != string(c.In) {
			return "encoding/json does not decode the output to the input"
		}
		return ""
	}
	r.Exhaustive = true
	runEsc(r, forms, byteInputs(r, r.Thorough(), r.N(1000, 50000), []byte("\"\\\n\r\t\b\f<'\x00\x01\x1f/u")), judge, second)
	runEsc(r, forms, runeInputs(r, r.N(2000, 100000)), judge, second)
	regionRel(r, "jsonquote", "json", r.N(1500, 60000))
	// a JSON print AFTER another print that went through a modifier, on the same context: the value printed
	// second (empty and missing ones included) must not pick up anything of the first
	var cases []*RCase
	vals := []SOp{{Kind: "static", Name: "v", Val: ""}, {Kind: "bytes", Name: "v", Val: []byte{}}, {Kind: "static", Name: "v", Val: nil}, {Kind: "static", Name: "zz", Val: 1},
		{Kind: "static", Name: "v", Val: "a\"b"}, {Kind: "bytes", Name: "v", Val: []byte("\\x")}, {Kind: "static", Name: "v", Val: int64(0)}}
	for _, first := range []string{"{%= w|jsonEscape %}|", "{%q= w %}|", "{%j= w %}{%h= w %}|", "{%= w|default(\"x\")|jsonQuote %}|", "{% jsonquote %}{%= w %}{% endjsonquote %}|"} {
		for _, second := range []string{"{%q= v %}", "{%qq= v %}", "{%j= v %}", "{%jj= v %}", "{%= v|jsonQuote %}", "{%= v|jsonEscape %}", "{% jsonquote %}{%= v %}{% endjsonquote %}", "{% jsonquote %}{%q= v %}{% endjsonquote %}"} {
			for _, v := range vals {
				c := &RCase{Tpls: []TplDef{{Key: "main", Src: first + second, KeepFmt: true}}, Meta: map[string]any{"second-print": second}}
				c.Ops = []SOp{v, {Kind: "static", Name: "w", Val: "Foo\"bar"}, {Kind: "render", Key: "main"}, {Kind: "render", Key: "main"}}
				cases = append(cases, c)
				r.Dist["second-print"]++
			}
		}
	}
	runSessions(r, cases, outputDiffers)
	regionRaw(r, r.N(1500, 40000))
	escRuns(r, []string{"j", "q"}, []string{"jsonEscape", "jsonQuote"}, "jsonquote")
	escConcurrent(r, append(forms, &escForm{Name: "region", Tpl: "{% jsonquote %}{%= v %}|{%= v %}{% endjsonquote %}"}), r.N(4000, 100000))
	escViaCtxVar(r, []string{"jsonEscape", "jsonQuote", "je", "jq"})
	modifierSpellings(r, []string{"jsonEscape", "jsonQuote", "je", "jq"}, "{% jsonquote %}", "{% endjsonquote %}")
}

func attrExpected(in []byte) []byte {
	var sb bytes.Buffer
	for _, c := range string(in) {
		if (c < 0x1f && c != '\t' && c != '\n' && c != '\r') || (c >= 0x7f && c <= 0x9f) {
			c = 0xfffd
		}
		sb.WriteRune(c)
	}
	return sb.Bytes()
}

func c08(r *Run) {
	r.Rule = "every input through h, hh, hhh, |htmlEscape, a, aa, |attrEscape; inputs: every scalar value as UTF-8 (all in thorough; <U+0800 + samples in quick), all bytes, " +
		"ordered pairs of class representatives, entity look-alikes, random strings; non-trivial = model output differs from input; distinct by (form,input)"
	forms := []*escForm{
		{Name: "h", Tpl: "{%h= v %}", Cmd: "html", Itr: 1},
		{Name: "hh", Tpl: "{%hh= v %}", Cmd: "html", Itr: 2},
		{Name: "hhh", Tpl: "{%hhh= v %}", Cmd: "html", Itr: 3},
		{Name: "|htmlEscape", Tpl: "{%= v|htmlEscape %}", Cmd: "html", Itr: 1},
		{Name: "a", Tpl: "{%a= v %}", Cmd: "attr", Itr: 1},
		{Name: "aa", Tpl: "{%aa= v %}", Cmd: "attr", Itr: 2},
		{Name: "|attrEscape", Tpl: "{%= v|attrEscape %}", Cmd: "attr", Itr: 1},
	}
	judge := func(c *escCase, fs []string) string {
		if len(fs) < 2 {
			return "driver answer too short"
		}
		if fs[0] != "1" {
			return "output leaves the allowed alphabet"
		}
		want := c.In
		if c.Form.Cmd == "attr" {
			if !utf8.Valid(c.In) {
				return ""
			}
			want = attrExpected(c.In)
		}
		if dec, ok := unhx(fs[1]); !ok || !bytes.Equal(dec, want) {
			return "HTML entity decoding does not return the input"
		}
		return ""
	}
	second := func(c *escCase) string {
		if !utf8.Valid(c.In) {
			return ""
		}
		s := string(c.Go.Out)
		for i := 0; i < c.Form.Itr; i++ {
			s = html.UnescapeString(s)
		}
		want := string(c.In)
		if c.Form.Cmd == "attr" {
			want = string(attrExpected(c.In))
		}
		if s != want {
			return "html.UnescapeString does not return the input"
		}
		return ""
	}
	r.Exhaustive = true
	runEsc(r, forms, byteInputs(r, false, r.N(1000, 50000), []byte("<>\"'&;#x")), judge, second)
	runEsc(r, forms, runeInputs(r, r.N(2000, 100000)), judge, second)
	regionRel(r, "htmlescape", "html", r.N(1500, 60000))
	regionRaw(r, r.N(1500, 40000))
	escRuns(r, []string{"h", "a"}, []string{"htmlEscape", "attrEscape"}, "htmlescape")
	escConcurrent(r, append(forms, &escForm{Name: "region", Tpl: "{% htmlescape %}{%= v %}|{%= v %}{% endhtmlescape %}"}), r.N(4000, 100000))
	escViaCtxVar(r, []string{"htmlEscape", "attrEscape", "he", "ae"})
	modifierSpellings(r, []string{"htmlEscape", "attrEscape", "he", "ae"}, "{% htmlescape %}", "{% endhtmlescape %}")
}

func natsOf(s string) ([]int, bool) {
	if s == "!" {
		return nil, false
	}
	if s == "-" {
		return nil, true
	}
	var out []int
	for _, t := range strings.Split(s, ".") {
		v, err := strconv.Atoi(t)
		if err != nil {
			return nil, false
		}
		out = append(out, v)
	}
	return out, true
}

func c10(r *Run) {
	r.Rule = "every input through J, JJ, |jsEscape, c, cc, |cssEscape; inputs: every scalar value as UTF-8 (all in thorough; <U+0800 + samples in quick), " +
		"ordered pairs of class representatives (escapes that could swallow a following character), look-alikes, random strings; non-trivial = model output differs from input"
	forms := []*escForm{
		{Name: "J", Tpl: "{%J= v %}", Cmd: "js", Itr: 1},
		{Name: "JJ", Tpl: "{%JJ= v %}", Cmd: "js", Itr: 2},
		{Name: "|jsEscape", Tpl: "{%= v|jsEscape %}", Cmd: "js", Itr: 1},
		{Name: "c", Tpl: "{%c= v %}", Cmd: "css", Itr: 1},
		{Name: "cc", Tpl: "{%cc= v %}", Cmd: "css", Itr: 2},
		{Name: "|cssEscape", Tpl: "{%= v|cssEscape %}", Cmd: "css", Itr: 1},
	}
	judge := func(c *escCase, fs []string) string {
		if len(fs) < 2 {
			return "driver answer too short"
		}
		if !utf8.Valid(c.In) || len(c.In) == 0 {
			return ""
		}
		if fs[0] != "1" {
			return "output leaves the allowed alphabet"
		}
		got, ok := natsOf(fs[1])
		if !ok {
			return "decoder rejects the output"
		}
		var want []int
		if c.Form.Cmd == "js" {
			for _, u := range utf16.Encode([]rune(string(c.In))) {
				want = append(want, int(u))
			}
		} else {
			if bytes.IndexByte(c.In, 0) >= 0 {
				return "" // NUL is not representable in CSS
			}
			for _, u := range string(c.In) {
				want = append(want, int(u))
			}
		}
		if fmt.Sprint(got) != fmt.Sprint(want) {
			return "decoding does not return the input"
		}
		return ""
	}
	r.Exhaustive = true
	runEsc(r, forms, runeInputs(r, r.N(3000, 150000)), judge, nil)
	// every directive string over {J, c} (and the other letters around them) up to length 3, and the modifier
	// spellings with an iteration count: the letters are applied one after the other, each run as often as it is
	// long — Go output vs the interpreter model on the real tree, and the parser oracle on the letter runs
	var cases []*RCase
	var dirs []string
	for _, a := range "Jc" {
		dirs = append(dirs, string(a))
		for _, b := range "Jchu" {
			dirs = append(dirs, string(a)+string(b), string(b)+string(a))
			for _, c := range "Jcq" {
				dirs = append(dirs, string(a)+string(b)+string(c), string(b)+string(a)+string(c), string(c)+string(b)+string(a))
			}
		}
	}
	ins := []string{"a'b\"c", "</script>\n", "é\x0ba1", "x y;{}", "\\u0041"}
	for di, d := range dirs {
		for k := 0; k < 2; k++ {
			in := ins[(di+k)%len(ins)]
			body := []TNode{Print{Path: "v", Letters: d}}
			c := &RCase{Tpls: []TplDef{{Key: "main", Src: Source(body), KeepFmt: true, Ast: body}}, Meta: map[string]any{"directive": d, "input": in}}
			c.Ops = []SOp{{Kind: "static", Name: "v", Val: in}, {Kind: "render", Key: "main"}}
			cases = append(cases, c)
			r.Dist["mixed-directive"]++
		}
	}
	for _, m := range []string{"jsEscape(2)", "cssEscape(2)", "jsEscape|cssEscape", "cssEscape|jsEscape|cssEscape", "jse(3)", "ce",
		// a count that is not a number literal — a variable holding an integer, a counter, a missing name, a quoted word —
		// is no count: one pass
		"jsEscape(n)", "cssEscape(n)", "jse(cn)", "ce(cn)", "jsEscape(absent)", "cssEscape('css')", "jse(\"x\")", "jsEscape(n)|cssEscape(absent)", "jsEscape(ns)"} {
		for _, in := range ins {
			c := &RCase{Tpls: []TplDef{{Key: "main", Src: "{%= v|" + m + " %}|{% ctx e = v|" + m + " %}{%= e %}", KeepFmt: true}}, Meta: map[string]any{"chain": m}}
			c.Ops = []SOp{{Kind: "static", Name: "v", Val: in}, {Kind: "static", Name: "n", Val: int64(2)}, {Kind: "counter", Name: "cn", Val: 3}, {Kind: "static", Name: "ns", Val: "2"}, {Kind: "render", Key: "main"}}
			cases = append(cases, c)
		}
	}
	runSessions(r, cases, outputDiffers)
	escRuns(r, []string{"J", "c"}, []string{"jsEscape", "cssEscape"}, "")
	escViaCtxVar(r, []string{"jsEscape", "cssEscape", "jse", "ce"})
	modifierSpellings(r, []string{"jsEscape", "cssEscape", "jse", "ce"}, "", "")
	escConcurrent(r, forms, r.N(4000, 100000))
}
