package main

import (
	"fmt"
	"hash/fnv"
	"strings"

	"github.com/koykov/dyntpl"
)

// Parser oracle tie (lean/DyntplV/Parser/Compile.lean).
//
// The interpreter properties run the Lean model on the DUMPED real tree, so the parser is outside
// their oracle. Here every template that was printed from a generator AST is tied separately: the
// driver computes `compile keepFmt ast` (the tree the source plainly means, written from the AST, not
// from the parser), decodes the real dump and compares the two trees node by node.
//
//   ast <0|1> <EncTpl…> | <dump…>  ->  same | diff <path> exp=<…> got=<…> | skip <reason>
//   pre <0|1> <srchex>             ->  <hex of pre>           (text / comment only templates)
//
// In addition, sources in which keepFmt matters (they contain a line break) are parsed a second time
// with the OTHER keepFmt value after the first tree was registered ("twin"): the second tree must be
// the one the other flag means, not the cached first one.

// parseTieStrict: a mismatch is a violation. false: mismatches are only counted
// (distribution key parse_tie_diff_nonstrict) — one-line switch while a parser finding is being triaged.
const parseTieStrict = true

var parseTieSeen = map[uint64]struct{}{}

type tieReq struct {
	line string
	kind string // ast | pre | twin
	c    *RCase
	t    TplDef
	keep bool
	dump string
}

func textOnly(ns []TNode) bool {
	for _, n := range ns {
		switch n.(type) {
		case Text, Comment:
		default:
			return false
		}
	}
	return true
}

// singleRaw extracts the raw text of a dump that holds no node or exactly one raw node.
func singleRaw(dump string) (string, bool) {
	f := strings.Fields(dump)
	if len(f) == 2 && f[0] == "T" && f[1] == "0" {
		return "-", true
	}
	if len(f) > 4 && f[0] == "T" && f[1] == "1" && f[2] == "N" && f[3] == "0" {
		return f[4], true
	}
	return "", false
}

func tieKey(s string) uint64 {
	h := fnv.New64a()
	_, _ = h.Write([]byte(s))
	return h.Sum64()
}

// checkParse ties the templates of one executed case.
func checkParse(r *Run, c *RCase) { checkParseBatch(r, []*RCase{c}) }

// checkParseBatch ties the templates of executed cases (c.Dumps filled by c.Run), one driver call per
// few thousand requests. Identical (keepFmt, source, dump) triples are checked once per run.
func checkParseBatch(r *Run, cases []*RCase) {
	var reqs []tieReq
	flush := func() {
		if len(reqs) == 0 {
			return
		}
		lines := make([]string, len(reqs))
		for i := range reqs {
			lines[i] = reqs[i].line
		}
		ans := r.Drive(lines)
		for i, q := range reqs {
			judgeTie(r, q, ans[i])
		}
		reqs = reqs[:0]
	}
	add := func(q tieReq) {
		k := tieKey(q.line)
		if _, ok := parseTieSeen[k]; ok {
			return
		}
		parseTieSeen[k] = struct{}{}
		reqs = append(reqs, q)
		if len(reqs) >= 4000 {
			flush()
		}
	}
	twins := false
	for _, c := range cases {
		if c.Panic != "" || c.PErr != "" || len(c.Dumps) != len(c.Tpls) {
			continue
		}
		for i, t := range c.Tpls {
			if t.Ast == nil {
				continue
			}
			if Source(t.Ast) != t.Src {
				r.Internal("asttie: the AST of template " + t.Key + " does not print its source: " + t.Src)
				continue
			}
			enc := EncTpl(t.Ast)
			add(tieReq{line: "ast " + b01(t.KeepFmt) + " " + enc + " | " + c.Dumps[i], kind: "ast", c: c, t: t, keep: t.KeepFmt, dump: c.Dumps[i]})
			if textOnly(t.Ast) {
				add(tieReq{line: "pre " + b01(t.KeepFmt) + " " + hs(t.Src), kind: "pre", c: c, t: t, keep: t.KeepFmt, dump: c.Dumps[i]})
			}
			if strings.Contains(t.Src, "\n") {
				// twin: same source, other keepFmt, parsed while the first tree is registered
				if _, ok := parseTieSeen[tieKey("twin "+b01(t.KeepFmt)+" "+t.Src)]; ok {
					continue
				}
				parseTieSeen[tieKey("twin "+b01(t.KeepFmt)+" "+t.Src)] = struct{}{}
				twins = true
				dyntpl.VerifResetRegistry()
				t1, err1, p1 := parseSafe([]byte(t.Src), t.KeepFmt)
				if err1 != nil || p1 != "" {
					continue
				}
				dyntpl.RegisterTplKey("twin", t1)
				t2, err2, p2 := parseSafe([]byte(t.Src), !t.KeepFmt)
				if p2 != "" {
					r.Violate("panic parse-twin "+firstLine(p2)+" tpl="+t.Src, "panic in dyntpl.Parse", c.Describe())
					continue
				}
				if err2 != nil {
					r.Violate("parse-mismatch twin-rejected tpl="+t.Src, fmt.Sprintf("a source accepted with keepFmt=%v is rejected with keepFmt=%v: %v", t.KeepFmt, !t.KeepFmt, err2), tieDesc(c, t, !t.KeepFmt, "", ""))
					continue
				}
				d2 := string(dyntpl.VerifDumpTree(t2))
				add(tieReq{line: "ast " + b01(!t.KeepFmt) + " " + enc + " | " + d2, kind: "twin", c: c, t: t, keep: !t.KeepFmt, dump: d2})
			}
		}
	}
	if twins {
		dyntpl.VerifResetRegistry()
	}
	flush()
}

func tieDesc(c *RCase, t TplDef, keep bool, kind, answer string) map[string]any {
	d := map[string]any{"template": t.Key, "source": t.Src, "keepFmt": keep, "ast": EncTpl(t.Ast)}
	if kind != "" {
		d["check"] = kind
		d["driver_answer"] = answer
	}
	if kind == "twin" {
		d["note"] = fmt.Sprintf("the source was parsed with keepFmt=%v and registered first, then parsed with keepFmt=%v", !keep, keep)
	}
	return d
}

func judgeTie(r *Run, q tieReq, ans string) {
	switch q.kind {
	case "pre":
		r.Dist["parse_tie_pre"]++
		got, ok := singleRaw(q.dump)
		if !ok {
			return // the ast check reports the shape
		}
		if ans != got {
			tieMismatch(r, q, "parse-mismatch pre exp="+ans+" got="+got+" keepFmt="+b01(q.keep)+" tpl="+q.t.Src,
				fmt.Sprintf("the text kept by Parse (%s) differs from pre(source) = %s", got, ans), ans)
		}
		return
	}
	switch {
	case ans == "same":
		r.Count("parse-tie", true)
		r.Dist["parse_tie"]++
		if q.kind == "twin" {
			r.Dist["parse_tie_twin"]++
		}
	case strings.HasPrefix(ans, "skip"):
		r.Dist["parse_tie_skip"]++
		if r.Dist["parse_tie_skip"] <= 3 {
			r.Notes = append(r.Notes, "parse tie skipped (outside the class of Compile.inClassTop): "+q.t.Src)
		}
	case strings.HasPrefix(ans, "diff "):
		r.Count("parse-tie", true)
		r.Dist["parse_tie"]++
		f := strings.Fields(ans)
		kind := "?"
		for _, x := range f {
			if strings.HasPrefix(x, "exp=") {
				kind = strings.SplitN(x[4:], ":", 2)[0]
			}
		}
		if len(f) > 1 && strings.HasSuffix(f[1], "#") {
			kind = "children" // the number of child nodes differs
		}
		pfx := "parse-mismatch "
		if q.kind == "twin" {
			pfx = "parse-mismatch twin "
		}
		tieMismatch(r, q, pfx+kind+" "+ans[5:]+" keepFmt="+b01(q.keep)+" tpl="+q.t.Src,
			"the tree built by Parse differs from the tree the source means, at node "+ans[5:], ans)
	case ans == "bad-ast":
		// an AST node type the Lean decoder (Ast.lean) does not know yet: not tied, but visible in the evidence
		r.Dist["parse_tie_undecoded"]++
		if r.Dist["parse_tie_undecoded"] <= 3 {
			r.Notes = append(r.Notes, "parse tie: AST not decoded by lean/DyntplV/Ast.lean: "+q.t.Src)
		}
	default:
		r.Internal("asttie: driver answered '" + ans + "' for " + q.t.Src)
	}
}

func tieMismatch(r *Run, q tieReq, sig, what, ans string) {
	if !parseTieStrict {
		r.Dist["parse_tie_diff_nonstrict"]++
		return
	}
	r.Dist["parse_tie_diff"]++
	r.Violate(sig, what, tieDesc(q.c, q.t, q.keep, q.kind, ans))
}

// tieTemplates parses AST-backed templates itself and ties them (for harnesses that do not run sessions).
func tieTemplates(r *Run, defs []TplDef) {
	c := &RCase{Tpls: defs}
	dyntpl.VerifResetRegistry()
	for _, t := range defs {
		tree, err, pan := parseSafe([]byte(t.Src), t.KeepFmt)
		if pan != "" || err != nil {
			return
		}
		dyntpl.RegisterTplKey(t.Key, tree)
		c.Dumps = append(c.Dumps, string(dyntpl.VerifDumpTree(tree)))
	}
	checkParseBatch(r, []*RCase{c})
}
