package main

// C20 — numeric and date modifiers compute the mathematically right value.
//
// Four streams, all rendered through real templates (regTpl + renderSafe, carriers via ctx.SetStatic):
//
//  (a) ROUNDING   round / roundPrec / ceil / ceilPrec / floor / floorPrec (and the aliases roundp, ceilp, floorp),
//                 the directives {%f.K= v %} / {%F.K= v %}, precision as a literal and as a variable, K = 1..15.
//                 Deciding oracle: the Lean specification DyntplV.Round (driver request `round <op> <k> <m> <e>`,
//                 the float64 sent as the exact decimal m·10^-e) → scaled integer n; expected float64 = n/10^k
//                 rounded to nearest (big.Rat.Float64). Second opinion: the same n computed with math/big.
//                 On the EXACT CLASS (x·10^k representable, below 2^53) no deviation of any kind is tolerated.
//  (b) ARITHMETIC abs inc dec add sub mul div mod sqrt cbrt exp log pow min max, pipe form and function-call form,
//                 operands in every integer kind, float32/64, numeric string / []byte and the pointer of each.
//                 Oracle: the Go float64 operation (math package) on the independently converted operands.
//  (c) OPERANDS   which operands a modifier uses for every shape of (value, arguments) over numeric / non-numeric /
//                 nil, in both forms — Go against the Lean model DyntplV.Operands (driver request `operands …`).
//  (d) DATES      time::format / time::date with literal layouts and the 16 layout globals × instants × carriers;
//                 time::add with every documented fixed-length unit spelling, sign and spacing.
//                 Oracle: clock.FormatString on the independently computed instant (time.Add for time::add).
//
// Violation signatures (for known_findings.txt `match=`):
//   mod=<name> k=<k> x=<hex-float> got=<text> want=<text> kind=<inexact-scaled-product shortest-decimal=<agree|differ>|ulp-of-large-scaled-product direction=<ok|wrong>|int-conversion-overflow|
//        scaled-product-overflow|wrong-direction|wrong-operation:<op>|wrong-sign|off-by-many|no-result|panic|error>
//   op=<name> form=<pipe|call|…> kinds=<kv>,<ka> got=<text> want=<text> kind=<no-result|unchanged|wrong-value|panic|error>
//   operands fn=<any|conv2|minmax> val=<N|X|-> args=<…> go=<…> model=<…>
//   date layout=<name> carrier=<kind> got=<text> want=<text>
//   add [edge=<double-space|zero-amount> ]dur=<text> carrier=<kind> got=<…> want=<…>

import (
	"bytes"
	"encoding/json"
	"fmt"
	"math"
	"math/big"
	"os"
	"strconv"
	"strings"
	"time"
	_ "time/tzdata" // zones with daylight saving time also where the host has no zone database

	"github.com/koykov/clock"
	"github.com/koykov/dyntpl"
)

func init() { props["C20"] = c20 }

// ---------------------------------------------------------------------------------------------
// cases, carriers, rendering

// c20Var is one context variable in a serialisable form (replays rebuild the Go value from it).
type c20Var struct {
	Name string `json:"name"`
	Kind string `json:"kind"` // int … uint64, float32, float64, string, []byte, bool, time, each also with a leading '*'; "missing"
	Text string `json:"text"` // ints: decimal; floats: hex float; string / []byte: the text; time: "<sec> <nsec> <offset> <zone>"
}

type c20Case struct {
	Stream string   `json:"stream"`
	Tpl    string   `json:"tpl"`
	Vars   []c20Var `json:"vars"`
	Want   string   `json:"want"`
	Cmp    string   `json:"cmp"` // "float": numeric equality (NaN = NaN, −0 = 0); "text": byte equality
	Info   string   `json:"info,omitempty"`
}

var c20IntKinds = []string{"int", "int8", "int16", "int32", "int64", "uint", "uint8", "uint16", "uint32", "uint64"}

// c20IntRange returns the bounds of an integer kind.
func c20IntRange(kind string) (lo *big.Int, hi *big.Int) {
	bits := map[string]uint{"int": 64, "int8": 8, "int16": 16, "int32": 32, "int64": 64,
		"uint": 64, "uint8": 8, "uint16": 16, "uint32": 32, "uint64": 64}[kind]
	one := big.NewInt(1)
	if kind[0] == 'u' {
		return big.NewInt(0), new(big.Int).Sub(new(big.Int).Lsh(one, bits), one)
	}
	h := new(big.Int).Lsh(one, bits-1)
	return new(big.Int).Neg(h), new(big.Int).Sub(h, one)
}

// c20Value builds the Go value of a variable.
func c20Value(v c20Var) (any, error) {
	kind, ptr := v.Kind, false
	if strings.HasPrefix(kind, "*") {
		kind, ptr = kind[1:], true
	}
	var si int64
	var ui uint64
	var err error
	switch {
	case kind == "missing":
		return nil, nil
	case strings.HasPrefix(kind, "int"):
		si, err = strconv.ParseInt(v.Text, 10, 64)
	case strings.HasPrefix(kind, "uint"):
		ui, err = strconv.ParseUint(v.Text, 10, 64)
	}
	if err != nil {
		return nil, err
	}
	switch kind {
	case "int":
		x := int(si)
		if ptr {
			return &x, nil
		}
		return x, nil
	case "int8":
		x := int8(si)
		if ptr {
			return &x, nil
		}
		return x, nil
	case "int16":
		x := int16(si)
		if ptr {
			return &x, nil
		}
		return x, nil
	case "int32":
		x := int32(si)
		if ptr {
			return &x, nil
		}
		return x, nil
	case "int64":
		x := si
		if ptr {
			return &x, nil
		}
		return x, nil
	case "uint":
		x := uint(ui)
		if ptr {
			return &x, nil
		}
		return x, nil
	case "uint8":
		x := uint8(ui)
		if ptr {
			return &x, nil
		}
		return x, nil
	case "uint16":
		x := uint16(ui)
		if ptr {
			return &x, nil
		}
		return x, nil
	case "uint32":
		x := uint32(ui)
		if ptr {
			return &x, nil
		}
		return x, nil
	case "uint64":
		x := ui
		if ptr {
			return &x, nil
		}
		return x, nil
	case "float32":
		f, err := strconv.ParseFloat(v.Text, 64)
		if err != nil {
			return nil, err
		}
		x := float32(f)
		if ptr {
			return &x, nil
		}
		return x, nil
	case "float64":
		x, err := strconv.ParseFloat(v.Text, 64)
		if err != nil {
			return nil, err
		}
		if ptr {
			return &x, nil
		}
		return x, nil
	case "string":
		x := v.Text
		if ptr {
			return &x, nil
		}
		return x, nil
	case "[]byte":
		x := []byte(v.Text)
		if ptr {
			return &x, nil
		}
		return x, nil
	case "bool":
		x := v.Text == "true"
		if ptr {
			return &x, nil
		}
		return x, nil
	case "time":
		x, err := c20ParseTime(v.Text)
		if err != nil {
			return nil, err
		}
		if ptr {
			return &x, nil
		}
		return x, nil
	}
	return nil, fmt.Errorf("unknown kind %q", v.Kind)
}

func c20TimeText(t time.Time) string {
	name, off := t.Zone()
	if t.Location() == time.UTC {
		name = "UTC"
	}
	if ln := t.Location().String(); strings.Contains(ln, "/") {
		// a zone of the zone database (daylight saving time, historical offsets): carried by its name
		name = "@" + ln
	}
	if name == "" {
		name = "-"
	}
	return fmt.Sprintf("%d %d %d %s", t.Unix(), t.Nanosecond(), off, name)
}

func c20ParseTime(s string) (time.Time, error) {
	fs := strings.Fields(s)
	if len(fs) != 4 {
		return time.Time{}, fmt.Errorf("bad time %q", s)
	}
	sec, e1 := strconv.ParseInt(fs[0], 10, 64)
	ns, e2 := strconv.ParseInt(fs[1], 10, 64)
	off, e3 := strconv.Atoi(fs[2])
	if e1 != nil || e2 != nil || e3 != nil {
		return time.Time{}, fmt.Errorf("bad time %q", s)
	}
	t := time.Unix(sec, ns)
	switch fs[3] {
	case "UTC":
		return t.UTC(), nil
	case "-":
		return t.In(time.FixedZone("", off)), nil
	}
	if strings.HasPrefix(fs[3], "@") {
		loc, err := time.LoadLocation(fs[3][1:])
		if err != nil {
			return time.Time{}, err
		}
		return t.In(loc), nil
	}
	return t.In(time.FixedZone(fs[3], off)), nil
}

// c20Float is the float64 meaning of a numeric carrier, computed independently of the repository
// (conversion of the integer / float value, strconv.ParseFloat of text); ok=false: not numeric.
func c20Float(v c20Var) (float64, bool) {
	kind := strings.TrimPrefix(v.Kind, "*")
	switch {
	case strings.HasPrefix(kind, "int"):
		i, err := strconv.ParseInt(v.Text, 10, 64)
		return float64(i), err == nil
	case strings.HasPrefix(kind, "uint"):
		u, err := strconv.ParseUint(v.Text, 10, 64)
		return float64(u), err == nil
	case kind == "float32":
		f, err := strconv.ParseFloat(v.Text, 64)
		return float64(float32(f)), err == nil
	case kind == "float64", kind == "string", kind == "[]byte":
		f, err := strconv.ParseFloat(v.Text, 64)
		return f, err == nil
	}
	return 0, false
}

func c20Hex(f float64) string { return strconv.FormatFloat(f, 'x', -1, 64) }

var c20Keys = map[string]string{}

// c20Render renders tpl with the given variables (templates are parsed once per source).
func c20Render(tpl string, vars []c20Var) rendered {
	key, ok := c20Keys[tpl]
	if !ok {
		k, err, pan := regTpl(tpl, false)
		if pan != "" {
			return rendered{Panic: "parse: " + pan}
		}
		if err != nil {
			return rendered{Err: fmt.Errorf("parse: %w", err)}
		}
		key = k
		c20Keys[tpl] = k
	}
	// every other render runs on a context that was used for the earlier renders and Reset (the way pooled
	// contexts are used): nothing a modifier leaves in the context may influence the next value
	c20Renders++
	ctx := dyntpl.NewCtx()
	reused := false
	if c20Held != nil && c20Renders%2 == 0 {
		ctx, reused = c20Held, true
		ctx.Reset()
	}
	for _, v := range vars {
		if v.Kind == "missing" {
			continue
		}
		val, err := c20Value(v)
		if err != nil {
			return rendered{Err: fmt.Errorf("harness: %w", err)}
		}
		ctx.SetStatic(v.Name, val)
	}
	res := renderSafe(key, ctx)
	if res.Panic != "" {
		c20Held = nil
	} else if !reused && c20Held == nil {
		c20Held = ctx
	}
	return res
}

var (
	c20Held    *dyntpl.Ctx
	c20Renders int
)

// c20Same compares a rendered text with the expected one.
func c20Same(cmp, got, want string) bool {
	if cmp == "text" {
		return got == want
	}
	g, err := strconv.ParseFloat(got, 64)
	if err != nil {
		return false
	}
	w, err := strconv.ParseFloat(want, 64)
	if err != nil {
		return false
	}
	if math.IsNaN(w) {
		return math.IsNaN(g)
	}
	return g == w
}

func c20Fmt(f float64) string { return strconv.FormatFloat(f, 'f', -1, 64) }

func c20Short(s string) string {
	if len(s) > 48 {
		return s[:20] + "…" + s[len(s)-20:] + fmt.Sprintf("(len %d)", len(s))
	}
	return s
}

func c20(r *Run) {
	r.Rule = "(a) rounding: 6 modifiers + 3 aliases + directives f.K / F.K + precision-by-variable × K = 1..15 × float64 inputs " +
		"(boundaries (i+0.5)·10^-K, (i+0.49999)·10^-K, (i+0.50001)·10^-K, i·10^-K and their float neighbours, both signs; " +
		"random magnitudes 1e-5..1e15; random bit patterns incl. subnormals; integers up to 2^53 and beyond; 1e300, MaxFloat64, ±Inf, NaN; " +
		"dyadic m/2^j) in carriers float64, *float64, float32, *float32, and every integer kind (must print unchanged); " +
		"oracle = Lean spec DyntplV.Round on the exact decimal value of the float (math/big as second opinion), expected float64 = " +
		"nearest(n/10^K); non-trivial = the value is not already a multiple of 10^-K; distinct by (modifier, K, carrier, value). " +
		"(b) arithmetic: 15 modifiers × pipe / function-call form × every pair of 28 carrier kinds (10 integer kinds incl. extremes, " +
		"float32/64, numeric string / []byte, pointers of all) + literal arguments; oracle = Go float64 operation on the independently " +
		"converted operands; non-trivial = always (a conversion and an operation happen); distinct by (modifier, form, kinds, values). " +
		"(c) operand selection: every (value, argument list up to 3) over numeric / non-numeric / nil for the three selection functions, " +
		"Go (observed through math::inc, math::sub, math::max on distinguishable operands) against the Lean model; exhaustive over shapes. " +
		"(d) dates: 16 layout globals + literal strftime layouts (each directive alone and combined) × instants over years 1..9999, " +
		"all months, leap days, 8 zones, sub-second fractions × carriers time.Time, *time.Time, every integer kind and its pointer " +
		"(Unix seconds, uint64 reinterpreted as int64); time::add × every documented fixed-length spelling × sign × spacing × amounts, " +
		"also two-unit sums; oracle = clock.FormatString on the independently computed instant / time.Add; non-trivial = always."
	r.Exhaustive = false
	if r.replayFile != "" {
		c20Replay(r)
		return
	}
	c20SetLocal(r)
	c20Rounding(r)
	c20Arith(r)
	c20Operands(r)
	c20Dates(r)
	c20TimeAdd(r)
	c20DSTAdd(r)
	c20DurVar(r)
	c20ChainOperand(r)
	c20Chains(r)
}

// c20DSTAdd: whole days and weeks added to times in zones with daylight saving time, around the transitions.
func c20DSTAdd(r *Run) {
	type tr struct {
		zone string
		at   time.Time // an instant shortly before a transition
	}
	var trs []tr
	for _, zn := range c20DSTZones {
		loc, err := time.LoadLocation(zn)
		if err != nil {
			r.Dist["dst.zone-missing"]++
			continue
		}
		// find the transitions of some years by scanning the offset day by day
		for _, y := range []int{1985, 2009, 2021, 2030} {
			t := time.Date(y, 1, 1, 12, 0, 0, 0, loc)
			_, prev := t.Zone()
			for d := 0; d < 366; d++ {
				t2 := t.Add(24 * time.Hour)
				if _, off := t2.Zone(); off != prev {
					trs = append(trs, tr{zn, t})
					prev = off
				}
				t = t2
			}
		}
	}
	if len(trs) == 0 {
		r.Internal("C20: no daylight-saving transition found in the zone database")
		return
	}
	r.Dist["dst.transitions"] = len(trs)
	n := 0
	for _, x := range trs {
		for _, dur := range []struct {
			txt string
			d   time.Duration
		}{{"+1 d", 24 * time.Hour}, {"1 day", 24 * time.Hour}, {"2 days", 48 * time.Hour}, {"1 w", 7 * 24 * time.Hour}, {"-1 d", -24 * time.Hour}, {"-3 days", -72 * time.Hour}, {"24 h", 24 * time.Hour},
			{"1 d 1 h", 25 * time.Hour}, {"100 d", 2400 * time.Hour}, {"-1 w", -7 * 24 * time.Hour}} {
			for _, shift := range []time.Duration{0, 20 * time.Hour, 36 * time.Hour} {
				n++
				inst := x.at.Add(shift)
				if dur.d < 0 {
					inst = inst.Add(-dur.d) // so that the interval still crosses the transition
				}
				kind := []string{"time", "*time"}[n%2]
				v := c20Var{Name: "v", Kind: kind, Text: c20TimeText(inst)}
				mod := []string{"time::add", "time::date_modify"}[n%2]
				tpl := fmt.Sprintf("{%%= v|%s(\"%s\")|time::date(\"%s\") %%}", mod, dur.txt, c20AddLayout)
				want, _ := clock.FormatString(c20AddLayout, inst.Add(dur.d))
				res := c20Render(tpl, []c20Var{v})
				got := string(res.Out)
				r.Count("dst:"+dur.txt+"|"+v.Text, true)
				r.Dist["dst.add"]++
				if res.Panic == "" && res.Err == nil && got == want {
					continue
				}
				r.Violate(fmt.Sprintf("add dst zone=%s dur=%q got=%s want=%s", x.zone, dur.txt, c20Short(got), c20Short(want)),
					fmt.Sprintf("{%s} with %s printed %q (%s); instant + %v is %q", tpl, c20VarsText([]c20Var{v}), got, res.ErrStr(), dur.d, want),
					c20Case{Stream: "time::add", Tpl: tpl, Vars: []c20Var{v}, Want: want, Cmp: "text", Info: fmt.Sprintf("%q = %v across a daylight-saving transition of %s", dur.txt, dur.d, x.zone)})
			}
		}
	}
}

// c20DurVar: the duration of time::add comes from a VARIABLE that gets a new value between two uses on the same
// context (a second tag after a ctx tag; a second render after SetString / SetBytes without Reset): every use adds
// the variable's current value.
func c20DurVar(r *Run) {
	inst := time.Date(2021, 3, 4, 5, 6, 7, 0, time.UTC)
	pairs := [][2]string{{"1 h", "2 h"}, {"1 h", "3 d"}, {"+90 m", "-90 m"}, {"1 w", "1 d"}, {"10 s", "10 m"}, {"2 hours", "1 minute"}}
	durOf := map[string]time.Duration{"1 h": time.Hour, "2 h": 2 * time.Hour, "3 d": 72 * time.Hour, "+90 m": 90 * time.Minute, "-90 m": -90 * time.Minute, "1 w": 168 * time.Hour, "1 d": 24 * time.Hour,
		"10 s": 10 * time.Second, "10 m": 10 * time.Minute, "2 hours": 2 * time.Hour, "1 minute": time.Minute}
	f := func(d string) string { w, _ := clock.FormatString(c20AddLayout, inst.Add(durOf[d])); return w }
	tag := fmt.Sprintf("{%%= v|time::add(dur)|time::date(\"%s\") %%}", c20AddLayout)
	for pi, p := range pairs {
		// (a) one template, the variable re-assigned by a ctx tag between two uses
		src := fmt.Sprintf("{%% ctx dur = \"%s\" %%}%s;{%% ctx dur = \"%s\" %%}%s;{%% ctx dur = \"%s\" %%}%s", p[0], tag, p[1], tag, p[0], tag)
		want := f(p[0]) + ";" + f(p[1]) + ";" + f(p[0])
		k, err, pan := regTpl(src, true)
		var got rendered
		if err == nil && pan == "" {
			ctx := dyntpl.NewCtx()
			ctx.SetStatic("v", inst)
			got = renderSafe(k, ctx)
		}
		r.Count(fmt.Sprintf("durvar:ctx:%d", pi), true)
		r.Dist["durvar"]++
		if err != nil || pan != "" || got.Err != nil || got.Panic != "" || string(got.Out) != want {
			r.Violate(fmt.Sprintf("add durvar ctx-tag %q then %q got=%s", p[0], p[1], c20Short(string(got.Out))), "time::add with a duration VARIABLE that was re-assigned between two uses does not add the variable's current value",
				map[string]any{"template": src, "v": inst.Format(time.RFC3339), "output": string(got.Out), "expected": want, "error": got.ErrStr()})
		}
		// (b) two renders on one context, the variable set again by the caller in between (no Reset)
		k2, err2, pan2 := regTpl(tag, true)
		if err2 != nil || pan2 != "" {
			continue
		}
		for mode := 0; mode < 3; mode++ {
			ctx := dyntpl.NewCtx()
			ctx.SetStatic("v", inst)
			var outs, wants []string
			bufA, bufB := []byte(p[0]), []byte(p[0])
			for step, d := range []string{p[0], p[1], p[0], p[1]} {
				switch mode {
				case 0:
					ctx.SetString("dur", d)
				case 1:
					ctx.SetBytes("dur", []byte(d))
				default:
					// the caller's own buffer, overwritten in place and handed over again as the same *[]byte
					bufA = append(bufA[:0], d...)
					_ = bufB
					ctx.SetStatic("dur", &bufA)
				}
				res := renderSafe(k2, ctx)
				outs = append(outs, string(res.Out)+res.ErrStr()[2:])
				wants = append(wants, f(d))
				_ = step
			}
			r.Count(fmt.Sprintf("durvar:renders:%d:%d", pi, mode), true)
			r.Dist["durvar"]++
			if strings.Join(outs, ";") != strings.Join(wants, ";") {
				r.Violate(fmt.Sprintf("add durvar renders mode=%d %q then %q", mode, p[0], p[1]), "time::add with a duration VARIABLE that the caller set again between two renders on one context (no Reset) does not add the variable's current value",
					map[string]any{"template": tag, "setter": []string{"SetString", "SetBytes", "SetStatic(&buf) with buf overwritten in place"}[mode], "durations": []string{p[0], p[1], p[0], p[1]}, "outputs": outs, "expected": wants})
			}
		}
	}
}

// c20Chains: where the result of a numeric / date modifier goes next (a relation on the real engine alone; every
// single step is judged by the streams above). A chain printed directly, the same chain assigned to a ctx
// variable and printed, and the chain cut in two by a ctx variable must print the same text: each modifier of
// a chain receives its own arguments and the previous modifier's result, in a print tag and in a ctx tag alike.
func c20Chains(r *Run) {
	type ch struct {
		head  string
		steps []string
		vars  []c20Var
	}
	fl := func(name string, f float64) c20Var { return c20Var{Name: name, Kind: "float64", Text: c20Hex(f)} }
	tm := c20Var{Name: "ts", Kind: "time", Text: c20TimeText(time.Date(2021, 3, 4, 5, 6, 7, 0, time.UTC))}
	var chains []ch
	for _, x := range []float64{1.5, -2.25, 14995.6, 0.001, 7} {
		chains = append(chains,
			ch{"x", []string{"math::add(2)", "math::mul(10)"}, []c20Var{fl("x", x)}},
			ch{"x", []string{"math::div(3)", "ceilPrec(2)"}, []c20Var{fl("x", x)}},
			ch{"x", []string{"math::sub(1)", "math::abs()", "round"}, []c20Var{fl("x", x)}},
			ch{"x", []string{"roundPrec(3)", "math::mul(y)", "floorPrec(1)"}, []c20Var{fl("x", x), fl("y", 2.5)}},
			ch{"x", []string{"math::pow(2)", "math::sqrt()", "math::add(y)", "truncPrec(4)"}, []c20Var{fl("x", x), fl("y", -0.125)}},
			ch{"x", []string{"math::max(y)", "math::min(3)", "math::mod(2)"}, []c20Var{fl("x", x), fl("y", 4)}})
	}
	// arguments that name the chain's OWN head variable: they are the variable's value, not the intermediate result
	for _, x := range []float64{4, -2.5, 0.75} {
		chains = append(chains,
			ch{"x", []string{"math::sub(y)", "math::div(x)"}, []c20Var{fl("x", x), fl("y", 1)}},
			ch{"x", []string{"math::inc()", "math::mul(x)"}, []c20Var{fl("x", x)}},
			ch{"x", []string{"math::pow(2)", "math::sub(x)", "math::max(x)", "roundPrec(2)"}, []c20Var{fl("x", x)}})
	}
	chains = append(chains,
		ch{"ts", []string{`time::add("90 m")`, "time::date(time::RFC3339)"}, []c20Var{tm}},
		ch{"ts", []string{`time::add("-3 d")`, `time::add("2 h")`, `time::date("%Y-%m-%d %H:%M")`}, []c20Var{tm}},
		ch{"ts", []string{`time::add("1 w")`, "time::date(time::Kitchen)"}, []c20Var{tm}})
	for _, c := range chains {
		full := c.head + "|" + strings.Join(c.steps, "|")
		forms := []string{"{%= " + full + " %}", "{% ctx t = " + full + " %}{%= t %}"}
		for cut := 1; cut < len(c.steps); cut++ {
			forms = append(forms, "{% ctx t = "+c.head+"|"+strings.Join(c.steps[:cut], "|")+" %}{%= t|"+strings.Join(c.steps[cut:], "|")+" %}")
		}
		base := c20Render(forms[0], c.vars)
		// the chain step by step, each step rendered on its own with the previous step's printed result handed over
		// by the harness as a fresh variable (every single step is judged by the streams above): a chain in which
		// a later modifier does not start from the earlier one's result shows here
		if c.head == "x" || c.head == "ts" {
			cur := c.vars[0]
			cur.Name = "cur"
			okSeq, why := true, ""
			var last rendered
			for si, st := range c.steps {
				// the step's own head is the variable cur (the previous result); the chain's variables keep their values
				vars := append([]c20Var{cur}, c.vars...)
				isLast := si == len(c.steps)-1
				tpl := "{%= cur|" + st + " %}"
				if c.head == "ts" && !isLast {
					tpl = "{%= cur|" + st + "|time::date(time::RFC3339Nano) %}"
				}
				last = c20Render(tpl, vars)
				if last.Panic != "" || last.Err != nil {
					okSeq, why = false, "step "+st+" failed: "+last.ErrStr()
					break
				}
				if isLast {
					break
				}
				if c.head == "ts" {
					t, err := time.Parse(time.RFC3339Nano, string(last.Out))
					if err != nil {
						okSeq, why = false, "intermediate instant does not parse: "+string(last.Out)
						break
					}
					cur = c20Var{Name: "cur", Kind: "time", Text: c20TimeText(t.UTC())}
				} else {
					f, err := strconv.ParseFloat(string(last.Out), 64)
					if err != nil {
						okSeq, why = false, "intermediate value does not parse: "+string(last.Out)
						break
					}
					cur = fl("cur", f)
				}
			}
			sig := "chain-steps " + forms[0] + " " + c20VarsText(c.vars)
			r.Count(sig, true)
			r.Dist["chain-steps"]++
			cmp := "float"
			if c.head == "ts" {
				cmp = "text"
			}
			if okSeq && (base.Err != nil || !c20Same(cmp, string(base.Out), string(last.Out))) {
				r.Violate(sig, "a chain of numeric / date modifiers does not give what its steps give one after the other",
					map[string]any{"chain": forms[0], "vars": c.vars, "chain_output": string(base.Out), "steps_output": string(last.Out), "chain_error": base.ErrStr()})
			} else if !okSeq {
				r.Dist["chain-steps-skipped: "+why]++
			}
		}
		for _, f := range forms[1:] {
			got := c20Render(f, c.vars)
			sig := "chain " + f + " " + c20VarsText(c.vars)
			r.Count(sig, true)
			r.Dist["chain-forms"]++
			if got.Panic != "" || got.ErrStr() != base.ErrStr() || string(got.Out) != string(base.Out) {
				r.Violate(sig, "a chain of numeric / date modifiers gives a different result in a ctx tag than in a print tag",
					map[string]any{"print_form": forms[0], "ctx_form": f, "vars": c.vars, "print_output": string(base.Out), "ctx_output": string(got.Out), "print_error": base.ErrStr(), "ctx_error": got.ErrStr(), "panic": got.Panic})
			}
		}
	}
}

// ---------------------------------------------------------------------------------------------
// replay

func c20Replay(r *Run) {
	b, err := os.ReadFile(r.replayFile)
	if err != nil {
		r.Internal("cannot read replay file: " + err.Error())
		return
	}
	var doc struct {
		Sig  string  `json:"signature"`
		What string  `json:"what"`
		Case c20Case `json:"case"`
	}
	if err := json.Unmarshal(b, &doc); err != nil {
		r.Internal("replay file is not JSON: " + err.Error())
		return
	}
	c := doc.Case
	res := c20Render(c.Tpl, c.Vars)
	r.Count("replay:"+c.Tpl, true)
	got := string(res.Out)
	if res.Panic != "" || res.Err != nil || !c20Same(c.Cmp, got, c.Want) {
		r.Violate(doc.Sig, fmt.Sprintf("%s (replayed: %s, got %q, want %q)", doc.What, res.ErrStr(), c20Short(got), c20Short(c.Want)), c)
	}
}

// ---------------------------------------------------------------------------------------------
// (a) rounding

type c20RMod struct {
	Name string // name in signatures
	Op   string // floor | ceil | trunc | round
	Prec bool
	Tpl  func(k int) string
	KVar bool // precision passed as variable k
}

func c20RoundMods() []c20RMod {
	lit := func(name string) func(int) string {
		return func(k int) string { return fmt.Sprintf("{%%= v|%s(%d) %%}", name, k) }
	}
	plain := func(name string) func(int) string { return func(int) string { return "{%= v|" + name + " %}" } }
	return []c20RMod{
		{Name: "round", Op: "round", Tpl: plain("round")},
		{Name: "ceil", Op: "ceil", Tpl: plain("ceil")},
		{Name: "floor", Op: "floor", Tpl: plain("floor")},
		{Name: "roundPrec", Op: "trunc", Prec: true, Tpl: lit("roundPrec")},
		{Name: "ceilPrec", Op: "ceil", Prec: true, Tpl: lit("ceilPrec")},
		{Name: "floorPrec", Op: "floor", Prec: true, Tpl: lit("floorPrec")},
		{Name: "roundp", Op: "trunc", Prec: true, Tpl: lit("roundp")},
		{Name: "ceilp", Op: "ceil", Prec: true, Tpl: lit("ceilp")},
		{Name: "floorp", Op: "floor", Prec: true, Tpl: lit("floorp")},
		{Name: "f.", Op: "floor", Prec: true, Tpl: func(k int) string { return fmt.Sprintf("{%%f.%d= v %%}", k) }},
		{Name: "F.", Op: "ceil", Prec: true, Tpl: func(k int) string { return fmt.Sprintf("{%%F.%d= v %%}", k) }},
		{Name: "floorPrec(var)", Op: "floor", Prec: true, KVar: true, Tpl: func(int) string { return "{%= v|floorPrec(k) %}" }},
		{Name: "ceilPrec(var)", Op: "ceil", Prec: true, KVar: true, Tpl: func(int) string { return "{%= v|ceilPrec(k) %}" }},
		{Name: "roundPrec(var)", Op: "trunc", Prec: true, KVar: true, Tpl: func(int) string { return "{%= v|roundPrec(k) %}" }},
	}
}

var c20Pow10 = func() []*big.Int {
	p := make([]*big.Int, 40)
	p[0] = big.NewInt(1)
	for i := 1; i < len(p); i++ {
		p[i] = new(big.Int).Mul(p[i-1], big.NewInt(10))
	}
	return p
}()

// c20BigRound is the math/big computation of the scaled integer (second opinion on the Lean spec).
func c20BigRound(op string, k int, x float64) *big.Int {
	rat := new(big.Rat).SetFloat64(x)
	num := new(big.Int).Mul(rat.Num(), c20Pow10[k])
	den := rat.Denom()
	return c20BigRoundQ(op, num, den)
}

func c20BigRoundQ(op string, num, den *big.Int) *big.Int {
	switch op {
	case "floor":
		return new(big.Int).Div(num, den) // Euclidean: floor for den > 0
	case "ceil":
		n := new(big.Int).Div(new(big.Int).Neg(num), den)
		return n.Neg(n)
	case "trunc":
		return new(big.Int).Quo(num, den)
	case "round":
		a := new(big.Int).Abs(num)
		a.Lsh(a, 1).Add(a, den)
		n := a.Div(a, new(big.Int).Lsh(den, 1))
		if num.Sign() < 0 {
			n.Neg(n)
		}
		return n
	}
	return nil
}

// c20Decimal writes a finite float64 as an exact decimal m·10^-e.
func c20Decimal(x float64) (m *big.Int, e int) {
	rat := new(big.Rat).SetFloat64(x)
	den := rat.Denom() // a power of two 2^j
	j := den.BitLen() - 1
	m = new(big.Int).Mul(rat.Num(), new(big.Int).Exp(big.NewInt(5), big.NewInt(int64(j)), nil))
	return m, j
}

// c20Nearest is n/10^k rounded to the nearest float64.
func c20Nearest(n *big.Int, k int) float64 {
	f, _ := new(big.Rat).SetFrac(n, c20Pow10[k]).Float64()
	return f
}

func c20FloatOp(op string, x float64) float64 {
	switch op {
	case "floor":
		return math.Floor(x)
	case "ceil":
		return math.Ceil(x)
	case "trunc":
		return math.Trunc(x)
	}
	return math.Round(x)
}

// c20ExactClass: x·10^k is a float64 and below 2^53 in magnitude — every float operation of the helper is exact.
func c20ExactClass(x float64, k int) bool {
	rat := new(big.Rat).SetFloat64(x)
	rat.Mul(rat, new(big.Rat).SetInt(c20Pow10[k]))
	f, exact := rat.Float64()
	return exact && math.Abs(f) < 1<<53
}

type c20RCase struct {
	mod     c20RMod
	k       int
	carrier string
	x       float64 // the float64 meaning of the carried value
	vars    []c20Var
	tpl     string
	req     string // Lean request ("" = non-finite)
}

func c20RoundInputs(r *Run, k int, n int) []float64 {
	var xs []float64
	add := func(f float64) { xs = append(xs, f, -f) }
	nb := func(f float64) {
		add(f)
		add(math.Nextafter(f, math.Inf(1)))
		add(math.Nextafter(f, math.Inf(-1)))
	}
	rng := r.Rng
	// boundaries at the k-th decimal
	for i := 0; i < n; i++ {
		var base int64
		switch i % 5 {
		case 0:
			base = rng.Int63n(10)
		case 1:
			base = rng.Int63n(1000)
		case 2:
			base = rng.Int63n(1000000)
		case 3:
			base = rng.Int63n(1000000000)
		default:
			base = rng.Int63n(1 << 40)
		}
		for _, frac := range []int64{0, 50000, 49999, 50001, 99999, 1, 10000 * (1 + rng.Int63n(9)), rng.Int63n(100000)} {
			s := fmt.Sprintf("%de-%d", base*100000+frac, k+5)
			f, err := strconv.ParseFloat(s, 64)
			if err != nil {
				continue
			}
			if frac == 0 || frac == 50000 {
				nb(f)
			} else {
				add(f)
			}
		}
	}
	// random magnitudes, random bit patterns
	for i := 0; i < n; i++ {
		add(rng.NormFloat64() * math.Pow10(rng.Intn(21)-5))
		add(rng.Float64())
		f := math.Float64frombits(rng.Uint64())
		if !math.IsNaN(f) {
			add(f)
		}
		// mid-range exponents are the interesting ones for k decimals
		f = math.Float64frombits(uint64(1023-20+rng.Intn(80))<<52 | rng.Uint64()&(1<<52-1))
		add(f)
		// dyadic values: few fractional bits
		add(float64(rng.Int63n(1<<20)) / float64(int64(1)<<uint(rng.Intn(11))))
		add(float64(rng.Int63n(1<<10)) / float64(int64(1)<<uint(rng.Intn(5))))
		// integers
		add(float64(rng.Int63n(1 << 53)))
		add(float64(rng.Int63n(1 << 20)))
	}
	for _, f := range []float64{0, 1, 0.5, 1.5, 2.5, 0.57, 0.35, 1.1, 1.15, 3.1415, 56.68734, 20.214999, 67.999, 11.39, 7.243242,
		1 << 52, 1<<52 + 1, 1<<52 + 0.5, 1 << 53, 1<<53 + 2, 1 << 62, 1 << 63, 1 << 64, 1e15, 1e16, 1e22, 1e23, 1e100, 1e292, 1e293, 1e300,
		math.MaxFloat64, math.SmallestNonzeroFloat64, 1e-300, 1e-20, 1e-16, 1e-15, 4.35, 4.45, 1.005, 2.675, 8.325, 1234567.891,
		12345678.123456789, 0.1, 0.2, 0.3, 0.7, 0.07, 0.29, 0.58, 9.995, 99.99999, 1e6 + 0.5, 4503599627370495.5} {
		add(f)
	}
	xs = append(xs, math.Inf(1), math.Inf(-1), math.NaN())
	return xs
}

func c20Rounding(r *Run) {
	mods := c20RoundMods()
	perK := r.N(40, 120)
	var cases []c20RCase
	seen := map[string]bool{}
	mk := func(m c20RMod, k int, carrier string, x float64, v c20Var) {
		c := c20RCase{mod: m, k: k, carrier: carrier, x: x, tpl: m.Tpl(k)}
		c.vars = []c20Var{v}
		if m.KVar {
			kk := c20IntKinds[(k+len(cases))%len(c20IntKinds)]
			c.vars = append(c.vars, c20Var{Name: "k", Kind: kk, Text: strconv.Itoa(k)})
		}
		key := fmt.Sprintf("%s|%d|%s|%s", m.Name, k, v.Kind, v.Text)
		if seen[key] {
			return
		}
		seen[key] = true
		if !math.IsNaN(x) && !math.IsInf(x, 0) {
			kk := 0
			if m.Prec {
				kk = k
			}
			mm, e := c20Decimal(x)
			c.req = fmt.Sprintf("round %s %d %s %d", m.Op, kk, mm.String(), e)
		}
		cases = append(cases, c)
	}
	for k := 1; k <= 15; k++ {
		xs := c20RoundInputs(r, k, perK)
		for mi, m := range mods {
			if !m.Prec && k > 1 && !r.Thorough() {
				// the plain modifiers ignore k: in the quick tier run them on the inputs of k = 1 and a sample of the others
				if (k+mi)%5 != 0 {
					continue
				}
			}
			for xi, x := range xs {
				// float64 by value for every input; the other carriers on a rotating share
				mk(m, k, "float64", x, c20Var{Name: "v", Kind: "float64", Text: c20Hex(x)})
				switch (xi + mi + k) % 6 {
				case 0:
					mk(m, k, "*float64", x, c20Var{Name: "v", Kind: "*float64", Text: c20Hex(x)})
				case 1, 2:
					f32 := float32(x)
					if !math.IsInf(float64(f32), 0) || math.IsInf(x, 0) {
						kind := "float32"
						if (xi+mi)%2 == 0 {
							kind = "*float32"
						}
						mk(m, k, kind, float64(f32), c20Var{Name: "v", Kind: kind, Text: c20Hex(float64(f32))})
					}
				}
			}
			// integer carriers: the value must come out unchanged
			for _, ik := range c20IntKinds {
				lo, hi := c20IntRange(ik)
				for _, t := range []string{lo.String(), hi.String(), "0", "7", big.NewInt(r.Rng.Int63n(100)).String()} {
					kind := ik
					if (k+mi)%2 == 0 {
						kind = "*" + ik
					}
					v := c20Var{Name: "v", Kind: kind, Text: t}
					c := c20RCase{mod: m, k: k, carrier: kind, tpl: m.Tpl(k), vars: []c20Var{v}, req: "int"}
					if m.KVar {
						c.vars = append(c.vars, c20Var{Name: "k", Kind: "int", Text: strconv.Itoa(k)})
					}
					key := fmt.Sprintf("%s|%d|%s|%s", m.Name, k, kind, t)
					if !seen[key] && (k%4 == 1 || r.Thorough()) {
						seen[key] = true
						cases = append(cases, c)
					}
				}
			}
		}
	}
	// Lean answers
	reqIdx := map[string]int{}
	var reqs []string
	for _, c := range cases {
		if c.req != "" && c.req != "int" {
			if _, ok := reqIdx[c.req]; !ok {
				reqIdx[c.req] = len(reqs)
				reqs = append(reqs, c.req)
			}
		}
	}
	ans := r.Drive(reqs)
	for _, c := range cases {
		c20RoundJudge(r, c, func() (string, bool) {
			i, ok := reqIdx[c.req]
			if !ok || i >= len(ans) {
				return "", false
			}
			return ans[i], true
		})
	}
}

func c20RoundJudge(r *Run, c c20RCase, lean func() (string, bool)) {
	m, k := c.mod, c.k
	kk := 0
	if m.Prec {
		kk = k
	}
	res := c20Render(c.tpl, c.vars)
	got := string(res.Out)
	r.Dist["round.mod."+m.Name]++
	r.Dist["round.carrier."+c.carrier]++
	r.Dist[fmt.Sprintf("round.k.%02d", k)]++
	mkCase := func(want string) c20Case {
		return c20Case{Stream: "round", Tpl: c.tpl, Vars: c.vars, Want: want, Cmp: "float",
			Info: fmt.Sprintf("%s at %d decimals of %v (%s)", m.Op, kk, c.x, c.carrier)}
	}
	if c.req == "int" {
		// integer carrier: already an integer, every rounding leaves it unchanged
		want := c.vars[0].Text
		r.Count(fmt.Sprintf("r:%s|%d|%s|%s", m.Name, k, c.carrier, want), false)
		if res.Panic != "" || res.Err != nil || got != want {
			r.Dist["round.dev.int-carrier"]++
			r.Violate(fmt.Sprintf("mod=%s k=%d x=%s carrier=%s got=%s want=%s kind=int-carrier-changed", m.Name, k, want, c.carrier, c20Short(got), want),
				fmt.Sprintf("%s of the integer %s (%s) printed %q (%s)", m.Name, want, c.carrier, c20Short(got), res.ErrStr()), mkCase(want))
		}
		return
	}
	x := c.x
	var want float64
	nontrivial := false
	exact := false
	var nExact *big.Int
	switch {
	case math.IsNaN(x) || math.IsInf(x, 0):
		want = x
	default:
		nExact = c20BigRound(m.Op, kk, x)
		exact = c20ExactClass(x, kk)
		if a, ok := lean(); ok {
			ln, good := new(big.Int).SetString(a, 10)
			if !good {
				r.Internal(fmt.Sprintf("driver answered %q to %q", a, c.req))
			} else if ln.Cmp(nExact) != 0 {
				r.Internal(fmt.Sprintf("oracles disagree on %q: Lean spec %s, math/big %s", c.req, ln, nExact))
			} else {
				r.Dist["round.lean_spec_agrees_with_big"]++
			}
			if good {
				nExact = ln // the Lean specification decides
			}
		}
		want = c20Nearest(nExact, kk)
		// non-trivial: x is not a multiple of 10^-k
		back := new(big.Rat).SetFrac(nExact, c20Pow10[kk])
		nontrivial = back.Cmp(new(big.Rat).SetFloat64(x)) != 0
	}
	if exact {
		r.Dist["round.exact_class"]++
	}
	r.Count(fmt.Sprintf("r:%s|%d|%s|%s", m.Name, k, c.carrier, c20Hex(x)), nontrivial)
	if len(r.Samples) < 4 && nontrivial && exact && len(c.req) < 60 && kk > 0 && c.k%4 == len(r.Samples) {
		r.Sample(map[string]any{"stream": "round", "tpl": c.tpl, "v": x, "carrier": c.carrier, "lean_request": c.req,
			"scaled_integer": nExact.String(), "want": c20Fmt(want), "go": got})
	}
	wantS := c20Fmt(want)
	sig := func(kind string) string {
		return fmt.Sprintf("mod=%s k=%d x=%s got=%s want=%s kind=%s", m.Name, k, c20Hex(x), c20Short(got), c20Short(wantS), kind)
	}
	viol := func(kind, what string) {
		r.Dist["round.dev."+strings.SplitN(strings.SplitN(kind, ":", 2)[0], " ", 2)[0]]++
		r.Violate(sig(kind), fmt.Sprintf("%s: {%s} with v=%v (%s, exactly %s) printed %q, the exact %s at %d decimals is %s",
			what, c.tpl, x, c.carrier, c20Hex(x), c20Short(got), m.Op, kk, c20Short(wantS)), mkCase(wantS))
	}
	switch {
	case res.Panic != "":
		viol("panic", "render panicked")
		return
	case res.Err != nil:
		viol("error", "render failed: "+res.Err.Error())
		return
	}
	if c20Same("float", got, wantS) {
		r.Dist["round.ok"]++
		return
	}
	g, err := strconv.ParseFloat(got, 64)
	if err != nil {
		viol("no-result", "no numeric output")
		return
	}
	if math.IsNaN(x) || math.IsInf(x, 0) {
		viol("non-finite", "a non-finite value is not left alone")
		return
	}
	if exact {
		r.Dist["round.dev.in_exact_class"]++
	}
	// Is the deviation explained purely by the float product fl(x·10^k)?
	p := math.Pow10(kk)
	prod := x * p
	formula := c20FloatOp(m.Op, prod) / p
	if kk == 0 {
		formula = c20FloatOp(m.Op, x)
	}
	if m.Op == "trunc" && kk > 0 && g == float64(int(prod))/p && g != formula {
		viol("int-conversion-overflow", "x·10^k does not fit the int it is converted to")
		return
	}
	if g == formula && !exact {
		if math.IsInf(prod, 0) {
			viol("scaled-product-overflow", "x·10^k overflows float64")
			return
		}
		nGo, _ := new(big.Float).SetFloat64(c20FloatOp(m.Op, prod)).Int(nil)
		d := new(big.Int).Sub(nGo, nExact)
		if math.Abs(prod) < 1<<53 && d.CmpAbs(big.NewInt(1)) == 0 {
			// does the result agree with the rounding of the shortest decimal that denotes x (what a reader of "5.1" expects)?
			dec := "differ"
			if sd, ok := new(big.Rat).SetString(strconv.FormatFloat(x, 'e', -1, 64)); ok {
				nd := c20BigRoundQ(m.Op, new(big.Int).Mul(sd.Num(), c20Pow10[kk]), sd.Denom())
				if c20Nearest(nd, kk) == g {
					dec = "agree"
				}
			}
			r.Dist["round.dev.inexact-scaled-product.shortest-decimal-"+dec]++
			viol("inexact-scaled-product shortest-decimal="+dec, "the float product fl(x·10^k) crosses an integer the exact product does not (one unit in the last decimal)")
			return
		}
		if math.Abs(prod) >= 1<<52 {
			dir := "ok"
			if m.Op == "floor" && g > x || m.Op == "ceil" && g < x || m.Op == "trunc" && math.Abs(g) > math.Abs(x) {
				dir = "wrong"
			}
			r.Dist["round.dev.ulp-of-large-scaled-product.direction-"+dir]++
			viol("ulp-of-large-scaled-product direction="+dir, "x·10^k exceeds 2^52: the product and the division each lose an ulp of a value that has fractional bits")
			return
		}
	}
	// a genuinely different result
	rx := new(big.Rat).SetFloat64(x)
	rg := new(big.Rat).SetFloat64(g)
	if !math.IsInf(g, 0) {
		switch m.Op {
		case "floor":
			if rg.Cmp(rx) > 0 {
				viol("wrong-direction", "floor result above the value")
				return
			}
		case "ceil":
			if rg.Cmp(rx) < 0 {
				viol("wrong-direction", "ceil result below the value")
				return
			}
		case "trunc":
			if g != 0 && (g < 0) != (x < 0) {
				viol("wrong-sign", "result has the opposite sign")
				return
			}
			if new(big.Rat).Abs(rg).Cmp(new(big.Rat).Abs(rx)) > 0 {
				viol("wrong-direction", "toward-zero result farther from zero than the value")
				return
			}
		}
	}
	for _, o := range []string{"floor", "ceil", "trunc", "round"} {
		if o != m.Op && c20Nearest(c20BigRound(o, kk, x), kk) == g {
			viol("wrong-operation:"+o, "the result is the "+o+" of the value")
			return
		}
	}
	viol("off-by-many", "result differs from the exact rounding")
}

// ---------------------------------------------------------------------------------------------
// (b) arithmetic

type c20AOp struct {
	Name  string
	Arity int
	F1    func(x float64) float64
	F2    func(x, y float64) float64
}

func c20ArithOps() []c20AOp {
	return []c20AOp{
		{Name: "abs", Arity: 1, F1: math.Abs},
		{Name: "inc", Arity: 1, F1: func(x float64) float64 { return x + 1 }},
		{Name: "dec", Arity: 1, F1: func(x float64) float64 { return x - 1 }},
		{Name: "sqrt", Arity: 1, F1: math.Sqrt},
		{Name: "cbrt", Arity: 1, F1: math.Cbrt},
		{Name: "exp", Arity: 1, F1: math.Exp},
		{Name: "log", Arity: 1, F1: math.Log},
		{Name: "add", Arity: 2, F2: func(x, y float64) float64 { return x + y }},
		{Name: "sub", Arity: 2, F2: func(x, y float64) float64 { return x - y }},
		{Name: "mul", Arity: 2, F2: func(x, y float64) float64 { return x * y }},
		{Name: "div", Arity: 2, F2: func(x, y float64) float64 { return x / y }},
		{Name: "mod", Arity: 2, F2: math.Mod},
		{Name: "pow", Arity: 2, F2: math.Pow},
		{Name: "min", Arity: 2, F2: math.Min},
		{Name: "max", Arity: 2, F2: math.Max},
	}
}

func c20CarrierKinds() []string {
	base := append(append([]string{}, c20IntKinds...), "float32", "float64", "string", "[]byte")
	out := append([]string{}, base...)
	for _, b := range base {
		out = append(out, "*"+b)
	}
	return out
}

var c20NumTexts = []string{"3.5", "-2", "1e3", "0", "10", "-0.25", "7", "2.5e-3", "+4", "1E2", "-1e-2", "100", "0.1", "16", "3",
	"010", "0017", "08", "007.50", "-012", // zero-padded decimals are decimals
	".5", ".25", "-.5", "+.5", "5.", "-3.", ".5e1", "00", "1_0"[:1] + "0"} // no digit before / after the point

// c20Operand picks a value of the given carrier kind.
func c20Operand(r *Run, name, kind string, salt int) c20Var {
	k := strings.TrimPrefix(kind, "*")
	rng := r.Rng
	switch {
	case strings.Contains(k, "int"):
		lo, hi := c20IntRange(k)
		var t string
		switch salt % 7 {
		case 0:
			t = lo.String()
		case 1:
			t = hi.String()
		case 2:
			t = "0"
		case 3:
			t = strconv.Itoa(1 + rng.Intn(12))
		case 4:
			if k[0] == 'u' {
				t = strconv.Itoa(rng.Intn(256))
			} else {
				t = strconv.Itoa(rng.Intn(256) - 128)
			}
		default:
			// uniformly inside the kind's range
			span := new(big.Int).Sub(hi, lo)
			x := new(big.Int).Rand(rng, span.Add(span, big.NewInt(1)))
			t = x.Add(x, lo).String()
		}
		return c20Var{Name: name, Kind: kind, Text: t}
	case k == "float32":
		var f float32
		switch salt % 5 {
		case 0:
			f = float32(rng.Intn(64)) / 8
		case 1:
			f = -float32(rng.Intn(1000)) / 16
		case 2:
			f = float32(rng.NormFloat64() * 100)
		case 3:
			f = 0
		default:
			f = math.Float32frombits(rng.Uint32())
			if f != f {
				f = 1.5
			}
		}
		return c20Var{Name: name, Kind: kind, Text: c20Hex(float64(f))}
	case k == "float64":
		var f float64
		switch salt % 7 {
		case 0:
			f = float64(rng.Intn(64)) / 8
		case 1:
			f = rng.NormFloat64() * 1000
		case 2:
			f = -float64(rng.Intn(10000)) / 100
		case 3:
			f = 0
		case 4:
			f = math.Float64frombits(rng.Uint64())
			if f != f {
				f = 2.25
			}
		case 5:
			f = []float64{math.MaxFloat64, math.SmallestNonzeroFloat64, 1e308, -1e308, 1 << 53, 0.1, math.Copysign(0, -1)}[rng.Intn(7)]
		default:
			f = float64(rng.Intn(20) - 10)
		}
		return c20Var{Name: name, Kind: kind, Text: c20Hex(f)}
	default: // string, []byte
		var t string
		switch salt % 4 {
		case 0, 1:
			t = c20NumTexts[rng.Intn(len(c20NumTexts))]
		case 2:
			t = strconv.FormatFloat(rng.NormFloat64()*100, 'g', -1, 64)
		default:
			t = strconv.FormatFloat(float64(rng.Intn(2000)-1000)/8, 'f', -1, 64)
		}
		return c20Var{Name: name, Kind: kind, Text: t}
	}
}

func c20Arith(r *Run) {
	ops := c20ArithOps()
	kinds := c20CarrierKinds()
	reps := r.N(4, 10)
	salt := 0
	run := func(op c20AOp, form, tpl string, vars []c20Var, x, y float64) {
		var want float64
		if op.Arity == 1 {
			want = op.F1(x)
		} else {
			want = op.F2(x, y)
		}
		wantS := c20Fmt(want)
		res := c20Render(tpl, vars)
		got := string(res.Out)
		kindsS := vars[0].Kind
		if len(vars) > 1 {
			kindsS += "," + vars[1].Kind
		}
		if strings.Contains(form, "lit") {
			kindsS += ",literal"
		}
		r.Dist["arith.op."+op.Name]++
		r.Dist["arith.form."+form]++
		for _, v := range vars {
			r.Dist["arith.carrier."+v.Kind]++
		}
		key := fmt.Sprintf("a:%s|%s|%s", tpl, kindsS, c20VarsText(vars))
		r.Count(key, true)
		c := c20Case{Stream: "arith", Tpl: tpl, Vars: vars, Want: wantS, Cmp: "float",
			Info: fmt.Sprintf("%s(%v, %v)", op.Name, x, y)}
		if len(r.Samples) < 8 && salt%977 == 5 {
			r.Sample(map[string]any{"stream": "arith", "tpl": tpl, "vars": vars, "want": wantS, "go": got})
		}
		if res.Panic == "" && res.Err == nil && c20Same("float", got, wantS) {
			r.Dist["arith.ok"]++
			return
		}
		kind := "wrong-value"
		switch {
		case res.Panic != "":
			kind = "panic"
		case res.Err != nil:
			kind = "error"
		case got == "":
			kind = "no-result"
		case got == vars[0].Text || c20Same("float", got, c20Fmt(x)) && want != x:
			kind = "unchanged"
		}
		r.Dist["arith.dev."+op.Name+"."+kind]++
		sig := fmt.Sprintf("op=%s form=%s kinds=%s got=%s want=%s kind=%s", op.Name, form, kindsS, c20Short(got), c20Short(wantS), kind)
		what := fmt.Sprintf("{%s} with %s printed %q (%s); %s of the float64 operands %v and %v is %s",
			tpl, c20VarsText(vars), c20Short(got), res.ErrStr(), op.Name, x, y, c20Short(wantS))
		if op.Arity == 1 {
			what = fmt.Sprintf("{%s} with %s printed %q (%s); %s of the float64 operand %v is %s",
				tpl, c20VarsText(vars), c20Short(got), res.ErrStr(), op.Name, x, c20Short(wantS))
		}
		r.Violate(sig, what, c)
	}
	for _, op := range ops {
		if op.Arity == 1 {
			pipe := fmt.Sprintf("{%%= v|math::%s() %%}", op.Name)
			pipe0 := fmt.Sprintf("{%%= v|math::%s %%}", op.Name)
			call := fmt.Sprintf("{%%= math::%s(v) %%}", op.Name)
			for _, kv := range kinds {
				for i := 0; i < 7*reps; i++ {
					salt++
					v := c20Operand(r, "v", kv, salt)
					x, ok := c20Float(v)
					if !ok {
						r.Internal("harness generated a non-numeric operand: " + v.Text)
						continue
					}
					run(op, "pipe", pipe, []c20Var{v}, x, 0)
					run(op, "call", call, []c20Var{v}, x, 0)
					if i == 0 {
						run(op, "pipe-noparens", pipe0, []c20Var{v}, x, 0)
					}
				}
			}
			continue
		}
		pipe := fmt.Sprintf("{%%= v|math::%s(a) %%}", op.Name)
		call := fmt.Sprintf("{%%= math::%s(v, a) %%}", op.Name)
		for _, kv := range kinds {
			for _, ka := range kinds {
				for i := 0; i < reps; i++ {
					salt++
					v := c20Operand(r, "v", kv, salt)
					a := c20Operand(r, "a", ka, salt/7+i)
					x, ok1 := c20Float(v)
					y, ok2 := c20Float(a)
					if !ok1 || !ok2 {
						r.Internal("harness generated a non-numeric operand")
						continue
					}
					run(op, "pipe", pipe, []c20Var{v, a}, x, y)
					run(op, "call", call, []c20Var{v, a}, x, y)
				}
			}
		}
		// literal arguments (digits with an optional sign and fraction: what the parser takes as static)
		for _, lit := range []string{"0", "1", "2", "3", "5.345", "10", "-2", "-0.5", "0.25", "1000000", "0.001"} {
			y, _ := strconv.ParseFloat(lit, 64)
			pl := fmt.Sprintf("{%%= v|math::%s(%s) %%}", op.Name, lit)
			cl := fmt.Sprintf("{%%= math::%s(v, %s) %%}", op.Name, lit)
			ll := fmt.Sprintf("{%%= math::%s(%s, 7) %%}", op.Name, lit)
			for i := 0; i < 4*reps; i++ {
				salt++
				v := c20Operand(r, "v", kinds[(salt*5+i)%len(kinds)], salt)
				x, _ := c20Float(v)
				run(op, "pipe-lit", pl, []c20Var{v}, x, y)
				run(op, "call-lit", cl, []c20Var{v}, x, y)
			}
			run(op, "call-lit-lit", ll, []c20Var{{Name: "unused", Kind: "int", Text: "0"}}, y, 7)
		}
		// the documented zero divisors in every carrier
		if op.Name == "div" || op.Name == "mod" {
			for _, ka := range kinds {
				zero := c20Var{Name: "a", Kind: ka, Text: "0"}
				if strings.Contains(ka, "float") {
					zero.Text = c20Hex(0)
				}
				for _, vt := range []string{"3", "-3", "0"} {
					v := c20Var{Name: "v", Kind: "int", Text: vt}
					x, _ := c20Float(v)
					run(op, "pipe", pipe, []c20Var{v, zero}, x, 0)
					run(op, "call", call, []c20Var{v, zero}, x, 0)
				}
			}
			for _, fr := range []string{"0.5", "0.25", "2.5", "-0.75", "1e-3"} {
				a := c20Var{Name: "a", Kind: "string", Text: fr}
				y, _ := c20Float(a)
				for _, vt := range []string{"7", "7.5", "-7.25", "1e3"} {
					v := c20Var{Name: "v", Kind: "string", Text: vt}
					x, _ := c20Float(v)
					run(op, "pipe", pipe, []c20Var{v, a}, x, y)
					run(op, "call", call, []c20Var{v, a}, x, y)
				}
			}
		}
	}
}

func c20VarsText(vars []c20Var) string {
	var sb strings.Builder
	for i, v := range vars {
		if i > 0 {
			sb.WriteString(", ")
		}
		t := v.Text
		if strings.Contains(v.Kind, "float") {
			if f, err := strconv.ParseFloat(t, 64); err == nil {
				t = strconv.FormatFloat(f, 'g', -1, 64)
			}
		}
		fmt.Fprintf(&sb, "%s=%s(%s)", v.Name, v.Kind, c20Short(t))
	}
	return sb.String()
}

// ---------------------------------------------------------------------------------------------
// (c) operand selection against the Lean model

// c20Shape: N numeric, X non-numeric, - nil.
func c20ShapeVar(name string, sh byte, num string, salt int) c20Var {
	switch sh {
	case 'N':
		kinds := c20CarrierKinds()
		k := kinds[salt%len(kinds)]
		t := num
		if strings.Contains(k, "float") {
			f, _ := strconv.ParseFloat(num, 64)
			t = c20Hex(f)
		}
		return c20Var{Name: name, Kind: k, Text: t}
	case 'X':
		switch salt % 4 {
		case 0:
			return c20Var{Name: name, Kind: "string", Text: "abc"}
		case 1:
			return c20Var{Name: name, Kind: "bool", Text: "true"}
		case 2:
			return c20Var{Name: name, Kind: "[]byte", Text: "1x"}
		}
		return c20Var{Name: name, Kind: "time", Text: "0 0 0 UTC"}
	}
	return c20Var{Name: name, Kind: "missing"}
}

func c20Operands(r *Run) {
	// operand values chosen so that the result identifies the operands and their order:
	// v = 100, a0 = 20, a1 = 3, a2 = 1 — every carrier kind holds them (inc: x+1; sub: f−d; max: the larger of the two)
	nums := map[string]float64{"v": 100, "a0": 20, "a1": 3, "a2": 1}
	type fnSpec struct {
		name, mod string
	}
	fns := []fnSpec{{"any", "inc"}, {"conv2", "sub"}, {"minmax", "max"}}
	shapes := []byte{'N', 'X', '-'}
	var argLists []string
	argLists = append(argLists, "")
	for _, a := range shapes {
		argLists = append(argLists, string([]byte{a}))
		for _, b := range shapes {
			argLists = append(argLists, string([]byte{a, b}))
			for _, c := range shapes {
				argLists = append(argLists, string([]byte{a, b, c}))
			}
		}
	}
	type oc struct {
		fn      fnSpec
		val     byte
		args    string
		form    string
		tpl     string
		vars    []c20Var
		req     string
		valText string
	}
	var cases []oc
	salt := 0
	for _, fn := range fns {
		for _, vs := range shapes {
			for _, al := range argLists {
				for rep := 0; rep < r.N(2, 8); rep++ {
					salt++
					names := []string{"a0", "a1", "a2"}[:len(al)]
					var vars []c20Var
					vv := c20ShapeVar("v", vs, "100", salt)
					vars = append(vars, vv)
					for i, n := range names {
						vars = append(vars, c20ShapeVar(n, al[i], strconv.Itoa(int(nums[n])), salt+3*i+1))
					}
					c := oc{fn: fn, val: vs, args: al}
					if vs == '-' && rep%2 == 0 {
						// function-call form: no value at all
						c.form = "call"
						c.tpl = fmt.Sprintf("{%%= math::%s(%s) %%}", fn.mod, strings.Join(names, ", "))
						if len(names) == 0 {
							continue // `math::inc()` without a pipe is not a modifier call
						}
					} else {
						c.form = "pipe"
						c.tpl = fmt.Sprintf("{%%= v|math::%s(%s) %%}", fn.mod, strings.Join(names, ", "))
					}
					c.vars = vars
					toks := []string{"operands", fn.name, string([]byte{vs})}
					for i := range al {
						toks = append(toks, string([]byte{al[i]}))
					}
					c.req = strings.Join(toks, " ")
					cases = append(cases, c)
				}
			}
		}
	}
	reqs := make([]string, len(cases))
	for i, c := range cases {
		reqs[i] = c.req
	}
	ans := r.Drive(reqs)
	for i, c := range cases {
		model := ""
		if i < len(ans) {
			model = ans[i]
		}
		res := c20Render(c.tpl, c.vars)
		got := string(res.Out)
		r.Dist["operands.fn."+c.fn.name]++
		r.Dist["operands.form."+c.form]++
		r.Count("o:"+c.req+"|"+c.form+"|"+c20VarsText(c.vars), strings.ContainsAny(c.args, "N") || c.val == 'N')
		// what the model's answer means for the rendered text
		var want string
		unchanged := func() string {
			// the value is printed as it is (a missing value prints nothing)
			switch c.vars[0].Kind {
			case "missing":
				return ""
			}
			rr := c20Render("{%= v %}", c.vars[:1])
			return string(rr.Out)
		}
		fs := strings.Fields(model)
		switch {
		case model == "none":
			want = unchanged()
		case model == "poor":
			want = ""
		case len(fs) == 1 && c.fn.name == "any":
			want = c20Fmt(nums[fs[0]] + 1)
		case len(fs) == 2 && c.fn.name == "conv2":
			want = c20Fmt(nums[fs[0]] - nums[fs[1]])
		case len(fs) == 2 && c.fn.name == "minmax":
			want = c20Fmt(math.Max(nums[fs[0]], nums[fs[1]]))
		default:
			r.Internal(fmt.Sprintf("driver answered %q to %q", model, c.req))
			continue
		}
		if res.Panic == "" && got == want {
			r.Dist["operands.ok"]++
			if len(r.Samples) < 10 && i%97 == 3 {
				r.Sample(map[string]any{"stream": "operands", "tpl": c.tpl, "vars": c.vars, "lean_request": c.req, "model": model, "go": got})
			}
			continue
		}
		// Go and the model differ. The property is violated only if numeric operands were available in a documented shape
		// and the arithmetic result is wrong; otherwise it is a tie-break of the model.
		cc := c20Case{Stream: "operands", Tpl: c.tpl, Vars: c.vars, Want: want, Cmp: "text", Info: c.req + " → " + model}
		sig := fmt.Sprintf("operands fn=%s val=%c args=%s form=%s go=%s model=%s", c.fn.name, c.val, c.args, c.form, c20Short(got), model)
		r.Dist["operands.dev"]++
		r.TieBreak("operand selection "+c.fn.name+": "+sig, cc, got+" ("+res.ErrStr()+")", model+" → "+want)
	}
}

// ---------------------------------------------------------------------------------------------
// (d) dates

var c20Globals = []struct{ Name, Layout string }{
	{"time::Layout", clock.Layout}, {"time::ANSIC", clock.ANSIC}, {"time::UnixDate", clock.UnixDate},
	{"time::RubyDate", clock.RubyDate}, {"time::RFC822", clock.RFC822}, {"time::RFC822Z", clock.RFC822Z},
	{"time::RFC850", clock.RFC850}, {"time::RFC1123", clock.RFC1123}, {"time::RFC1123Z", clock.RFC1123Z},
	{"time::RFC3339", clock.RFC3339}, {"time::RFC3339Nano", clock.RFC3339Nano}, {"time::Kitchen", clock.Kitchen},
	{"time::Stamp", clock.Stamp}, {"time::StampMilli", clock.StampMilli}, {"time::StampMicro", clock.StampMicro},
	{"time::StampNano", clock.StampNano},
}

// Layouts as Go's time package writes them: an independent statement of what the 16 names mean is not available
// (the clock library defines them); the harness checks the registered global against the clock constant of the same name.

func c20LiteralLayouts() []string {
	var ls []string
	for _, d := range "yYCmbhBUVWdjwuaAeHkIlLMSpPionNXrRTcDFsvxzZ%" {
		ls = append(ls, "%"+string(d))
	}
	ls = append(ls,
		"%Y-%m-%d %H:%M:%S", "%d %b %y %H:%M %z", "%b %e %H:%M:%S.%N", "%Y-%m-%dT%H:%M:%S.%N%z", "%A %d %B %Y",
		"week %V day %u of %C%y", "%j/%U/%W", "%I:%M:%S %p", "%l.%M%P", "[%s]", "%d.%m.%Y %k h", "%H%M%S%i%o", "%%Y=%Y %%m=%m",
		"no directives at all", "%e %B", "%a %b %e %H:%M:%S %Z %Y", "%F %T", "%D %R", "%v %X", "%c", "%x %r")
	return ls
}

func c20Zones() []*time.Location {
	zs := []*time.Location{time.UTC, time.FixedZone("IST", 5*3600+1800), time.FixedZone("EST", -5*3600),
		time.FixedZone("LINT", 14*3600), time.FixedZone("BIT", -12*3600), time.FixedZone("ODD", 60),
		time.FixedZone("", 3600), time.FixedZone("NST", -(3*3600 + 1800))}
	// zones whose offset changes over the year (and over the years): adding n days is adding n x 24 hours to the
	// INSTANT, whatever the wall clock does in between
	for _, n := range c20DSTZones {
		if loc, err := time.LoadLocation(n); err == nil {
			zs = append(zs, loc)
		}
	}
	return zs
}

var c20DSTZones = []string{"Europe/Moscow", "America/New_York", "Australia/Lord_Howe", "Europe/London", "America/Sao_Paulo"}

// c20SetLocal gives the process a local zone other than UTC (with daylight saving time): an integer carrier is a
// count of Unix seconds, and time.Unix(s, 0) — what the property's oracle formats — is in the LOCAL zone.
func c20SetLocal(r *Run) {
	loc, err := time.LoadLocation("America/New_York")
	if err != nil {
		r.Internal("C20: no zone database: " + err.Error())
		return
	}
	time.Local = loc
}

func c20Instants(r *Run, n int) []time.Time {
	years := []int{1, 99, 999, 1000, 1582, 1899, 1900, 1969, 1970, 1999, 2000, 2001, 2012, 2020, 2024, 2038, 2100, 2400, 9999}
	clocks := [][3]int{{0, 0, 0}, {11, 59, 59}, {12, 0, 0}, {12, 59, 59}, {13, 0, 0}, {23, 59, 59}, {1, 2, 3}, {9, 5, 7}}
	nss := []int{0, 1, 999999999, 123456789, 500000000, 1000, 1000000, 120000000, 100, 999999000, 555}
	zones := c20Zones()
	rng := r.Rng
	var ts []time.Time
	// every month of a leap and a non-leap year, first / last day
	for _, y := range []int{2023, 2024, 1900, 2000} {
		for m := 1; m <= 12; m++ {
			last := time.Date(y, time.Month(m)+1, 0, 0, 0, 0, 0, time.UTC).Day()
			for _, d := range []int{1, last} {
				c := clocks[rng.Intn(len(clocks))]
				ts = append(ts, time.Date(y, time.Month(m), d, c[0], c[1], c[2], nss[rng.Intn(len(nss))], zones[rng.Intn(len(zones))]))
			}
		}
	}
	// leap days
	for _, y := range []int{4, 1600, 1904, 2000, 2024, 2400} {
		ts = append(ts, time.Date(y, 2, 29, 23, 59, 59, 999999999, zones[rng.Intn(len(zones))]))
		ts = append(ts, time.Date(y, 2, 29, 0, 0, 0, 0, zones[rng.Intn(len(zones))]))
	}
	// every weekday, every hour
	for d := 0; d < 7; d++ {
		ts = append(ts, time.Date(2024, 1, 1+d, 6, 30, 0, 0, time.UTC))
	}
	for h := 0; h < 24; h++ {
		ts = append(ts, time.Date(2021, 6, 15, h, 7, 9, 0, zones[h%len(zones)]))
	}
	// week-number corner days
	for _, y := range []int{2015, 2016, 2018, 2020, 2021, 2026} {
		for _, md := range [][2]int{{1, 1}, {1, 2}, {1, 3}, {1, 4}, {12, 28}, {12, 29}, {12, 30}, {12, 31}} {
			ts = append(ts, time.Date(y, time.Month(md[0]), md[1], 12, 0, 0, 0, time.UTC))
		}
	}
	for i := 0; i < n; i++ {
		y := years[rng.Intn(len(years))]
		if i%3 == 0 {
			y = 1 + rng.Intn(9999)
		}
		m := 1 + rng.Intn(12)
		last := time.Date(y, time.Month(m)+1, 0, 0, 0, 0, 0, time.UTC).Day()
		d := []int{1, 15, 28, last, 1 + rng.Intn(last)}[rng.Intn(5)]
		c := clocks[rng.Intn(len(clocks))]
		if i%4 == 0 {
			c = [3]int{rng.Intn(24), rng.Intn(60), rng.Intn(60)}
		}
		ns := nss[rng.Intn(len(nss))]
		if i%5 == 0 {
			ns = rng.Intn(1000000000)
		}
		ts = append(ts, time.Date(y, time.Month(m), d, c[0], c[1], c[2], ns, zones[rng.Intn(len(zones))]))
	}
	return ts
}

// c20Seconds picks Unix-second counts of an integer kind, extremes included.
func c20Seconds(r *Run, kind string, n int) []string {
	lo, hi := c20IntRange(kind)
	out := []string{lo.String(), hi.String(), "0", "1"}
	span := new(big.Int).Sub(hi, lo)
	span.Add(span, big.NewInt(1))
	for i := 0; i < n; i++ {
		x := new(big.Int).Rand(r.Rng, span)
		out = append(out, x.Add(x, lo).String())
		// plausible timestamps where the kind can hold them
		p := big.NewInt(r.Rng.Int63n(4102444800))
		if p.Cmp(hi) <= 0 {
			out = append(out, p.String())
		}
		if kind[0] != 'u' {
			q := big.NewInt(-r.Rng.Int63n(62135596800))
			if q.Cmp(lo) >= 0 {
				out = append(out, q.String())
			}
		}
	}
	if kind == "uint64" || kind == "uint" {
		// beyond MaxInt64: dateConv reinterprets the bits as int64
		out = append(out, "9223372036854775808", "18446744073709551615", "18446744073709465215")
	}
	return out
}

// c20InstantOf is the instant a carrier denotes, computed independently of dateConv.
func c20InstantOf(v c20Var) (time.Time, bool) {
	kind := strings.TrimPrefix(v.Kind, "*")
	switch {
	case kind == "time":
		t, err := c20ParseTime(v.Text)
		return t, err == nil
	case strings.HasPrefix(kind, "int"):
		s, err := strconv.ParseInt(v.Text, 10, 64)
		return time.Unix(s, 0), err == nil
	case strings.HasPrefix(kind, "uint"):
		u, err := strconv.ParseUint(v.Text, 10, 64)
		// Unix seconds are int64; a uint64 above MaxInt64 wraps (two's complement reinterpretation)
		return time.Unix(int64(u), 0), err == nil
	}
	return time.Time{}, false
}

type c20Lay struct {
	Name   string // label for signatures
	Expr   string // what is written as the argument in the template
	Layout string // the layout text the formatter must use
	Var    bool   // layout carried by variable `lay`
}

func c20Layouts() []c20Lay {
	var ls []c20Lay
	for _, g := range c20Globals {
		ls = append(ls, c20Lay{Name: g.Name, Expr: g.Name, Layout: g.Layout})
	}
	for _, l := range c20LiteralLayouts() {
		ls = append(ls, c20Lay{Name: "literal:" + l, Expr: `"` + l + `"`, Layout: l})
	}
	// layouts by variable (commas and parentheses cannot be written in a literal argument)
	for _, l := range []string{"%a, %d %b %Y %H:%M:%S %z", "(%Y) %B|%d", "%A, %d-%b-%y"} {
		ls = append(ls, c20Lay{Name: "var:" + l, Expr: "lay", Layout: l, Var: true})
	}
	ls = append(ls, c20Lay{Name: "default", Expr: "", Layout: clock.Layout})
	return ls
}

func c20DateCarriers() []string {
	out := []string{"time", "*time"}
	for _, k := range c20IntKinds {
		out = append(out, k, "*"+k)
	}
	return out
}

func c20Dates(r *Run) {
	lays := c20Layouts()
	insts := c20Instants(r, r.N(1500, 5000))
	mods := []string{"time::format", "time::date"}
	n := 0
	check := func(lay c20Lay, v c20Var) {
		n++
		mod := mods[n%2]
		var tpl string
		if lay.Expr == "" {
			tpl = fmt.Sprintf("{%%= v|%s() %%}", mod)
			if n%4 < 2 {
				tpl = fmt.Sprintf("{%%= v|%s %%}", mod)
			}
		} else {
			tpl = fmt.Sprintf("{%%= v|%s(%s) %%}", mod, lay.Expr)
		}
		vars := []c20Var{v}
		if lay.Var {
			vars = append(vars, c20Var{Name: "lay", Kind: []string{"string", "[]byte", "*string"}[n%3], Text: lay.Layout})
		}
		inst, ok := c20InstantOf(v)
		if !ok {
			r.Internal("harness built a bad date carrier " + v.Text)
			return
		}
		want, err := clock.FormatString(lay.Layout, inst)
		if err != nil {
			r.Internal("clock.FormatString rejects layout " + lay.Layout)
			return
		}
		res := c20Render(tpl, vars)
		got := string(res.Out)
		r.Dist["date.carrier."+v.Kind]++
		if strings.HasPrefix(lay.Name, "time::") || lay.Name == "default" {
			r.Dist["date.layout."+lay.Name]++
		} else {
			r.Dist["date.layout.literal"]++
		}
		r.Count("d:"+tpl+"|"+v.Kind+"|"+v.Text, true)
		if len(r.Samples) < 12 && n%1499 == 7 {
			r.Sample(map[string]any{"stream": "date", "tpl": tpl, "vars": vars, "want": want, "go": got})
		}
		if res.Panic == "" && res.Err == nil && got == want {
			r.Dist["date.ok"]++
			return
		}
		r.Dist["date.dev"]++
		r.Violate(fmt.Sprintf("date layout=%s carrier=%s got=%s want=%s", lay.Name, v.Kind, c20Short(got), c20Short(want)),
			fmt.Sprintf("{%s} with %s printed %q (%s); the clock formatter gives %q for that instant and layout %q",
				tpl, c20VarsText(vars), got, res.ErrStr(), want, lay.Layout),
			c20Case{Stream: "date", Tpl: tpl, Vars: vars, Want: want, Cmp: "text", Info: lay.Layout})
	}
	// time values: every layout on a rotating share of the instants, every instant with some layouts
	for li, lay := range lays {
		for ti, t := range insts {
			if (ti+li)%r.N(9, 3) != 0 {
				continue
			}
			kind := "time"
			if (ti+li)%2 == 1 {
				kind = "*time"
			}
			check(lay, c20Var{Name: "v", Kind: kind, Text: c20TimeText(t)})
		}
	}
	// integer carriers: Unix seconds
	for _, ik := range c20IntKinds {
		secs := c20Seconds(r, ik, r.N(15, 80))
		for si, s := range secs {
			for li, lay := range lays {
				if (si+li)%r.N(5, 2) != 0 && !strings.HasPrefix(lay.Name, "time::RFC3339") {
					continue
				}
				kind := ik
				if (si+li)%3 == 0 {
					kind = "*" + ik
				}
				check(lay, c20Var{Name: "v", Kind: kind, Text: s})
			}
		}
	}
}

// ---------------------------------------------------------------------------------------------
// time::add

type c20Unit struct {
	Spell string
	D     time.Duration
}

func c20Units() []c20Unit {
	var us []c20Unit
	add := func(d time.Duration, sp ...string) {
		for _, s := range sp {
			us = append(us, c20Unit{s, d})
		}
	}
	add(time.Nanosecond, "nsec", "ns")
	add(time.Microsecond, "usec", "us", "µs")
	add(time.Millisecond, "msec", "ms")
	add(time.Second, "seconds", "second", "sec", "s")
	add(time.Minute, "minutes", "minute", "min", "m")
	add(time.Hour, "hours", "hour", "hr", "h")
	add(24*time.Hour, "days", "day", "d")
	add(7*24*time.Hour, "weeks", "week", "w")
	return us
}

const c20AddLayout = "%Y-%m-%d %H:%M:%S.%N %z %a"

func c20TimeAdd(r *Run) {
	units := c20Units()
	amounts := []int64{1, 2, 3, 7, 10, 24, 59, 60, 61, 100, 365, 999, 1000, 1001, 86400, 99999}
	signs := []string{"+", "-", ""}
	insts := c20Instants(r, r.N(40, 400))
	carriers := c20DateCarriers()
	n := 0
	tag := ""
	check := func(durText string, d time.Duration, v c20Var, byVar bool) {
		n++
		mod := []string{"time::add", "time::date_modify"}[n%2]
		var tpl string
		vars := []c20Var{v}
		if byVar {
			tpl = fmt.Sprintf("{%%= v|%s(dur)|time::date(\"%s\") %%}", mod, c20AddLayout)
			vars = append(vars, c20Var{Name: "dur", Kind: []string{"string", "[]byte", "*string", "*[]byte"}[n%4], Text: durText})
		} else {
			tpl = fmt.Sprintf("{%%= v|%s(\"%s\")|time::date(\"%s\") %%}", mod, durText, c20AddLayout)
		}
		inst, ok := c20InstantOf(v)
		if !ok {
			r.Internal("harness built a bad date carrier " + v.Text)
			return
		}
		sum := inst.Add(d)
		want, _ := clock.FormatString(c20AddLayout, sum)
		res := c20Render(tpl, vars)
		got := string(res.Out)
		r.Dist["add.carrier."+v.Kind]++
		r.Count("t:"+durText+"|"+v.Kind+"|"+v.Text, true)
		if len(r.Samples) < 12 && n%701 == 3 {
			r.Sample(map[string]any{"stream": "time::add", "tpl": tpl, "vars": vars, "duration_ns": int64(d), "want": want, "go": got})
		}
		if res.Panic == "" && res.Err == nil && got == want {
			r.Dist["add.ok"]++
			return
		}
		if tag == "" {
			r.Dist["add.dev"]++
		} else {
			r.Dist["add.dev."+strings.TrimSpace(tag)]++
		}
		r.Violate(fmt.Sprintf("add %sdur=%q carrier=%s got=%s want=%s", tag, durText, v.Kind, c20Short(got), c20Short(want)),
			fmt.Sprintf("{%s} with %s printed %q (%s); instant + %v is %q", tpl, c20VarsText(vars), got, res.ErrStr(), d, want),
			c20Case{Stream: "time::add", Tpl: tpl, Vars: vars, Want: want, Cmp: "text", Info: fmt.Sprintf("%q = %v", durText, d)})
	}
	pickVar := func(i int) c20Var {
		kind := carriers[i%len(carriers)]
		if strings.Contains(kind, "time") {
			return c20Var{Name: "v", Kind: kind, Text: c20TimeText(insts[i%len(insts)])}
		}
		secs := c20Seconds(r, strings.TrimPrefix(kind, "*"), 1)
		// keep the sum inside time.Time's int64 second range: use the plausible timestamps, not the extremes
		s := secs[len(secs)-1]
		if b, ok := new(big.Int).SetString(s, 10); ok && b.BitLen() > 40 {
			s = "1700000000"
		}
		return c20Var{Name: "v", Kind: kind, Text: s}
	}
	i := 0
	for _, u := range units {
		r.Dist["add.unit."+u.Spell]++
		for _, sg := range signs {
			for _, sp := range []string{" ", ""} {
				for ai, a := range amounts {
					if (ai+i)%r.N(4, 1) != 0 {
						i++
						continue
					}
					i++
					if float64(a)*float64(u.D) > 9e18 {
						continue
					}
					d := time.Duration(a) * u.D
					if sg == "-" {
						d = -d
					}
					txt := fmt.Sprintf("%s%d%s%s", sg, a, sp, u.Spell)
					check(txt, d, pickVar(i), false)
					if i%3 == 0 {
						check(txt, d, pickVar(i+1), true)
					}
				}
			}
		}
	}
	// sums of two and three units (one space or none inside a term, one space between terms)
	for j := 0; j < r.N(1500, 5000); j++ {
		k := 2 + j%2
		var parts []string
		var d time.Duration
		for t := 0; t < k; t++ {
			u := units[r.Rng.Intn(len(units))]
			a := int64(1 + r.Rng.Intn(99))
			sp := []string{" ", ""}[r.Rng.Intn(2)]
			parts = append(parts, fmt.Sprintf("%d%s%s", a, sp, u.Spell))
			d += time.Duration(a) * u.D
		}
		sg := signs[j%3]
		if sg == "-" {
			d = -d
		}
		check(sg+strings.Join(parts, " "), d, pickVar(j), j%4 == 0)
	}
	// Edge cases whose root is the clock dependency (clock.Relative): more than one space before a unit or between
	// terms, and a zero amount. They are part of "spacing" / "a duration of fixed-length units", and are reported
	// under their own signatures.
	for i, e := range []struct {
		txt string
		d   time.Duration
		tag string
	}{
		{"1  m", time.Minute, "edge=double-space "},
		{"+2  hours", 2 * time.Hour, "edge=double-space "},
		{"15d  17 h", (15*24 + 17) * time.Hour, "edge=double-space "},
		{"-3 h  4 m", -(3*time.Hour + 4*time.Minute), "edge=double-space "},
		{"0 s", 0, "edge=zero-amount "},
		{"+0 m", 0, "edge=zero-amount "},
		{"1 h 0 m", time.Hour, "edge=zero-amount "},
	} {
		tag = e.tag
		check(e.txt, e.d, pickVar(i), false)
		check(e.txt, e.d, pickVar(i+2), true)
	}
	tag = ""
}

// c20ChainOperand: numeric text handed over by an EARLIER modifier of the same chain (an escape of digits is the
// digits; a formatted time field is a number) is an operand like the same text in a variable: `n|M|math::op(k)` renders
// what `n|math::op(k)` renders, and `t|time::date("%Y")|math::sub(1)` is the year before. A relation on the real engine.
func c20ChainOperand(r *Run) {
	render := func(src string) (rendered, string) {
		key, err, pan := regTpl(src, true)
		if err != nil || pan != "" {
			return rendered{}, fmt.Sprintf("Parse rejects %s: %v %s", src, err, pan)
		}
		ctx := dyntpl.NewCtx()
		ctx.SetString("n", "41")
		ctx.SetString("f", "2.5")
		ctx.SetStatic("t", time.Date(2006, 1, 2, 15, 4, 5, 0, time.UTC))
		return renderSafe(key, ctx), ""
	}
	for _, pair := range [][3]string{{`{%= n|math::inc %}`, `{%= n|htmlEscape|math::inc %}`, "42"}, {`{%= n|math::add(1) %}`, `{%= n|urlEncode|jsonEscape|math::add(1) %}`, "42"},
		{`{%= f|math::mul(2) %}`, `{%= f|attrEscape|math::mul(2) %}`, ""}, {`{%= n|math::mod(12) %}`, `{%= n|cssEscape|math::mod(12) %}`, "5"}, {`{%= n|math::sub(1)|math::abs %}`, `{%= n|jsEscape|math::sub(1)|math::abs %}`, "40"},
		{`2005`, `{%= t|time::date("%Y")|math::sub(1) %}`, "2005"}, {`3`, `{%= t|time::date("%H")|math::mod(12) %}`, "3"}, {`{%= n|math::max(50) %}`, `{%= n|linkEscape|math::max(50) %}`, "50"}} {
		a, ba := render(pair[0])
		b, bb := render(pair[1])
		sig := "chain-operand " + pair[1]
		r.Count(sig, true)
		r.Dist["chain-operand"]++
		if ba != "" || bb != "" || a.ErrStr() != b.ErrStr() || !bytes.Equal(a.Out, b.Out) || (pair[2] != "" && string(b.Out) != pair[2]) {
			r.Violate(sig, "numeric text handed over by an earlier modifier of the chain is not taken as an operand by the arithmetic modifier that follows",
				map[string]any{"reference": pair[0], "chain": pair[1], "reference_output": string(a.Out), "chain_output": string(b.Out), "expected": pair[2], "reference_error": a.ErrStr(), "chain_error": b.ErrStr(), "problem": ba + bb})
		}
	}
}
