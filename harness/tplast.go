package main

import (
	"fmt"
	"strings"
)

// Source-level template AST used by the generators. Source() prints template text; Enc() prints the
// prefix encoding read by the Lean Spec.

type TNode interface {
	Source(sb *strings.Builder)
	Enc(sb *strings.Builder)
}

type Text struct{ S string }
type Comment struct{ S string }

type ModCall struct {
	Name string
	Args []string // as written in the source: literals ("x", 5), variables, {k: v} groups
}

type Print struct {
	Letters string // escape letters before '='
	Path    string
	Mods    []ModCall
	Raw     bool   // |raw
	Pre     string // prefix text
	Suf     string
	PreKW   string // "prefix" | "pfx"
	SufKW   string // "suffix" | "sfx"
}

type Cond struct {
	L, Op, R string // comparison; or
	Hlp      string // helper name (incl. len / cap)
	HlpArgs  []string
	Not      bool // !var form
}

type If struct {
	C       Cond
	Then    []TNode
	Else    []TNode
	HasElse bool
}

// IfOK is {% if v, ok := helper(args).(ins); ok %}…{% else %}…{% endif %} (AsKW: "as ins" spelling; Not: "; !ok").
type IfOK struct {
	Var, OK string
	Hlp     string
	Args    []string
	Ins     string
	AsKW    bool
	Not     bool
	Then    []TNode
	Else    []TNode
	HasElse bool
}

type Ternary struct {
	Letters string
	C       Cond
	T, F    string // printed paths / literals
}

type Case struct {
	C    Cond   // for switch without arg
	Val  string // for switch with arg
	Body []TNode
}

type Switch struct {
	Arg        string
	Cases      []Case
	Default    []TNode
	HasDefault bool
	DefaultAt  int // number of cases written before {% default %} (len(Cases) = the usual last position)
}

type CLoop struct {
	Var, Init, Op, Lim, Step string
	Sep                      string
	SepKW                    string
	Body, Else               []TNode
	HasElse                  bool
}

type RLoop struct {
	Key, Val, Src string
	Sep, SepKW    string
	Body, Else    []TNode
	HasElse       bool
}

type Ctl struct {
	Kind string // break | lazybreak | continue
	N    int
	C    *Cond // "break if …" form
}

type CtxSet struct {
	Var, OK, Src string
	Mods         []ModCall
	As           string
	KW           string // ctx | context
}

type Counter struct {
	Var  string
	Kind string // init | ++ | -- | + | -
	N    int
	KW   string
}

type Include struct {
	Names []string
	Dot   bool
}

type Exit struct{}

type Region struct {
	Kind string // jsonquote | htmlescape | urlencode
	Body []TNode
}

// RegionTag is a single bound tag ({% kind %} or {% endkind %}) on its own: used to write regions that cross
// each other ({% a %}{% b %}…{% enda %}…{% endb %}) — an end tag closes the innermost open tag of its kind.
type RegionTag struct {
	Kind string
	End  bool
}

// Multi is a generator-only splice of several nodes (flattened by gen.block, never printed itself).
type Multi []TNode

func (m Multi) Source(sb *strings.Builder) { srcList(sb, m) }
func (m Multi) Enc(sb *strings.Builder)    { panic("Multi must be flattened") }

func (n RegionTag) Source(sb *strings.Builder) {
	if n.End {
		sb.WriteString("{% end" + n.Kind + " %}")
	} else {
		sb.WriteString("{% " + n.Kind + " %}")
	}
}
func (n RegionTag) Enc(sb *strings.Builder) { sb.WriteString(" rtag " + n.Kind + " " + b01(n.End)) }

func srcList(sb *strings.Builder, ns []TNode) {
	for _, n := range ns {
		n.Source(sb)
	}
}

func (t Text) Source(sb *strings.Builder)    { sb.WriteString(t.S) }
func (t Comment) Source(sb *strings.Builder) { sb.WriteString("{#" + t.S + "#}") }

func modsSrc(mods []ModCall, raw bool) string {
	var sb strings.Builder
	for _, m := range mods {
		sb.WriteString("|" + m.Name)
		if m.Args != nil {
			sb.WriteString("(" + strings.Join(m.Args, ", ") + ")")
		}
	}
	if raw {
		sb.WriteString("|raw")
	}
	return sb.String()
}

func (p Print) Source(sb *strings.Builder) {
	sb.WriteString("{%" + p.Letters + "= " + p.Path + modsSrc(p.Mods, p.Raw))
	if p.Pre != "" {
		sb.WriteString(" " + p.PreKW + " " + p.Pre)
	}
	if p.Suf != "" {
		sb.WriteString(" " + p.SufKW + " " + p.Suf)
	}
	sb.WriteString(" %}")
}

func (c Cond) src() string {
	if c.Hlp != "" {
		s := c.Hlp + "(" + strings.Join(c.HlpArgs, ", ") + ")"
		if c.Op != "" {
			s += " " + c.Op + " " + c.R
		}
		return s
	}
	if c.Not {
		return "!" + c.L
	}
	return c.L + " " + c.Op + " " + c.R
}

func (n If) Source(sb *strings.Builder) {
	sb.WriteString("{% if " + n.C.src() + " %}")
	srcList(sb, n.Then)
	if n.HasElse {
		sb.WriteString("{% else %}")
		srcList(sb, n.Else)
	}
	sb.WriteString("{% endif %}")
}

func (n IfOK) Source(sb *strings.Builder) {
	sb.WriteString("{% if " + n.Var + ", " + n.OK + " := " + n.Hlp + "(" + strings.Join(n.Args, ", ") + ")")
	if n.Ins != "" {
		if n.AsKW {
			sb.WriteString(" as " + n.Ins)
		} else {
			sb.WriteString(".(" + n.Ins + ")")
		}
	}
	sb.WriteString("; ")
	if n.Not {
		sb.WriteString("!")
	}
	sb.WriteString(n.OK + " %}")
	srcList(sb, n.Then)
	if n.HasElse {
		sb.WriteString("{% else %}")
		srcList(sb, n.Else)
	}
	sb.WriteString("{% endif %}")
}

func (n Ternary) Source(sb *strings.Builder) {
	sb.WriteString("{%" + n.Letters + "= " + n.C.src() + " ? " + n.T + " : " + n.F + " %}")
}

func (n Switch) Source(sb *strings.Builder) {
	if n.Arg != "" {
		sb.WriteString("{% switch " + n.Arg + " %}")
	} else {
		sb.WriteString("{% switch %}")
	}
	at := n.DefaultAt
	if at < 0 || at > len(n.Cases) {
		at = len(n.Cases)
	}
	for i, c := range n.Cases {
		if n.HasDefault && i == at {
			sb.WriteString("{% default %}")
			srcList(sb, n.Default)
		}
		if n.Arg != "" {
			sb.WriteString("{% case " + c.Val + " %}")
		} else {
			sb.WriteString("{% case " + c.C.src() + " %}")
		}
		srcList(sb, c.Body)
	}
	if n.HasDefault && at == len(n.Cases) {
		sb.WriteString("{% default %}")
		srcList(sb, n.Default)
	}
	sb.WriteString("{% endswitch %}")
}

func (n CLoop) Source(sb *strings.Builder) {
	sb.WriteString("{% for " + n.Var + " := " + n.Init + "; " + n.Var + " " + n.Op + " " + n.Lim + "; " + n.Var + n.Step)
	if n.Sep != "" {
		sb.WriteString(" " + n.SepKW + " " + n.Sep)
	}
	sb.WriteString(" %}")
	srcList(sb, n.Body)
	if n.HasElse {
		sb.WriteString("{% else %}")
		srcList(sb, n.Else)
	}
	sb.WriteString("{% endfor %}")
}

func (n RLoop) Source(sb *strings.Builder) {
	sb.WriteString("{% for ")
	switch {
	case n.Key != "" && n.Val != "":
		sb.WriteString(n.Key + ", " + n.Val)
	case n.Val != "":
		sb.WriteString("_, " + n.Val)
	default:
		sb.WriteString(n.Key)
	}
	sb.WriteString(" := range " + n.Src)
	if n.Sep != "" {
		sb.WriteString(" " + n.SepKW + " " + n.Sep)
	}
	sb.WriteString(" %}")
	srcList(sb, n.Body)
	if n.HasElse {
		sb.WriteString("{% else %}")
		srcList(sb, n.Else)
	}
	sb.WriteString("{% endfor %}")
}

func (n Ctl) Source(sb *strings.Builder) {
	sb.WriteString("{% " + n.Kind)
	if n.N > 0 {
		sb.WriteString(fmt.Sprintf(" %d", n.N))
	}
	if n.C != nil {
		sb.WriteString(" if " + n.C.src())
	}
	sb.WriteString(" %}")
}

func (n CtxSet) Source(sb *strings.Builder) {
	sb.WriteString("{% " + n.KW + " " + n.Var)
	if n.OK != "" {
		sb.WriteString(", " + n.OK)
	}
	sb.WriteString(" = " + n.Src + modsSrc(n.Mods, false))
	if n.As != "" {
		sb.WriteString(" as " + n.As)
	}
	sb.WriteString(" %}")
}

func (n Counter) Source(sb *strings.Builder) {
	sb.WriteString("{% " + n.KW + " " + n.Var)
	switch n.Kind {
	case "init":
		sb.WriteString(fmt.Sprintf(" = %d", n.N))
	case "++", "--":
		sb.WriteString(n.Kind)
	default:
		sb.WriteString(fmt.Sprintf("%s%d", n.Kind, n.N))
	}
	sb.WriteString(" %}")
}

func (n Include) Source(sb *strings.Builder) {
	if n.Dot {
		sb.WriteString("{% . " + strings.Join(n.Names, " ") + " %}")
	} else {
		sb.WriteString("{% include " + strings.Join(n.Names, " ") + " %}")
	}
}

func (n Exit) Source(sb *strings.Builder) { sb.WriteString("{% exit %}") }

func (n Region) Source(sb *strings.Builder) {
	sb.WriteString("{% " + n.Kind + " %}")
	srcList(sb, n.Body)
	sb.WriteString("{% end" + n.Kind + " %}")
}

func Source(ns []TNode) string {
	var sb strings.Builder
	srcList(&sb, ns)
	return sb.String()
}

// --- encoding for the Lean parser oracle (lean/DyntplV/Ast.lean; prefix, space separated; strings in hex) ---
// Every field that Source() prints is encoded, keyword spellings included.

func encList(sb *strings.Builder, ns []TNode) {
	fmt.Fprintf(sb, " %d", len(ns))
	for _, n := range ns {
		n.Enc(sb)
	}
}
func hs(s string) string { return hx([]byte(s)) }
func encStrs(sb *strings.Builder, ss []string) {
	fmt.Fprintf(sb, " %d", len(ss))
	for _, s := range ss {
		sb.WriteString(" " + hs(s))
	}
}
func encMods(sb *strings.Builder, ms []ModCall) {
	fmt.Fprintf(sb, " %d", len(ms))
	for _, m := range ms {
		sb.WriteString(" " + hs(m.Name) + " " + b01(m.Args != nil))
		encStrs(sb, m.Args)
	}
}
func b01(b bool) string {
	if b {
		return "1"
	}
	return "0"
}
func (c Cond) enc(sb *strings.Builder) {
	sb.WriteString(" " + hs(c.L) + " " + hs(c.Op) + " " + hs(c.R) + " " + hs(c.Hlp))
	encStrs(sb, c.HlpArgs)
	sb.WriteString(" " + b01(c.Not))
}

func (t Text) Enc(sb *strings.Builder)    { sb.WriteString(" text " + hs(t.S)) }
func (t Comment) Enc(sb *strings.Builder) { sb.WriteString(" comment " + hs(t.S)) }
func (p Print) Enc(sb *strings.Builder) {
	sb.WriteString(" print " + hs(p.Letters) + " " + hs(p.Path))
	encMods(sb, p.Mods)
	sb.WriteString(" " + b01(p.Raw) + " " + hs(p.Pre) + " " + hs(p.Suf) + " " + hs(p.PreKW) + " " + hs(p.SufKW))
}
func (n If) Enc(sb *strings.Builder) {
	sb.WriteString(" if")
	n.C.enc(sb)
	encList(sb, n.Then)
	sb.WriteString(" " + b01(n.HasElse))
	encList(sb, n.Else)
}
func (n IfOK) Enc(sb *strings.Builder) {
	sb.WriteString(" ifok " + hs(n.Var) + " " + hs(n.OK) + " " + hs(n.Hlp))
	encStrs(sb, n.Args)
	sb.WriteString(" " + hs(n.Ins) + " " + b01(n.AsKW) + " " + b01(n.Not))
	encList(sb, n.Then)
	sb.WriteString(" " + b01(n.HasElse))
	encList(sb, n.Else)
}

func (n Ternary) Enc(sb *strings.Builder) {
	sb.WriteString(" ternary " + hs(n.Letters))
	n.C.enc(sb)
	sb.WriteString(" " + hs(n.T) + " " + hs(n.F))
}
func (n Switch) Enc(sb *strings.Builder) {
	sb.WriteString(" switch " + hs(n.Arg))
	fmt.Fprintf(sb, " %d", len(n.Cases))
	for _, c := range n.Cases {
		c.C.enc(sb)
		sb.WriteString(" " + hs(c.Val))
		encList(sb, c.Body)
	}
	at := n.DefaultAt
	if at < 0 || at > len(n.Cases) {
		at = len(n.Cases)
	}
	sb.WriteString(" " + b01(n.HasDefault))
	fmt.Fprintf(sb, " %d", at)
	encList(sb, n.Default)
}
func (n CLoop) Enc(sb *strings.Builder) {
	sb.WriteString(" cloop " + hs(n.Var) + " " + hs(n.Init) + " " + hs(n.Op) + " " + hs(n.Lim) + " " + hs(n.Step) + " " + hs(n.Sep) + " " + hs(n.SepKW))
	encList(sb, n.Body)
	sb.WriteString(" " + b01(n.HasElse))
	encList(sb, n.Else)
}
func (n RLoop) Enc(sb *strings.Builder) {
	sb.WriteString(" rloop " + hs(n.Key) + " " + hs(n.Val) + " " + hs(n.Src) + " " + hs(n.Sep) + " " + hs(n.SepKW))
	encList(sb, n.Body)
	sb.WriteString(" " + b01(n.HasElse))
	encList(sb, n.Else)
}
func (n Ctl) Enc(sb *strings.Builder) {
	fmt.Fprintf(sb, " ctl %s %d", n.Kind, n.N)
	if n.C != nil {
		sb.WriteString(" 1")
		n.C.enc(sb)
	} else {
		sb.WriteString(" 0")
	}
}
func (n CtxSet) Enc(sb *strings.Builder) {
	sb.WriteString(" ctxset " + hs(n.Var) + " " + hs(n.OK) + " " + hs(n.Src))
	encMods(sb, n.Mods)
	sb.WriteString(" " + hs(n.As) + " " + hs(n.KW))
}
func (n Counter) Enc(sb *strings.Builder) {
	fmt.Fprintf(sb, " counter %s %s %d %s", hs(n.Var), hs(n.Kind), n.N, hs(n.KW))
}
func (n Include) Enc(sb *strings.Builder) {
	sb.WriteString(" include")
	encStrs(sb, n.Names)
	sb.WriteString(" " + b01(n.Dot))
}
func (n Exit) Enc(sb *strings.Builder) { sb.WriteString(" exit") }
func (n Region) Enc(sb *strings.Builder) {
	sb.WriteString(" region " + n.Kind)
	encList(sb, n.Body)
}

func EncTpl(ns []TNode) string {
	var sb strings.Builder
	sb.WriteString("A")
	encList(&sb, ns)
	return sb.String()
}
