package main

import (
	"bytes"
	"fmt"
	"math"
	"strings"

	"github.com/koykov/dyntpl"
	"github.com/koykov/inspector/testobj_ins"
	"github.com/koykov/x2bytes"
)

// fixed templates that end early or leave per-render state dirty
var c05Fixed = []TplDef{
	{Key: "t_region_exit", Src: `a{% jsonquote %}"q"{%= ss %}{% exit %}z{% endjsonquote %}`, KeepFmt: true},
	// nested counter loops that read the outer counter after the inner loop (the counters' buffer grows on a new
	// context and has room on a reset one), and one counter loop after another
	{Key: "t_nested_cloops", Src: `{% for i := 0; i < 3; i++ %}{% for j := 0; j < 2; j++ %}{% for k := 5; k > 3; k-- %}{%= i %}{%= j %}{%= k %},{% endfor %}{%= j %}{% endfor %}{%= i %};{% endfor %}{% for m := 0; m < 2; m++ %}{%= m %}{% endfor %}`, KeepFmt: true},
	// len() / cap() of names that were set in an earlier use of the context and are not set now (their slots are still there)
	{Key: "t_len_unset", Src: `{% if len(x1) == 0 %}E1{% else %}N1{% endif %}{% if cap(x2) >= 0 %}C2{% endif %}{% if len(bv) == 0 %}EB{% endif %}{% if len(lst) < 1 %}EL{% endif %}{% for i := 0; i < 3; i++ %}{% break if len(ss) == 0 %}.{% endfor %}`, KeepFmt: true},
	// a host whose FIRST output is an include, of a template that writes a little and includes another one (the
	// writers of nested includes live in the context and are reused after Reset; results of Render are the caller's)
	{Key: "t_mid", Src: `m{% include t_readvars %}`, KeepFmt: true},
	{Key: "t_inc_first", Src: `{% include t_mid %}!{% include t_mid %}`, KeepFmt: true},
	// named modifier arguments whose values are variables that come and go between the uses of the context
	{Key: "t_kv", Src: `{%= si|vcat({p: x1, q: "z"}, {r: x2}) %}|{%= bv|vcat({s: bv, t: x1}) %}`, KeepFmt: true},
	{Key: "t_html_open", Src: `{% htmlescape %}<b>{%= ss %}`, KeepFmt: true},
	{Key: "t_url_err", Src: `{% urlencode %}x y{% include nosuch %}{% endurlencode %}`, KeepFmt: true},
	{Key: "t_loop_err", Src: `{% for i := 0; i < 3; i++ %}{%= i %}{% for _, v := range lst %}{%= v %}{% include nosuch %}{% endfor %}{% endfor %}`, KeepFmt: true},
	{Key: "t_loop_break", Src: `{% for i := 0; i < 5; i++ %}{% for k, v := range lst %}{%= k %}{% break 3 %}{% endfor %}{% endfor %}|{%= i %}`, KeepFmt: true},
	{Key: "t_lazy", Src: `{% for k, v := range lst %}{% lazybreak 2 %}{%= v %}{% endfor %}`, KeepFmt: true},
	{Key: "t_rloop_else", Src: `{% for _, v := range lst %}{%= v %}{% else %}EMPTY{% endfor %}`, KeepFmt: true},
	{Key: "t_rloop_else2", Src: `{% for _, h := range user.Finance.History %}{%= h.Cost %};{% else %}NOHIST{% endfor %}`, KeepFmt: true},
	{Key: "t_vars", Src: `{% ctx x1 = "lit" %}{% counter c1 = 5 %}{% counter c1++ %}{%= x1 %}{%= c1 %}{%= x2 %}{%= bv %}`, KeepFmt: true},
	{Key: "t_readvars", Src: `[{%= x1 %}|{%= c1 %}|{%= x2 %}|{%= bv %}|{%= si %}|{%= i %}|{%= k %}|{%= v %}]`, KeepFmt: true},
	{Key: "t_cond", Src: `{% if si == 1 %}one{% else %}other{% endif %}{% if nope.x == 1 %}T{% else %}F{% endif %}{% if bv == "abc" %}B{% endif %}`, KeepFmt: true},
	{Key: "t_inc", Src: `<{% include t_vars %}>{% include t_readvars %}`, KeepFmt: true},
	{Key: "t_defer", Src: `{%= si|vdefer(7) %}{%= si|vacquire(8) %}d`, KeepFmt: true},
	{Key: "t_moderr", Src: `{%= si|vfail() %}{% if vtrue() %}T{% endif %}`, KeepFmt: true},
	{Key: "t_switch", Src: `{% switch si %}{% case 1 %}one{% case 2 %}two{% default %}many{% endswitch %}`, KeepFmt: true},
}

func genSetOp(r *Run) SOp {
	name := pick(r, []string{"si", "ss", "bv", "x1", "x2", "c1", "lst", "user", "sb"})
	switch r.Rng.Intn(7) {
	case 0:
		// (within the int32 range: a code-generated inspector casts the right side of a comparison to the field's
		// width, and these names are compared with int32 fields by the generated templates)
		return SOp{Kind: "static", Name: name, Val: pick(r, []int64{0, 1, -1, 2, 3, 5, 7, 10, 42, -17, 100, 127, 128, 255, 256, 1000, math.MaxInt32, math.MinInt32})}
	case 1:
		return SOp{Kind: "static", Name: name, Val: pick(r, strPool)}
	case 2:
		return SOp{Kind: "bytes", Name: name, Val: []byte(pick(r, strPool))}
	case 3:
		return SOp{Kind: "string", Name: name, Val: pick(r, strPool)}
	case 4:
		// counters only under the counter names: a ctx variable assigned FROM a counter aliases it (known finding
		// F-ctx-alias, probed separately), and the template generator avoids exactly these names as ctx sources
		return SOp{Kind: "counter", Name: pick(r, []string{"c1", "cn"}), Val: r.Rng.Intn(20) - 5}
	case 5:
		n := r.Rng.Intn(4)
		var l []string
		for i := 0; i < n; i++ {
			l = append(l, pick(r, strPool))
		}
		return SOp{Kind: "strs", Name: "lst", Val: l}
	default:
		return SOp{Kind: "obj", Name: "user", Val: genUser(r)}
	}
}

func init() {
	props["C05"] = func(r *Run) {
		r.Rule = "histories of (set variable | render one of 15 fixed templates that end early / leave regions, loops, break depth, deferred lists dirty, or a random template | reset or release+acquire) of length <= 30 on ONE context; " +
			"every render is compared with the Lean model, in which Reset is a new context; after every reset the shape of the context (hook VerifCtxShape) is compared with NewCtx(); byte slices returned by earlier renders are re-compared at the end; " +
			"non-trivial = a history with at least one reset followed by a render; distinct by request"
		var cases []*RCase
		nH := r.N(1500, 40000)
		for h := 0; h < nH; h++ {
			c := &RCase{CheckShape: true, KeepOut: r.Rng.Intn(2) == 0, Pool: r.Rng.Intn(3) == 0, Entries: r.Rng.Intn(2) == 0}
			c.Tpls = append(c.Tpls, c05Fixed...)
			keys := []string{}
			for _, t := range c05Fixed {
				keys = append(keys, t.Key)
			}
			if r.Rng.Intn(2) == 0 {
				rc, _ := genCase(r, GenCfg{MaxDepth: 3, MaxNodes: 12, Loops: true, Ctl: true, BreakN: true, LazyBreak: true, Switch: true, Exit: true, Region: true, CtxSet: true, Counter: true, Mods: true, Defer: true, PreSuf: true})
				for _, t := range rc.Tpls {
					if t.Key == "main" {
						t.Key = "rnd"
					}
					c.Tpls = append(c.Tpls, t)
				}
				keys = append(keys, "rnd")
				c.Ops = append(c.Ops, rc.Ops[:len(rc.Ops)-1]...)
			}
			n := 3 + r.Rng.Intn(28)
			for i := 0; i < n; i++ {
				switch x := r.Rng.Intn(10); {
				case x < 3:
					c.Ops = append(c.Ops, genSetOp(r))
				case x < 8:
					op := SOp{Kind: "render", Key: pick(r, keys)}
					if r.Rng.Intn(6) == 0 {
						op.FailAt = 1 + r.Rng.Intn(4)
					}
					c.Ops = append(c.Ops, op)
				default:
					c.Ops = append(c.Ops, SOp{Kind: "reset"})
				}
			}
			c.Ops = append(c.Ops, SOp{Kind: "reset"}, SOp{Kind: "render", Key: "t_readvars"}, SOp{Kind: "render", Key: "t_rloop_else"})
			cases = append(cases, c)
		}
		// a context that was given NO variable and still has something to clean: a deferred function registered by a
		// render that then failed (it never ran), an object taken from a pool — Reset and the pool's release drop / settle
		// them, the next render on the context (or the next user of the pooled context) starts clean
		for _, pool := range []bool{true, false} {
			for _, first := range []string{`{%= nope|vdefer(7) %}{% include nosuch %}`, `{%= nope|vdefer(7) %}{%= nope|vacquire(8) %}x{% include nosuch %}`, `{%= nope|vacquire(8) %}`} {
				c := &RCase{CheckShape: true, Pool: pool, Meta: map[string]any{"no-variables-dirty-context": first}}
				c.Tpls = append(append([]TplDef(nil), c05Fixed...), TplDef{Key: "t_dirty", Src: first, KeepFmt: true}, TplDef{Key: "t_plain", Src: `hello`, KeepFmt: true})
				c.Ops = []SOp{{Kind: "render", Key: "t_dirty"}, {Kind: "reset"}, {Kind: "render", Key: "t_plain"}, {Kind: "render", Key: "t_dirty", FailAt: 1}, {Kind: "reset"}, {Kind: "render", Key: "t_plain"}, {Kind: "render", Key: "t_readvars"}}
				cases = append(cases, c)
				r.Dist["no-variables-dirty-context"]++
			}
		}
		runSessions(r, cases, func(c *RCase, i int, g, m string) string {
			if w := outputDiffers(c, i, g, m); w != "" {
				return "on a reused context: " + w
			}
			_, _, _, gl, _ := resultFields(g)
			_, _, _, ml, _ := resultFields(m)
			if gl != ml {
				return fmt.Sprintf("event log %s differs from the reference %s", gl, ml)
			}
			return ""
		})
		c05GoOnly(r)
	}

	props["C15"] = func(r *Run) {
		r.Rule = "histories of assignments to a small set of names through Set / SetStatic / SetBytes / SetString / SetCounter and through {% ctx %} (literal, variable, modifier source, ok-flag), {% counter %} init/++/--/+n/-n and loop bindings, " +
			"interleaved with reads as print, condition operand and modifier argument, on ONE context without reset; compared with the Lean model (variables = association list, latest assignment wins); the known aliasing finding (ctx variable assigned from a counter) is probed separately"
		var cases []*RCase
		for h := 0; h < r.N(2500, 60000); h++ {
			c := &RCase{}
			n := 2 + r.Rng.Intn(8)
			env := genEnv(r)
			c.Ops = append(c.Ops, env.Ops...)
			for i := 0; i < n; i++ {
				if r.Rng.Intn(3) == 0 {
					c.Ops = append(c.Ops, genSetOp(r))
					continue
				}
				rc, _ := genCaseEnv(r, GenCfg{MaxDepth: 2, MaxNodes: 8, Loops: true, CtxSet: true, Counter: true, Mods: true, Helpers: true}, env)
				key := fmt.Sprintf("t%d", i)
				for _, t := range rc.Tpls {
					if t.Key == "main" {
						t.Key = key
					}
					c.Tpls = append(c.Tpls, t)
				}
				c.Ops = append(c.Ops, SOp{Kind: "render", Key: key})
			}
			c.Tpls = append(c.Tpls, TplDef{Key: "read", Src: `[{%= x1 %}|{%= x2 %}|{%= c1 %}|{%= cn %}|{%= si %}|{%= bv %}|{%= ok1 %}|{%= bv|default(x1) %}|{% if x1 == "lit" %}L{% endif %}{% if c1 > 3 %}G{% endif %}]`, KeepFmt: true})
			c.Ops = append(c.Ops, SOp{Kind: "render", Key: "read"})
			cases = append(cases, c)
		}
		// enumerated: assignments to a loop variable inside its body (ctx tag, counter tag, inner loop of the same
		// name) — the variable reads the assigned value until the next iteration binds it again
		for _, open_ := range []string{"{% for i := 0; i < 3; i++ %}", "{% for i := 2; i >= 0; i-- %}", "{% for i, e := range lst %}"} {
			for _, asg := range []string{`{% ctx i = 2 %}`, `{% ctx i = "x" %}`, `{% ctx i = si %}`, `{% counter i = 7 %}`, `{% for i := 5; i < 6; i++ %}.{% endfor %}`, ``} {
				for _, nested := range []bool{false, true} {
					body := "[" + "{%= i %}" + asg + "{%= i %}" + "{% if i == 2 %}=2{% endif %}" + "]"
					src := open_ + body + "{% endfor %}|{%= i %}"
					if nested {
						src = "{% for k := 0; k < 2; k++ %}" + open_ + body + "{% endfor %}{%= k %};{% endfor %}|{%= i %}"
					}
					c := &RCase{Tpls: []TplDef{{Key: "main", Src: src, KeepFmt: true}}, Meta: map[string]any{"loop-var-assignment": asg}}
					c.Ops = []SOp{{Kind: "strs", Name: "lst", Val: []string{"p", "q", "r"}}, {Kind: "static", Name: "si", Val: int64(9)}, {Kind: "render", Key: "main"}, {Kind: "render", Key: "main"}}
					cases = append(cases, c)
					r.Dist["loop-var-assignment"]++
				}
			}
		}
		// a counter loop that makes NO iteration still assigns its variable (the initial value): read in the for-else
		// branch and after the loop, whatever the name held before
		for _, pre := range []SOp{{Kind: "static", Name: "zz", Val: int64(0)}, {Kind: "string", Name: "i", Val: "old"}, {Kind: "counter", Name: "i", Val: 77}, {Kind: "static", Name: "i", Val: int64(-1)}} {
			for _, hdr := range []string{`{% for i := 5; i < 3; i++ %}`, `{% for i := 2; i > 4; i-- %}`, `{% for i := n; i < 0; i++ %}`, `{% for i := 0; i != 0; i++ %}`} {
				src := `[{%= i %}]` + hdr + `body{% else %}E{%= i %}{% if i == 5 %}five{% endif %}{% endfor %}[{%= i %}]{% if i == 2 %}two{% endif %}{% if i == 9 %}nine{% endif %}{% for j := 0; j < 2; j++ %}{%= i %}{%= j %}{% endfor %}`
				c := &RCase{Tpls: []TplDef{{Key: "main", Src: src, KeepFmt: true}}, Meta: map[string]any{"zero-iteration-loop-variable": hdr, "before": pre.Desc()}}
				c.Ops = []SOp{pre, {Kind: "static", Name: "n", Val: int64(9)}, {Kind: "render", Key: "main"}, {Kind: "render", Key: "main"}}
				cases = append(cases, c)
				r.Dist["zero-iteration-loop-variable"]++
			}
		}
		// two (three) renders of DIFFERENT templates on one context without Reset: the loop variables the first one left
		// keep their values while the second one runs its own loops and reads them
		for _, first := range []string{`{% for i := 0; i < 3; i++ %}.{% endfor %}`, `{% for i := 0; i < 2; i++ %}{% for q := 5; q > 3; q-- %}.{% endfor %}{% endfor %}`, `{% for k, e := range lst %}{% for i := 0; i < 3; i++ %}.{% endfor %}{% endfor %}`} {
			for _, second := range []string{`{% for j := 7; j < 9; j++ %}[{%= i %}/{%= j %}]{% endfor %}{% if i == 3 %}Y{% else %}N{% endif %}`, `[{%= i %}]{% for j := 0; j < 2; j++ %}{% for l := 0; l < 2; l++ %}{%= i %}{% endfor %}{% endfor %}[{%= i %}{%= q %}]`,
				`{% counter c = 4 %}{% for j := 10; j < 12; j++ %}{% counter c++ %}{%= i %}{% endfor %}[{%= c %}{%= i %}{%= j %}]`} {
				c := &RCase{Tpls: []TplDef{{Key: "first", Src: first, KeepFmt: true}, {Key: "second", Src: second, KeepFmt: true}}, Meta: map[string]any{"renders-without-reset": first, "second": second}}
				c.Ops = []SOp{{Kind: "strs", Name: "lst", Val: []string{"a", "b"}}, {Kind: "render", Key: "first"}, {Kind: "render", Key: "second"}, {Kind: "render", Key: "second"}, {Kind: "render", Key: "first"}, {Kind: "render", Key: "second"}}
				cases = append(cases, c)
				r.Dist["renders-without-reset"]++
			}
		}
		runSessions(r, cases, outputDiffers)
		// one counter loop after another, then reads of BOTH loop variables (each keeps its own last value); a step of zero
		for _, src := range []string{`{% for i := 0; i < 3; i++ %}a{% endfor %}[{%= i %}]{% for j := 0; j < 2; j++ %}b{% endfor %}[{%= i %}][{%= j %}]{% if i == 3 %}I{% endif %}{% if j == 2 %}J{% endif %}`,
			`{% for i := 0; i < 2; i++ %}{% for j := 5; j > 3; j-- %}.{% endfor %}[{%= i %}{%= j %}]{% endfor %}{% for k := 0; k < 1; k++ %}{% endfor %}[{%= i %}|{%= j %}|{%= k %}]`,
			`{% counter c = 6 %}[{%= c %}]{% counter c+0 %}[{%= c %}]{% counter c-0 %}[{%= c %}]{% counter c-10 %}[{%= c %}]{% counter c+1 %}[{%= c %}]`} {
			c := &RCase{Tpls: []TplDef{{Key: "main", Src: src, KeepFmt: true}}, Meta: map[string]any{"successive-loops-and-zero-steps": src}}
			c.Ops = []SOp{{Kind: "render", Key: "main"}, {Kind: "render", Key: "main"}}
			cases2 := []*RCase{c}
			runSessions(r, cases2, outputDiffers)
			r.Dist["successive-loops"]++
		}
		// two names given the SAME Go pointer by the caller: a counter tag on one of them changes neither the other name
		// nor the caller's variable (the counter owns its value from then on)
		{
			xi, xl, xb := 5, int64(5), int32(5) // (signed kinds: a counter tag reads an unsigned value as 0 — ConvInt, mirrored in the model)
			for pi, ptr := range []any{&xi, &xl, &xb} {
				key, err, pan := regTpl(`{% counter n++ %}[{%= n %}|{%= m %}]{% counter m-2 %}[{%= n %}|{%= m %}]{% counter n+10 %}[{%= n %}|{%= m %}]`, true)
				if err != nil || pan != "" {
					r.Internal("C15 shared-pointer template does not parse")
					break
				}
				ctx := dyntpl.NewCtx()
				ctx.SetStatic("n", ptr)
				ctx.SetStatic("m", ptr)
				res := renderSafe(key, ctx)
				caller := fmt.Sprint(xi, xl, xb)
				r.Count(fmt.Sprintf("shared-pointer:%d", pi), true)
				r.Dist["shared-pointer"]++
				if res.Panic != "" || res.Err != nil || string(res.Out) != "[6|5][6|3][16|3]" || caller != "5 5 5" {
					r.Violate(fmt.Sprintf("shared-pointer kind=%T out=%s caller=%s", ptr, res.Out, caller), "two variables set from the same pointer: a counter tag on one of them changed the other one or the caller's variable",
						map[string]any{"pointer_type": fmt.Sprintf("%T", ptr), "output": string(res.Out), "expected": "[6|5][6|3][16|3]", "callers_values_after": caller, "error": res.ErrStr(), "panic": res.Panic})
				}
			}
		}
		loopVarNames(r)
		c15Readers(r)
		// known finding probe: a ctx variable assigned from a counter aliases the counter's storage
		probe := &RCase{Tpls: []TplDef{{Key: "p", Src: `{% counter cn = 1 %}{% ctx x = cn %}{% counter cn++ %}{%= x %}`, KeepFmt: true}},
			// four variables first, so that the slot array is not re-allocated when x is appended (the aliasing is capacity dependent)
			Ops: []SOp{{Kind: "static", Name: "a1", Val: int64(1)}, {Kind: "static", Name: "a2", Val: int64(1)}, {Kind: "static", Name: "a3", Val: int64(1)},
				{Kind: "static", Name: "a4", Val: int64(1)}, {Kind: "render", Key: "p"}}}
		probe.Run()
		if len(probe.GoRes) == 1 {
			r.Count("probe:ctx-alias", true)
			_, out, _, _, _ := resultFields(probe.GoRes[0])
			if string(out) != "1" {
				r.Violate("ctx-alias counter go="+string(out), "a ctx variable assigned from a counter changed when the counter was incremented: printed "+string(out)+" instead of 1", probe.Describe())
			}
		}
	}
}

// c15Readers: the PUBLIC readers of a context follow the latest assignment too (a relation on the real engine alone):
// after every pair of assignments to one name through any two of the setters / tags, Ctx.GetCounter is the counter's
// value iff the latest assignment made the name a counter (0 otherwise) and the text of Ctx.Get is what {%= name %}
// prints. And a variable NAME for which a variable-inspector pair is registered (RegisterVarInsPair) behaves like any
// other name when the ctx tag names its type explicitly.
func c15Readers(r *Run) {
	type asg struct {
		desc    string
		do      func(c *dyntpl.Ctx) bool // false: could not be done
		counter int                      // value if the name is a counter afterwards, -1 otherwise
	}
	tplOf := map[string]string{}
	viaTpl := func(src string) func(c *dyntpl.Ctx) bool {
		return func(c *dyntpl.Ctx) bool {
			k, ok := tplOf[src]
			if !ok {
				key, err, pan := regTpl(src, true)
				if err != nil || pan != "" {
					return false
				}
				k = key
				tplOf[src] = k
			}
			res := renderSafe(k, c)
			return res.Err == nil && res.Panic == ""
		}
	}
	asgs := []asg{
		{`SetCounter(n, 7)`, func(c *dyntpl.Ctx) bool { c.SetCounter("n", 7); return true }, 7},
		{`{% counter n = 5 %}`, viaTpl(`{% counter n = 5 %}`), 5},
		{`{% counter n = 5 %}{% counter n++ %}`, viaTpl(`{% counter n = 5 %}{% counter n++ %}`), 6},
		{`SetString(n, "abc")`, func(c *dyntpl.Ctx) bool { c.SetString("n", "abc"); return true }, -1},
		{`SetBytes(n, "xy")`, func(c *dyntpl.Ctx) bool { c.SetBytes("n", []byte("xy")); return true }, -1},
		{`SetStatic(n, 42)`, func(c *dyntpl.Ctx) bool { c.SetStatic("n", 42); return true }, -1},
		{`{% ctx n = "lit" %}`, viaTpl(`{% ctx n = "lit" %}`), -1},
		{`{% ctx n = src %}`, viaTpl(`{% ctx n = src %}`), -1},
		{`{% for n := 0; n < 2; n++ %}{% endfor %}`, viaTpl(`{% for n := 0; n < 2; n++ %}{% endfor %}`), -1},
		{`SetString(n, "")`, func(c *dyntpl.Ctx) bool { c.SetString("n", ""); return true }, -1},
	}
	printKey, err, pan := regTpl(`{%= n %}`, true)
	if err != nil || pan != "" {
		r.Internal("C15 readers: print template does not parse")
		return
	}
	text := func(v any) string {
		if v == nil {
			return ""
		}
		b, err := x2bytes.ToBytes(nil, v)
		if err != nil {
			return "?" + err.Error()
		}
		return string(b)
	}
	for _, a := range asgs {
		for _, b := range asgs {
			ctx := dyntpl.NewCtx()
			ctx.SetString("src", "from-src")
			if !a.do(ctx) || !b.do(ctx) {
				r.Internal("C15 readers: an assignment could not be made: " + a.desc + " ; " + b.desc)
				continue
			}
			wantC := 0
			if b.counter >= 0 {
				wantC = b.counter
			}
			gotC := ctx.GetCounter("n")
			gotV := text(ctx.Get("n"))
			printed := renderSafe(printKey, ctx)
			sig := "readers " + a.desc + " ; " + b.desc
			r.Count(sig, true)
			r.Dist["public-readers"]++
			if gotC != wantC || gotV != string(printed.Out) {
				r.Violate(sig, "after two assignments to one name the public readers do not follow the latest one (Ctx.GetCounter: the counter's value iff the name is a counter now; Ctx.Get: what the print tag prints)",
					map[string]any{"first": a.desc, "second": b.desc, "GetCounter": gotC, "expected_GetCounter": wantC, "Get_text": gotV, "print_tag_output": string(printed.Out)})
			}
		}
	}
	// a name with a registered variable-inspector pair, assigned with an explicit type
	for _, form := range []string{`{% ctx NAME = user.Cost as static %}[{%= NAME %}]{% if NAME == 12.5 %}eq{% else %}ne{% endif %}[{%= e|default(NAME) %}]`,
		`{% ctx NAME, ok = user.Status.(static) %}[{%= NAME %}|{%= ok %}]{% if NAME >= 78 %}ge{% endif %}`, `{% ctx NAME = user.Id as static %}[{%= NAME %}]{% if NAME == "115" %}id{% endif %}`,
		`{% ctx NAME = user.Finance %}[{%= NAME.Balance %}]`} {
		var outs [2]rendered
		bad := ""
		for k, name := range []string{"vpairvar", "vplainvar"} {
			key, err, pan := regTpl(strings.ReplaceAll(form, "NAME", name), true)
			if err != nil || pan != "" {
				bad = fmt.Sprintf("Parse rejects the form with %s: %v %s", name, err, pan)
				break
			}
			ctx := dyntpl.NewCtx()
			ctx.Set("user", (UserSpec{Id: "115", Status: 78, Cost: 12.5, HasFinance: true, Balance: 9000.5}).Build(), testobj_ins.TestObjectInspector{})
			ctx.SetString("e", "")
			outs[k] = renderSafe(key, ctx)
		}
		sig := "var-ins-pair-name " + form
		r.Count(sig, true)
		r.Dist["var-ins-pair-name"]++
		if strings.HasPrefix(form, "{% ctx NAME = user.Finance %}") {
			// (no explicit type: the pair supplies the inspector for vpairvar only — the two names legitimately differ)
			if outs[0].Err != nil || string(outs[0].Out) != "[9000.5]" {
				r.Violate(sig, "a name with a registered variable-inspector pair does not get the pair's inspector when the ctx tag names no type",
					map[string]any{"form": form, "output": string(outs[0].Out), "expected": "[9000.5]", "error": outs[0].ErrStr()})
			}
			continue
		}
		if bad != "" || outs[0].ErrStr() != outs[1].ErrStr() || !bytes.Equal(outs[0].Out, outs[1].Out) {
			r.Violate(sig, "a variable whose NAME has a registered variable-inspector pair reads differently from a variable of another name although the ctx tag names the type explicitly",
				map[string]any{"form": form, "pair_name": "vpairvar (RegisterVarInsPair(\"vpairvar\", TestFinanceInspector))", "output": string(outs[0].Out), "other_name_output": string(outs[1].Out), "error": outs[0].ErrStr(), "other_name_error": outs[1].ErrStr(), "problem": bad})
		}
	}
}
