package main

import (
	"errors"
	"fmt"
	"io"
	"math"
	"reflect"
	"strconv"
	"strings"
	"sync"

	"github.com/koykov/dyntpl"
	"github.com/koykov/inspector"
	"github.com/koykov/inspector/testobj"
	"github.com/koykov/inspector/testobj_ins"
	"github.com/koykov/x2bytes"
)

// ---- event log shared by harness-registered modifiers, pool and deferred functions ----

var (
	evMu  sync.Mutex
	evLog []string
)

func evReset() { evMu.Lock(); evLog = evLog[:0]; evMu.Unlock() }
func evAdd(s string) {
	evMu.Lock()
	evLog = append(evLog, s)
	evMu.Unlock()
}
func evStr() string {
	evMu.Lock()
	defer evMu.Unlock()
	if len(evLog) == 0 {
		return "-"
	}
	return strings.Join(evLog, ",")
}

// Two pools: an object taken for tag t comes from "vpool" (t even) or "vpool2" (t odd) and remembers its home.
// The Lean model logs one release event per acquired object; an object handed to the other pool is logged
// differently, so it shows as a divergence of the event log.
type vobj struct {
	tag   int
	home  string
	inUse bool // set when a render takes the object, cleared by the pool's Reset: an object must come back CLEAN
}
type vpool struct{ name string }

func (p vpool) Get() any { return &vobj{tag: -1, home: p.name} }
func (p vpool) Put(x any) {
	if o, ok := x.(*vobj); ok {
		if o.home != p.name {
			evAdd(fmt.Sprintf("wrongpool%d", o.tag))
			return
		}
		if o.inUse {
			// the object is handed back to the pool BEFORE it was reset: whoever takes it next gets a dirty object, or
			// has it wiped under its hands by the late Reset (C18: settled exactly once means reset, THEN put)
			evAdd(fmt.Sprintf("dirtyput%d", o.tag))
			return
		}
		evAdd(fmt.Sprintf("rel%d", o.tag))
	}
}
func (vpool) Reset(x any) {
	if o, ok := x.(*vobj); ok {
		o.inUse = false
	}
}

// vbufPool: a pool of *[]byte objects (the shape of the repository's own test pool).
type vbufPool struct{}

func (vbufPool) Get() any { b := make([]byte, 0, 16); return &b }
func (vbufPool) Put(x any) {
	if b, ok := x.(*[]byte); ok {
		evAdd(fmt.Sprintf("putbuf%d", len(*b)))
	}
}
func (vbufPool) Reset(x any) {
	if b, ok := x.(*[]byte); ok {
		evAdd(fmt.Sprintf("resetbuf%d", len(*b)))
		*b = (*b)[:0]
	}
}

var verifFallbackOnce sync.Once

// verifFallbackKey: a registered template that no generated session names; it renders a marker.
func verifFallbackKey() string {
	verifFallbackOnce.Do(func() {
		tr, err := dyntpl.Parse([]byte("<<FALLBACK>>"), false)
		if err != nil {
			panic(err)
		}
		dyntpl.RegisterTplKey("verif-fallback-marker", tr)
	})
	return "verif-fallback-marker"
}

func vpoolOf(tag int) string {
	if tag%2 != 0 {
		return "vpool2"
	}
	return "vpool"
}

func argText(a any) string {
	if kv, ok := a.(*dyntpl.KV); ok {
		b, err := x2bytes.ToBytes(nil, kv.V)
		if err != nil {
			b = []byte("?")
		}
		return string(kv.K) + "=" + string(b)
	}
	b, err := x2bytes.ToBytes(nil, a)
	if err != nil {
		return "?"
	}
	return string(b)
}

func argInt(args []any) (int, bool) {
	if len(args) == 0 {
		return 0, false
	}
	b, err := x2bytes.ToBytes(nil, args[0])
	if err != nil {
		return 0, false
	}
	n, err := strconv.Atoi(string(b))
	return n, err == nil
}

var errUserFail = errors.New("vfail")

func init() {
	_ = testobj_ins.TestObjectInspector{}
	dyntpl.RegisterModFn("vcat", "", func(ctx *dyntpl.Ctx, buf *any, val any, args []any) error {
		b, err := x2bytes.ToBytes(nil, val)
		if err != nil {
			b = []byte("?")
		}
		parts := make([]string, len(args))
		for i, a := range args {
			parts[i] = argText(a)
		}
		ctx.BufModStrOut(buf, string(b)+"["+strings.Join(parts, ",")+"]")
		return nil
	})
	dyntpl.RegisterModFn("vdefer", "", func(ctx *dyntpl.Ctx, buf *any, val any, args []any) error {
		if t, ok := argInt(args); ok {
			evAdd(fmt.Sprintf("reg%d", t))
			ctx.Defer(func() error { evAdd(fmt.Sprintf("ran%d", t)); return nil })
		}
		return nil
	})
	dyntpl.RegisterModFn("vdefer2", "", func(ctx *dyntpl.Ctx, buf *any, val any, args []any) error {
		// a deferred function that defers another one while the list is being run (Go-only checks of C18)
		if t, ok := argInt(args); ok {
			evAdd(fmt.Sprintf("reg%d", t))
			ctx.Defer(func() error {
				evAdd(fmt.Sprintf("ran%d", t))
				ctx.Defer(func() error { evAdd(fmt.Sprintf("ran%d", t+1000)); return nil })
				return nil
			})
		}
		return nil
	})
	dyntpl.RegisterModFn("vgrow", "", func(ctx *dyntpl.Ctx, buf *any, val any, args []any) error {
		// takes a byte buffer from the pool "vbuf" and grows it to n bytes (Go-only checks of C18)
		if n, ok := argInt(args); ok {
			x, err := ctx.AcquireFrom("vbuf")
			if err != nil {
				return err
			}
			b := x.(*[]byte)
			*b = append((*b)[:0], make([]byte, n)...)
			evAdd(fmt.Sprintf("acqbuf%d", n))
		}
		return nil
	})
	dyntpl.RegisterModFn("vdeferfail", "", func(ctx *dyntpl.Ctx, buf *any, val any, args []any) error {
		// a deferred function that fails (not part of the Lean model's class: used by the C13 sequences only)
		ctx.Defer(func() error { return errUserFail })
		return nil
	})
	dyntpl.RegisterModFn("vacquire", "", func(ctx *dyntpl.Ctx, buf *any, val any, args []any) error {
		if t, ok := argInt(args); ok {
			x, err := ctx.AcquireFrom(vpoolOf(t))
			if err != nil {
				return err
			}
			x.(*vobj).tag = t
			x.(*vobj).inUse = true
			evAdd(fmt.Sprintf("acq%d", t))
		}
		return nil
	})
	// vletters: keeps the ASCII letters of the value and hands the result back in one of the context's PUBLIC buffers
	// (*buf = &ctx.Buf), as a user's modifier may (Go-only checks of C11)
	dyntpl.RegisterModFn("vletters", "", func(ctx *dyntpl.Ctx, buf *any, val any, args []any) error {
		ctx.Buf.Reset()
		b, err := x2bytes.ToBytes(nil, val)
		if err != nil {
			return err
		}
		for _, c := range b {
			if c >= 'a' && c <= 'z' || c >= 'A' && c <= 'Z' {
				ctx.Buf.WriteByte(c)
			}
		}
		*buf = &ctx.Buf
		return nil
	})
	// vacqbad: asks the context for an object of a pool that is not registered (the error goes back to the print tag)
	dyntpl.RegisterModFn("vacqbad", "", func(ctx *dyntpl.Ctx, buf *any, val any, args []any) error {
		_, err := ctx.AcquireFrom("vnosuchpool")
		evAdd("acqbad")
		return err
	})
	// vpeek: looks ANOTHER variable up through the public Ctx.Get and leaves its own value alone (Go-only checks of C11)
	dyntpl.RegisterModFn("vpeek", "", func(ctx *dyntpl.Ctx, buf *any, val any, args []any) error {
		_ = ctx.Get("w")
		_ = ctx.Get("nosuchvar.x")
		return nil
	})
	dyntpl.RegisterModFn("vfail", "", func(ctx *dyntpl.Ctx, buf *any, val any, args []any) error { return errUserFail })
	dyntpl.RegisterCondFn("veq", func(ctx *dyntpl.Ctx, args []any) bool {
		if len(args) < 2 {
			return false
		}
		a, e1 := x2bytes.ToBytes(nil, args[0])
		b, e2 := x2bytes.ToBytes(nil, args[1])
		if e1 != nil || e2 != nil {
			return (e1 != nil) == (e2 != nil)
		}
		return string(a) == string(b)
	})
	// vyes / vns::<name>: one function (true iff the text of the first argument is "yes") under a plain name and, through
	// RegisterCondFnNS, under base names that look like built-ins (Go-only checks of C02)
	vyes := func(ctx *dyntpl.Ctx, args []any) bool {
		if len(args) == 0 {
			return false
		}
		b, err := x2bytes.ToBytes(nil, args[0])
		return err == nil && string(b) == "yes"
	}
	dyntpl.RegisterCondFn("vyes", vyes)
	for _, n := range []string{"len", "cap", "lenEq0", "veq", "default"} {
		dyntpl.RegisterCondFnNS("vns", n, vyes)
	}
	// registrations through the namespaced / aliased entry points (Go-only checks of C11, C18, C19)
	dyntpl.RegisterGlobal("vgplain", "vgalias", "G<1>")
	dyntpl.RegisterGlobalNS("vg", "greeting", "hi", "G<2>")
	dyntpl.RegisterGlobalNS("vnamespace_longer_than_thirty_two_bytes", "globalWithAnEquallyLongName", "", "GL")
	vcatFn := dyntpl.GetModFn("vcat")
	dyntpl.RegisterModFnNS("vns", "cat", "c", vcatFn)
	dyntpl.RegisterModFn("vcatplain", "vcp", vcatFn)
	dyntpl.RegisterModFnNS("vnamespace_longer_than_thirty_two_bytes", "modifierWithAnEquallyLongName", "", func(ctx *dyntpl.Ctx, buf *any, val any, args []any) error { return nil })
	dyntpl.RegisterCondFnNS("vnamespace_longer_than_thirty_two_bytes", "helperWithAnEquallyLongName", func(ctx *dyntpl.Ctx, args []any) bool { return len(args) > 0 })
	// vdeferc(tag): a CONDITION helper that defers a function (true)
	dyntpl.RegisterCondFn("vdeferc", func(ctx *dyntpl.Ctx, args []any) bool {
		if t, ok := argInt(args); ok {
			evAdd(fmt.Sprintf("regc%d", t))
			ctx.Defer(func() error { evAdd(fmt.Sprintf("ranc%d", t)); return nil })
		}
		return true
	})
	dyntpl.RegisterVarInsPair("vpairvar", testobj_ins.TestFinanceInspector{})
	dyntpl.RegisterCondFn("vtrue", func(ctx *dyntpl.Ctx, args []any) bool { return true })
	dyntpl.RegisterCondFn("vfalse", func(ctx *dyntpl.Ctx, args []any) bool { return false })
	// vok(a, …): the text of the first argument as a byte string, ok iff it is non-empty
	dyntpl.RegisterCondOKFn("vok", func(ctx *dyntpl.Ctx, v *any, ok *bool, args []any) {
		*v, *ok = nil, false
		if len(args) == 0 {
			return
		}
		b, err := x2bytes.ToBytes(nil, args[0])
		if err != nil || len(b) == 0 {
			return
		}
		cp := append([]byte(nil), b...)
		*v = &cp
		*ok = true
	})
	// vokmaybe: like vok, but when there is nothing to return it returns WITHOUT touching its outputs (as the
	// repository's own test helper does): that means "no value, not ok" whatever was evaluated before
	dyntpl.RegisterCondOKFn("vokmaybe", func(ctx *dyntpl.Ctx, v *any, ok *bool, args []any) {
		if len(args) == 0 {
			return
		}
		b, err := x2bytes.ToBytes(nil, args[0])
		if err != nil || len(b) == 0 {
			return
		}
		cp := append([]byte(nil), b...)
		*v = &cp
		*ok = true
	})
	_ = dyntpl.RegisterPool("vpool", vpool{"vpool"})
	_ = dyntpl.RegisterPool("vpool2", vpool{"vpool2"})
	_ = dyntpl.RegisterPool("vbuf", vbufPool{})
}

// ---- values ----

func ftxt(f float64) string { return strconv.FormatFloat(f, 'f', -1, 64) }

type History struct {
	DateUnix int64
	Cost     float64
	Comment  string
}

// UserSpec describes a TestObject.
type UserSpec struct {
	Id         string
	Name       string
	Status     int32
	Ustate     uint64
	Cost       float64
	HasFinance bool
	MoneyIn    float64
	MoneyOut   float64
	Balance    float64
	AllowBuy   bool
	History    []History
	Flags      []FlagKV // map[string]int32 entries (distinct keys, kept in a fixed order for the model)
}

// FlagKV is one entry of TestObject.Flags.
type FlagKV struct {
	Key string
	Val int32
}

func (u UserSpec) Build() *testobj.TestObject {
	o := &testobj.TestObject{Id: u.Id, Name: []byte(u.Name), Status: u.Status, Ustate: u.Ustate, Cost: u.Cost}
	if u.HasFinance {
		f := &testobj.TestFinance{MoneyIn: u.MoneyIn, MoneyOut: u.MoneyOut, Balance: u.Balance, AllowBuy: u.AllowBuy}
		for _, h := range u.History {
			f.History = append(f.History, testobj.TestHistory{DateUnix: h.DateUnix, Cost: h.Cost, Comment: []byte(h.Comment)})
		}
		o.Finance = f
	}
	if len(u.Flags) > 0 {
		o.Flags = testobj.TestFlag{}
		for _, kv := range u.Flags {
			o.Flags[kv.Key] = kv.Val
		}
	}
	return o
}

func (u UserSpec) Enc() string {
	var sb strings.Builder
	fmt.Fprintf(&sb, "o 7 %s s %s %s y %s %s i %d %s u %d %s f %s %s o %d", hs("Id"), hs(u.Id), hs("Name"), hs(u.Name), hs("Status"), u.Status,
		hs("Ustate"), u.Ustate, hs("Cost"), hs(ftxt(u.Cost)), hs("Flags"), len(u.Flags))
	for _, kv := range u.Flags {
		fmt.Fprintf(&sb, " %s i %d", hs(kv.Key), kv.Val)
	}
	fmt.Fprintf(&sb, " %s ", hs("Finance"))
	if !u.HasFinance {
		sb.WriteString("n")
	} else {
		fmt.Fprintf(&sb, "o 5 %s f %s %s f %s %s f %s %s b %s %s l %d", hs("MoneyIn"), hs(ftxt(u.MoneyIn)), hs("MoneyOut"), hs(ftxt(u.MoneyOut)),
			hs("Balance"), hs(ftxt(u.Balance)), hs("AllowBuy"), b01(u.AllowBuy), hs("History"), len(u.History))
		for _, h := range u.History {
			fmt.Fprintf(&sb, " o 3 %s i %d %s f %s %s y %s", hs("DateUnix"), h.DateUnix, hs("Cost"), hs(ftxt(h.Cost)), hs("Comment"), hs(h.Comment))
		}
	}
	return sb.String()
}

// SOp is one step of a session on a context.
type SOp struct {
	Kind   string // static obj strs bytes string counter render reset
	Name   string
	Val    any // Go value for static; UserSpec for obj; []string for strs; []byte/string; int
	Key    string
	FailAt int // render: 0 = no fault; k = fail k-th write and later
}

func encScalar(v any) string {
	if rv := reflect.ValueOf(v); rv.Kind() == reflect.Ptr && rv.IsNil() {
		return "n" // a nil pointer of any type is a nil value
	}
	switch x := v.(type) {
	case nil:
		return "n"
	case int:
		return fmt.Sprintf("i %d", x)
	case int8:
		return fmt.Sprintf("i %d", x)
	case int16:
		return fmt.Sprintf("i %d", x)
	case int32:
		return fmt.Sprintf("i %d", x)
	case int64:
		return fmt.Sprintf("i %d", x)
	case uint:
		return fmt.Sprintf("u %d", x)
	case uint8:
		return fmt.Sprintf("u %d", x)
	case uint16:
		return fmt.Sprintf("u %d", x)
	case uint32:
		return fmt.Sprintf("u %d", x)
	case uint64:
		return fmt.Sprintf("u %d", x)
	case float64:
		return "f " + hs(ftxt(x))
	case float32:
		return "f " + hs(ftxt(float64(x)))
	case bool:
		return "b " + b01(x)
	case string:
		return "s " + hs(x)
	case *string:
		return "s " + hs(*x)
	case []byte:
		return "y " + hx(x)
	case *[]byte:
		return "y " + hx(*x)
	}
	return "x"
}

func (o SOp) Enc() string {
	switch o.Kind {
	case "static":
		return "static " + hs(o.Name) + " " + encScalar(o.Val)
	case "obj":
		return "obj " + hs(o.Name) + " " + o.Val.(UserSpec).Enc()
	case "strs":
		ss := o.Val.([]string)
		var sb strings.Builder
		fmt.Fprintf(&sb, "strs %s t %d", hs(o.Name), len(ss))
		for _, s := range ss {
			sb.WriteString(" " + hs(s))
		}
		return sb.String()
	case "bytes":
		return "bytes " + hs(o.Name) + " " + hx(o.Val.([]byte))
	case "string":
		return "bytes " + hs(o.Name) + " " + hs(o.Val.(string))
	case "counter":
		return fmt.Sprintf("counter %s %d", hs(o.Name), o.Val.(int))
	case "render":
		if o.FailAt > 0 {
			return fmt.Sprintf("render %s %d", hs(o.Key), o.FailAt)
		}
		return "render " + hs(o.Key) + " -"
	case "reset":
		return "reset"
	}
	return "?"
}

func (o SOp) Desc() string {
	switch o.Kind {
	case "render":
		if o.FailAt > 0 {
			return fmt.Sprintf("render(%s, failAt=%d)", o.Key, o.FailAt)
		}
		return "render(" + o.Key + ")"
	case "reset":
		return "reset"
	case "obj":
		return fmt.Sprintf("Set(%s, %+v)", o.Name, o.Val)
	}
	return fmt.Sprintf("%s(%s, %#v)", o.Kind, o.Name, o.Val)
}

// Apply performs a set op on a real context.
func (o SOp) Apply(ctx *dyntpl.Ctx) {
	switch o.Kind {
	case "static":
		switch x := o.Val.(type) {
		case []byte:
			cp := append([]byte(nil), x...)
			ctx.SetStatic(o.Name, &cp)
		default:
			ctx.SetStatic(o.Name, o.Val)
		}
	case "obj":
		ctx.Set(o.Name, o.Val.(UserSpec).Build(), testobj_ins.TestObjectInspector{})
	case "strs":
		ss := append([]string(nil), o.Val.([]string)...)
		ctx.Set(o.Name, ss, inspector.StringsInspector{})
	case "bytes":
		ctx.SetBytes(o.Name, o.Val.([]byte))
	case "string":
		ctx.SetString(o.Name, o.Val.(string))
	case "counter":
		ctx.SetCounter(o.Name, o.Val.(int))
	case "reset":
		ctx.Reset()
	}
}

// faultWriter fails the failAt-th Write call (1-based) and every later one.
type faultWriter struct {
	buf    []byte
	writes int
	failAt int
	mode   int // what a failing call returns next to the error: 0 → 0 bytes, 1 → the full count (a tee / mirroring writer), 2 → half
}

var errInjected = errors.New("injected writer failure")

func (w *faultWriter) Write(p []byte) (int, error) {
	w.writes++
	if w.failAt > 0 && w.writes >= w.failAt {
		// an error is an error whatever count comes with it (io.Writer: "Write must return a non-nil error if it
		// returns n < len(p)" — and may return one with n == len(p)); the bytes of a failed call are not kept
		switch w.mode % 3 {
		case 1:
			return len(p), errInjected
		case 2:
			return len(p) / 2, errInjected
		}
		return 0, errInjected
	}
	w.buf = append(w.buf, p...)
	return len(p), nil
}

var _ io.Writer = (*faultWriter)(nil)

// richFaultWriter: the same destination with the optional interfaces a library may look for (io.ByteWriter,
// io.StringWriter, io.ReaderFrom): every such call is a Write call of the same fault discipline — an error
// returned through any of them is the writer's error (C17) — and counts like one.
type richFaultWriter struct{ *faultWriter }

func (w richFaultWriter) WriteByte(b byte) error { _, err := w.Write([]byte{b}); return err }
func (w richFaultWriter) WriteString(s string) (int, error) { return w.Write([]byte(s)) }
func (w richFaultWriter) ReadFrom(r io.Reader) (int64, error) {
	b, _ := io.ReadAll(r)
	n, err := w.Write(b)
	return int64(n), err
}

var (
	_ io.ByteWriter   = richFaultWriter{}
	_ io.StringWriter = richFaultWriter{}
	_ io.ReaderFrom   = richFaultWriter{}
)

func errName(err error) string {
	switch {
	case err == nil:
		return "ok"
	case errors.Is(err, dyntpl.ErrTplNotFound):
		return "err:notfound"
	case errors.Is(err, dyntpl.ErrIncDepth):
		return "err:incdepth"
	case errors.Is(err, dyntpl.ErrInterrupt):
		return "err:interrupt"
	case errors.Is(err, dyntpl.ErrBreakLoop):
		return "err:break"
	case errors.Is(err, dyntpl.ErrContLoop):
		return "err:continue"
	case errors.Is(err, dyntpl.ErrLBreakLoop):
		return "err:lazybreak"
	case errors.Is(err, dyntpl.ErrModNoArgs):
		return "err:modnoargs"
	case errors.Is(err, dyntpl.ErrModPoorArgs):
		return "err:modpoorargs"
	case errors.Is(err, dyntpl.ErrModNoStr):
		return "err:modnostr"
	case errors.Is(err, dyntpl.ErrCondHlpNotFound):
		return "err:condhlp"
	case errors.Is(err, dyntpl.ErrSenselessCond):
		return "err:senseless"
	case errors.Is(err, dyntpl.ErrWrongLoopLim):
		return "err:wronglim"
	case errors.Is(err, dyntpl.ErrWrongLoopCond):
		return "err:wrongcond"
	case errors.Is(err, dyntpl.ErrWrongLoopOp):
		return "err:wrongop"
	case errors.Is(err, dyntpl.ErrUnknownCtl):
		return "err:unknownctl"
	case errors.Is(err, x2bytes.ErrUnknownType):
		return "err:unknowntype"
	case errors.Is(err, errInjected):
		return "err:writer"
	case errors.Is(err, inspector.ErrUnknownInspector):
		return "err:unknownins"
	case errors.Is(err, dyntpl.ErrUnknownPool):
		return "err:unknownpool"
	case errors.Is(err, errUserFail):
		return "err:userfail"
	}
	var ne *strconv.NumError
	if errors.As(err, &ne) && (ne.Func == "ParseInt" || ne.Func == "ParseUint" || ne.Func == "ParseFloat" || ne.Func == "ParseBool") {
		return "err:parse" // a code-generated inspector could not parse the right side of a comparison
	}
	return "err:other(" + strings.ReplaceAll(err.Error(), " ", "_") + ")"
}

// TplDef is one template of a case.
type TplDef struct {
	Key     string
	Src     string
	KeepFmt bool
	Ast     []TNode // the AST the source was printed from, when there is one (parser oracle, asttie.go)
}

// RCase is a render session: templates, then ops on one context.
type RCase struct {
	Tpls []TplDef
	Ops  []SOp
	Meta map[string]any
	// options
	CheckShape bool // after every reset compare VerifCtxShape with a new context's
	Pool       bool // reset = ReleaseCtx + AcquireCtx
	KeepOut    bool // fault-free renders go through dyntpl.Render and the returned slices are re-checked at the end
	Entries    bool // renders go through all public entry points in turn: by key, by ID, fallback (first key missing / present)
	// filled by run
	ShapeDiffs []string
	Mutated    []string
	GoRes      []string
	Panic      string
	PErr       string
	Dumps      []string
	Req        string
	Answer     string
}

const sessFuel = 1200

// entryID is the numeric ID a template key is also registered under (Entries).
func entryID(key string) int {
	h := 7
	for i := 0; i < len(key); i++ {
		h = h*31 + int(key[i])
	}
	return 100000 + (h&0x7fffffff)%800000
}

// Run executes the case on the real engine and builds the driver request.
func (c *RCase) Run() {
	dyntpl.VerifResetRegistry()
	c.Dumps = c.Dumps[:0]
	var trees []*dyntpl.Tree
	for _, t := range c.Tpls {
		// the source is handed to Parse in a buffer of the caller's, which the caller overwrites afterwards (a loader
		// reading many templates through one buffer): the tree must not depend on that buffer any more
		srcBuf := []byte(t.Src)
		tree, err, pan := parseSafe(srcBuf, t.KeepFmt)
		if pan != "" {
			c.Panic = "parse: " + pan
			return
		}
		if err != nil {
			c.PErr = fmt.Sprintf("parse %s: %v", t.Key, err)
			return
		}
		dyntpl.RegisterTplKey(t.Key, tree)
		if c.Entries {
			dyntpl.RegisterTplID(entryID(t.Key), tree)
		}
		c.Dumps = append(c.Dumps, string(dyntpl.VerifDumpTree(tree)))
		for i := range srcBuf {
			srcBuf[i] = '#'
		}
		trees = append(trees, tree)
	}
	for i, tree := range trees {
		if d := string(dyntpl.VerifDumpTree(tree)); d != c.Dumps[i] {
			c.Mutated = append(c.Mutated, fmt.Sprintf("the tree of template %s changed when the caller overwrote the buffer it had passed to Parse(src, keepFmt=%v)", c.Tpls[i].Key, c.Tpls[i].KeepFmt))
		}
	}
	ctx := dyntpl.NewCtx()
	if c.Pool {
		ctx = dyntpl.AcquireCtx()
	}
	evReset()
	c.GoRes = c.GoRes[:0]
	type kept struct {
		live []byte
		copy []byte
		idx  int
	}
	var keptOut []kept
	defer func() {
		for _, k := range keptOut {
			if string(k.live) != string(k.copy) {
				c.Mutated = append(c.Mutated, fmt.Sprintf("bytes returned by render #%d changed from %q to %q", k.idx, k.copy, k.live))
			}
		}
	}()
	for oi, o := range c.Ops {
		via := 0
		if c.Entries {
			via = oi % 4
		}
		if o.Kind == "reset" && (c.Pool || c.CheckShape) {
			if c.Pool {
				dyntpl.ReleaseCtx(ctx)
				atRelease := evStr()
				ctx = dyntpl.AcquireCtx()
				if a := evStr(); a != atRelease {
					c.ShapeDiffs = append(c.ShapeDiffs, "pooled objects / deferred functions were settled when a context was ACQUIRED, not when the context was released: log at release "+atRelease+", after acquire "+a)
				}
			} else {
				ctx.Reset()
			}
			if c.CheckShape {
				if a, b := string(dyntpl.VerifCtxShape(ctx)), string(dyntpl.VerifCtxShape(dyntpl.NewCtx())); a != b {
					c.ShapeDiffs = append(c.ShapeDiffs, "after reset: "+a+" vs new: "+b)
				}
			}
			continue
		}
		if o.Kind == "render" && c.KeepOut && o.FailAt == 0 {
			var out []byte
			var err error
			func() {
				defer func() {
					if x := recover(); x != nil {
						c.Panic = fmt.Sprintf("render %s: %v\n%s", o.Key, x, trimStack(stack()))
					}
				}()
				switch via {
				case 1:
					out, err = dyntpl.RenderByID(entryID(o.Key), ctx)
				case 2:
					out, err = dyntpl.RenderFallback("no-such-template", o.Key, ctx)
				case 3:
					fb := "no-such-template"
					for _, td := range c.Tpls {
						if td.Key == o.Key {
							fb = verifFallbackKey()
						}
					}
					out, err = dyntpl.RenderFallback(o.Key, fb, ctx)
				default:
					out, err = dyntpl.Render(o.Key, ctx)
				}
			}()
			if c.Panic != "" {
				return
			}
			keptOut = append(keptOut, kept{live: out, copy: append([]byte(nil), out...), idx: len(c.GoRes)})
			// Render does not report the number of writes: marked "?" and ignored by the comparison
			c.GoRes = append(c.GoRes, fmt.Sprintf("%s %s ? %s", errName(err), hx(out), evStr()))
			continue
		}
		if o.Kind != "render" {
			func() {
				defer func() {
					if x := recover(); x != nil {
						c.Panic = fmt.Sprintf("%s: %v", o.Kind, x)
					}
				}()
				o.Apply(ctx)
			}()
			continue
		}
		fw := &faultWriter{failAt: o.FailAt, mode: oi + o.FailAt}
		var w io.Writer = fw
		if (oi+o.FailAt)%2 == 0 {
			w = richFaultWriter{fw}
		}
		var err error
		func() {
			defer func() {
				if x := recover(); x != nil {
					c.Panic = fmt.Sprintf("render %s: %v\n%s", o.Key, x, trimStack(stack()))
				}
			}()
			switch via {
			case 1:
				err = dyntpl.WriteByID(w, entryID(o.Key), ctx)
			case 2:
				err = dyntpl.WriteFallback(w, "no-such-template", o.Key, ctx)
			case 3:
				// the key exists: the fallback — a registered template of its own — is never looked at, whatever the
				// render of the key returns (also "template not found" from an include inside it)
				fb := "no-such-template"
				for _, td := range c.Tpls {
					if td.Key == o.Key {
						fb = verifFallbackKey()
					}
				}
				err = dyntpl.WriteFallback(w, o.Key, fb, ctx)
			default:
				err = dyntpl.Write(w, o.Key, ctx)
			}
		}()
		if c.Panic != "" {
			return
		}
		c.GoRes = append(c.GoRes, fmt.Sprintf("%s %s %d %s", errName(err), hx(fw.buf), fw.writes, evStr()))
	}
	var sb strings.Builder
	fmt.Fprintf(&sb, "session %d %d", sessFuel, len(c.Tpls))
	for i, t := range c.Tpls {
		sb.WriteString(" " + hs(t.Key) + " " + c.Dumps[i])
	}
	fmt.Fprintf(&sb, " %d", len(c.Ops))
	for _, o := range c.Ops {
		sb.WriteString(" " + o.Enc())
	}
	c.Req = sb.String()
}

func (c *RCase) Describe() map[string]any {
	d := map[string]any{}
	tp := []map[string]any{}
	for _, t := range c.Tpls {
		tp = append(tp, map[string]any{"key": t.Key, "source": t.Src, "keepFmt": t.KeepFmt})
	}
	d["templates"] = tp
	ops := []string{}
	for _, o := range c.Ops {
		ops = append(ops, o.Desc())
	}
	d["ops"] = ops
	d["go"] = c.GoRes
	d["model"] = strings.Split(c.Answer, " | ")
	if c.Panic != "" {
		d["panic"] = c.Panic
	}
	if c.PErr != "" {
		d["parse_error"] = c.PErr
	}
	for k, v := range c.Meta {
		d[k] = v
	}
	d["request"] = c.Req
	return d
}

// resultFields splits "<status> <outhex> <writes> <log>".
func resultFields(s string) (status string, out []byte, writes string, log string, ok bool) {
	fs := strings.Fields(s)
	if len(fs) != 4 {
		return "", nil, "", "", false
	}
	b, k := unhx(fs[1])
	return fs[0], b, fs[2], fs[3], k
}

// ---- value pools ----

var (
	intPool   = []int64{0, 1, -1, 2, 3, 5, 7, 10, 42, -17, 100, 127, 128, 255, 256, 1000, math.MaxInt32, math.MinInt32, math.MaxInt64, math.MinInt64}
	uintPool  = []uint64{0, 1, 2, 3, 5, 10, 42, 255, 256, 65535, math.MaxUint32, math.MaxUint64}
	floatPool = []float64{0, math.Copysign(0, -1), 1, -1, 0.5, -0.5, 2.25, 3.1415, 9000.015, -3.0000342543, 14.345241, 100, 1e6, 0.001, 123456.789, 1e-12, -2.5e-10}
	strPool   = []string{"", " ", "\t ", "\u00a0", "a", "b", "abc", "John", "x y", "<b>", "\"q\"", "it's", "a&b", "10", "-5", "3.5", "true", "Z", "abd", "ab", "é", "日本", "a/b?c=d"}
)

func pick[T any](r *Run, xs []T) T { return xs[r.Rng.Intn(len(xs))] }

func genUser(r *Run) UserSpec {
	u := UserSpec{Id: pick(r, strPool), Name: pick(r, strPool), Status: int32(pick(r, []int64{0, 1, -1, 5, 78, 100, math.MaxInt32, math.MinInt32})),
		Ustate: pick(r, uintPool), Cost: pick(r, floatPool), HasFinance: r.Rng.Intn(5) > 0}
	if u.HasFinance {
		u.MoneyIn, u.MoneyOut, u.Balance = pick(r, floatPool), pick(r, floatPool), pick(r, floatPool)
		u.AllowBuy = r.Rng.Intn(2) == 0
		n := r.Rng.Intn(5)
		for i := 0; i < n; i++ {
			u.History = append(u.History, History{DateUnix: pick(r, intPool), Cost: pick(r, floatPool), Comment: pick(r, strPool)})
		}
	}
	keys := []string{"export", "ro", "Valid", "a", "10"}
	r.Rng.Shuffle(len(keys), func(i, j int) { keys[i], keys[j] = keys[j], keys[i] })
	for _, k := range keys[:r.Rng.Intn(4)] {
		u.Flags = append(u.Flags, FlagKV{k, int32(pick(r, []int64{0, 1, -1, 7, 17, 100, math.MaxInt32, math.MinInt32}))})
	}
	return u
}
