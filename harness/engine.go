package main

import (
	"bytes"
	"fmt"
	"runtime"
	"runtime/debug"
	"strings"
	"sync/atomic"
	"time"

	"github.com/koykov/dyntpl"
)

var tplSeq int64

type rendered struct {
	Out     []byte
	Err     error
	Panic   string // non-empty: recovered panic value + innermost frames
	Timeout bool
}

func (r rendered) ErrStr() string {
	switch {
	case r.Timeout:
		return "timeout"
	case r.Panic != "":
		return "panic"
	case r.Err != nil:
		return "err:" + r.Err.Error()
	}
	return "ok"
}

// parseSafe calls dyntpl.Parse with recover.
func parseSafe(src []byte, keepFmt bool) (tree *dyntpl.Tree, err error, pan string) {
	defer func() {
		if x := recover(); x != nil {
			pan = fmt.Sprintf("%v\n%s", x, trimStack(debug.Stack()))
		}
	}()
	tree, err = dyntpl.Parse(src, keepFmt)
	return
}

// regTpl parses src and registers it under a fresh key.
func regTpl(src string, keepFmt bool) (key string, err error, pan string) {
	srcBuf := []byte(src)
	tree, err, pan := parseSafe(srcBuf, keepFmt)
	if err != nil || pan != "" {
		return "", err, pan
	}
	for i := range srcBuf {
		srcBuf[i] = '#' // the caller's buffer is the caller's again after Parse has returned
	}
	key = fmt.Sprintf("vh%d", atomic.AddInt64(&tplSeq, 1))
	dyntpl.RegisterTplKey(key, tree)
	return key, nil, ""
}

// renderSafe renders with recover (no watchdog; use renderWatch where hangs are possible).
func renderSafe(key string, ctx *dyntpl.Ctx) (res rendered) {
	defer func() {
		if x := recover(); x != nil {
			res.Panic = fmt.Sprintf("%v\n%s", x, trimStack(debug.Stack()))
		}
	}()
	var buf bytes.Buffer
	res.Err = dyntpl.Write(&buf, key, ctx)
	res.Out = append([]byte(nil), buf.Bytes()...)
	return
}

// renderWatch renders in a goroutine under a deadline. A hung render leaks its goroutine.
func renderWatch(key string, ctx *dyntpl.Ctx, d time.Duration) rendered {
	ch := make(chan rendered, 1)
	go func() { ch <- renderSafe(key, ctx) }()
	select {
	case r := <-ch:
		return r
	case <-time.After(d):
		return rendered{Timeout: true}
	}
}

func trimStack(st []byte) string {
	lines := strings.Split(string(st), "\n")
	var keep []string
	for _, l := range lines {
		if strings.Contains(l, "runtime/") || strings.Contains(l, "panic(") {
			continue
		}
		keep = append(keep, l)
		if len(keep) > 14 {
			break
		}
	}
	return strings.Join(keep, "\n")
}

// panicInRepo reports whether the innermost non-runtime frame of a recovered panic lies in /repo.
// panicInDependency: the innermost frame that is neither the Go runtime nor this harness lies outside /repo
// (a dependency of dyntpl, e.g. a code-generated inspector indexing with a negative number).
// stdFrame: a stack line of the Go standard library (runtime, reflect, strconv, …): a panic raised there belongs to
// whoever called into it.
func stdFrame(l string) bool {
	return strings.HasPrefix(l, runtime.GOROOT()+"/") || strings.Contains(l, "/src/runtime/") || strings.Contains(l, "/go/src/") || strings.Contains(l, "/go-1.")
}

func panicInDependency(p string) bool {
	for _, l := range strings.Split(p, "\n") {
		l = strings.TrimSpace(l)
		if strings.HasPrefix(l, "/") && strings.Contains(l, ".go:") {
			if strings.Contains(l, "/verif/harness/") || stdFrame(l) {
				continue
			}
			return !strings.HasPrefix(l, "/repo/")
		}
	}
	return false
}

func panicInRepo(p string) bool {
	for _, l := range strings.Split(p, "\n") {
		l = strings.TrimSpace(l)
		if strings.HasPrefix(l, "/") && strings.Contains(l, ".go:") {
			if (strings.Contains(l, "verif/harness") && strings.Contains(l, "engine.go")) || stdFrame(l) {
				continue
			}
			return strings.HasPrefix(l, "/repo/")
		}
	}
	return false
}

// setVal puts b into ctx under name using one of several carriers.
func setVal(ctx *dyntpl.Ctx, name string, b []byte, carrier int) string {
	switch carrier % 4 {
	case 0:
		ctx.SetBytes(name, b)
		return "SetBytes"
	case 1:
		ctx.SetString(name, string(b))
		return "SetString"
	case 2:
		cp := append([]byte(nil), b...)
		ctx.SetStatic(name, &cp)
		return "SetStatic(*[]byte)"
	default:
		ctx.SetStatic(name, string(b))
		return "SetStatic(string)"
	}
}

func stack() []byte { return debug.Stack() }
