// Command vharness is the Go side of the correspondence checks: it runs the real
// dyntpl code from /repo (built with -tags verif) on generated cases, feeds the same
// cases to the Lean driver, and compares.
package main

import (
	"flag"
	"fmt"
	"os"
	"sort"
	"strconv"
	"time"
)

type propFn func(r *Run)

var props = map[string]propFn{}

func main() {
	var (
		id     = flag.String("prop", "", "property id")
		tier   = flag.String("tier", "quick", "quick|thorough")
		seed   = flag.Int64("seed", 1, "PRNG seed")
		driver = flag.String("driver", "/verif/lean/.lake/build/bin/drv", "Lean driver binary")
		out    = flag.String("out", "", "result JSON (read by ./check)")
		replay = flag.String("replay", "", "replay file to re-run")
		rdir   = flag.String("replaydir", "/verif/replays", "where replay files go")
		kf     = flag.String("known", "/verif/known_findings.txt", "known findings file")
	)
	flag.Parse()
	if s := os.Getenv("VERIF_SEED"); s != "" && !isFlagSet("seed") {
		if v, err := strconv.ParseInt(s, 10, 64); err == nil {
			*seed = v
		}
	}
	fn, ok := props[*id]
	if !ok {
		ids := make([]string, 0, len(props))
		for k := range props {
			ids = append(ids, k)
		}
		sort.Strings(ids)
		fmt.Fprintf(os.Stderr, "unknown property %q; have %v\n", *id, ids)
		os.Exit(2)
	}
	r := newRun(*id, *tier, *seed, *driver, *rdir, *kf)
	r.replayFile = *replay
	start := time.Now()
	fn(r)
	r.finish(*out, time.Since(start))
	os.Exit(r.exitCode())
}

func isFlagSet(name string) bool {
	set := false
	flag.Visit(func(f *flag.Flag) {
		if f.Name == name {
			set = true
		}
	})
	return set
}
