// Command vharness is the Go side of the correspondence checks: it runs the real
// dyntpl code from /repo (built with -tags verif) on generated cases, feeds the same
// cases to the Lean driver, and compares.
package main

import (
	"flag"
	"fmt"
	"os"
	"runtime"
	"sort"
	"strconv"
	"sync"
	"time"
)

// Resource guard. A render that explodes (an escape directive applied far more often than written, an include
// that never ends) can exhaust the machine before any watchdog of a single render fires, and a process killed by
// the kernel reports nothing. Checks announce the case they are about to run with guardCase; a background
// goroutine watches the heap and, beyond the limit, reports THAT case as the violation and ends the run.
var (
	guardMu   sync.Mutex
	guardSig  string
	guardDesc any
)

func guardCase(sig string, desc any) {
	guardMu.Lock()
	guardSig, guardDesc = sig, desc
	guardMu.Unlock()
}

func startGuard(r *Run, out string, start time.Time) {
	const limit = 8 << 30
	go func() {
		var ms runtime.MemStats
		for {
			time.Sleep(50 * time.Millisecond)
			runtime.ReadMemStats(&ms)
			if ms.HeapAlloc < limit {
				continue
			}
			guardMu.Lock()
			sig, desc := guardSig, guardDesc
			guardMu.Unlock()
			if sig == "" {
				fmt.Printf("INTERNAL-ERROR: the harness exceeded %d GiB of heap outside an announced case\n", limit>>30)
				os.Exit(2)
			}
			if len(r.Violations) > 4 {
				r.Violations = r.Violations[:4]
			}
			r.Violate("resource-explosion "+sig, fmt.Sprintf("the case exceeded %d GiB of heap (the run was stopped): the render does unboundedly more work than the template asks for", limit>>30), desc)
			r.finish(out, time.Since(start))
			os.Exit(1)
		}
	}()
}

type propFn func(r *Run)

var props = map[string]propFn{}

func main() {
	if len(os.Args) == 4 && os.Args[1] == "--c12-deepnest" {
		c12DeepNestChild(os.Args[2], os.Args[3]) // child process of the C12 deep-nesting probe (c12.go)
		return
	}
	var (
		id     = flag.String("prop", "", "property id")
		tier   = flag.String("tier", "quick", "quick|thorough")
		seed   = flag.Int64("seed", 1, "PRNG seed")
		driver = flag.String("driver", "/verif/lean/.lake/build/bin/drv", "Lean driver binary")
		out    = flag.String("out", "", "result JSON (read by ./check)")
		replay = flag.String("replay", "", "replay file to re-run")
		rdir   = flag.String("replaydir", "/verif/replays", "where replay files go")
		kf     = flag.String("known", "/verif/known_findings.txt", "known findings file")
	)
	flag.Parse()
	if s := os.Getenv("VERIF_SEED"); s != "" && !isFlagSet("seed") {
		if v, err := strconv.ParseInt(s, 10, 64); err == nil {
			*seed = v
		}
	}
	fn, ok := props[*id]
	if !ok {
		ids := make([]string, 0, len(props))
		for k := range props {
			ids = append(ids, k)
		}
		sort.Strings(ids)
		fmt.Fprintf(os.Stderr, "unknown property %q; have %v\n", *id, ids)
		os.Exit(2)
	}
	r := newRun(*id, *tier, *seed, *driver, *rdir, *kf)
	r.replayFile = *replay
	start := time.Now()
	r.outPath, r.started = *out, start
	startGuard(r, *out, start)
	fn(r)
	r.finish(*out, time.Since(start))
	os.Exit(r.exitCode())
}

func isFlagSet(name string) bool {
	set := false
	flag.Visit(func(f *flag.Flag) {
		if f.Name == name {
			set = true
		}
	})
	return set
}
