package main

import (
	"bytes"
	"errors"
	"fmt"
	"math"
	"math/rand"
	"os"
	"os/exec"
	"path/filepath"
	"regexp"
	"runtime"
	"runtime/debug"
	"sort"
	"strconv"
	"strings"
	"sync"
	"sync/atomic"
	"time"

	"github.com/koykov/dyntpl"
	"github.com/koykov/inspector/testobj"
	"github.com/koykov/inspector/testobj_ins"
)

// C06 — concurrent renders and re-registrations are safe and atomic.
//
// The theorems (lean/DyntplV/Props/C06.lean) are about a lock-level interleaving model whose lock instructions are
// generated from /repo's source. This file is the run-time side; it SUPPORTS the tie and proves nothing:
//
//  1. stress: N renderer goroutines (pooled contexts, templates with includes, loops, conditions, escaping regions)
//     render k0..k2 by key, by id and through a fallback key while M writer goroutines Parse and Register* new
//     VERSIONS of k0..k2 and of the included templates i0, i1; GOMAXPROCS 1, 2, 4, 16; optional Gosched injection.
//     Every output must equal the SEQUENTIAL output of one version of its template that was live during the call,
//     with every include resolved to a version of the included name live during the call. "Live during the call" is
//     decided from a global logical clock: a version is live in [cs, ce] iff its Register call started before ce
//     and no other version of the name whose Register call started after this one's returned has returned before
//     cs (the usual linearizability condition for a register). The sequential output is produced by the real
//     engine: every version is also registered under a private name nobody overwrites, and the expected output of
//     an observed combination is rendered, after the stress, single-threaded on a fresh context from a "frozen"
//     copy of the main template whose includes name those private names.
//  2. race detector: /verif/harness/racecheck is built with -race and run for a few seconds; a DATA RACE report
//     whose stacks mention /repo is a violation (skipped with a note if the race build is impossible here).
//  3. model tie (small): random SEQUENTIAL histories of registrations and renders are executed on the real registry
//     and, one thread after the other, on the interleaving model (driver request "conc"); the versions seen agree.

func init() { props["C06"] = c06 }

const (
	c06NMain  = 3
	c06NInc   = 2
	c06NCtx   = 4
	c06RecCap = 40000 // per renderer
)

var (
	c06Clock     int64
	c06RegEvents int64 // +1 at the start and at the end of every Register call of a live name
	c06InFlight  int64 // Register calls of live names in progress
)

var errC06Dirty = errors.New("deferred function of an EARLIER owner of the pooled context ran")
var dirtyReleases int64

func c06Tick() int64 { return atomic.AddInt64(&c06Clock, 1) }

type c06Ver struct {
	src        string
	start, end int64 // logical time just before / just after the Register call; MaxInt64 = not yet
}

type c06Name struct {
	name string
	id   int // >= 0: also registered by id
	inc  bool
	mu   sync.Mutex
	vers []*c06Ver // version v is vers[v-1]
}

func (n *c06Name) frozen(v int) string { return n.name + "@" + strconv.Itoa(v) }

// ---- templates ----

func c06IncSrc(name string, v int) string {
	tag := name + "#" + strconv.Itoa(v)
	switch (v + len(name)) % 3 {
	case 0:
		return "(" + tag + " {%= user.Id %}{% if user.Status == 7 %}+{% else %}-{% endif %})"
	case 1:
		return "(" + tag + " {% for i := 0; i < 2; i++ separator . %}{%= i %}{% endfor %}{%= tag %})"
	default:
		return "(" + tag + " {% htmlescape %}{%= user.Name %}{% endhtmlescape %})"
	}
}

// c06MainSrc builds version v of main template name; inc(j) is the text of the j-th include tag.
func c06MainSrc(name string, v int, inc func(j int, which string) string) string {
	tag := name + "#" + strconv.Itoa(v)
	switch v % 3 {
	case 0:
		return "[" + tag + " {%= user.Name %}|{% for i := 0; i < 3; i++ separator , %}{%= i %}{% endfor %}|" + inc(0, "i0") +
			"|{% if user.Status == 7 %}Y{% else %}N{% endif %}|{% jsonquote %}{%= user.Name %}{% endjsonquote %}|" + inc(1, "i1") +
			"|{% for _, h := range user.Finance.History separator ; %}{%= h.Comment %}{% endfor %}|" + inc(2, "i0") + " " + tag + "]"
	case 1:
		return "[" + tag + " " + inc(0, "i1") + "{% htmlescape %}{%= user.Name %}{% endhtmlescape %}" + inc(1, "i0") +
			"{% if user.Status == 3 %}three{% endif %}{%= tag %} " + tag + "]"
	default:
		return "[" + tag + " {% for k, h := range user.Finance.History %}{%= k %}={%= h.Cost %};{% endfor %}" + inc(0, "i0") +
			"{% urlencode %}{%= user.Name %}{% endurlencode %}" + inc(1, "i1") + inc(2, "i1") + " " + tag + "]"
	}
}

func c06LiveInc(_ int, which string) string { return "{% include " + which + " %}" }

// ---- contexts ----

func c06Obj(ci int) *testobj.TestObject {
	// (control bytes: the JSON escaper writes \u00XX for them — distinct ones per context, rendered concurrently)
	names := []string{"Ann\x01", "a\"b<c&d\x17", "Zoë é\x1e\x0b", "x/y?z=1&w\x02\x1f"}
	o := &testobj.TestObject{Id: "u" + strconv.Itoa(ci), Name: []byte(names[ci%len(names)]), Status: []int32{7, 3, 7, 0}[ci%4]}
	f := &testobj.TestFinance{Balance: float64(ci)}
	for j := 0; j < ci; j++ {
		f.History = append(f.History, testobj.TestHistory{DateUnix: int64(100 + j), Cost: float64(j) + 0.5, Comment: []byte("c" + strconv.Itoa(j))})
	}
	o.Finance = f
	return o
}

// Constant strings only: Ctx.SetString on a freshly built string can read freed memory (see racecheck/main.go, -dynstr).
var c06Tags = [c06NCtx]string{"T0", "T1", "T2", "T3"}

func c06Fill(ctx *dyntpl.Ctx, ci int, obj *testobj.TestObject) {
	ctx.Set("user", obj, testobj_ins.TestObjectInspector{})
	ctx.SetString("tag", c06Tags[ci])
}

// ---- one render ----

type c06Rec struct {
	key      int  // main template index
	how      byte // 'k' Write, 'i' WriteByID, 'f' WriteFallback
	ci       int
	cs, ce   int64
	out      []byte
	err      error
	pan      string
	gmp      int
	overflow bool
	changed  []byte // the bytes a slice returned by a Render* call held after a later render had run (nil = unchanged)
}

func c06Render(names []*c06Name, ki int, how byte, ctx *dyntpl.Ctx, buf *bytes.Buffer) (err error, pan string, live []byte) {
	defer func() {
		if x := recover(); x != nil {
			pan = fmt.Sprintf("%v\n%s", x, trimStack(debug.Stack()))
		}
	}()
	switch how {
	case 'i':
		err = dyntpl.WriteByID(buf, names[ki].id, ctx)
	case 'f':
		err = dyntpl.WriteFallback(buf, "missing-"+names[ki].name, names[ki].name, ctx)
	case 'K', 'I', 'F':
		// the Render* forms hand out a byte slice: it is the caller's from then on (live is re-checked later)
		switch how {
		case 'K':
			live, err = dyntpl.Render(names[ki].name, ctx)
		case 'I':
			live, err = dyntpl.RenderByID(names[ki].id, ctx)
		default:
			live, err = dyntpl.RenderFallback("missing-"+names[ki].name, names[ki].name, ctx)
		}
		buf.Write(live)
	default:
		err = dyntpl.Write(buf, names[ki].name, ctx)
	}
	return
}

// c06Register publishes version v of n (already parsed) under its live name, in one of the three ways.
func c06Register(n *c06Name, tree *dyntpl.Tree, way int) {
	switch {
	case n.id >= 0 && way%3 == 0:
		dyntpl.RegisterTpl(n.id, n.name, tree)
	case n.id >= 0 && way%3 == 1:
		dyntpl.RegisterTplID(n.id, tree)
	default:
		dyntpl.RegisterTplKey(n.name, tree)
	}
}

func (n *c06Name) newVersion() (int, *c06Ver) {
	n.mu.Lock()
	v := len(n.vers) + 1
	var src string
	if n.inc {
		src = c06IncSrc(n.name, v)
	} else {
		src = c06MainSrc(n.name, v, c06LiveInc)
	}
	ver := &c06Ver{src: src, start: math.MaxInt64, end: math.MaxInt64}
	n.vers = append(n.vers, ver)
	n.mu.Unlock()
	return v, ver
}

// publish parses and registers a new version; returns an error text if Parse fails or panics.
func (n *c06Name) publish(way int) string {
	v, ver := n.newVersion()
	// the loader's buffer is reused after Parse has returned (here: overwritten): a tree must own its bytes.
	// The sources are single lines, so both keepFmt settings produce the same output.
	lb := []byte(ver.src)
	tree, err, pan := parseSafe(lb, v%2 == 0)
	for i := range lb {
		lb[i] = '#'
	}
	if pan != "" {
		return "Parse panicked: " + pan
	}
	if err != nil {
		return fmt.Sprintf("Parse(%q): %v", ver.src, err)
	}
	dyntpl.RegisterTplKey(n.frozen(v), tree)
	atomic.AddInt64(&c06InFlight, 1)
	atomic.AddInt64(&c06RegEvents, 1)
	atomic.StoreInt64(&ver.start, c06Tick())
	c06Register(n, tree, way)
	atomic.StoreInt64(&ver.end, c06Tick())
	atomic.AddInt64(&c06RegEvents, 1)
	atomic.AddInt64(&c06InFlight, -1)
	return ""
}

// index is built once after the stress: versions by end time with the running maximum of their start times, and by
// start time with the running maximum of their end times.
type c06Idx struct {
	ends, maxStart []int64
	starts, maxEnd []int64
}

func (n *c06Name) index() *c06Idx {
	ix := &c06Idx{}
	type iv struct{ s, e int64 }
	ivs := make([]iv, len(n.vers))
	for i, o := range n.vers {
		ivs[i] = iv{atomic.LoadInt64(&o.start), atomic.LoadInt64(&o.end)}
	}
	byEnd := append([]iv(nil), ivs...)
	sort.Slice(byEnd, func(i, j int) bool { return byEnd[i].e < byEnd[j].e })
	m := int64(math.MinInt64)
	for _, x := range byEnd {
		if x.s > m {
			m = x.s
		}
		ix.ends = append(ix.ends, x.e)
		ix.maxStart = append(ix.maxStart, m)
	}
	byStart := append([]iv(nil), ivs...)
	sort.Slice(byStart, func(i, j int) bool { return byStart[i].s < byStart[j].s })
	m = int64(math.MinInt64)
	for _, x := range byStart {
		if x.e > m {
			m = x.e
		}
		ix.starts = append(ix.starts, x.s)
		ix.maxEnd = append(ix.maxEnd, m)
	}
	return ix
}

// live reports whether version v of n can have been the current one at some moment of [cs, ce].
// 0 = live, 1 = stale (a version whose Register call started after this one's had returned was completely registered
// before cs), 2 = from the future (its Register call started after ce).
func (n *c06Name) live(ix *c06Idx, v int, cs, ce int64) int {
	if v < 1 || v > len(n.vers) {
		return 2
	}
	me := n.vers[v-1]
	if atomic.LoadInt64(&me.start) >= ce {
		return 2
	}
	myEnd := atomic.LoadInt64(&me.end)
	// versions with end < cs: prefix of ends
	k := sort.Search(len(ix.ends), func(i int) bool { return ix.ends[i] >= cs })
	if k > 0 && ix.maxStart[k-1] > myEnd {
		return 1
	}
	return 0
}

// overlaps: some registration of n was in flight or happened during [cs, ce].
func (n *c06Name) overlaps(ix *c06Idx, cs, ce int64) bool {
	k := sort.Search(len(ix.starts), func(i int) bool { return ix.starts[i] >= ce })
	return k > 0 && ix.maxEnd[k-1] > cs
}

// c06WellFormed: cheap inline check — "[kX#V ... kX#V]" with equal head and tail tags.
func c06WellFormed(out []byte, name string) bool {
	if len(out) < 2*len(name)+6 || out[0] != '[' || out[len(out)-1] != ']' || !bytes.HasPrefix(out[1:], []byte(name+"#")) {
		return false
	}
	sp := bytes.IndexByte(out, ' ')
	if sp < 0 {
		return false
	}
	tag := out[1:sp]
	return bytes.HasSuffix(out[:len(out)-1], append([]byte(" "), tag...))
}

var (
	c06HeadRe = regexp.MustCompile(`^\[(k\d)#(\d+) `)
	c06IncRe  = regexp.MustCompile(`\((i\d)#(\d+) `)
)

func c06(r *Run) {
	r.Rule = "evaluation = one concurrent render (Write / WriteByID / WriteFallback on a pooled context) racing with Parse+Register* of new versions; " +
		"checked against the sequential output of the observed (version, include versions) combination and against liveness of each version during the call; " +
		"non-trivial = the call overlapped at least one registration of its template or of an included one; distinct by (template#version, include versions, context)"
	dyntpl.VerifResetRegistry()
	atomic.StoreInt64(&c06Clock, 0)
	atomic.StoreInt64(&c06RegEvents, 0)
	atomic.StoreInt64(&c06InFlight, 0)

	// ---- race detector first: it is also the canary for the in-process stress (an unprotected map access ends a
	// Go process with a fatal error that cannot be recovered) ----
	if bin, blog := c06BuildRace(); bin == "" {
		r.Dist["race_run_skipped"]++
		r.Notes = append(r.Notes, "race detector run skipped (race build failed): "+firstLine(blog))
	} else if c06RunRace(r, bin) {
		r.Notes = append(r.Notes, "in-process stress skipped: the race-instrumented run already failed and the same workload could kill the harness process")
		c06ModelTie(r)
		return
	}

	names := make([]*c06Name, 0, c06NMain+c06NInc)
	for i := 0; i < c06NMain; i++ {
		names = append(names, &c06Name{name: "k" + strconv.Itoa(i), id: i})
	}
	for i := 0; i < c06NInc; i++ {
		names = append(names, &c06Name{name: "i" + strconv.Itoa(i), id: -1, inc: true})
	}
	byName := map[string]*c06Name{}
	for _, n := range names {
		byName[n.name] = n
	}
	// version 1 of everything, registered before the stress starts (main templates by id AND key).
	for _, n := range names {
		if msg := n.publish(0); msg != "" {
			r.Internal("C06 setup: " + msg)
			return
		}
	}
	// the template a "failed request" renders before it hands its context back (opens a bound tag, then fails)
	if tree, err, pan := parseSafe([]byte(`{% jsonquote %}{% for i := 0; i < 2; i++ %}"x"{% endfor %}{% include c06-no-such-template %}`), false); err != nil || pan != "" {
		r.Internal("C06 setup: dirty template does not parse")
		return
	} else {
		dyntpl.RegisterTplKey("c06-dirty", tree)
	}
	// sanity: the sequential renders work at all
	for ki := 0; ki < c06NMain; ki++ {
		ctx := dyntpl.NewCtx()
		c06Fill(ctx, 1, c06Obj(1))
		var buf bytes.Buffer
		if err, pan, _ := c06Render(names, ki, 'k', ctx, &buf); err != nil || pan != "" || !c06HeadRe.Match(buf.Bytes()) {
			r.Internal(fmt.Sprintf("C06 setup: sequential render of %s: err=%v panic=%q out=%q", names[ki].name, err, pan, buf.String()))
			return
		}
	}

	total := time.Duration(r.N(3, 30)) * time.Second
	gmps := []int{1, 2, 4, 16}
	oldGmp := runtime.GOMAXPROCS(0)
	defer runtime.GOMAXPROCS(oldGmp)
	nReaders, nWriters := 8, 3
	var recs [][]c06Rec
	var setupErr atomic.Value
	var allRenders, quietRenders int64
	for round, gmp := range gmps {
		runtime.GOMAXPROCS(gmp)
		var stop int32
		var wg sync.WaitGroup
		roundRecs := make([][]c06Rec, nReaders)
		yield := round%2 == 1 || gmp == 1
		for w := 0; w < nWriters; w++ {
			wg.Add(1)
			go func(w int) {
				defer wg.Done()
				rng := rand.New(rand.NewSource(r.Seed*1000 + int64(round*100+w)))
				for atomic.LoadInt32(&stop) == 0 {
					n := names[rng.Intn(len(names))]
					if msg := n.publish(rng.Intn(3)); msg != "" {
						setupErr.Store(msg)
						return
					}
					if yield {
						runtime.Gosched()
					}
					// throttle: keep the number of versions (and of frozen combinations to re-render) moderate
					time.Sleep(time.Duration(150+rng.Intn(700)) * time.Microsecond)
				}
			}(w)
		}
		for g := 0; g < nReaders; g++ {
			wg.Add(1)
			go func(g int) {
				defer wg.Done()
				rng := rand.New(rand.NewSource(r.Seed*7777 + int64(round*100+g)))
				objs := make([]*testobj.TestObject, c06NCtx)
				for ci := range objs {
					objs[ci] = c06Obj(ci)
				}
				var buf bytes.Buffer
				var heldLive, heldCopy []byte
				heldKey, heldHow := 0, byte(0)
				my := make([]c06Rec, 0, 4096)
				over, quiet := 0, 0
				for atomic.LoadInt32(&stop) == 0 {
					ki, ci := rng.Intn(c06NMain), rng.Intn(c06NCtx)
					how := []byte{'k', 'i', 'f', 'K', 'I', 'F'}[rng.Intn(6)]
					ctx := dyntpl.AcquireCtx()
					c06Fill(ctx, ci, objs[ci])
					buf.Reset()
					if yield && rng.Intn(4) == 0 {
						runtime.Gosched()
					}
					e0, f0 := atomic.LoadInt64(&c06RegEvents), atomic.LoadInt64(&c06InFlight)
					cs := c06Tick()
					err, pan, live := c06Render(names, ki, how, ctx, &buf)
					ce := c06Tick()
					// the slice an earlier Render* call returned must still hold what it held then
					if heldLive != nil && !bytes.Equal(heldLive, heldCopy) && len(my) < c06RecCap+8 {
						my = append(my, c06Rec{key: heldKey, how: heldHow, ci: ci, cs: cs, ce: ce, out: append([]byte(nil), heldCopy...), changed: append([]byte(nil), heldLive...), gmp: gmp})
					}
					if live != nil {
						heldLive, heldCopy, heldKey, heldHow = live, append(heldCopy[:0], live...), ki, how
					}
					// keep every render that ran while a registration was going on or went wrong in an obvious way,
					// and a sample of the quiet ones
					keep := f0 > 0 || atomic.LoadInt64(&c06RegEvents) != e0 || err != nil || pan != "" ||
						!c06WellFormed(buf.Bytes(), names[ki].name) || rng.Intn(32) == 0
					atomic.AddInt64(&allRenders, 1)
					if !keep {
						quiet++
					} else if len(my) < c06RecCap {
						my = append(my, c06Rec{key: ki, how: how, ci: ci, cs: cs, ce: ce, out: append([]byte(nil), buf.Bytes()...), err: err, pan: pan, gmp: gmp})
					} else {
						over++
					}
					if rng.Intn(16) == 0 {
						// hand the context back the way a failed request leaves it: a deferred function registered,
						// an open bound tag, a render that ended with an error (so nothing was settled). The next
						// owner — any goroutine — must get a clean context from the pool.
						ctx.Defer(func() error { return errC06Dirty })
						buf.Reset()
						_ = dyntpl.Write(&buf, "c06-dirty", ctx)
						atomic.AddInt64(&dirtyReleases, 1)
					}
					dyntpl.ReleaseCtx(ctx)
					if yield && rng.Intn(8) == 0 {
						runtime.Gosched()
					}
				}
				atomic.AddInt64(&quietRenders, int64(quiet))
				if over > 0 {
					my = append(my, c06Rec{overflow: true, cs: int64(over)})
				}
				roundRecs[g] = my
			}(g)
		}
		// run the round; if no render returns for 8 s (renders take microseconds) the registry is stuck: a deadlock
		// is a violation ("never a crash" — a render that never returns is worse), reported with the goroutine dump
		deadlock := func(where string) {
			dump := make([]byte, 1<<20)
			dump = dump[:runtime.Stack(dump, true)]
			txt := string(dump)
			if len(txt) > 12000 {
				txt = txt[:12000]
			}
			r.Violate("conc kind=deadlock "+where, "renderers and writers stopped making progress: no render returned for 8 s ("+where+")",
				map[string]any{"gomaxprocs": gmp, "readers": nReaders, "writers": nWriters, "renders_so_far": atomic.LoadInt64(&allRenders), "goroutines": txt})
			r.Abort()
		}
		roundEnd := time.Now().Add(total / time.Duration(len(gmps)))
		lastN, lastT := atomic.LoadInt64(&allRenders), time.Now()
		for time.Now().Before(roundEnd) {
			time.Sleep(100 * time.Millisecond)
			if n := atomic.LoadInt64(&allRenders); n != lastN {
				lastN, lastT = n, time.Now()
			} else if time.Since(lastT) > 8*time.Second {
				deadlock("during the stress")
			}
		}
		atomic.StoreInt32(&stop, 1)
		done := make(chan struct{})
		go func() { wg.Wait(); close(done) }()
		select {
		case <-done:
		case <-time.After(10 * time.Second):
			deadlock("goroutines did not finish after the stop signal")
		}
		recs = append(recs, roundRecs...)
	}
	runtime.GOMAXPROCS(oldGmp)
	if msg, _ := setupErr.Load().(string); msg != "" {
		r.Internal("C06 writer: " + msg)
		return
	}

	// ---- check every recorded render (single-threaded from here on) ----
	nvers := 0
	for _, n := range names {
		nvers += len(n.vers)
		r.Dist["versions_"+n.name] = len(n.vers)
	}
	idx := map[*c06Name]*c06Idx{}
	for _, n := range names {
		idx[n] = n.index()
	}
	expCache := map[string][]byte{}
	cloneSeq := 0
	expected := func(n *c06Name, v int, incs []int, ci int) ([]byte, string) {
		ck := fmt.Sprintf("%s#%d/%v/c%d", n.name, v, incs, ci)
		if b, ok := expCache[ck]; ok {
			return b, ""
		}
		j := 0
		bad := ""
		src := c06MainSrc(n.name, v, func(_ int, which string) string {
			if j >= len(incs) {
				bad = "fewer include outputs than include tags"
				return ""
			}
			s := "{% include " + byName[which].frozen(incs[j]) + " %}"
			j++
			return s
		})
		if bad == "" && j != len(incs) {
			bad = "more include outputs than include tags"
		}
		if bad != "" {
			return nil, bad
		}
		tree, err, pan := parseSafe([]byte(src), false)
		if err != nil || pan != "" {
			return nil, fmt.Sprintf("frozen copy does not parse: %v %s", err, pan)
		}
		cloneSeq++
		ckey := "c06clone" + strconv.Itoa(cloneSeq)
		dyntpl.RegisterTplKey(ckey, tree)
		ctx := dyntpl.NewCtx()
		c06Fill(ctx, ci, c06Obj(ci))
		var buf bytes.Buffer
		if err := dyntpl.Write(&buf, ckey, ctx); err != nil {
			return nil, "frozen copy does not render: " + err.Error()
		}
		b := append([]byte(nil), buf.Bytes()...)
		expCache[ck] = b
		return b, ""
	}

	renders, nontrivial, dropped := 0, 0, 0
	for _, rr := range recs {
		for i := range rr {
			rec := &rr[i]
			if rec.overflow {
				dropped += int(rec.cs)
				continue
			}
			renders++
			n := names[rec.key]
			r.Dist[fmt.Sprintf("gomaxprocs_%d", rec.gmp)]++
			r.Dist["via_"+string(rec.how)]++
			cse := map[string]any{"template": n.name, "via": string(rec.how), "ctx": rec.ci, "gomaxprocs": rec.gmp,
				"call_interval": []int64{rec.cs, rec.ce}, "out": string(rec.out)}
			if rec.changed != nil {
				cse["later"] = string(rec.changed)
				r.Violate("conc kind=result-overwritten tpl="+n.name, "the byte slice returned by a Render* call changed when another render ran: the result is not the caller's own", cse)
				continue
			}
			if rec.pan != "" {
				r.Count("panic", false)
				r.Violate("conc kind=panic tpl="+n.name, "a concurrent render panicked: "+firstLine(rec.pan), cse)
				continue
			}
			if rec.err == dyntpl.ErrTplNotFound {
				r.Count("notfound", false)
				r.Violate("conc kind=notfound tpl="+n.name, "ErrTplNotFound for a template registered before the stress started", cse)
				continue
			}
			if rec.err != nil {
				r.Count("error", false)
				cse["err"] = rec.err.Error()
				r.Violate("conc kind=mixed err tpl="+n.name, "a concurrent render failed with "+rec.err.Error()+" although every version renders sequentially", cse)
				continue
			}
			// which versions does the output show?
			m := c06HeadRe.FindSubmatch(rec.out)
			if m == nil || string(m[1]) != n.name {
				r.Count("garbled", false)
				r.Violate("conc kind=mixed head tpl="+n.name, "output does not start with the tag of a version of "+n.name, cse)
				continue
			}
			v, _ := strconv.Atoi(string(m[2]))
			var incs []int
			var incNames []*c06Name
			for _, im := range c06IncRe.FindAllSubmatch(rec.out, -1) {
				w, _ := strconv.Atoi(string(im[2]))
				incs = append(incs, w)
				incNames = append(incNames, byName[string(im[1])])
			}
			cse["shows"] = fmt.Sprintf("%s#%d includes %v", n.name, v, incs)
			exp, bad := []byte(nil), ""
			if v < 1 || v > len(n.vers) {
				bad = "a version that was never created"
			} else {
				for j, in := range incNames {
					if in == nil || incs[j] < 1 || incs[j] > len(in.vers) {
						bad = "an include version that was never created"
					}
				}
			}
			if bad == "" {
				exp, bad = expected(n, v, incs, rec.ci)
			}
			if bad != "" {
				r.Count("garbled", false)
				cse["why"] = bad
				r.Violate("conc kind=mixed shape tpl="+n.name, "output is not the output of any combination of versions: "+bad, cse)
				continue
			}
			overl := n.overlaps(idx[n], rec.cs, rec.ce)
			for _, in := range incNames {
				overl = overl || in.overlaps(idx[in], rec.cs, rec.ce)
			}
			key := fmt.Sprintf("%s#%d/%v/c%d", n.name, v, incs, rec.ci)
			r.Count(key, overl)
			if overl {
				nontrivial++
			}
			if !bytes.Equal(exp, rec.out) {
				cse["sequential"] = string(exp)
				r.Violate("conc kind=mixed bytes tpl="+n.name, "concurrent output differs from the sequential output of the versions it shows", cse)
				continue
			}
			// liveness of every version shown
			st := n.live(idx[n], v, rec.cs, rec.ce)
			who := n.name
			for j, in := range incNames {
				if s := in.live(idx[in], incs[j], rec.cs, rec.ce); s > st {
					st, who = s, in.name
				}
			}
			switch st {
			case 1:
				r.Violate("conc kind=stale tpl="+n.name+" name="+who, "a render that started after a Register of "+who+" had returned still shows an older version", cse)
			case 2:
				r.Internal(fmt.Sprintf("C06 bookkeeping: render shows a version of %s whose registration started after the call returned: %v", who, cse))
			}
			if len(incs) > 1 && (rec.cs+int64(i))%997 == 0 {
				r.Sample(cse)
			}
		}
	}
	if len(r.Samples) == 0 && len(recs) > 0 && len(recs[0]) > 0 {
		rec := recs[0][0]
		r.Sample(map[string]any{"template": names[rec.key].name, "out": string(rec.out), "call_interval": []int64{rec.cs, rec.ce}})
	}
	r.Dist["renders_checked"] = renders
	r.Dist["renders_total"] = int(atomic.LoadInt64(&allRenders))
	r.Dist["contexts_released_dirty"] = int(atomic.LoadInt64(&dirtyReleases))
	r.Dist["renders_quiet_only_shape_checked"] = int(atomic.LoadInt64(&quietRenders))
	r.Dist["renders_overlapping_a_registration"] = nontrivial
	r.Dist["renders_not_recorded"] = dropped
	r.Dist["versions_total"] = nvers
	r.Dist["frozen_combinations_rendered"] = len(expCache)
	if renders == 0 || nontrivial == 0 {
		r.Internal(fmt.Sprintf("C06: stress produced %d renders, %d overlapping a registration", renders, nontrivial))
	}

	c06Flavours(r)
	c06Names(r)
	parseFileRel(r, "conc kind=stale ")
	c06Helpers(r)
	nilTreeKeepsRegistry(r, "")
	c06IncludeMixture(r)
	c06FallbackOneLookup(r)
	c06PoolCleanReturn(r)
	c06PoolCleanContext(r)
	regFreePairings(r, "conc kind=stale ", "after a registration has returned, a lookup by one of the template's names does not give the version registered under it", 4, r.N(2000, 50000))
	c06DeepIncludes(r)
	c06ModelTie(r)
}

// c06Names: "after a re-registration has returned, the new version" under BOTH of a template's names, whatever order
// the names were introduced in, and also when the tree handed to Register* is one the registry already knows (Parse
// returns the registered tree for a source it has seen).
func c06Names(r *Run) {
	srcs := []string{"[n v1 {%= tag %}]", "[n v2 {%= tag %}]", "[n v3 {%= tag %}]"}
	render := func(byID bool, id int, key string) string {
		ctx := dyntpl.NewCtx()
		ctx.SetString("tag", "T")
		var buf bytes.Buffer
		var err error
		if byID {
			err = dyntpl.WriteByID(&buf, id, ctx)
		} else {
			err = dyntpl.Write(&buf, key, ctx)
		}
		if err != nil {
			return "error: " + err.Error()
		}
		return buf.String()
	}
	// expected: the registry's own slot discipline (the refinement proved in Props/C04: a name points to a slot, a
	// registration finds its slot by key, else by id, else takes a new one, and then points every name it was given at it)
	perms := [][]string{{"id:0", "key:1", "both:1"}, {"key:0", "id:1", "both:1"}, {"id:0", "key:1", "both:2"}, {"both:0", "id:1", "key:2", "both:1"}, {"key:0", "both:0", "id:1", "both:0"},
		{"id:0", "key:1", "both:1", "id:2", "key:0"}}
	for pi, steps := range perms {
		id, key := 7000+pi, fmt.Sprintf("c06names%d", pi)
		var hist []string
		var slots []string
		slotID, slotKey := -1, -1
		for si, st := range steps {
			kind, v := st[:strings.IndexByte(st, ':')], int(st[len(st)-1]-'0')
			tree, err, pan := parseSafe([]byte(srcs[v]), false) // (a source seen before comes back as the registered tree)
			if err != nil || pan != "" {
				r.Internal("C06 names: source does not parse")
				return
			}
			out := strings.Replace(srcs[v], "{%= tag %}", "T", 1)
			hasID, hasKey := kind != "key", kind != "id"
			idx := -1
			if hasKey && slotKey >= 0 {
				idx = slotKey
			} else if hasID && slotID >= 0 {
				idx = slotID
			}
			if idx < 0 {
				slots = append(slots, out)
				idx = len(slots) - 1
			} else {
				slots[idx] = out
			}
			if hasID {
				slotID = idx
			}
			if hasKey {
				slotKey = idx
			}
			switch kind {
			case "id":
				dyntpl.RegisterTplID(id, tree)
			case "key":
				dyntpl.RegisterTplKey(key, tree)
			default:
				dyntpl.RegisterTpl(id, key, tree)
			}
			hist = append(hist, fmt.Sprintf("%s <- Parse(%q)", st, srcs[v]))
			wantID, wantKey := "", ""
			if slotID >= 0 {
				wantID = slots[slotID]
			}
			if slotKey >= 0 {
				wantKey = slots[slotKey]
			}
			gotID, gotKey := render(true, id, key), render(false, id, key)
			r.Count(fmt.Sprintf("names:%d:%d", pi, si), true)
			r.Dist["names-re-registration"]++
			if (wantID != "" && gotID != wantID) || (wantKey != "" && gotKey != wantKey) {
				r.Violate(fmt.Sprintf("conc kind=stale names perm=%d step=%d", pi, si), "after a registration has returned, a lookup by one of the template's names does not give the version the registry's slot discipline says",
					map[string]any{"history": hist, "by_id": gotID, "by_id_expected": wantID, "by_key": gotKey, "by_key_expected": wantKey})
				break
			}
		}
	}
}

// c06DeepIncludes: renderers of a host whose include includes another template, while writers keep re-registering
// the innermost one. Outputs are trivial; what is checked is that everybody keeps making progress (a registry lock
// held across the rendering of an included template deadlocks against a waiting writer).
func c06DeepIncludes(r *Run) {
	reg := func(key, src string) bool {
		tree, err, pan := parseSafe([]byte(src), false)
		if err != nil || pan != "" {
			return false
		}
		dyntpl.RegisterTplKey(key, tree)
		return true
	}
	// (the inner includes name a MISSING template first: the lookup walks a list of names while writers wait for the lock)
	if !reg("c06deepC", "c0") || !reg("c06deepB", "b({% include c06deepNone c06deepC %})({% . c06deepNone c06deepNone2 c06deepC %})") || !reg("c06deepA", "a[{% include c06deepB %}][{% include c06deepNone c06deepB %}]") ||
		!reg("c06deepH", "h<{% include c06deepA %}>") {
		r.Internal("C06 deep includes: templates do not parse")
		return
	}
	var stop int32
	var renders, regs, bad int64
	var wg sync.WaitGroup
	for g := 0; g < 8; g++ {
		wg.Add(1)
		go func() {
			defer wg.Done()
			var buf bytes.Buffer
			for atomic.LoadInt32(&stop) == 0 {
				ctx := dyntpl.AcquireCtx()
				buf.Reset()
				err := dyntpl.Write(&buf, "c06deepH", ctx)
				dyntpl.ReleaseCtx(ctx)
				if err != nil || !strings.HasPrefix(buf.String(), "h<a[b(c") || !strings.HasSuffix(buf.String(), ")]>") {
					atomic.AddInt64(&bad, 1)
				}
				atomic.AddInt64(&renders, 1)
			}
		}()
	}
	for w := 0; w < 3; w++ {
		wg.Add(1)
		go func(w int) {
			defer wg.Done()
			for i := 0; atomic.LoadInt32(&stop) == 0; i++ {
				reg("c06deepC", "c"+strconv.Itoa(i%10))
				atomic.AddInt64(&regs, 1)
				runtime.Gosched()
			}
		}(w)
	}
	dur := time.Duration(r.N(2, 10)) * time.Second
	end := time.Now().Add(dur)
	lastR, lastW, lastT := int64(-1), int64(-1), time.Now()
	stuck := false
	for time.Now().Before(end) {
		time.Sleep(100 * time.Millisecond)
		nr, nw := atomic.LoadInt64(&renders), atomic.LoadInt64(&regs)
		if nr != lastR && nw != lastW {
			lastR, lastW, lastT = nr, nw, time.Now()
		} else if time.Since(lastT) > 5*time.Second {
			stuck = true
			break
		}
	}
	atomic.StoreInt32(&stop, 1)
	done := make(chan struct{})
	go func() { wg.Wait(); close(done) }()
	select {
	case <-done:
	case <-time.After(8 * time.Second):
		stuck = true
	}
	r.Count("deep-includes-stress", true)
	r.Dist["deep_include_renders"] = int(atomic.LoadInt64(&renders))
	r.Dist["deep_include_registrations"] = int(atomic.LoadInt64(&regs))
	if stuck {
		dump := make([]byte, 1<<20)
		dump = dump[:runtime.Stack(dump, true)]
		txt := string(dump)
		if len(txt) > 12000 {
			txt = txt[:12000]
		}
		r.Violate("conc kind=deadlock deep-includes", "renderers of nested includes and writers re-registering the innermost template stopped making progress",
			map[string]any{"host": "h<{% include c06deepA %}>", "a": "a[{% include c06deepB %}][{% include c06deepB %}]", "b": "b({% include c06deepC %})({% include c06deepC %})",
				"renders": atomic.LoadInt64(&renders), "registrations": atomic.LoadInt64(&regs), "goroutines": txt})
		r.Abort()
	}
	if n := atomic.LoadInt64(&bad); n > 0 {
		r.Violate("conc kind=mixed deep-includes", fmt.Sprintf("%d renders of the nested includes returned an error or a malformed output", n), map[string]any{"bad_renders": n})
	}
}

// c06Flavours: "after a re-registration has returned, the new version" — also when the new version is the SAME source
// parsed with the other keepFmt setting (a template reloaded with another option): the registered name must render
// the flavour registered last, in both orders, through every way of registering.
func c06Flavours(r *Run) {
	for way := 0; way < 3; way++ {
		for _, first := range []bool{false, true} {
			src := fmt.Sprintf("[f%d%v a\n\t  b{%%= tag %%}\n  c f%d%v]", way, first, way, first)
			name := fmt.Sprintf("c06flavour%d%v", way, first)
			n := &c06Name{name: name, id: 900 + way*2}
			if first {
				n.id++
			}
			var hist []string
			ok := true
			for step, keep := range []bool{first, !first, first} {
				tree, err, pan := parseSafe([]byte(src), keep)
				if err != nil || pan != "" {
					r.Internal("C06 flavours: source does not parse")
					ok = false
					break
				}
				c06Register(n, tree, way)
				ctx := dyntpl.NewCtx()
				ctx.SetString("tag", "T")
				var buf bytes.Buffer
				var rerr error
				if way%3 == 1 {
					rerr = dyntpl.WriteByID(&buf, n.id, ctx)
				} else {
					rerr = dyntpl.Write(&buf, n.name, ctx)
				}
				kept := strings.Contains(buf.String(), "\n")
				hist = append(hist, fmt.Sprintf("Parse(src, keepFmt=%v), register (way %d), render -> %q", keep, way, buf.String()))
				r.Count(fmt.Sprintf("flavour:%d:%v:%d", way, first, step), true)
				r.Dist["flavour-re-registration"]++
				if rerr != nil || kept != keep {
					r.Violate(fmt.Sprintf("conc kind=stale flavour way=%d first=%v step=%d", way, first, step), "after re-registering the same source parsed with the other keepFmt setting the name still renders the old flavour",
						map[string]any{"source": src, "history": hist, "error": fmt.Sprint(rerr)})
					break
				}
			}
			_ = ok
		}
	}
}

// ---- race detector run ----

func c06GoEnv() []string {
	env := os.Environ()
	return append(env, "GOFLAGS=-mod=mod", "GOPROXY=off", "GOSUMDB=off", "GOTOOLCHAIN=local", "CGO_ENABLED=1")
}

func c06BuildRace() (bin, log string) {
	dir := "/verif/harness/racecheck"
	if _, err := os.Stat(filepath.Join(dir, "main.go")); err != nil {
		return "", "no racecheck program: " + err.Error()
	}
	if b, err := os.ReadFile("/repo/go.sum"); err == nil {
		_ = os.WriteFile(filepath.Join(dir, "go.sum"), b, 0o644)
	}
	_ = os.MkdirAll("/verif/.work", 0o755)
	bin = "/verif/.work/racecheck_c06"
	cmd := exec.Command("go", "build", "-race", "-o", bin, ".")
	cmd.Dir = dir
	cmd.Env = c06GoEnv()
	out, err := cmd.CombinedOutput()
	if err != nil {
		return "", strings.TrimSpace(string(out)) + " (" + err.Error() + ")"
	}
	return bin, ""
}

// c06RunRace runs the race-instrumented stress; true = it found a race in /repo, a fatal error or a wrong output.
func c06RunRace(r *Run, bin string) (failed bool) {
	nv0 := len(r.Violations)
	defer func() { failed = len(r.Violations) > nv0 }() // known findings do not count
	secs := r.N(3, 20)
	args := []string{"-seconds", strconv.Itoa(secs), "-seed", strconv.FormatInt(r.Seed, 10)}
	// The SetString/S2B use-after-free fires about once per 80 s of stress: exercise it only when it is listed as an
	// open finding (then a hit is reported as KNOWN-FINDING and the verdict stays deterministic), or on request.
	dyn := os.Getenv("VERIF_C06_DYNSTR") == "1"
	for _, k := range r.known {
		dyn = dyn || strings.Contains(k.Match, "Ctx.SetString")
	}
	if dyn {
		args = append(args, "-dynstr")
		r.Dist["race_run_dynstr"]++
	}
	cmd := exec.Command(bin, args...)
	cmd.Env = append(os.Environ(), "GORACE=halt_on_error=0 exitcode=0 history_size=2")
	var outb, errb bytes.Buffer
	cmd.Stdout, cmd.Stderr = &outb, &errb
	done := make(chan error, 1)
	if err := cmd.Start(); err != nil {
		r.Dist["race_run_skipped"]++
		r.Notes = append(r.Notes, "race detector run skipped: "+err.Error())
		return false
	}
	go func() { done <- cmd.Wait() }()
	select {
	case err := <-done:
		if err != nil && !strings.Contains(errb.String(), "DATA RACE") {
			r.Dist["race_run_failed"]++
			r.Notes = append(r.Notes, "racecheck exited with "+err.Error()+": "+firstLine(errb.String()))
		}
		if i := strings.Index(errb.String(), "fatal error:"); i >= 0 {
			msg := errb.String()[i:]
			what := firstLine(msg)
			if len(msg) > 3000 {
				msg = msg[:3000]
			}
			if strings.Contains(msg, "/repo/") || strings.Contains(what, "concurrent map") {
				r.Violate("conc kind=panic fatal "+what, "the race-instrumented stress died with a Go runtime "+what,
					map[string]any{"stderr": msg, "rerun": "cd /verif/harness/racecheck && go run -race . -seconds 5"})
			}
		}
	case <-time.After(time.Duration(secs*4+30) * time.Second):
		_ = cmd.Process.Kill()
		r.Notes = append(r.Notes, "racecheck timed out")
		r.Violate("conc kind=deadlock racecheck", fmt.Sprintf("the race-instrumented stress (renderers + writers, %d s of work) did not finish within %d s: renders or registrations are stuck", secs, secs*4+30),
			map[string]any{"stdout_tail": tailStr(outb.String(), 1500), "stderr_tail": tailStr(errb.String(), 3000), "rerun": "cd /verif/harness/racecheck && go run -race . -seconds 5"})
	}
	r.Dist["race_run"]++
	for _, l := range strings.Split(outb.String(), "\n") {
		if strings.HasPrefix(l, "racecheck:") {
			r.Notes = append(r.Notes, l)
		}
		if strings.HasPrefix(l, "BAD ") {
			r.Violate("conc kind=mixed racecheck", "racecheck (race-instrumented stress) saw a wrong output: "+l, map[string]any{"line": l})
		}
	}
	reports := strings.Split(errb.String(), "==================")
	seen := map[string]bool{}
	for _, rep := range reports {
		if !strings.Contains(rep, "WARNING: DATA RACE") {
			continue
		}
		r.Dist["race_reports"]++
		if !strings.Contains(rep, "/repo/") {
			r.Dist["race_reports_outside_repo"]++
			continue
		}
		// signature: per access, its kind and the innermost two functions of /repo on its stack (no line numbers, so
		// that a known-finding entry survives edits); the two accesses in lexical order
		sig := c06RaceSig(rep)
		if seen[sig] {
			continue
		}
		seen[sig] = true
		if len(rep) > 3000 {
			rep = rep[:3000]
		}
		r.Violate("conc kind=race at="+sig, "the race detector reports a data race in /repo during concurrent renders and registrations",
			map[string]any{"report": rep, "rerun": "cd /verif/harness/racecheck && go run -race . -seconds 5"})
	}
	return failed
}

func tailStr(s string, n int) string {
	if len(s) > n {
		return s[len(s)-n:]
	}
	return s
}

// c06RaceSig condenses one race report to "<access> | <access>", an access being e.g. "read:Ctx.SetBytes<Ctx.SetString".
func c06RaceSig(rep string) string {
	var accs []string
	for _, sec := range strings.Split(rep, "\n\n") {
		lines := strings.Split(strings.TrimSpace(sec), "\n")
		if len(lines) == 0 {
			continue
		}
		head := strings.ToLower(strings.TrimSpace(lines[0]))
		head = strings.TrimPrefix(head, "warning: data race\n")
		kind := ""
		for _, l := range lines[:c06Min(2, len(lines))] {
			l = strings.ToLower(strings.TrimSpace(l))
			switch {
			case strings.HasPrefix(l, "write at"), strings.HasPrefix(l, "previous write at"):
				kind = "write"
			case strings.HasPrefix(l, "read at"), strings.HasPrefix(l, "previous read at"):
				kind = "read"
			case strings.HasPrefix(l, "atomic"), strings.HasPrefix(l, "previous atomic"):
				kind = "atomic"
			}
		}
		if kind == "" {
			continue
		}
		var fns []string
		for i := 0; i+1 < len(lines) && len(fns) < 2; i++ {
			if strings.HasPrefix(strings.TrimSpace(lines[i+1]), "/repo/") {
				f := strings.TrimSpace(lines[i])
				f = strings.TrimSuffix(f, "()")
				f = strings.TrimPrefix(f, "github.com/koykov/dyntpl.")
				f = strings.NewReplacer("(*", "", ")", "").Replace(f)
				fns = append(fns, f)
			}
		}
		accs = append(accs, kind+":"+strings.Join(fns, "<"))
		if len(accs) == 2 {
			break
		}
	}
	sort.Strings(accs)
	return strings.Join(accs, " | ")
}

func c06Min(a, b int) int {
	if a < b {
		return a
	}
	return b
}

// ---- model tie: sequential histories, Go registry vs interleaving model ----

func c06Drive(r *Run, lines []string) []string {
	ans := r.Drive(lines[:1])
	if len(ans) == 1 && ans[0] != "bad-op" && ans[0] != "" {
		return r.Drive(lines)
	}
	// the main driver does not know "conc" (yet): use the stand-alone wrapper if present
	if len(r.InternalErrs) > 0 && strings.Contains(r.InternalErrs[len(r.InternalErrs)-1], "lean driver") {
		r.InternalErrs = r.InternalErrs[:len(r.InternalErrs)-1]
	}
	wr := "/verif/.work/drv_c06.sh"
	if _, err := os.Stat(wr); err != nil {
		return nil
	}
	cmd := exec.Command(wr)
	cmd.Stdin = strings.NewReader(strings.Join(lines, "\n") + "\n")
	out, err := cmd.Output()
	if err != nil {
		return nil
	}
	var res []string
	for _, l := range strings.Split(strings.TrimRight(string(out), "\n"), "\n") {
		if !strings.Contains(l, "conda.cli.condarc") {
			res = append(res, l)
		}
	}
	if len(res) != len(lines) {
		return nil
	}
	return res
}

func c06ModelTie(r *Run) {
	nh := r.N(40, 400)
	type hist struct {
		line string
		want string
		desc []string
	}
	var hs []hist
	keys := []string{"mk0", "mk1", "mk2"}
	for h := 0; h < nh; h++ {
		dyntpl.VerifResetRegistry()
		var toks, sched, want, desc []string
		tid := 0
		ver := 0
		nops := 2 + r.Rng.Intn(7)
		for o := 0; o < nops; o++ {
			k := keys[r.Rng.Intn(len(keys))]
			if r.Rng.Intn(2) == 0 {
				ver++
				tree, err, pan := parseSafe([]byte(fmt.Sprintf("<%d>", ver)), false)
				if err != nil || pan != "" {
					r.Internal("C06 model tie: parse failed")
					return
				}
				dyntpl.RegisterTplKey(k, tree)
				toks = append(toks, fmt.Sprintf("W:%s:%d", khex(k), ver))
				for s := 0; s < 8; s++ {
					sched = append(sched, strconv.Itoa(tid))
				}
				desc = append(desc, fmt.Sprintf("RegisterTplKey(%q, v%d)", k, ver))
				tid++
			} else {
				ctx := dyntpl.NewCtx()
				res := renderSafe(k, ctx)
				got := "nf"
				if res.Err == nil && res.Panic == "" {
					got = strings.Trim(string(res.Out), "<>")
				} else if res.Err != dyntpl.ErrTplNotFound {
					got = "err"
				}
				toks = append(toks, "R:"+khex(k))
				for s := 0; s < 5; s++ {
					sched = append(sched, strconv.Itoa(tid))
				}
				want = append(want, fmt.Sprintf("%d=%s!", tid, got))
				desc = append(desc, fmt.Sprintf("Write(%q) -> %s", k, got))
				tid++
			}
		}
		hs = append(hs, hist{line: "conc " + strings.Join(toks, ",") + " " + strings.Join(sched, " "),
			want: strings.TrimSpace("ok " + strings.Join(want, " ")), desc: desc})
	}
	dyntpl.VerifResetRegistry()
	lines := make([]string, len(hs))
	for i, h := range hs {
		lines[i] = h.line
	}
	ans := c06Drive(r, lines)
	if ans == nil {
		r.Dist["model_tie_skipped"]++
		r.Notes = append(r.Notes, "model tie skipped: the Lean driver does not answer 'conc' requests (add DriverC06 to Driver.lean)")
		return
	}
	for i, h := range hs {
		r.Dist["model_tie_histories"]++
		if ans[i] != h.want {
			r.TieBreak("sequential history: Go registry vs interleaving model (conc)", map[string]any{"history": h.desc, "request": h.line}, h.want, ans[i])
		}
	}
}

// c06Helpers: renders that use DIFFERENT condition helpers, modifiers (long names, short names, namespaced) and globals at
// the same time, each goroutine with its own context and its own template: every render returns what it returns
// running alone (the helper / modifier / global registries are read by all renderers; a getter that remembers the
// last lookup without synchronisation hands one goroutine the other's function).
func c06Helpers(r *Run) {
	tpls := []string{
		`{% if lenGt0(x) %}G{% else %}-{% endif %}{% if vyes(x) %}Y{% else %}n{% endif %}`,
		`{% if lenEq0(x) %}E{% else %}-{% endif %}{% if vfalse(x) %}F{% else %}t{% endif %}`,
		`{% if vns::len(x) %}L{% else %}-{% endif %}{% if lenGtq0(y) %}Q{% else %}q{% endif %}`,
		`{% switch %}{% case vtrue() %}T{% default %}D{% endswitch %}{% if veq(x, y) %}=={% else %}!={% endif %}`,
		`{%= x|default("d")|he %}{%= y|htmlEscape %}{%= z|def("z") %}`,
		`{%= x|jsonQuote %}{%= y|ue %}{%= x|ifThen("then") %}`,
		`{%= n|math::add(2) %}|{%= n|math::mul(3)|roundPrec(1) %}`,
		`{% if vns::cap(y) %}C{% else %}c{% endif %}{%= y|vcat("a", x) %}`,
	}
	var keys []string
	for _, src := range tpls {
		k, err, pan := regTpl(src, true)
		if err != nil || pan != "" {
			r.Internal("C06 helpers: template does not parse: " + src)
			return
		}
		keys = append(keys, k)
	}
	mk := func(g int) *dyntpl.Ctx {
		c := dyntpl.NewCtx()
		c.SetString("x", []string{"yes", "no", "<b>"}[g%3])
		c.SetString("y", []string{"", "yes", "a b"}[g%3])
		c.SetStatic("n", float64(g)+0.25)
		return c
	}
	want := make([]string, len(tpls))
	for g := range tpls {
		res := renderSafe(keys[g], mk(g))
		want[g] = string(res.Out) + " " + res.ErrStr()
	}
	rounds := r.N(20000, 300000)
	var mu sync.Mutex
	var bads []map[string]any
	var wg sync.WaitGroup
	start := make(chan struct{})
	for g := range tpls {
		wg.Add(1)
		go func(g int) {
			defer wg.Done()
			ctx := mk(g)
			<-start
			for it := 0; it < rounds; it++ {
				res := renderSafe(keys[g], ctx)
				if got := string(res.Out) + " " + res.ErrStr(); got != want[g] {
					mu.Lock()
					if len(bads) < 3 {
						bads = append(bads, map[string]any{"template": tpls[g], "output": got, "output_alone": want[g], "iteration": it, "goroutines": len(tpls)})
					}
					mu.Unlock()
					return
				}
			}
		}(g)
	}
	close(start)
	wg.Wait()
	r.Count("helpers-concurrent", true)
	r.Dist["helper_concurrent_renders"] = rounds * len(tpls)
	for _, b := range bads {
		r.Violate("conc kind=mixed helpers tpl="+b["template"].(string), "a render that runs while other goroutines render templates with OTHER helpers / modifiers gives another result than running alone", b)
	}
}

// nilTreeKeepsRegistry: a registration that cannot be carried out — a nil tree, as `ParseFile` returns for a missing
// file — is API misuse and may panic, but it must neither change the registry nor leave it locked: renders and
// registrations of other goroutines go on, and the name keeps its version (C06 "atomic", "never a crash"; the panic
// used to happen while the write lock was held, after the slot had been replaced).
func nilTreeKeepsRegistry(r *Run, prefix string) {
	defer dyntpl.VerifResetRegistry()
	type regFn struct {
		name string
		fn   func()
	}
	for variant, reg := range []regFn{
		{"RegisterTplKey(k, nil)", func() { dyntpl.RegisterTplKey("nt-k", nil) }},
		{"RegisterTplID(7, nil)", func() { dyntpl.RegisterTplID(7, nil) }},
		{"RegisterTpl(7, k, nil)", func() { dyntpl.RegisterTpl(7, "nt-k", nil) }},
		{"RegisterTplKey(new, nil)", func() { dyntpl.RegisterTplKey("nt-new", nil) }},
	} {
		dyntpl.VerifResetRegistry()
		good, err, pan := parseSafe([]byte("nt-good[{%= v %}]"), true)
		good2, err2, pan2 := parseSafe([]byte("nt-other[{%= v %}]"), true)
		if err != nil || err2 != nil || pan != "" || pan2 != "" {
			r.Internal("nil-tree: good sources do not parse")
			return
		}
		dyntpl.RegisterTpl(7, "nt-k", good)
		sig := fmt.Sprintf("%snil-tree-keeps-registry variant=%d %s", prefix, variant, reg.name)
		r.Count(sig, true)
		r.Dist[prefix+"nil_tree_keeps_registry"]++
		regPan := ""
		func() {
			defer func() {
				if x := recover(); x != nil {
					regPan = fmt.Sprint(x)
				}
			}()
			reg.fn()
		}()
		type outcome struct{ byKey, byID, other string }
		done := make(chan outcome, 1)
		go func() {
			var o outcome
			render := func(f func(ctx *dyntpl.Ctx) ([]byte, error)) string {
				ctx := dyntpl.NewCtx()
				ctx.SetString("v", "!")
				b, e := f(ctx)
				if e != nil {
					return "error: " + e.Error()
				}
				return string(b)
			}
			o.byKey = render(func(ctx *dyntpl.Ctx) ([]byte, error) { return dyntpl.Render("nt-k", ctx) })
			o.byID = render(func(ctx *dyntpl.Ctx) ([]byte, error) { return dyntpl.RenderByID(7, ctx) })
			dyntpl.RegisterTplKey("nt-other", good2)
			o.other = render(func(ctx *dyntpl.Ctx) ([]byte, error) { return dyntpl.Render("nt-other", ctx) })
			done <- o
		}()
		select {
		case o := <-done:
			if o.byKey != "nt-good[!]" || o.byID != "nt-good[!]" || o.other != "nt-other[!]" {
				r.Violate(sig+" changed", "a registration with a nil tree changed what the registered names render",
					map[string]any{"call": reg.name, "panic_of_the_call": regPan, "by_key": o.byKey, "by_id": o.byID, "other": o.other, "expected": "nt-good[!] / nt-good[!] / nt-other[!]"})
			}
		case <-time.After(3 * time.Second):
			r.Violate(sig+" locked", "after a registration with a nil tree (which panicked) renders and registrations block: the registry lock was never released",
				map[string]any{"call": reg.name, "panic_of_the_call": regPan})
			r.Abort() // the registry is unusable now (VerifResetRegistry would block too): write the results and exit
		}
	}
}

type c06HookWriter struct {
	buf  bytes.Buffer
	at   string
	hook func()
	done bool
}

func (w *c06HookWriter) Write(p []byte) (int, error) {
	if !w.done && string(p) == w.at {
		w.done = true
		w.hook()
	}
	return w.buf.Write(p)
}

// c06IncludeMixture: one render that includes the same template several times while another goroutine re-registers
// it. The interleaving is forced: the render's writer starts the registration, and waits for it to return, when it
// sees a marker chunk. Running alone against either version the render gives all-old or all-new; a render that
// contains both is a mixture (open finding F-include-mixture: every include tag is a registry lookup of its own).
// The same probe with the re-registration of the RENDERED template itself must not mix (its tree is held).
func c06IncludeMixture(r *Run) {
	defer dyntpl.VerifResetRegistry()
	for _, tc := range []struct{ name, main, marker string }{
		{"loop", `{% for i := 0; i < 3; i++ sep | %}{% include mixSub %}{% endfor %}`, "|"},
		{"sequence", `{% include mixSub %};{% include mixSub %}`, ";"},
		{"nested", `{% include mixMid %};{% include mixMid %}`, ";"},
	} {
		dyntpl.VerifResetRegistry()
		reg := func(key, src string) bool {
			t, err, pan := parseSafe([]byte(src), false)
			if err != nil || pan != "" {
				return false
			}
			dyntpl.RegisterTplKey(key, t)
			return true
		}
		newSub, err, pan := parseSafe([]byte("<NEW>"), false)
		if !reg("mixSub", "<old>") || !reg("mixMid", "[{% include mixSub %}]") || !reg("mixMain", tc.main) || err != nil || pan != "" {
			r.Internal("C06 include mixture: sources do not parse")
			return
		}
		render := func(hook func()) string {
			w := &c06HookWriter{at: tc.marker, hook: hook}
			ctx := dyntpl.AcquireCtx()
			defer dyntpl.ReleaseCtx(ctx)
			if err := dyntpl.Write(w, "mixMain", ctx); err != nil {
				return "error: " + err.Error()
			}
			return w.buf.String()
		}
		allOld := render(func() {})
		got := render(func() {
			ch := make(chan struct{})
			go func() { dyntpl.RegisterTplKey("mixSub", newSub); close(ch) }()
			<-ch
		})
		allNew := render(func() {})
		sig := "conc kind=include-mixture form=" + tc.name
		r.Count(sig, true)
		r.Dist["include_mixture_probe"]++
		if got != allOld && got != allNew {
			r.Violate(sig, "one render contains two versions of an included template that was re-registered while it ran: neither the render alone against the old version nor against the new one",
				map[string]any{"main": tc.main, "output": got, "alone_against_old": allOld, "alone_against_new": allNew})
		}
	}
}


// c06FallbackOneLookup: WriteFallback / RenderFallback look the template up ONCE (one locked lookup over both names) and
// render what they found: when the first key is registered the fallback is never looked at, whatever the render of
// the first returns — also "template not found" from an include INSIDE it (a second lookup after a failed render
// would append the fallback's output to the partial output, and would read the registry twice).
func c06FallbackOneLookup(r *Run) {
	defer dyntpl.VerifResetRegistry()
	for variant, mainSrc := range []string{`custom[{%= v %}]{% include c06-fb-missing %}tail`, `custom[{%= v %}]`, `{% include c06-fb-missing %}`,
		`custom{% for i := 0; i < 2; i++ %}[{%= i %}{% include c06-fb-missing %}]{% endfor %}`} {
		dyntpl.VerifResetRegistry()
		mt, err1, pan1 := parseSafe([]byte(mainSrc), true)
		ft, err2, pan2 := parseSafe([]byte(`default[{%= v %}]`), true)
		if err1 != nil || err2 != nil || pan1 != "" || pan2 != "" {
			r.Internal("fallback-one-lookup: sources do not parse")
			return
		}
		dyntpl.RegisterTplKey("c06-fb-main", mt)
		dyntpl.RegisterTplKey("c06-fb-dflt", ft)
		sig := fmt.Sprintf("fallback-one-lookup variant=%d %s", variant, mainSrc)
		r.Count(sig, true)
		r.Dist["fallback_one_lookup"]++
		type res struct{ out, err string }
		run := func(f func(ctx *dyntpl.Ctx, w *bytes.Buffer) error) (x res) {
			defer func() {
				if p := recover(); p != nil {
					x = res{"", fmt.Sprint("panic: ", p)}
				}
			}()
			ctx := dyntpl.NewCtx()
			ctx.SetString("v", "bob")
			var buf bytes.Buffer
			e := f(ctx, &buf)
			return res{buf.String(), fmt.Sprint(e)}
		}
		plain := run(func(ctx *dyntpl.Ctx, w *bytes.Buffer) error { return dyntpl.Write(w, "c06-fb-main", ctx) })
		fbW := run(func(ctx *dyntpl.Ctx, w *bytes.Buffer) error { return dyntpl.WriteFallback(w, "c06-fb-main", "c06-fb-dflt", ctx) })
		fbR := run(func(ctx *dyntpl.Ctx, w *bytes.Buffer) error {
			b, e := dyntpl.RenderFallback("c06-fb-main", "c06-fb-dflt", ctx)
			w.Write(b)
			return e
		})
		plainR := run(func(ctx *dyntpl.Ctx, w *bytes.Buffer) error {
			b, e := dyntpl.Render("c06-fb-main", ctx)
			w.Write(b)
			return e
		})
		missing := run(func(ctx *dyntpl.Ctx, w *bytes.Buffer) error { return dyntpl.WriteFallback(w, "c06-fb-nosuch", "c06-fb-dflt", ctx) })
		if fbW != plain || fbR != plainR || missing != (res{"default[bob]", "<nil>"}) {
			r.Violate(sig, "WriteFallback / RenderFallback with a REGISTERED first key do not return what Write / Render of that key return (the fallback was looked up after the first template had been rendered)",
				map[string]any{"main_source": mainSrc, "write": plain, "write_fallback": fbW, "render": plainR, "render_fallback": fbR, "first_key_missing": missing})
		}
	}
}

// c06PoolCleanReturn: an object acquired during a render goes back to its pool RESET — reset first, put second: between a
// Put and a late Reset another goroutine can take the object and have it wiped under its hands. Observed at the pool
// itself (the harness pool marks objects in use and looks at the mark in Put), on released and on reset contexts.
func c06PoolCleanReturn(r *Run) {
	key, err, pan := regTpl(`{%= v|vacquire(4) %}{%= v|vacquire(7) %}{%= v|vgrow(40) %}`, true)
	if err != nil || pan != "" {
		r.Internal("pool-clean-return: source does not parse")
		return
	}
	for variant := 0; variant < 2; variant++ {
		sig := fmt.Sprintf("pool-clean-return variant=%d", variant)
		r.Count(sig, true)
		r.Dist["pool_clean_return"]++
		evReset()
		ctx := dyntpl.AcquireCtx()
		ctx.SetString("v", "x")
		res := renderSafe(key, ctx)
		if variant == 0 {
			dyntpl.ReleaseCtx(ctx)
		} else {
			ctx.Reset()
		}
		log := evStr()
		evReset()
		if res.Panic != "" || strings.Contains(log, "dirtyput") || strings.Contains(log, "putbuf40") || !strings.Contains(log, "rel4") || !strings.Contains(log, "rel7") {
			r.Violate(sig, "an object acquired during a render was handed back to its pool before it was reset (or not at all)",
				map[string]any{"event_log": log, "panic": res.Panic, "error": res.ErrStr()})
		}
	}
}


// c06PoolCleanContext: a context handed back with ReleaseCtx is CLEAN when the next goroutine acquires it, whatever its
// last render left behind — also when that render set no variable at all: a deferred function that never ran (the render
// failed after registering it) must not run in the next user's render, an acquired object must have gone home.
func c06PoolCleanContext(r *Run) {
	dirtyA, err, pan := regTpl(`{%= nope|vdefer(7) %}{%= nope|vacquire(8) %}x{% include c06-no-such-template %}`, true)
	dirtyB, err3, pan3 := regTpl(`{%= nope|vdefer(7) %}{% include c06-no-such-template %}`, true)
	plain, err2, pan2 := regTpl(`hello`, true)
	if err != nil || pan != "" || err2 != nil || pan2 != "" || err3 != nil || pan3 != "" {
		r.Internal("pool-clean-context: sources do not parse")
		return
	}
	for variant := 0; variant < 4; variant++ {
		dirty := dirtyA
		if variant >= 2 {
			// nothing but the deferred function is left behind: no variable, no pooled object, no include writer, no ctx.Err
			dirty = dirtyB
		}
		sig := fmt.Sprintf("pool-clean-context variant=%d", variant)
		r.Count(sig, true)
		r.Dist["pool_clean_context"]++
		evReset()
		ctx := dyntpl.AcquireCtx()
		if variant%2 == 1 {
			ctx.SetString("v", "x")
		}
		first := renderSafe(dirty, ctx)
		dyntpl.ReleaseCtx(ctx)
		atRelease := evStr()
		// the pool hands the same object to the next user (one goroutine: sync.Pool's private slot)
		var second rendered
		for k := 0; k < 4; k++ {
			c2 := dyntpl.AcquireCtx()
			second = renderSafe(plain, c2)
			dyntpl.ReleaseCtx(c2)
			if second.Err != nil || second.Panic != "" {
				break
			}
		}
		after := evStr()
		evReset()
		if first.Panic != "" || second.Panic != "" || second.Err != nil || string(second.Out) != "hello" || strings.Contains(after, "ran7") || (variant < 2 && !strings.Contains(atRelease, "rel8")) {
			r.Violate(sig, "a context taken from the pool carried what an earlier user's failed render had left in it (a deferred function that had never run, a pooled object)",
				map[string]any{"first_render_error": first.ErrStr(), "event_log_at_release": atRelease, "event_log_after_next_users": after, "next_user_output": string(second.Out), "next_user_error": second.ErrStr()})
		}
	}
}
