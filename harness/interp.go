package main

import (
	"bytes"
	"fmt"
	"math"
	"strconv"
	"strings"
	"time"

	"github.com/koykov/dyntpl"
	"github.com/koykov/inspector"
)

// runSessions executes render cases on the real engine and on the Lean interpreter model (on the
// dumped real trees) and compares. what(c, i, goRes, modelRes) classifies a divergence of render i:
// "" = not relevant for this property (tie break only), otherwise the violation text.
func runSessions(r *Run, cases []*RCase, what func(c *RCase, i int, g, m string) string) {
	var lines []string
	var live []*RCase
	for _, c := range cases {
		if !runWatched(r, c) {
			break
		}
		if c.Panic != "" {
			if panicInDependency(c.Panic) && (c.Meta == nil || c.Meta["must_not_panic"] == nil) {
				r.Dist["panic_in_dependency"]++ // not dyntpl's own code (C13 counts these separately)
				continue
			}
			r.Violate("panic "+firstLine(c.Panic)+" tpl="+c.Tpls[len(c.Tpls)-1].Src, "panic in dyntpl", c.Describe())
			continue
		}
		if c.PErr != "" {
			r.Dist["parse_rejected"]++
			if c.Meta == nil || c.Meta["may_not_parse"] == nil {
				r.Violate("parse-error "+c.PErr+" tpl="+c.Tpls[len(c.Tpls)-1].Src, "a generated well-formed template is rejected by Parse: "+c.PErr, c.Describe())
			}
			continue
		}
		lines = append(lines, c.Req)
		live = append(live, c)
		for _, t := range c.Tpls {
			if strings.Contains(t.Src, ":= vok(") || strings.Contains(t.Src, ":= vnosuch(") {
				r.Dist["templates_with_if_ok"]++
				break
			}
		}
	}
	// parser oracle: the trees the sessions run on are what the sources mean (asttie.go)
	checkParseBatch(r, live)
	ans := r.Drive(lines)
	for k, c := range live {
		c.Answer = ans[k]
		ms := strings.Split(ans[k], " | ")
		if ans[k] == "bad-session" || len(ms) != len(c.GoRes) {
			r.Internal("driver could not answer session: " + ans[k] + " for " + c.Tpls[len(c.Tpls)-1].Src)
			continue
		}
		nontrivial := false
		for i := range ms {
			if strings.Contains(ms[i], "outoffuel") || strings.Contains(ms[i], "unsupported") {
				r.Dist["model_out_of_class"]++
				continue
			}
			gs, gout, _, _, _ := resultFields(c.GoRes[i])
			if len(gout) > 0 || gs != "ok" {
				nontrivial = true
			}
			r.Dist["status:"+strings.SplitN(gs, "(", 2)[0]]++
			if strings.Contains(c.GoRes[i], " ? ") {
				// rendered through dyntpl.Render: the write count is unknown, compare the other fields
				mf := strings.Fields(ms[i])
				if len(mf) == 4 {
					mf[2] = "?"
					ms[i] = strings.Join(mf, " ")
				}
			}
			if ms[i] != c.GoRes[i] {
				w := what(c, i, c.GoRes[i], ms[i])
				sig := fmt.Sprintf("render#%d go=[%s] model=[%s] tpl=%s", i, c.GoRes[i], ms[i], c.Tpls[len(c.Tpls)-1].Src)
				if w != "" {
					r.Violate(sig, w, c.Describe())
				} else {
					r.TieBreak("Impl.write ≙ dyntpl.write", c.Describe(), c.GoRes[i], ms[i])
				}
			}
		}
		for _, d := range c.ShapeDiffs {
			if strings.HasPrefix(d, "after reset: ") {
				// the INTERNAL state of a reset context differs from a new one's. The model's Reset is "a new context";
				// this is the tie of that modelling step, not the property: a field a render re-initialises before
				// use may differ harmlessly. Reported as a broken correspondence unless a render shows the difference.
				r.TieBreak("Ctx.Reset ≙ NewCtx() (internal state, hook VerifCtxShape): "+d, c.Describe(), d, "")
				continue
			}
			r.Violate("ctx-shape "+d, "a reset context differs from a new one: "+d, c.Describe())
		}
		for _, d := range c.Mutated {
			r.Violate("mutated-output "+d, d, c.Describe())
		}
		key := c.Req
		r.Count(key, nontrivial)
		if r.Evaluations%997 == 1 {
			d := c.Describe()
			delete(d, "request")
			r.Sample(d)
		}
	}
}

// runWatched runs a session under a watchdog. A render that does not return is a finding of its own
// (no tree the generator produces needs more than milliseconds); the goroutine cannot be stopped, so the
// run is cut short: what was collected so far is judged, the result file is written and the process exits.
func runWatched(r *Run, c *RCase) bool {
	if r.aborted {
		return false
	}
	if len(c.Tpls) > 0 {
		guardCase("session tpl="+c.Tpls[len(c.Tpls)-1].Src, c.Describe())
	}
	done := make(chan struct{})
	go func() {
		defer close(done)
		c.Run()
	}()
	select {
	case <-done:
		return true
	case <-time.After(sessionTimeout):
		r.aborted = true
		d := map[string]any{"note": "the session did not finish; its state is not read (the render is still running)"}
		tp := []map[string]any{}
		for _, t := range c.Tpls {
			tp = append(tp, map[string]any{"key": t.Key, "source": t.Src, "keepFmt": t.KeepFmt})
		}
		d["templates"] = tp
		ops := []string{}
		for _, o := range c.Ops {
			ops = append(ops, o.Desc())
		}
		d["ops"] = ops
		r.Violate("timeout tpl="+c.Tpls[len(c.Tpls)-1].Src, fmt.Sprintf("a render session did not return within %v (unbounded computation or runaway recursion)", sessionTimeout), d)
		return false
	}
}

const sessionTimeout = 20 * time.Second

func firstLine(s string) string {
	if i := strings.IndexByte(s, '\n'); i >= 0 {
		return s[:i]
	}
	return s
}

// outputDiffers: the standard classification — status or output bytes differ.
func outputDiffers(c *RCase, i int, g, m string) string {
	gs, gout, _, _, ok1 := resultFields(g)
	ms, mout, _, _, ok2 := resultFields(m)
	if !ok1 || !ok2 {
		return "malformed result"
	}
	if gs != ms {
		return fmt.Sprintf("render result %s differs from the reference %s", gs, ms)
	}
	if !bytes.Equal(gout, mout) {
		return fmt.Sprintf("rendered output %q differs from the reference %q", gout, mout)
	}
	return ""
}

func init() {
	props["C01"] = func(r *Run) {
		r.Rule = "random templates of text, comments and print tags (plain paths of depth 1-4, indexed paths, prefix/suffix in both spellings), both keepFmt values, data with boundary numbers, empty strings/bytes, nil pointers, missing fields; " +
			"Go output vs Lean interpreter model on the dumped real tree; non-trivial = non-empty output or an error; distinct by request"
		cfg := GenCfg{MaxDepth: 0, MaxNodes: 12, PreSuf: true, Comments: true, Newlines: true}
		var cases []*RCase
		for i := 0; i < r.N(3000, 100000); i++ {
			c, _ := genCase(r, cfg)
			cases = append(cases, c)
		}
		// white space of every kind at the very beginning and end of a template: without keepFmt only blanks, tabs and
		// line feeds are cut there; a carriage return, form feed, vertical tab, NEL or no-break space is static text
		for _, ws := range []string{"\r", "\f", "\v", "\u00a0", "\u0085", " \r", "\r ", "\t\f", "\u2028", "\x00", " "} {
			for _, keep := range []bool{false, true} {
				for _, body := range [][]TNode{{Text{ws + "a"}, Print{Path: "si"}, Text{"b" + ws}}, {Text{ws}, Print{Path: "si"}, Text{ws}}, {Text{ws + "only text" + ws}}} {
					c := &RCase{Tpls: []TplDef{{Key: "main", Src: Source(body), KeepFmt: keep, Ast: body}}, Meta: map[string]any{"edge-whitespace": fmt.Sprintf("%q", ws), "keepFmt": keep}}
					c.Ops = []SOp{{Kind: "static", Name: "si", Val: int64(7)}, {Kind: "render", Key: "main"}}
					cases = append(cases, c)
					r.Dist["edge-whitespace"]++
				}
			}
		}
		// a variable that held a value is set again to an EMPTY one through every setter (and back): the print shows
		// the latest assignment — nothing, without prefix and suffix
		for _, first := range []SOp{{Kind: "string", Name: "x", Val: "old"}, {Kind: "bytes", Name: "x", Val: []byte("old")}, {Kind: "static", Name: "x", Val: "old"}, {Kind: "counter", Name: "x", Val: 5}} {
			for _, second := range []SOp{{Kind: "string", Name: "x", Val: ""}, {Kind: "bytes", Name: "x", Val: []byte{}}, {Kind: "static", Name: "x", Val: ""}, {Kind: "static", Name: "x", Val: nil}, {Kind: "bytes", Name: "x", Val: []byte("new")}} {
				c := &RCase{Tpls: []TplDef{{Key: "main", Src: `[{%= x pfx < sfx > %}|{%= x %}]`, KeepFmt: true}}, Meta: map[string]any{"set-then-set-empty": first.Desc() + " ; " + second.Desc()}}
				c.Ops = []SOp{first, {Kind: "render", Key: "main"}, second, {Kind: "render", Key: "main"}, first, {Kind: "render", Key: "main"}}
				cases = append(cases, c)
				r.Dist["set-then-set-empty"]++
			}
		}
		// loops only to give indexed paths a counter
		cfg2 := GenCfg{MaxDepth: 2, MaxNodes: 14, PreSuf: true, Loops: true}
		for i := 0; i < r.N(1000, 30000); i++ {
			c, _ := genCase(r, cfg2)
			cases = append(cases, c)
		}
		runSessions(r, cases, outputDiffers)
		// the text that is rendered under a name is the text of the template registered under THAT name, also when the
		// same tree is registered under several names and one of them is given another template later (regfree.go)
		regFreePairings(r, "", "a template's text is rendered under a name it was not registered under (or not the text most recently registered under that name)", 2, r.N(600, 20000))
		// the file entry point: ParseFile(name) is Parse(contents), final line break and all
		parseFileRel(r, "")
		// prefix / suffix texts that contain the keywords themselves, and keyword-like words: the LAST keyword of the
		// tag starts the suffix (parser oracle on the printed AST; Go output vs model on the dumped tree)
		var pcases []*RCase
		// … and texts that END in a brace or a percent sign (JSON: `pfx {"k": sfx }`): only the delimiters of the tag are
		// cut off, not every brace next to them
		for _, pre := range []string{"[ sfx ]", "a suffix b", "x prefix y", "pfx", "( sfx", "sfx )", "<b class=\"sfx\">", `{"name":`, "{", "width:{", "100%", "}"} {
			for _, suf := range []string{"!", "</b>", "sfxx", "; sfx-like", "pfx", "}", "%", "100%", "]}", "{", "}}"} {
				for _, kw := range [][2]string{{"pfx", "sfx"}, {"prefix", "suffix"}, {"pfx", "suffix"}} {
					body := []TNode{Text{"<"}, Print{Path: "si", Pre: pre, Suf: suf, PreKW: kw[0], SufKW: kw[1]}, Text{">"}, Print{Path: "nope", Pre: pre, Suf: suf, PreKW: kw[0], SufKW: kw[1]}}
					c := &RCase{Tpls: []TplDef{{Key: "main", Src: Source(body), KeepFmt: true, Ast: body}}, Meta: map[string]any{"keyword-in-prefix": pre, "suffix": suf}}
					c.Ops = []SOp{{Kind: "static", Name: "si", Val: int64(7)}, {Kind: "render", Key: "main"}}
					pcases = append(pcases, c)
					r.Dist["keyword-in-prefix"]++
				}
			}
		}
		// nil pointers of every scalar type as values: a print tag prints nothing — no prefix, no suffix, no panic
		for pi, p := range []any{(*int)(nil), (*int64)(nil), (*uint32)(nil), (*float64)(nil), (*string)(nil), (*[]byte)(nil), (*bool)(nil), (*float32)(nil)} {
			for _, tag := range []string{`{%= p %}`, `{%= p pfx < sfx > %}`, `{%= p prefix [ %}`, `{%j= p sfx ; %}`, `{%= p %}{%= si pfx ( sfx ) %}{%= p suffix ! %}`} {
				src := `a[` + tag + `]b`
				c := &RCase{Tpls: []TplDef{{Key: "main", Src: src, KeepFmt: true}}, Meta: map[string]any{"typed-nil-pointer-printed": fmt.Sprintf("%T", p), "tag": tag, "n": pi,
					"must_not_panic": "C01 names nil pointers among the values that print nothing: handing one to a converter that dereferences it is dyntpl's doing"}}
				c.Ops = []SOp{{Kind: "static", Name: "p", Val: p}, {Kind: "static", Name: "si", Val: int64(7)}, {Kind: "render", Key: "main"}, {Kind: "render", Key: "main"}}
				pcases = append(pcases, c)
				r.Dist["typed-nil-pointer-printed"]++
			}
		}
		// the square-bracket mode of counter loops ends with the loop however the loop ends (exit, an error, a failing
		// writer): an indexed path OUTSIDE counter loops names nothing and prints nothing, in the same render (the loop
		// sits in an included template) and in the next one on the same context
		for _, loop := range []string{`{% for i := 0; i < 3; i++ %}{%= i %}{% exit %}{% endfor %}`, `{% for i := 0; i < 3; i++ %}{%= i %}{% include c01nosuch %}{% endfor %}`,
			`{% for i := 0; i < 3; i++ %}{% if i == 1 %}{% exit %}{% endif %}{%= i %}{% endfor %}`, `{% for i := 0; i < 3; i++ %}{%= i %}{% endfor %}`, `{% for i := 0; i < 3; i++ sep , %}{% for j := 0; j < 2; j++ %}{% exit %}{% endfor %}{% endfor %}`} {
			after := `[{%= lst[k] pfx < sfx > %}|{%= user.Finance.History[k].Comment prefix ( suffix ) %}|{%= lst[one] %}]`
			c := &RCase{Tpls: []TplDef{{Key: "loop", Src: loop, KeepFmt: true}, {Key: "after", Src: after, KeepFmt: true}, {Key: "host", Src: `{% include loop %}` + after, KeepFmt: true}},
				Meta: map[string]any{"bracket-mode-after-loop": loop}}
			c.Ops = []SOp{{Kind: "strs", Name: "lst", Val: []string{"p", "q"}}, {Kind: "static", Name: "k", Val: int64(1)}, {Kind: "static", Name: "one", Val: int64(1)},
				{Kind: "obj", Name: "user", Val: UserSpec{Id: "u", HasFinance: true, History: []History{{1, 1, "c0"}, {2, 2, "c1"}}}},
				{Kind: "render", Key: "loop"}, {Kind: "render", Key: "after"}, {Kind: "render", Key: "host"}, {Kind: "render", Key: "loop", FailAt: 2}, {Kind: "render", Key: "after"},
				{Kind: "render", Key: "loop", FailAt: 3}, {Kind: "render", Key: "after"}}
			pcases = append(pcases, c)
			r.Dist["bracket-mode-after-loop"]++
		}
		pcases = append(pcases, twoIndexCases(r)...)
		runSessions(r, pcases, outputDiffers)
		// (the parser oracle skips prefixes that contain a keyword; stated directly on the real engine: the prefix is what
		// stands between the prefix keyword and the LAST suffix keyword of the tag, the suffix what follows that one)
		for _, pre := range []string{"[ sfx ]", "a suffix b", "( sfx", "sfx )", "<b class=\"sfx\">", "pfx", "["} {
			for _, suf := range []string{"!", "</b>", "sfxx", ")"} {
				for _, kw := range [][2]string{{"pfx", "sfx"}, {"prefix", "suffix"}, {"pfx", "suffix"}, {"prefix", "sfx"}} {
					src := "<{%= si " + kw[0] + " " + pre + " " + kw[1] + " " + suf + " %}|{%= nope " + kw[0] + " " + pre + " " + kw[1] + " " + suf + " %}>"
					want := "<" + pre + "7" + suf + "|>"
					key, err, pan := regTpl(src, true)
					var got rendered
					if err == nil && pan == "" {
						ctx := dyntpl.NewCtx()
						ctx.SetStatic("si", 7)
						got = renderSafe(key, ctx)
					}
					sig := "prefix-with-keyword " + src
					r.Count(sig, true)
					r.Dist["prefix-with-keyword"]++
					if err != nil || pan != "" || got.Err != nil || got.Panic != "" || string(got.Out) != want {
						r.Violate(sig, "a print tag whose prefix text contains a suffix keyword does not render prefix, value and suffix as written (the last suffix keyword starts the suffix)",
							map[string]any{"source": src, "si": 7, "output": string(got.Out), "expected": want, "error": got.ErrStr(), "parse_error": fmt.Sprint(err)})
					}
				}
			}
		}
	}
	props["C02"] = func(r *Run) {
		r.Rule = "random nestings of if/else, ternary and both switch forms over all six operators, var-op-literal / literal-op-var / var-op-var, every scalar kind, literals below/at/above the value, len() and helper conditions, " +
			"conditions on missing fields interleaved; Go output vs Lean interpreter model; non-trivial = non-empty output or error"
		cfg := GenCfg{MaxDepth: 3, MaxNodes: 16, Switch: true, Ternary: true, Helpers: true}
		var cases []*RCase
		for i := 0; i < r.N(5000, 150000); i++ {
			c, _ := genCase(r, cfg)
			cases = append(cases, c)
		}
		cases = append(cases, twoIndexCases(r)...)
		// the square-bracket mode of counter loops ends with the loop however the loop ends (exit or an error in the FIRST
		// or in a LATER iteration, a failing writer): a condition on an indexed operand OUTSIDE counter loops compares a
		// path that names nothing — the same branch before the loop, after it in the same render (the loop sits in an
		// included template) and in the next render on the same context
		for _, loop := range []string{`{% for i := 0; i < 3; i++ %}{%= i %}{% exit %}{% endfor %}`, `{% for i := 0; i < 3; i++ %}{% if i == 1 %}{% exit %}{% endif %}{%= i %}{% endfor %}`,
			`{% for i := 0; i < 3; i++ %}{% if i == 2 %}{% include c02nosuch %}{% endif %}{%= i %}{% endfor %}`, `{% for i := 0; i < 3; i++ %}{%= i %}{% endfor %}`,
			`{% for i := 0; i < 3; i++ sep , %}{% for j := 0; j < 2; j++ %}{% if i == 1 %}{% exit %}{% endif %}{% endfor %}{% endfor %}`,
			`{% for i := 0; i < 3; i++ %}{% for _, v := range lst %}{% if i == 1 %}{% break 2 %}{% endif %}{% endfor %}{% endfor %}`} {
			after := `[{% if user.Finance.History[k].Cost > 1 %}Y{% else %}N{% endif %}|{% if lst[k] == "q" %}Y{% else %}N{% endif %}|{%= lst[one] == "q" ? one : k %}|` +
				`{% switch lst[k] %}{% case "q" %}Q{% default %}D{% endswitch %}|{% switch %}{% case lst[k] == "q" %}Q{% default %}D{% endswitch %}]`
			c := &RCase{Tpls: []TplDef{{Key: "loop", Src: loop, KeepFmt: true}, {Key: "after", Src: after, KeepFmt: true}, {Key: "host", Src: after + `{% include loop %}` + after, KeepFmt: true}},
				Meta: map[string]any{"bracket-mode-after-loop": loop}}
			c.Ops = []SOp{{Kind: "strs", Name: "lst", Val: []string{"p", "q"}}, {Kind: "static", Name: "k", Val: int64(1)}, {Kind: "static", Name: "one", Val: int64(1)},
				{Kind: "obj", Name: "user", Val: UserSpec{Id: "u", HasFinance: true, History: []History{{1, 1, "c0"}, {2, 2, "c1"}}}},
				{Kind: "render", Key: "loop"}, {Kind: "render", Key: "after"}, {Kind: "render", Key: "host"}, {Kind: "render", Key: "loop", FailAt: 2}, {Kind: "render", Key: "after"},
				{Kind: "render", Key: "loop", FailAt: 3}, {Kind: "render", Key: "after"}}
			cases = append(cases, c)
			r.Dist["bracket-mode-after-loop"]++
		}
		// the same conditions inside loops (indexed operands `x[i].f` on either side exist only there)
		cfgL := GenCfg{MaxDepth: 3, MaxNodes: 14, Switch: true, Ternary: true, Loops: true}
		for i := 0; i < r.N(1500, 50000); i++ {
			c, _ := genCase(r, cfgL)
			cases = append(cases, c)
		}
		usr := UserSpec{Id: "u1", Name: "nm", Status: 5, Ustate: 9, Cost: 14.5, HasFinance: true, Balance: 7.25, MoneyIn: 14.5, History: []History{{1, 14.5, "c0"}, {2, 7.25, "c1"}, {3, -1, "c1"}}}
		// a name that held a value with an inspector of its own (a struct, a list, a typed ctx variable, a loop
		// variable) becomes a COUNTER and is then compared: the comparison sees the counter
		cmpAll := func(n string) string {
			return `{% if ` + n + ` == 5 %}Y{% else %}N{% endif %}{% if 5 == ` + n + ` %}Y{% else %}N{% endif %}{% if ` + n + ` != 5 %}Y{% else %}N{% endif %}{% if ` + n + ` > 4 %}G{% else %}g{% endif %}` +
				`{%= ` + n + ` >= 6 ? ya : na %}{% switch ` + n + ` %}{% case 4 %}four{% case 5 %}five{% default %}dflt{% endswitch %}{% switch %}{% case ` + n + ` < 5 %}lt{% case ` + n + ` == 5 %}eq{% endswitch %}[{%= ` + n + ` %}]`
		}
		type reb struct {
			pre []SOp
			src string
		}
		rebs := []reb{
			{[]SOp{{Kind: "obj", Name: "x", Val: usr}, {Kind: "counter", Name: "x", Val: 5}}, cmpAll("x")},
			{[]SOp{{Kind: "strs", Name: "x", Val: []string{"a", "b"}}, {Kind: "counter", Name: "x", Val: 5}}, cmpAll("x")},
			{[]SOp{{Kind: "obj", Name: "x", Val: usr}}, `{% counter x = 5 %}` + cmpAll("x")},
			{[]SOp{{Kind: "obj", Name: "x", Val: usr}}, `{% counter x = 4 %}{% counter x++ %}` + cmpAll("x")},
			{[]SOp{{Kind: "strs", Name: "x", Val: []string{"a", "b"}}}, `{% counter x = 6 %}{% counter x-1 %}` + cmpAll("x")},
			{[]SOp{{Kind: "obj", Name: "user", Val: usr}}, `{% for _, h := range user.Finance.History %}{% counter h = 5 %}` + cmpAll("h") + `;{% endfor %}`},
			{[]SOp{{Kind: "obj", Name: "user", Val: usr}}, `{% for k, h := range user.Finance.History %}{% counter k = 5 %}` + cmpAll("k") + `;{% endfor %}`},
			{[]SOp{{Kind: "obj", Name: "user", Val: usr}}, `{% ctx u = user %}{% counter u = 5 %}` + cmpAll("u")},
			{[]SOp{{Kind: "obj", Name: "user", Val: usr}}, `{% ctx u = user.Finance %}[{%= u.Balance %}]{% counter u = 5 %}` + cmpAll("u")},
			{[]SOp{{Kind: "static", Name: "x", Val: "str"}, {Kind: "counter", Name: "x", Val: 5}}, cmpAll("x")},
			{[]SOp{{Kind: "bytes", Name: "x", Val: []byte("by")}, {Kind: "counter", Name: "x", Val: 5}}, cmpAll("x")},
			{[]SOp{{Kind: "counter", Name: "x", Val: 9}, {Kind: "obj", Name: "x", Val: usr}}, `{% if x.Status == 5 %}Y{% else %}N{% endif %}{% if x.Cost > 14 %}G{% endif %}[{%= x.Id %}]`},
		}
		for _, rb := range rebs {
			c := &RCase{Tpls: []TplDef{{Key: "main", Src: rb.src, KeepFmt: true}}, Meta: map[string]any{"rebound-as-counter": rb.src}}
			c.Ops = append(append([]SOp{{Kind: "static", Name: "ya", Val: "a"}, {Kind: "static", Name: "na", Val: "b"}}, rb.pre...), SOp{Kind: "render", Key: "main"}, SOp{Kind: "render", Key: "main"})
			cases = append(cases, c)
			r.Dist["rebound-as-counter"]++
		}
		// both operands are variables and the RIGHT one is addressed through a loop counter (`x op arr[i].f`), inside
		// counter loops (also nested, also as ternary / switch conditions), with every kind of left operand
		for _, op := range []string{"==", "!=", "<", "<=", ">", ">="} {
			for _, loop := range []string{`{% for i := 0; i < 3; i++ %}`, `{% for i := 2; i >= 0; i-- %}`, `{% for j := 0; j < 2; j++ %}{% for i := 0; i < 3; i++ %}`} {
				end := `{% endfor %}`
				if strings.Count(loop, "{% for") == 2 {
					end += `/{% endfor %}`
				}
				body := `[{% if c ` + op + ` user.Finance.History[i].Cost %}T{% else %}F{% endif %}` +
					`{% if user.Cost ` + op + ` user.Finance.History[i].Cost %}T{% else %}F{% endif %}` +
					`{% if user.Finance.Balance ` + op + ` user.Finance.History[i].Cost %}T{% else %}F{% endif %}` +
					`{%= ss ` + op + ` lst[i] ? ya : na %}{% if bs ` + op + ` lst[i] %}T{% else %}F{% endif %}` +
					`{% switch %}{% case c ` + op + ` user.Finance.History[i].Cost %}one{% default %}dflt{% endswitch %}` +
					`{% if n ` + op + ` user.Finance.History[i].DateUnix %}T{% else %}F{% endif %}`
				if op == "==" || op == "!=" {
					body += `{% if cm ` + op + ` user.Finance.History[i].Comment %}T{% else %}F{% endif %}{% if user.Name ` + op + ` user.Finance.History[i].Comment %}T{% else %}F{% endif %}`
				}
				// … and the LEFT one (a literal or a variable on the right; ternary, switch argument, break-if)
				body += `|{% if user.Finance.History[i].Cost ` + op + ` 7.25 %}T{% else %}F{% endif %}{% if user.Finance.History[i].Cost ` + op + ` c %}T{% else %}F{% endif %}` +
					`{% if lst[i] ` + op + ` "b" %}T{% else %}F{% endif %}{%= user.Finance.History[i].DateUnix ` + op + ` 2 ? ya : na %}` +
					`{% if 7.25 ` + op + ` user.Finance.History[i].Cost %}T{% else %}F{% endif %}` +
					`{% switch %}{% case lst[i] ` + op + ` ss %}one{% default %}dflt{% endswitch %}`
				if op == "==" {
					body += `{% switch user.Finance.History[i].Comment %}{% case "c0" %}zero{% case cm %}cm{% default %}d{% endswitch %}{% switch lst[i] %}{% case "a" %}A{% case ss %}S{% endswitch %}`
				}
				body += `]`
				c := &RCase{Tpls: []TplDef{{Key: "main", Src: loop + body + end, KeepFmt: true}}, Meta: map[string]any{"indexed-right-operand": op, "loop": loop}}
				c.Ops = []SOp{{Kind: "static", Name: "ya", Val: "a"}, {Kind: "static", Name: "na", Val: "b"}, {Kind: "obj", Name: "user", Val: usr}, {Kind: "static", Name: "c", Val: 7.25}, {Kind: "static", Name: "n", Val: int64(2)},
					{Kind: "bytes", Name: "cm", Val: []byte("c1")}, {Kind: "static", Name: "ss", Val: "b"}, {Kind: "string", Name: "bs", Val: "b"}, {Kind: "strs", Name: "lst", Val: []string{"a", "b", "c"}},
					{Kind: "render", Key: "main"}, {Kind: "render", Key: "main"}}
				cases = append(cases, c)
				r.Dist["indexed-right-operand"]++
			}
		}
		// a switch with an argument and SEVERAL cases naming variables: every case is compared with its own variable's
		// current value (first match wins), wherever the matching one stands
		for _, st := range []int32{10, 78, 1078, 5, 0} {
			for _, cs := range []string{`{% case lo %}L{% case hi %}H{% default %}D`, `{% case lo %}L{% case mid %}M{% case hi %}H`, `{% case "9" %}9{% case lo %}L{% case 78 %}n{% case hi %}H{% default %}D`,
				`{% case hi %}H{% case lo %}L{% case hi %}h`, `{% case nope %}N{% case hi %}H{% default %}D`} {
				src := `{% switch user.Status %}` + cs + `{% endswitch %}|{% switch sv %}` + cs + `{% endswitch %}|{% switch bs %}{% case ba %}A{% case bb %}B{% default %}D{% endswitch %}`
				c := &RCase{Tpls: []TplDef{{Key: "main", Src: src, KeepFmt: true}}, Meta: map[string]any{"variable-cases": cs, "status": st}}
				c.Ops = []SOp{{Kind: "obj", Name: "user", Val: UserSpec{Id: "u", Status: st}}, {Kind: "static", Name: "sv", Val: int64(st)}, {Kind: "static", Name: "lo", Val: int64(10)}, {Kind: "static", Name: "mid", Val: int64(107)},
					{Kind: "static", Name: "hi", Val: int64(78)}, {Kind: "string", Name: "bs", Val: "xy"}, {Kind: "string", Name: "ba", Val: "x"}, {Kind: "string", Name: "bb", Val: "xy"},
					{Kind: "render", Key: "main"}, {Kind: "render", Key: "main"}}
				cases = append(cases, c)
				r.Dist["variable-cases"]++
			}
		}
		// the EMPTY string is a value: a variable set to it (through every setter and tag) equals the literal "",
		// differs from "x", matches the empty case of a switch — and compares like the same value set statically
		for _, set := range []SOp{{Kind: "string", Name: "s", Val: ""}, {Kind: "bytes", Name: "s", Val: []byte{}}, {Kind: "static", Name: "s", Val: ""}, {Kind: "static", Name: "s", Val: []byte{}}} {
			for _, before := range []SOp{{Kind: "static", Name: "zz", Val: int64(0)}, {Kind: "string", Name: "s", Val: "old"}, {Kind: "counter", Name: "s", Val: 3}} {
				src := `{% if s == "" %}E{% else %}n{% endif %}{% if s != "x" %}D{% else %}s{% endif %}{% if "" == s %}E{% else %}n{% endif %}{%= s == "" ? ya : na %}{% if s == "x" %}X{% else %}-{% endif %}` +
					`{% switch s %}{% case "x" %}x{% case "" %}empty{% default %}dflt{% endswitch %}{% switch %}{% case s == "" %}e2{% default %}d2{% endswitch %}{% if s == t %}T{% else %}t{% endif %}[{%= s %}]{% if len(s) == 0 %}L0{% endif %}`
				c := &RCase{Tpls: []TplDef{{Key: "main", Src: src, KeepFmt: true}, {Key: "viactx", Src: `{% ctx s = "tmp" %}{% ctx s = e %}` + src, KeepFmt: true}}, Meta: map[string]any{"empty-string-operand": set.Desc(), "before": before.Desc()}}
				c.Ops = []SOp{{Kind: "static", Name: "ya", Val: "a"}, {Kind: "static", Name: "na", Val: "b"}, {Kind: "string", Name: "t", Val: ""}, {Kind: "string", Name: "e", Val: ""}, before, set, {Kind: "render", Key: "main"}, {Kind: "render", Key: "main"}}
				cases = append(cases, c)
				r.Dist["empty-string-operand"]++
			}
		}
		runSessions(r, cases, outputDiffers)
		helperNamespaces(r)
	}
	props["C03"] = func(r *Run) {
		r.Rule = "random nestings and sequences of counter loops (every bound operator, both directions, trip counts 0,1,2,3,5) and range loops over []string, struct slices, missing and non-iterable sources, " +
			"with/without separator and else, key/value/both; Go output vs Lean interpreter model"
		cfg := GenCfg{MaxDepth: 3, MaxNodes: 14, Loops: true}
		var cases []*RCase
		for i := 0; i < r.N(5000, 150000); i++ {
			c, _ := genCase(r, cfg)
			cases = append(cases, c)
		}
		// sizes at and around the widths of small integer types: the else branch renders iff there was NO iteration,
		// the separator stands between all iterations — also for 255, 256, 257, 512 elements / counter values
		for _, n := range []int{0, 1, 2, 255, 256, 257, 512, 513} {
			lst := make([]string, n)
			for i := range lst {
				lst[i] = "e" + strconv.Itoa(i%10)
			}
			src := `{% for k, v := range lst sep , %}{%= k %}{% else %}E1{% endfor %}|{% for _, v := range lst %}.{% else %}E2{% endfor %}|{% for i := 0; i < n; i++ sep ; %}{%= i %}{% else %}E3{% endfor %}|{% for i := n; i > 0; i-- %}x{% else %}E4{% endfor %}`
			c := &RCase{Tpls: []TplDef{{Key: "main", Src: src, KeepFmt: true}}, Meta: map[string]any{"loop-size": n}}
			c.Ops = []SOp{{Kind: "strs", Name: "lst", Val: lst}, {Kind: "static", Name: "n", Val: int64(n)}, {Kind: "render", Key: "main"}, {Kind: "render", Key: "main"}}
			cases = append(cases, c)
			r.Dist["loop-size"]++
		}
		// separators and iterations that are cut short: an iteration ended by continue / break / lazybreak is an
		// iteration — the separator stands between every two iterations that STARTED, wherever the cut ones are
		for _, lst := range [][]string{{"a", "b", "c"}, {"a", "a", "b"}, {"b", "a", "c"}, {"b", "c", "a"}, {"a"}, {"a", "a"}, {"b", "b"}, {}} {
			for _, instr := range []string{`{% continue if v == "a" %}`, `{% break if v == "a" %}`, `{% lazybreak if v == "a" %}`, `{% if v == "a" %}{% continue %}{% endif %}`, `{% continue %}`, ``} {
				src := `{% for k, v := range lst sep ; %}` + instr + `{%= v %}{% else %}E{% endfor %}|{% for i := 0; i < 3; i++ separator , %}{% continue if i == 0 %}{%= i %}{% endfor %}|{% for i := 0; i < 3; i++ sep , %}{% continue if i == 1 %}{%= i %}{% endfor %}`
				c := &RCase{Tpls: []TplDef{{Key: "main", Src: src, KeepFmt: true}}, Meta: map[string]any{"separator-with": instr, "list": lst}}
				c.Ops = []SOp{{Kind: "strs", Name: "lst", Val: lst}, {Kind: "render", Key: "main"}, {Kind: "render", Key: "main"}}
				cases = append(cases, c)
				r.Dist["separator-and-cut-iterations"]++
			}
		}
		// the body of a counter loop gives the counter's NAME to something else (key / value of a nested range loop, a
		// ctx tag, a counter tag): every iteration of the outer loop starts from its own counter value again
		for _, inner := range []string{`{% for i, v := range lst %}{%= v %}{% endfor %}`, `{% for k, i := range lst %}{%= i %}{% endfor %}`, `{% ctx i = 9 %}`, `{% ctx i = "x" %}`,
			`{% counter i = 7 %}`, `{% include rebind %}`, ``} {
			for _, hdr := range []string{`{% for i := 0; i < 3; i++ %}`, `{% for i := 5; i > 2; i-- %}`} {
				src := hdr + `[{%= i %}:` + inner + `:{%= i %}{% if i == 1 %}one{% endif %}{% if i == 4 %}four{% endif %}]{% endfor %}|{%= i %}`
				c := &RCase{Tpls: []TplDef{{Key: "rebind", Src: `{% for i, v := range lst %}{%= i %}{% endfor %}`, KeepFmt: true}, {Key: "main", Src: src, KeepFmt: true}}, Meta: map[string]any{"counter-name-rebound-by": inner}}
				c.Ops = []SOp{{Kind: "strs", Name: "lst", Val: []string{"a", "b", "c"}}, {Kind: "render", Key: "main"}, {Kind: "render", Key: "main"}}
				cases = append(cases, c)
				r.Dist["counter-name-rebound"]++
			}
		}
		// a reset context whose variable slots held counters before: the loop variables bound into those slots are
		// compared in the FIRST iteration
		for _, loop := range []string{`{% for i := 0; i < 3; i++ %}{% if i == 0 %}first{% endif %}{%= i %},{% endfor %}`, `{% for j := 7; j > 0; j-- %}{% break if j == 7 %}{%= j %},{% endfor %}`,
			`{% for k, v := range lst %}{% if v == "a" %}A{% endif %}{% continue if k == 0 %}{%= k %}{% endfor %}`} {
			c := &RCase{CheckShape: true, Tpls: []TplDef{{Key: "cntrs", Src: `{% counter c1 = 5 %}{% counter c2 = 6 %}{% counter c3 = 7 %}{% counter c4 = 8 %}{%= c1 %}{%= c4 %}`, KeepFmt: true}, {Key: "main", Src: loop, KeepFmt: true}},
				Meta: map[string]any{"loop-after-counters-on-reset-context": loop}}
			c.Ops = []SOp{{Kind: "render", Key: "cntrs"}, {Kind: "reset"}, {Kind: "strs", Name: "lst", Val: []string{"a", "b"}}, {Kind: "render", Key: "main"}, {Kind: "reset"}, {Kind: "render", Key: "main"}}
			cases = append(cases, c)
			r.Dist["loop-after-counters"]++
		}
		// a range loop inside an INCLUDED template is ended by exit (or by a failing include); the range loops that
		// follow in the including template (no separator, no element, one element) iterate and take their else branch as usual
		for _, sub := range []string{`s{% for _, e := range lst %}{%= e %}{% exit %}{% endfor %}never`, `s{% for _, e := range lst %}{% for _, f := range lst %}{%= f %}{% exit %}{% endfor %}{% endfor %}never`,
			`s{% for _, e := range lst %}{%= e %}{% include nosuch %}{% endfor %}never`, `s{% for _, e := range lst %}{%= e %}{% endfor %}`} {
			for _, after := range []string{`{% for _, h := range none %}{%= h %}{% else %}E{% endfor %}`, `{% for _, h := range one %}{%= h %}{% else %}E{% endfor %}`, `{% for _, h := range lst %}{%= h %}{% else %}E{% endfor %}`,
				`{% for k, h := range lst sep , %}{%= k %}{% else %}E{% endfor %}`, `{% for i := 0; i < 2; i++ %}{% for _, h := range none %}{%= h %}{% else %}E{% endfor %}{% endfor %}`} {
				src := `<{% include sub %}>` + after + `|tail{% for _, h := range one %}{%= h %}{% endfor %}.`
				c := &RCase{Tpls: []TplDef{{Key: "sub", Src: sub, KeepFmt: true}, {Key: "main", Src: src, KeepFmt: true}}, Meta: map[string]any{"range-loop-after-include-ended-in-a-loop": sub, "after": after}}
				c.Ops = []SOp{{Kind: "strs", Name: "lst", Val: []string{"p", "q"}}, {Kind: "strs", Name: "one", Val: []string{"o"}}, {Kind: "strs", Name: "none", Val: []string{}}, {Kind: "render", Key: "main"}, {Kind: "render", Key: "main"}}
				cases = append(cases, c)
				r.Dist["range-loop-after-include"]++
			}
		}
		// bounds and start values far apart (2^63 and more): "no limit" spelled as the largest / smallest integer, the
		// loop ended by break; and the opposite — a loop that must not iterate at all
		for _, fb := range []struct {
			from, to int64
			hdr      string
			stop     int64
		}{{1, math.MinInt64, `{% for i := from; i > to; i-- %}`, -2}, {-2, math.MaxInt64, `{% for i := from; i < to; i++ %}`, 1}, {-2, math.MaxInt64, `{% for i := from; i <= to; i++ %}`, 1},
			{1, math.MinInt64, `{% for i := from; i >= to; i-- %}`, -1}, {math.MaxInt64, -2, `{% for i := from; i <= to; i++ %}`, 0}, {math.MaxInt64, -2, `{% for i := from; i < to; i++ %}`, 0},
			{math.MinInt64, 1, `{% for i := from; i > to; i-- %}`, 0}, {math.MinInt64, 2, `{% for i := from; i >= to; i-- %}`, 0}, {math.MinInt64, math.MaxInt64, `{% for i := from; i < to; i++ %}`, math.MinInt64 + 2},
			{math.MaxInt64, math.MinInt64, `{% for i := from; i > to; i-- %}`, math.MaxInt64 - 2}, {0, math.MinInt64, `{% for i := 0; i > -9223372036854775808; i-- %}`, -3}, {3, math.MaxInt64, `{% for i := 3; i < 9223372036854775807; i++ %}`, 5}} {
			for _, how := range []string{"break", "lazybreak", "exit"} {
				src := fb.hdr + `{%= i %}{% if i == stop %}{% ` + how + ` %}{% endif %},{% else %}E{% endfor %}|`
				c := &RCase{Tpls: []TplDef{{Key: "main", Src: src, KeepFmt: true}}, Meta: map[string]any{"far-apart-bounds": fb.hdr, "from": fb.from, "to": fb.to}}
				c.Ops = []SOp{{Kind: "static", Name: "from", Val: fb.from}, {Kind: "static", Name: "to", Val: fb.to}, {Kind: "static", Name: "stop", Val: fb.stop}, {Kind: "render", Key: "main"}, {Kind: "render", Key: "main"}}
				cases = append(cases, c)
				r.Dist["far-apart-bounds"]++
			}
		}
		// the counter of a FINISHED counter loop is read while later (sibling) counter loops run — printed, compared
		// and as the bound of a loop nested in the later one
		for _, first := range []string{`{% for i := 0; i < 3; i++ %}{%= i %}{% endfor %}`, `{% for i := 5; i > 3; i-- %}.{% endfor %}`, `{% for i := 0; i < 2; i++ %}{% for q := 0; q < 2; q++ %}.{% endfor %}{% endfor %}`} {
			for _, later := range []string{`{% for j := 0; j < 2; j++ %}[{%= i %}:{%= j %}]{% endfor %}`, `{% for j := 0; j < 2; j++ %}[{% for k := 0; k < i; k++ %}{%= k %}{% else %}E{% endfor %}]{% endfor %}`,
				`{% for j := 7; j < 9; j++ %}{% if i == 3 %}three{% endif %}{% for k := 0; k < 2; k++ %}{% for l := 0; l < 2; l++ %}{%= i %}{% endfor %}{% endfor %};{% endfor %}`,
				`{% for j := 0; j < 1; j++ %}{% endfor %}{% for k := 10; k < 12; k++ %}{%= i %}{%= j %}{%= k %},{% endfor %}`} {
				src := first + `|` + later + `|{%= i %}`
				c := &RCase{Tpls: []TplDef{{Key: "main", Src: src, KeepFmt: true}}, Meta: map[string]any{"finished-loop-counter-read-in-later-loop": first, "later": later}}
				c.Ops = []SOp{{Kind: "render", Key: "main"}, {Kind: "render", Key: "main"}, {Kind: "reset"}, {Kind: "render", Key: "main"}}
				cases = append(cases, c)
				r.Dist["finished-loop-counter"]++
			}
		}
		// … the same one level down: two or three successive counter loops INSIDE the body of an outer counter (or range)
		// loop, the finished inner counters read during and after the later inner loops, in every outer iteration
		for _, outer := range []string{`{% for o := 0; o < 2; o++ %}`, `{% for _, o := range lst %}`} {
			for _, inner := range []string{`{% for i := 0; i < 2; i++ %}.{% endfor %}{% for j := 5; j < 7; j++ %}{%= i %}{%= j %},{% endfor %}[{%= i %}{%= j %}]`,
				`{% for i := 0; i < 2; i++ %}.{% endfor %}{% for j := 5; j < 7; j++ %}{% for k := 0; k < i; k++ %}{%= k %}{% else %}E{% endfor %}{% endfor %}{% for l := 9; l > 7; l-- %}{%= i %}{%= j %}{%= l %};{% endfor %}`,
				`{% for i := 3; i > 1; i-- %}{% endfor %}{% for j := 0; j < 1; j++ %}{% endfor %}{% if i == 1 %}one{% endif %}{% if j == 1 %}ONE{% endif %}{% for k := 0; k < 2; k++ %}{% break if i == k %}{%= k %}{% endfor %}`} {
				src := outer + `<` + inner + `>{% endfor %}|{%= i %}{%= j %}`
				c := &RCase{Tpls: []TplDef{{Key: "main", Src: src, KeepFmt: true}}, Meta: map[string]any{"sibling-inner-loops": inner, "outer": outer}}
				c.Ops = []SOp{{Kind: "strs", Name: "lst", Val: []string{"a", "b"}}, {Kind: "render", Key: "main"}, {Kind: "render", Key: "main"}, {Kind: "reset"}, {Kind: "strs", Name: "lst", Val: []string{"a", "b"}}, {Kind: "render", Key: "main"}}
				cases = append(cases, c)
				r.Dist["sibling-inner-loops"]++
			}
		}
		// the source of a range loop nested in a counter loop is INDEXED (`range user.Finance[fld]`, `range user[part].History`):
		// the bracketed variable's text is substituted first, as in prints and comparisons; outside counter loops, or
		// with an index that is not set, the written path is what is looked up
		for _, loop := range []string{`{% for i := 0; i < 2; i++ %}`, `{% for i := 1; i >= 0; i-- %}`, ``} {
			end := `{% endfor %}`
			if loop == "" {
				end = ""
			}
			for _, rng := range []string{`range user.Finance[fld]`, `range user[part].History`, `range user[part][fld]`, `range user.Finance[nokey]`, `range user.Finance[i]`, `range lst[i]`, `range user[i].History`,
				`range user.Finance[fld] sep ,`, `range user.Finance[user]`} {
				for _, body := range []string{`{%= k %}:{%= h.Cost %}{%= h.Comment %};`, `{%= k %}{% break if k == 1 %}`} {
					src := loop + `[{% for k, h := ` + rng + ` %}` + body + `{% else %}E{% endfor %}]` + end + `|{%= user.Id %}`
					c := &RCase{Tpls: []TplDef{{Key: "main", Src: src, KeepFmt: true}}, Meta: map[string]any{"indexed-range-source": rng, "loop": loop}}
					c.Ops = []SOp{{Kind: "static", Name: "fld", Val: "History"}, {Kind: "static", Name: "part", Val: "Finance"}, {Kind: "strs", Name: "lst", Val: []string{"p", "q"}},
						{Kind: "obj", Name: "user", Val: UserSpec{Id: "u", HasFinance: true, History: []History{{1, 1.5, "c0"}, {2, 2, "c1"}, {3, 3, "c2"}}}}, {Kind: "render", Key: "main"}, {Kind: "render", Key: "main"}}
					cases = append(cases, c)
					r.Dist["indexed-range-source"]++
				}
			}
		}
		// bounds and initial values given as TEXT (a string / bytes variable, a ctx literal): decimal integers count,
		// empty text is 0, anything else — a fraction, blanks, words, an integer beyond int64 — is a wrong bound: the
		// render returns an error or renders nothing, it never loops on the 0 / MaxInt64 ParseInt returns with its error
		for _, txt := range []string{"3", "-2", "+2", "0", "", "3.0", " 3", "3 ", "abc", "99999999999999999999", "-99999999999999999999", "9223372036854775807", "9223372036854775808", "1e2", "--1"} {
			for _, kind := range []string{"static", "bytes", "string"} {
				for _, hdr := range []string{`{% for i := 0; i < n; i++ sep , %}`, `{% for i := n; i < 4; i++ sep , %}`, `{% for i := 1; i >= n; i-- sep , %}`} {
					src := `a` + hdr + `{%= i %}{% break if i == 5 %}{% lazybreak if i == -4 %}{% else %}E{% endfor %}b`
					c := &RCase{Tpls: []TplDef{{Key: "main", Src: src, KeepFmt: true}}, Meta: map[string]any{"text-bound": txt, "kind": kind, "loop": hdr}}
					var val any = txt
					if kind == "bytes" {
						val = []byte(txt)
					}
					c.Ops = []SOp{{Kind: kind, Name: "n", Val: val}, {Kind: "render", Key: "main"}, {Kind: "render", Key: "main"}}
					cases = append(cases, c)
					r.Dist["text-bound"]++
				}
			}
		}
		// a tag of the body that FAILS WITHOUT BEING FATAL (a print whose modifier returns an error prints nothing and
		// leaves the error in ctx.Err): the loop does all its iterations, what follows it is rendered, a loop around it
		// does all of ITS iterations, and a later range loop over an unset variable does not report that error —
		// in the same render and in the next one on the same context without Reset
		for _, inner := range []string{`{% for j := 0; j < 2; j++ %}{%= j|vfail() %}.{% endfor %}`, `{% for j := 0; j < 2; j++ %}<{%= si|vfail() %}>{% if j == 0 %}{%= j %}{% endif %}{% endfor %}`,
			`{% for j := 0; j < 3; j++ sep , %}{%= ss|vfail() %}{% endfor %}`, `{% for j := 0; j < 2; j++ %}{% for k := 0; k < 2; k++ %}{%= k|vfail() %}:{% endfor %}{% endfor %}`,
			`{% for j := 0; j < 2; j++ %}{%= j|vfail() %}{% continue %}{% endfor %}`, `{% for j := 0; j < 3; j++ %}{%= j|vfail() %}{% break if j == 1 %}-{% endfor %}`,
			`{% for j := 0; j < 2; j++ %}{%= j|vfail() %}{% lazybreak %}+{% endfor %}`, `<{%= si|vfail() %}>{% for _, q := range nosuch %}x{% endfor %}`,
			`<{%= si|vfail() %}>{% for _, q := range nosuch %}x{% else %}E{% endfor %}`, `{% for _, q := range lst %}{%= q|vfail() %};{% endfor %}`} {
			for _, outer := range []string{``, `{% for i := 0; i < 3; i++ %}`, `{% for _, v := range lst %}`, `{% for i := 0; i < 2; i++ %}{% for _, v := range lst %}`} {
				end := strings.Repeat(`{% endfor %}`, strings.Count(outer, `{% for`))
				lead := ""
				if outer != "" {
					lead = "["
				}
				src := outer + lead + inner + strings.Replace(lead, "[", "]", 1) + end + `after{%= si %}`
				c := &RCase{Tpls: []TplDef{{Key: "main", Src: src, KeepFmt: true}, {Key: "later", Src: `{% for _, q := range nosuch %}x{% endfor %}ok{%= si %}`, KeepFmt: true}},
					Meta: map[string]any{"non-fatal-error-in-loop-body": inner, "outer": outer}}
				c.Ops = []SOp{{Kind: "static", Name: "si", Val: int64(7)}, {Kind: "static", Name: "ss", Val: "s"}, {Kind: "strs", Name: "lst", Val: []string{"a", "b", "c"}},
					{Kind: "render", Key: "main"}, {Kind: "render", Key: "later"}, {Kind: "render", Key: "main"}}
				cases = append(cases, c)
				r.Dist["non-fatal-error-in-loop-body"]++
			}
		}
		runSessions(r, cases, outputDiffers)
		loopVarNames(r)
		loopHeaderBlanks(r)
		indexedRangeSource(r)
	}
	props["C14"] = func(r *Run) {
		r.Rule = "random loop nests to depth 3 mixing counter and range loops with break / continue / lazybreak, depth N from 1 to nesting+1, conditional forms, sibling loops; Go output vs Lean interpreter model"
		cfg := GenCfg{MaxDepth: 4, MaxNodes: 18, Loops: true, Ctl: true, BreakN: true, LazyBreak: true}
		var cases []*RCase
		for i := 0; i < r.N(6000, 200000); i++ {
			c, _ := genCase(r, cfg)
			cases = append(cases, c)
		}
		// enumerated three-level nests: every combination of loop kinds, of the instruction pending in the middle
		// loop (lazybreak N / break N / continue / none, before or after the inner loop) and of the instruction that
		// ends the inner loop from inside (break M / lazybreak M / continue / none, on its first, middle or LAST
		// iteration), N, M in 1..3 — the cases in which two pending depths meet
		open_ := func(kind byte, v string) string {
			if kind == 'c' {
				return "{% for " + v + " := 0; " + v + " < 3; " + v + "++ %}"
			}
			return "{% for " + v + ", _" + v + " := range lst %}"
		}
		mids := []string{"", "{% lazybreak %}", "{% lazybreak 2 %}", "{% lazybreak 3 %}", "{% break 2 if b == 1 %}", "{% continue if b == 0 %}", "{% lazybreak 2 if b == 1 %}"}
		inners := []string{"", "{% break if c == 1 %}", "{% break 2 if c == 1 %}", "{% break 3 if c == 1 %}", "{% lazybreak 2 if c == 1 %}", "{% lazybreak if c == 2 %}", "{% break 2 if c == 2 %}",
			"{% lazybreak 3 if c == 0 %}", "{% continue if c == 1 %}", "{% lazybreak 2 %}{% continue %}"}
		for _, ka := range "cr" {
			for _, kb := range "cr" {
				for _, kc := range "cr" {
					for mi, mid := range mids {
						for ii, inner := range inners {
							for _, midFirst := range []bool{true, false} {
								if mid == "" && !midFirst {
									continue
								}
								if !r.Thorough() && (mi*7+ii*3+int(ka)+int(kb)*2+int(kc))%3 != 0 {
									continue // a third of the grid in the quick tier
								}
								in := open_(byte(kc), "c") + "c{%= c %}" + inner + "." + "{% endfor %}"
								body := mid + in + "x"
								if !midFirst {
									body = in + mid + "x"
								}
								src := open_(byte(ka), "a") + "[a{%= a %}" + open_(byte(kb), "b") + "(b{%= b %}" + body + ")" + "{% endfor %}]" + "{% endfor %}!"
								c := &RCase{Tpls: []TplDef{{Key: "main", Src: src, KeepFmt: true}}, Meta: map[string]any{"nest": string(ka) + string(kb) + string(kc), "mid": mid, "inner": inner}}
								c.Ops = []SOp{{Kind: "strs", Name: "lst", Val: []string{"p", "q", "r"}}, {Kind: "render", Key: "main"}}
								cases = append(cases, c)
								r.Dist["enumerated-nest"]++
							}
						}
					}
				}
			}
		}
		// nests deeper than the generators go (the model's any-depth theorems C14N / C14C, tied to the engine here): k
		// loops of both kinds around break N / lazybreak N / plain text, k = 4..7, every N from 1 to k+1, over two elements
		for k := 4; k <= 7; k++ {
			for N := 0; N <= k+1; N++ {
				for _, instr := range []string{"break", "lazybreak"} {
					if N == 0 && instr == "lazybreak" {
						continue
					}
					for _, kinds := range []string{"rrrrrrr", "ccccccc", "rcrcrcr", "crrccrc"} {
						core := "x"
						if N > 0 {
							core = fmt.Sprintf("x{%% %s %d %%}y", instr, N)
						}
						src := core
						for lv := 0; lv < k; lv++ {
							v := string(rune('a' + lv))
							if kinds[lv] == 'c' {
								src = "{% for " + v + " := 0; " + v + " < 2; " + v + "++ %}[" + src + "]{% endfor %}"
							} else {
								src = "{% for _, " + v + " := range lst %}[" + src + "]{% endfor %}"
							}
						}
						c := &RCase{Tpls: []TplDef{{Key: "main", Src: src + "!", KeepFmt: true}}, Meta: map[string]any{"deep-nest": k, "instr": instr, "N": N, "kinds": kinds[:k]}}
						c.Ops = []SOp{{Kind: "strs", Name: "lst", Val: []string{"p", "q"}}, {Kind: "render", Key: "main"}}
						cases = append(cases, c)
						r.Dist["deep-nest"]++
					}
				}
			}
		}
		// a depth pending in the middle loop, followed in the same body by (a) a loop that makes no iteration and whose
		// for-else branch signals break / continue / lazybreak, (b) an include tag (of a plain template, of one whose own
		// loop leaves a depth over, of one that ends by exit): the pending depth is neither lost nor changed by them
		zero := []string{"{% for c := 0; c < 0; c++ %}c{% else %}{% break %}{% endfor %}", "{% for c := 0; c < 0; c++ %}c{% else %}{% continue %}{% endfor %}",
			"{% for _, c := range nope %}c{% else %}{% break %}{% endfor %}", "{% for _, c := range nope %}c{% else %}e{% lazybreak %}{% endfor %}", "{% for c := 5; c < 0; c++ %}c{% else %}e{% endfor %}"}
		subs14 := []string{"s", "s{% for q := 0; q < 2; q++ %}{%= q %}{% break 2 %}{% endfor %}t", "s{% for q := 0; q < 2; q++ %}{% lazybreak %}{%= q %}{% endfor %}t", "s{% exit %}n", "s{% lazybreak %}t"}
		for _, ka := range "cr" {
			for _, kb := range "cr" {
				for _, mid := range []string{"", "{% lazybreak %}", "{% lazybreak 2 %}", "{% lazybreak 3 %}", "{% lazybreak 2 if b == 1 %}"} {
					var tails []string
					tails = append(tails, zero...)
					for si := range subs14 {
						tails = append(tails, "<{% include sub"+strconv.Itoa(si)+" %}>", "<{% include missing sub"+strconv.Itoa(si)+" %}>{% for c := 0; c < 2; c++ %}{%= c %}{% endfor %}")
					}
					for _, tail := range tails {
						for _, midFirst := range []bool{true, false} {
							body := mid + tail + "x"
							if !midFirst {
								body = tail + mid + "x"
							}
							src := open_(byte(ka), "a") + "[a{%= a %}" + open_(byte(kb), "b") + "(b{%= b %}" + body + ")" + "{% endfor %}]" + "{% endfor %}!"
							c := &RCase{Meta: map[string]any{"nest": string(ka) + string(kb), "mid": mid, "tail": tail}}
							for si, sub := range subs14 {
								c.Tpls = append(c.Tpls, TplDef{Key: "sub" + strconv.Itoa(si), Src: sub, KeepFmt: true})
							}
							c.Tpls = append(c.Tpls, TplDef{Key: "main", Src: src, KeepFmt: true})
							c.Ops = []SOp{{Kind: "strs", Name: "lst", Val: []string{"p", "q", "r"}}, {Kind: "render", Key: "main"}}
							cases = append(cases, c)
							r.Dist["pending-depth-then-else-or-include"]++
						}
					}
				}
			}
		}
		runSessions(r, cases, outputDiffers)
		c14Spellings(r)
		// depths written with two digits or a leading zero (a relation on the real engine alone — what the depth
		// means is decided by the parser): in a three-level nest every depth >= 3 ends all three loops, and 02 is 2
		for _, ka := range "cr" {
			for _, kb := range "cr" {
				for _, pair := range [][2]string{{"{% break 10 if c == 1 %}", "{% break 3 if c == 1 %}"}, {"{% lazybreak 12 if c == 0 %}", "{% lazybreak 3 if c == 0 %}"}, {"{% break 10 %}", "{% break 3 %}"},
					{"{% lazybreak 25 %}", "{% lazybreak 3 %}"}, {"{% break 02 if c == 1 %}", "{% break 2 if c == 1 %}"}, {"{% lazybreak 02 %}", "{% lazybreak 2 %}"}, {"{% break 11 if c == 2 %}", "{% break 4 if c == 2 %}"},
					// depths at and beyond the largest integers: more loops than there are — all of them end
					{"{% break 9223372036854775807 if c == 1 %}", "{% break 3 if c == 1 %}"}, {"{% break 9223372036854775808 if c == 1 %}", "{% break 3 if c == 1 %}"}, {"{% lazybreak 99999999999999999999 %}", "{% lazybreak 3 %}"},
					{"{% break 18446744073709551616 %}", "{% break 3 %}"}, {"{% lazybreak 18446744073709551615 if c == 0 %}", "{% lazybreak 3 if c == 0 %}"}, {"{% break 4294967296 if c == 2 %}", "{% break 3 if c == 2 %}"},
					{"{% break 2147483648 %}", "{% break 3 %}"}, {"{% lazybreak 256 %}", "{% lazybreak 3 %}"}} {
					mk := func(instr string) string {
						return open_(byte(ka), "a") + "[a{%= a %}" + open_(byte(kb), "b") + "(b{%= b %}" + open_('c', "c") + "c{%= c %}" + instr + ".{% endfor %}x)" + "{% endfor %}]" + "{% endfor %}!"
					}
					var outs [2]rendered
					bad := ""
					for k := 0; k < 2; k++ {
						key, err, pan := regTpl(mk(pair[k]), true)
						if err != nil || pan != "" {
							bad = fmt.Sprintf("Parse rejects %s: %v %s", pair[k], err, pan)
							break
						}
						ctx := dyntpl.NewCtx()
						ctx.Set("lst", &[]string{"p", "q", "r"}, inspector.StringsInspector{})
						outs[k] = renderSafe(key, ctx)
					}
					sig := "depth-spelling " + pair[0] + " nest=" + string(ka) + string(kb) + "c"
					r.Count(sig, true)
					r.Dist["depth-spelling"]++
					if bad != "" || outs[0].ErrStr() != outs[1].ErrStr() || !bytes.Equal(outs[0].Out, outs[1].Out) {
						r.Violate(sig, "a loop-control depth written with two or more digits / a leading zero / beyond the number of loops does not end the loops the same depth written plainly ends",
							map[string]any{"source": mk(pair[0]), "plain_source": mk(pair[1]), "output": string(outs[0].Out), "plain_output": string(outs[1].Out), "error": outs[0].ErrStr(), "plain_error": outs[1].ErrStr(), "problem": bad})
					}
				}
			}
		}
	}
	// (C14, continued — appended by init order: see c14Spellings)
	props["C16"] = func(r *Run) {
		r.Rule = "random templates with include (both spellings, name lists with missing entries, nested one level, inside loops/conditions/regions) and exit at arbitrary positions; Go output vs Lean interpreter model"
		cfg := GenCfg{MaxDepth: 3, MaxNodes: 16, Loops: true, Switch: true, Include: true, Exit: true, Region: true, Ctl: true, LazyBreak: true, BreakN: true}
		var cases []*RCase
		for i := 0; i < r.N(5000, 150000); i++ {
			c, _ := genCase(r, cfg)
			cases = append(cases, c)
		}
		// enumerated: exit at every kind of place inside an INCLUDED template (top level, under a counter / range
		// loop, under if, in a for-else, after lazybreak), the include tag itself at every kind of place in the host
		// (top level, in a counter / range loop, in a region, in an if inside a loop), followed by more host output
		subs := []string{"s{% exit %}never", "s{% for j := 0; j < 2; j++ %}{%= j %}{% exit %}x{% endfor %}never", "s{% for _, e := range lst %}{%= e %}{% exit %}{% endfor %}never",
			"s{% if si == 1 %}{% exit %}{% endif %}never", "s{% for j := 0; j < 0; j++ %}{% else %}E{% exit %}{% endfor %}never", "s{% for _, e := range lst %}{% lazybreak %}{%= e %}{% exit %}n{% endfor %}never",
			"s{% for j := 0; j < 2; j++ %}{% if j == 1 %}{% exit %}{% endif %}{%= j %}{% endfor %}t", "s",
			// loop control of the INCLUDING template's loops written in the included one, a failing include inside, a
			// lazybreak that its own loop never gets to consume because exit comes first
			"a{% if si == 1 %}{% break %}{% endif %}b", "a{% continue %}b", "a{% lazybreak %}b{% break 2 %}c", "B{% include c16missing %}C",
			"s{% for j := 0; j < 3; j++ %}{%= j %}{% lazybreak %}{% exit %}{% endfor %}e", "s{% for j := 0; j < 3; j++ %}{%= j %}{% lazybreak 2 %}{% exit %}{% endfor %}e",
			"s{% for _, e := range lst %}{% for j := 0; j < 2; j++ %}{% lazybreak 2 %}{%= j %}{% exit %}{% endfor %}{% endfor %}e"}
		hosts := []string{"a<{% include sub %}>tail", "a{% for i := 0; i < 2; i++ %}<{% include sub %}>{% endfor %}tail", "a{% for _, h := range lst %}<{% include sub %}>{%= h %}{% endfor %}tail",
			"a{% jsonquote %}\"{% include sub %}\"{% endjsonquote %}tail", "a{% for i := 0; i < 2; i++ %}{% if i == 0 %}<{% include sub %}>{% endif %}{%= i %}{% endfor %}tail{%= si %}",
			"a{% for i := 0; i < 2; i++ %}<{% include sub %}>{% endfor %}{% for k := 0; k < 2; k++ %}{%= k %}{% endfor %}tail",
			// loops of the host AFTER the include tag (the loop objects of the included template are reused by them)
			"a<{% include sub %}>{% for _, h := range lst %}{%= h %}{% endfor %}{% for k, h := range lst sep , %}{%= k %}{% endfor %}tail",
			"a<{% include sub %}><{% include sub %}>{% for i := 0; i < 2; i++ %}{% for _, h := range lst %}{%= h %}{% endfor %};{% endfor %}tail",
			// many includes on one context (depth accounting must return to where it was after each, however it ended)
			"a{% for i := 0; i < 200; i++ %}{% include sub %}{% endfor %}tail", "a{% for i := 0; i < 70; i++ %}{% for _, h := range lst %}{% include sub %}{% endfor %}{% endfor %}tail"}
		for _, sub := range subs {
			for _, host := range hosts {
				c := &RCase{Tpls: []TplDef{{Key: "sub", Src: sub, KeepFmt: true}, {Key: "main", Src: host, KeepFmt: true}}, Meta: map[string]any{"sub": sub, "host": host}}
				c.Ops = []SOp{{Kind: "strs", Name: "lst", Val: []string{"p", "q"}}, {Kind: "static", Name: "si", Val: int64(1)}, {Kind: "render", Key: "main"}, {Kind: "render", Key: "main"}}
				cases = append(cases, c)
				r.Dist["enumerated-exit-in-include"]++
			}
		}
		runSessions(r, cases, outputDiffers)
		// the registry changes between two renders of the SAME host tree (a relation on the real engine alone):
		// an include tag renders what is registered NOW under the first registered name of its list — the output
		// must be that of the host with the current template's source in place of the tag
		hostsR := []string{"a<{% include c16first c16sub %}>z", "a{% for i := 0; i < 2; i++ %}<{% . c16first c16sub %}>{% endfor %}z", "{% if si == 1 %}<{% include c16sub %}>{% endif %}z"}
		bodies := []string{"v1:{%= si %}", "v2:{%= si %}{% for j := 0; j < 2; j++ %}{%= j %}{% endfor %}!", "v3"}
		for hi, host := range hostsR {
			dyntpl.VerifResetRegistry()
			hk, err, pan := regTpl(host, true)
			if err != nil || pan != "" {
				r.Internal("C16 re-registration: host does not parse: " + host)
				continue
			}
			// steps: which name gets which body
			steps := [][2]string{{"c16sub", bodies[0]}, {"c16sub", bodies[1]}, {"c16first", bodies[2]}, {"c16sub", bodies[0]}, {"c16first", bodies[1]}}
			cur := map[string]string{}
			var hist []string
			for si, st := range steps {
				tree, err, pan := parseSafe([]byte(st[1]), true)
				if err != nil || pan != "" {
					r.Internal("C16 re-registration: body does not parse")
					break
				}
				dyntpl.RegisterTplKey(st[0], tree)
				cur[st[0]] = st[1]
				hist = append(hist, fmt.Sprintf("RegisterTplKey(%q, %q)", st[0], st[1]))
				now, ok := cur["c16first"]
				if !ok || !strings.Contains(host, "c16first") {
					now = cur["c16sub"]
				}
				inl := host
				for _, tag := range []string{"{% include c16first c16sub %}", "{% . c16first c16sub %}", "{% include c16sub %}"} {
					inl = strings.ReplaceAll(inl, tag, now)
				}
				ik, err, pan := regTpl(inl, true)
				if err != nil || pan != "" {
					r.Internal("C16 re-registration: inlined host does not parse: " + inl)
					break
				}
				mkCtx := func() *dyntpl.Ctx { c := dyntpl.NewCtx(); c.SetStatic("si", 1); return c }
				got, want := renderSafe(hk, mkCtx()), renderSafe(ik, mkCtx())
				hist = append(hist, fmt.Sprintf("render host -> %q %s", got.Out, got.ErrStr()))
				sig := fmt.Sprintf("re-registration host=%d step=%d", hi, si)
				r.Count(sig, true)
				r.Dist["re-registration"]++
				if got.Panic != "" || got.ErrStr() != want.ErrStr() || !bytes.Equal(got.Out, want.Out) {
					r.Violate(sig+" got="+string(got.Out), "after a (re-)registration an include tag does not render the template now registered under its first registered name",
						map[string]any{"host": host, "history": hist, "inlined": inl, "output": string(got.Out), "inlined_output": string(want.Out), "error": got.ErrStr(), "panic": got.Panic})
					break
				}
			}
		}
		// a name listed twice (or more) in an include tag changes nothing: the FIRST registered name of the list as written
		// is rendered, on every parse of every such source
		dyntpl.VerifResetRegistry()
		{
			reg := func(key, body string) {
				t, err, pan := parseSafe([]byte(body), true)
				if err == nil && pan == "" {
					dyntpl.RegisterTplKey(key, t)
				}
			}
			reg("c16dA", "[A]")
			reg("c16dB", "[B]")
			reg("c16dC", "[C]")
			lists := []struct{ names, want string }{{"c16dA c16dB c16dA", "[A]"}, {"c16dB c16dA c16dB c16dC", "[B]"}, {"c16nope c16dC c16dC c16dA c16dB", "[C]"}, {"c16dC c16dC", "[C]"}, {"c16nope c16nope c16dB c16dA", "[B]"},
				{"c16dB c16dA c16dC c16dA c16dC c16dB", "[B]"}, {"c16x c16y c16x c16dA c16dC c16dB c16dA", "[A]"}}
			for li, l := range lists {
				for rep := 0; rep < 24; rep++ {
					kw := []string{"include", "."}[rep%2]
					src := fmt.Sprintf("<{%% %s %s %%}>{# %d #}%d", kw, l.names, rep, rep)
					want := fmt.Sprintf("<%s>%d", l.want, rep)
					hk, err, pan := regTpl(src, true)
					var got rendered
					if err == nil && pan == "" {
						got = renderSafe(hk, dyntpl.NewCtx())
					}
					sig := fmt.Sprintf("include-duplicate-names list=%d", li)
					r.Count(fmt.Sprintf("%s rep=%d", sig, rep), true)
					r.Dist["include-duplicate-names"]++
					if err != nil || pan != "" || got.Err != nil || got.Panic != "" || string(got.Out) != want {
						r.Violate(sig+" out="+string(got.Out), "an include tag whose list names a template twice does not render the first registered template of its list",
							map[string]any{"source": src, "registered": []string{"c16dA -> [A]", "c16dB -> [B]", "c16dC -> [C]"}, "output": string(got.Out), "expected": want, "error": got.ErrStr(), "parse_error": fmt.Sprint(err)})
						break
					}
				}
			}
		}
		// template names are separated by the ASCII blank only: a name that contains another kind of white space
		// (NO-BREAK SPACE, IDEOGRAPHIC SPACE, NEL) is ONE name, also when the part before it is a registered name itself
		dyntpl.VerifResetRegistry()
		for _, sp := range []string{"\u00a0", "\u3000", "\u0085", "\t"} {
			long := "c16menu" + sp + "main"
			t1, e1, p1 := parseSafe([]byte("short"), true)
			t2, e2, p2 := parseSafe([]byte("long{%= si %}"), true)
			if e1 != nil || e2 != nil || p1 != "" || p2 != "" {
				r.Internal("C16 names: bodies do not parse")
				break
			}
			dyntpl.RegisterTplKey("c16menu", t1)
			dyntpl.RegisterTplKey("main", t1)
			dyntpl.RegisterTplKey(long, t2)
			for _, host := range []string{"<{% include " + long + " %}>", "<{% . c16nope " + long + " c16menu %}>", "{% for i := 0; i < 2; i++ %}<{% include " + long + " %}>{% endfor %}"} {
				hk, err, pan := regTpl(host, true)
				want := strings.ReplaceAll(strings.ReplaceAll(strings.ReplaceAll(host, "{% include "+long+" %}", "long1"), "{% . c16nope "+long+" c16menu %}", "long1"), "{% for i := 0; i < 2; i++ %}<long1>{% endfor %}", "<long1><long1>")
				var got rendered
				if err == nil && pan == "" {
					ctx := dyntpl.NewCtx()
					ctx.SetStatic("si", 1)
					got = renderSafe(hk, ctx)
				}
				sig := fmt.Sprintf("include-name-with-space %q host=%s", sp, host)
				r.Count(sig, true)
				r.Dist["include-name-with-space"]++
				if tab := sp == "\t"; !tab && (err != nil || pan != "" || got.Err != nil || string(got.Out) != want) {
					r.Violate(sig, "an include of a template whose name contains a non-ASCII space does not render that template",
						map[string]any{"host": host, "registered": []string{"c16menu -> short", "main -> short", long + " -> long{%= si %}"}, "output": string(got.Out), "expected": want, "error": got.ErrStr(), "parse_error": fmt.Sprint(err)})
				}
			}
		}
		dyntpl.VerifResetRegistry()
		includeNameBlanks(r)
	}
}

// loopVarNames: names of loop variables are names.
func loopVarNames(r *Run) {
	// names of loop variables are names (a relation on the real engine alone — the parser decides what is bound):
	// a key or value whose name merely STARTS with an underscore, or contains "range" / "for", is bound like any other
	for _, names := range [][2]string{{"_k", "v"}, {"__idx", "_v"}, {"k_", "v_"}, {"forK", "rangeV"}, {"k9", "v9"}} {
		for _, body := range []string{`{%= K %}={%= V %},`, `{% if K == 1 %}one{% endif %}{%= V %}`} {
			mk := func(k, v string) string {
				b := strings.ReplaceAll(strings.ReplaceAll(body, "K", k), "V", v)
				return `{% for ` + k + `, ` + v + ` := range lst sep ; %}` + b + `{% endfor %}|{% for ` + k + ` := 0; ` + k + ` < 2; ` + k + `++ %}{%= ` + k + ` %}{% endfor %}`
			}
			var outs [2]rendered
			bad := ""
			for x, src := range []string{mk(names[0], names[1]), mk("kk", "vv")} {
				key, err, pan := regTpl(src, true)
				if err != nil || pan != "" {
					bad = fmt.Sprintf("Parse rejects %s: %v %s", src, err, pan)
					break
				}
				ctx := dyntpl.NewCtx()
				ctx.Set("lst", &[]string{"p", "q", "r"}, inspector.StringsInspector{})
				outs[x] = renderSafe(key, ctx)
			}
			sig := "loop-variable-names " + names[0] + "," + names[1] + " body=" + body
			r.Count(sig, true)
			r.Dist["loop-variable-names"]++
			if bad != "" || outs[0].ErrStr() != outs[1].ErrStr() || !bytes.Equal(outs[0].Out, outs[1].Out) {
				r.Violate(sig, "a loop whose variables are named "+names[0]+" / "+names[1]+" renders differently from the same loop with plain names",
					map[string]any{"source": mk(names[0], names[1]), "plain_source": mk("kk", "vv"), "output": string(outs[0].Out), "plain_output": string(outs[1].Out), "error": outs[0].ErrStr(), "problem": bad})
			}
		}
	}
}

// loopHeaderBlanks: the three parts of a counter-loop header are separated by semicolons; blanks around a semicolon
// belong to neither part (a relation on the real engine alone: every spelling renders what the plain one renders;
// repair: `i < 3 ; i++` kept the blank in the bound, which was then no number — the render failed).
func loopHeaderBlanks(r *Run) {
	plain := `{% for i := 0; i < N; i++ sep , %}{%= i %}{% endfor %}`
	for _, bound := range []string{"3", "n", "lim"} {
		for _, hdr := range []string{"for i := 0; i < N; i++", "for i := 0; i < N ; i++", "for i := 0 ; i < N; i++", "for i := 0 ; i < N ; i++", "for i:=0;i<N;i++", "for i := 0;  i < N  ;  i++",
			"for i := 0; i <N ; i++", "for i=0; i < N ; i++"} {
			src := `{% ` + strings.ReplaceAll(hdr, "N", bound) + ` sep , %}{%= i %}{% endfor %}`
			var outs [2]rendered
			bad := ""
			for x, s := range []string{src, strings.ReplaceAll(plain, "N", bound)} {
				key, err, pan := regTpl(s, true)
				if err != nil || pan != "" {
					bad = fmt.Sprintf("Parse rejects %s: %v %s", s, err, pan)
					break
				}
				ctx := dyntpl.NewCtx()
				ctx.SetStatic("n", 3)
				ctx.SetStatic("lim", int64(2))
				outs[x] = renderSafe(key, ctx)
			}
			sig := "loop-header-blanks " + src
			r.Count(sig, true)
			r.Dist["loop-header-blanks"]++
			if bad != "" || outs[0].ErrStr() != outs[1].ErrStr() || !bytes.Equal(outs[0].Out, outs[1].Out) || len(outs[1].Out) == 0 {
				r.Violate(sig, "a counter loop whose header has blanks around a semicolon renders differently from the same loop spelled plainly",
					map[string]any{"source": src, "output": string(outs[0].Out), "plain_output": string(outs[1].Out), "error": outs[0].ErrStr(), "plain_error": outs[1].ErrStr(), "problem": bad})
			}
		}
	}
}

// twoIndexCases: paths with TWO bracketed indexes inside counter loops — a field chosen by a variable and an element
// chosen by the counter, two counters of nested loops, an index that is not set, an index without a value — in print
// tags, comparisons (either side), len(), ctx sources and modifier arguments: every pair is substituted, left to right.
func twoIndexCases(r *Run) []*RCase {
	var out []*RCase
	usr := UserSpec{Id: "u", HasFinance: true, History: []History{{1, 1.5, "c0"}, {2, 2.5, "c1"}, {3, 3.5, "c2"}}}
	for _, loop := range []string{`{% for i := 0; i < 3; i++ %}`, `{% for j := 0; j < 2; j++ %}{% for i := 2; i >= j; i-- %}`, ``} {
		end := strings.Repeat(`{% endfor %}`, strings.Count(loop, `{% for`))
		for _, body := range []string{`{%= user[part].History[i].Cost %};`, `{%= user[part][fld][i].Comment pfx < sfx > %}`, `{% if user[part].History[i].Cost > 2 %}G{% else %}L{% endif %}`,
			`{% if 2 < user[part].History[i].Cost %}G{% else %}L{% endif %}`, `{%= user[part].History[i].Cost > 2 ? user[part].History[i].Comment : user.Id %},`,
			`{% switch user[part].History[i].Comment %}{% case "c1" %}one{% default %}other{% endswitch %}`, `{% ctx q = user[part].History[i].Comment %}{%= q %}.`,
			`{%= e|default(user[part].History[i].Comment) %},`, `{%= user[nokey].History[i].Cost %}|`, `{%= user[part].History[nokey].Cost %}|`, `{%= lst[i][i] %}|`, `{%= user[part].History[i][i] %}|`,
			`{% if len(user[part][fld]) > 2 %}T{% endif %}`, `{%= user[part].History[i].Cost %}{%= user[part].History[j].Comment %};`} {
			src := loop + body + end + `|{%= user.Id %}`
			c := &RCase{Tpls: []TplDef{{Key: "main", Src: src, KeepFmt: true}}, Meta: map[string]any{"two-index-path": body, "loop": loop}}
			c.Ops = []SOp{{Kind: "static", Name: "fld", Val: "History"}, {Kind: "static", Name: "part", Val: "Finance"}, {Kind: "static", Name: "e", Val: ""}, {Kind: "strs", Name: "lst", Val: []string{"p", "q", "r"}},
				{Kind: "obj", Name: "user", Val: usr}, {Kind: "render", Key: "main"}, {Kind: "render", Key: "main"}}
			out = append(out, c)
			r.Dist["two-index-path"]++
		}
	}
	return out
}

// indexedRangeSource: a relation on the real engine alone (maps under StringAnyMapInspector are not in the model) —
// inside a counter loop `range m[i]` ranges over the collection `m.<i>`: the output equals the concatenation of the
// loops over `m.0`, `m.1`, … written out; each body once per element, the else branch only for the empty one.
func indexedRangeSource(r *Run) {
	data := map[string]any{"0": map[string]any{"p": 1}, "1": map[string]any{"q": 2}, "2": map[string]any{}, "x": map[string]any{"0": map[string]any{"z": 9}, "1": map[string]any{}}}
	for _, tc := range []struct {
		path, flat string
		n          int
	}{{"m[i]", "m.%d", 3}, {"m.x[i]", "m.x.%d", 2}, {"m[i]", "m.%d", 1}} {
		for _, body := range []string{`{%= k %}={%= v %}`, `{%= k %}{% break %}`, `{%= v %}{% continue %}never`} {
			inner := func(p string) string { return `[{% for k, v := range ` + p + ` %}` + body + `{% else %}E{% endfor %}]` }
			indexed := fmt.Sprintf(`{%% for i := 0; i < %d; i++ %%}`, tc.n) + inner(tc.path) + `{% endfor %}`
			flat := ""
			for i := 0; i < tc.n; i++ {
				flat += inner(fmt.Sprintf(tc.flat, i))
			}
			var outs [2]rendered
			bad := ""
			for x, src := range []string{indexed, flat} {
				key, err, pan := regTpl(src, true)
				if err != nil || pan != "" {
					bad = fmt.Sprintf("Parse rejects %s: %v %s", src, err, pan)
					break
				}
				ctx := dyntpl.NewCtx()
				ctx.Set("m", data, inspector.StringAnyMapInspector{})
				outs[x] = renderSafe(key, ctx)
			}
			sig := "indexed-range-source(map) " + tc.path + fmt.Sprintf(" n=%d body=", tc.n) + body
			r.Count(sig, true)
			r.Dist["indexed-range-source:map"]++
			if bad != "" || outs[0].ErrStr() != outs[1].ErrStr() || !bytes.Equal(outs[0].Out, outs[1].Out) {
				r.Violate(sig, "a range loop over "+tc.path+" inside a counter loop renders differently from the loops over the indexed collections written out",
					map[string]any{"source": indexed, "flat_source": flat, "output": string(outs[0].Out), "flat_output": string(outs[1].Out), "error": outs[0].ErrStr(), "flat_error": outs[1].ErrStr(), "problem": bad})
			}
		}
	}
}

// c14Spellings: a loop-control tag in which something other than a recognised condition follows the depth — two
// blanks or a tab before `if`, a tag wrapped over two lines, another word, a second number — is not a conditional
// form. Parse must reject it, or the tag must behave like the same instruction wrapped in the if block; it must never
// run as the UNCONDITIONAL instruction.
func c14Spellings(r *Run) {
	wrapped := func(instr string) string {
		return "{% for a := 0; a < 2; a++ %}[{% for c := 0; c < 3; c++ %}{%= a %}{%= c %}{% if c == 7 %}{% " + instr + " %}{% endif %},{% endfor %}]{% endfor %}E"
	}
	for _, instr := range []string{"break 2", "lazybreak 2", "break 1", "lazybreak 3"} {
		kw, err, pan := regTpl(wrapped(instr), true)
		if err != nil || pan != "" {
			r.Internal("C14 spellings: the wrapped form does not parse")
			return
		}
		want := renderSafe(kw, dyntpl.NewCtx())
		for _, gap := range []string{"  ", "\t", " \t ", "\n\t\t", "   "} {
			for _, keep := range []bool{true, false} {
				src := "{% for a := 0; a < 2; a++ %}[{% for c := 0; c < 3; c++ %}{%= a %}{%= c %}{% " + instr + gap + "if c == 7 %},{% endfor %}]{% endfor %}E"
				tree, perr, ppan := parseSafe([]byte(src), keep)
				sig := fmt.Sprintf("conditional-spelling %q gap=%q keepFmt=%v", instr, gap, keep)
				r.Count(sig, true)
				r.Dist["conditional-spelling"]++
				if ppan != "" {
					r.Violate(sig+" panic", "Parse panicked", map[string]any{"source": src, "panic": ppan})
					continue
				}
				if perr != nil {
					r.Dist["conditional-spelling:rejected"]++
					continue // rejected: fine
				}
				dyntpl.RegisterTplKey("c14spelling", tree)
				got := renderSafe("c14spelling", dyntpl.NewCtx())
				if got.ErrStr() != want.ErrStr() || !bytes.Equal(got.Out, want.Out) {
					r.Violate(sig, "a loop-control tag whose condition is not separated from the depth by exactly one blank is accepted by Parse and does not behave like the instruction wrapped in the if block (the condition is dropped)",
						map[string]any{"source": src, "keepFmt": keep, "output": string(got.Out), "wrapped_source": wrapped(instr), "wrapped_output": string(want.Out), "error": got.ErrStr()})
				}
			}
		}
		for _, tail := range []string{" unless c == 7", ".5", " 3", " if", " iff c == 7"} {
			src := "{% for a := 0; a < 2; a++ %}[{% for c := 0; c < 3; c++ %}{%= a %}{%= c %}{% " + instr + tail + " %},{% endfor %}]{% endfor %}E"
			_, perr, ppan := parseSafe([]byte(src), true)
			sig := fmt.Sprintf("conditional-spelling %q tail=%q", instr, tail)
			r.Count(sig, true)
			r.Dist["conditional-spelling"]++
			if ppan != "" || perr == nil {
				r.Violate(sig, "a loop-control tag with unrecognised text after its depth is accepted by Parse (it runs as the unconditional instruction)", map[string]any{"source": src, "panic": ppan})
			}
		}
	}
}

// includeNameBlanks: the names of an include tag are separated by blanks — one or several: `{% include  a %}` lists
// the name `a` and nothing else, also when a template is registered under the empty key (a doubled blank used to add
// an empty name to the list, which found that template first). A relation on the real engine alone.
func includeNameBlanks(r *Run) {
	defer dyntpl.VerifResetRegistry()
	dyntpl.VerifResetRegistry()
	reg := func(key, src string) bool {
		t, err, pan := parseSafe([]byte(src), true)
		if err != nil || pan != "" {
			return false
		}
		dyntpl.RegisterTplKey(key, t)
		return true
	}
	if !reg("", "EMPTY-KEY") || !reg("nb/a", "A") || !reg("nb/b", "B") {
		r.Internal("C16 include blanks: bodies do not parse")
		return
	}
	for _, pair := range [][2]string{{"[{% include nb/a %}]", "[{% include  nb/a %}]"}, {"[{% . nb/a %}]", "[{% .   nb/a %}]"}, {"[{% include nb/nope nb/b %}]", "[{% include nb/nope  nb/b %}]"},
		{"[{% include nb/nope nb/b %}]", "[{% include  nb/nope   nb/b %}]"}, {"[{% include nb/nope nb/none %}]", "[{% include  nb/nope  nb/none %}]"},
		{"{% for i := 0; i < 2; i++ %}[{% include nb/a %}]{% endfor %}", "{% for i := 0; i < 2; i++ %}[{% include  nb/a %}]{% endfor %}"}} {
		var outs [2]rendered
		bad := ""
		for k := 0; k < 2; k++ {
			key, err, pan := regTpl(pair[k], true)
			if err != nil || pan != "" {
				bad = fmt.Sprintf("Parse rejects %s: %v %s", pair[k], err, pan)
				break
			}
			outs[k] = renderSafe(key, dyntpl.NewCtx())
		}
		sig := "include-name-blanks " + pair[1]
		r.Count(sig, true)
		r.Dist["include-name-blanks"]++
		if bad != "" || outs[0].ErrStr() != outs[1].ErrStr() || !bytes.Equal(outs[0].Out, outs[1].Out) {
			r.Violate(sig, "an include tag written with several blanks between its names renders something else than the same tag written with one",
				map[string]any{"one_blank": pair[0], "several_blanks": pair[1], "one_blank_output": string(outs[0].Out), "several_blanks_output": string(outs[1].Out), "one_blank_error": outs[0].ErrStr(), "several_blanks_error": outs[1].ErrStr(),
					"registered": []string{`"" -> EMPTY-KEY`, `nb/a -> A`, `nb/b -> B`}, "problem": bad})
		}
	}
}
