package main

import (
	"bufio"
	"bytes"
	"encoding/hex"
	"encoding/json"
	"fmt"
	"math/rand"
	"os"
	"os/exec"
	"path/filepath"
	"strings"
	"time"
)

// Run carries the state of one check run: PRNG, counters, violations, samples.
type Run struct {
	aborted    bool // a session hit the watchdog: stop generating work, judge what is there, exit
	Prop, Tier string
	Seed       int64
	Rng        *rand.Rand
	driver     string
	replayDir  string
	replayFile string
	known      []knownFinding

	Evaluations  int
	distinct     map[string]struct{}
	Samples      []any
	Dist         map[string]int
	Exhaustive   bool
	Rule         string
	Notes        []string
	Violations   []violation
	KnownHits    map[string]int
	TieBreaks    []tieBreak
	InternalErrs []string

	outPath string    // result file (set by main), for checks that have to end the run themselves
	started time.Time // start of the run
}

// Abort ends the run now (used when the code under test is stuck and the normal return path cannot be taken):
// verdict lines and the result file are written as usual.
func (r *Run) Abort() {
	r.finish(r.outPath, time.Since(r.started))
	os.Exit(r.exitCode())
}

type violation struct {
	Replay string `json:"replay"`
	What   string `json:"what"`
	NoFail bool   `json:"no_failing_input_found"`
}

type tieBreak struct {
	Corr string `json:"correspondence"`
	Case any    `json:"case"`
	Go   string `json:"go"`
	Lean string `json:"model"`
}

type knownFinding struct {
	Prop, ID, Match, What string
}

func newRun(prop, tier string, seed int64, driver, rdir, kf string) *Run {
	r := &Run{Prop: prop, Tier: tier, Seed: seed, Rng: rand.New(rand.NewSource(seed)), driver: driver,
		replayDir: rdir, distinct: map[string]struct{}{}, Dist: map[string]int{}, KnownHits: map[string]int{}}
	r.known = loadKnown(kf, prop)
	return r
}

func (r *Run) Thorough() bool { return r.Tier == "thorough" }

// N picks a count by tier.
func (r *Run) N(quick, thorough int) int {
	if r.Thorough() {
		return thorough
	}
	return quick
}

// loadKnown reads "open:" lines: open: property=C04 id=F-x match=<substring> <what fails>
func loadKnown(path, prop string) []knownFinding {
	f, err := os.Open(path)
	if err != nil {
		return nil
	}
	defer f.Close()
	var out []knownFinding
	sc := bufio.NewScanner(f)
	for sc.Scan() {
		ln := strings.TrimSpace(sc.Text())
		if !strings.HasPrefix(ln, "open:") {
			continue
		}
		fs := strings.Fields(ln[5:])
		k := knownFinding{}
		rest := []string{}
		for _, t := range fs {
			switch {
			case strings.HasPrefix(t, "property=") && k.Prop == "":
				k.Prop = t[9:]
			case strings.HasPrefix(t, "id=") && k.ID == "":
				k.ID = t[3:]
			case strings.HasPrefix(t, "match=") && k.Match == "":
				k.Match = t[6:]
			default:
				rest = append(rest, t)
			}
		}
		k.What = strings.Join(rest, " ")
		if k.Prop == prop && k.Match != "" {
			out = append(out, k)
		}
	}
	return out
}

// Count records one evaluated case; key identifies it for distinctness when nontrivial.
func (r *Run) Count(key string, nontrivial bool) {
	r.Evaluations++
	if nontrivial {
		r.distinct[key] = struct{}{}
	}
}

func (r *Run) Sample(s any) {
	if len(r.Samples) < 12 {
		r.Samples = append(r.Samples, s)
	}
}

// Violate records a concrete property violation. sig is the signature matched against
// known findings (match= substring of the signature).
func (r *Run) Violate(sig, what string, c any) {
	for _, k := range r.known {
		if strings.Contains(sig, k.Match) {
			r.KnownHits[k.ID+" "+k.What]++
			return
		}
	}
	if len(r.Violations) >= 5 {
		return
	}
	p := r.writeReplay(map[string]any{"property": r.Prop, "tier": r.Tier, "seed": r.Seed, "signature": sig,
		"what": what, "case": c, "replay_cmd": fmt.Sprintf("./check %s --replay <this file>", r.Prop)})
	r.Violations = append(r.Violations, violation{Replay: p, What: what})
}

// TieBreak records a Go ≠ model divergence on which the property itself still held.
func (r *Run) TieBreak(corr string, c any, goRes, leanRes string) {
	if len(r.TieBreaks) < 5 {
		r.TieBreaks = append(r.TieBreaks, tieBreak{corr, c, goRes, leanRes})
	}
	r.Dist["tie_breaks"]++
}

func (r *Run) Internal(msg string) {
	if len(r.InternalErrs) < 5 {
		r.InternalErrs = append(r.InternalErrs, msg)
	}
}

func (r *Run) writeReplay(v map[string]any) string {
	_ = os.MkdirAll(r.replayDir, 0o755)
	p := filepath.Join(r.replayDir, fmt.Sprintf("%s-%s-%d-%d.json", r.Prop, r.Tier, r.Seed, len(r.Violations)+1))
	b, _ := json.MarshalIndent(v, "", " ")
	_ = os.WriteFile(p, b, 0o644)
	return p
}

// finish prints verdict lines and writes the result JSON for ./check.
func (r *Run) finish(out string, wall time.Duration) {
	for k, n := range r.KnownHits {
		fmt.Printf("KNOWN-FINDING: property=%s %s (hit %d times)\n", r.Prop, k, n)
	}
	if len(r.Violations) == 0 && len(r.TieBreaks) > 0 {
		// Model and implementation differ, but no input violating the property was found.
		p := r.writeReplay(map[string]any{"property": r.Prop, "tier": r.Tier, "seed": r.Seed,
			"broken_obligation": "correspondence " + r.TieBreaks[0].Corr,
			"what":              "the Lean model no longer matches the implementation; the property is no longer shown to hold",
			"diverging_cases":   r.TieBreaks, "searched": r.Evaluations})
		r.Violations = append(r.Violations, violation{Replay: p, What: "correspondence broken: " + r.TieBreaks[0].Corr, NoFail: true})
	}
	for _, v := range r.Violations {
		if v.NoFail {
			fmt.Printf("VIOLATION property=%s replay=%s no-failing-input-found\n", r.Prop, v.Replay)
		} else {
			fmt.Printf("VIOLATION property=%s replay=%s\n", r.Prop, v.Replay)
		}
	}
	for _, e := range r.InternalErrs {
		fmt.Printf("INTERNAL-ERROR: %s\n", e)
	}
	if out != "" {
		res := map[string]any{
			"property_id": r.Prop, "tier": r.Tier, "seed": r.Seed,
			"evaluations": r.Evaluations, "distinct_nontrivial": len(r.distinct), "rule": r.Rule + "; in addition: enumerated families and relations on the real engine alone (added while seeded changes were studied, DESIGN.md §11.8) — each is counted under a key of its own in `distribution` (key = family, value = cases run)",
			"samples": r.Samples, "distribution": r.Dist, "exhaustive": r.Exhaustive, "notes": r.Notes,
			"violations": r.Violations, "known_hits": r.KnownHits, "tie_breaks": len(r.TieBreaks),
			"internal_errors": r.InternalErrs, "wall_s": wall.Seconds(),
		}
		b, _ := json.MarshalIndent(res, "", " ")
		_ = os.WriteFile(out, b, 0o644)
	}
}

func (r *Run) exitCode() int {
	if len(r.InternalErrs) > 0 {
		return 2
	}
	if len(r.Violations) > 0 {
		return 1
	}
	return 0
}

// Drive pipes request lines through the Lean driver and returns one answer per line.
func (r *Run) Drive(lines []string) []string {
	if len(lines) == 0 {
		return nil
	}
	cmd := exec.Command(r.driver)
	var in bytes.Buffer
	for _, l := range lines {
		in.WriteString(l)
		in.WriteByte('\n')
	}
	cmd.Stdin = &in
	var outb, errb bytes.Buffer
	cmd.Stdout = &outb
	cmd.Stderr = &errb
	if err := cmd.Run(); err != nil {
		r.Internal(fmt.Sprintf("lean driver failed: %v: %s", err, errb.String()))
		return make([]string, len(lines))
	}
	ans := strings.Split(strings.TrimRight(outb.String(), "\n"), "\n")
	if len(ans) != len(lines) {
		r.Internal(fmt.Sprintf("lean driver answered %d lines for %d requests", len(ans), len(lines)))
		res := make([]string, len(lines))
		copy(res, ans)
		return res
	}
	return ans
}

func hx(b []byte) string {
	if len(b) == 0 {
		return "-"
	}
	return hex.EncodeToString(b)
}

func unhx(s string) ([]byte, bool) {
	if s == "-" {
		return nil, true
	}
	if s == "!" {
		return nil, false
	}
	b, err := hex.DecodeString(s)
	return b, err == nil
}
