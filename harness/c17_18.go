package main

import (
	"bytes"
	"fmt"
	"strconv"
	"strings"

	"github.com/koykov/dyntpl"
)

func cloneCase(c *RCase) *RCase {
	n := &RCase{Tpls: c.Tpls, Meta: map[string]any{}, Entries: c.Entries}
	n.Ops = append([]SOp(nil), c.Ops...)
	for k, v := range c.Meta {
		n.Meta[k] = v
	}
	return n
}

func init() {
	props["C17"] = func(r *Run) {
		r.Rule = "fault enumeration: for every generated template (all constructs: prints with prefix/suffix, conditions, switches, counter and range loops with separators and else, includes, regions, break/continue/lazybreak/exit) " +
			"the fault-free render gives the number of Write calls W; then for EVERY k in 1..W the render is repeated with a writer that fails the k-th call and all later ones; " +
			"required: non-nil error and accepted bytes a prefix of the fault-free output; every run also compared with the Lean model; non-trivial = W >= 2; distinct by (template, data, k)"
		cfg := GenCfg{MaxDepth: 3, MaxNodes: 12, Loops: true, Ctl: true, BreakN: true, LazyBreak: true, Switch: true, Include: true, Exit: true, Region: true, PreSuf: true, Mods: true, Ternary: true, Helpers: true, Defer: true}
		nT := r.N(700, 16000)
		var cases []*RCase
		// second half: loop nests with break / continue / lazybreak only (a write after loop control is where an
		// error is most easily taken for a control signal)
		cfgCtl := GenCfg{MaxDepth: 3, MaxNodes: 12, Loops: true, Ctl: true, BreakN: true, LazyBreak: true, PreSuf: true}
		// fixed templates, one per place a write can happen in (every one of them gets every fault position): raw text,
		// print with prefix / suffix / raw mark, separators, the else branch of a counter loop, of a range loop over an
		// empty list, over an UNSET variable and over a non-iterable one, branches of if / switch / ternary, the copy-out
		// of an include (also of one that ends by exit / break), text after lazybreak, regions
		fixed := []string{
			`a{%= si %}b`, `{%= ss pfx < sfx > %}|{%= ss|raw prefix ( suffix ) %}`, `{% for i := 0; i < 3; i++ sep , %}{%= i %}{% endfor %}z`,
			`{% for i := 0; i < 0; i++ %}x{% else %}E{%= si %}F{% endfor %}`, `{% for _, v := range empty %}x{% else %}E{%= si %}F{% endfor %}`,
			`{% for _, v := range nope %}x{% else %}E{%= si %}F{% endfor %}`, `a{% for _, v := range nope %}x{% else %}E{% endfor %}`, `{% for _, v := range si %}x{% else %}E{% endfor %}`,
			`{% for k, v := range lst sep ; %}{%= k %}={%= v %}{% endfor %}`, `{% for _, v := range lst %}{% lazybreak %}[{%= v %}]{% endfor %}`,
			`{% for _, v := range lst %}{% for i := 0; i < 2; i++ %}{% lazybreak 2 %}({%= i %}){% endfor %}|{% endfor %}`,
			`{% if si == 1 %}T{%= si %}{% else %}F{% endif %}{% if si == 2 %}T{% else %}F{%= si %}{% endif %}`, `{% switch si %}{% case 1 %}one{%= si %}{% default %}d{% endswitch %}{% switch %}{% case si == 2 %}two{% default %}d{%= si %}{% endswitch %}`,
			`{%= si == 1 ? ss : bv %}{%= si == 2 ? ss : bv %}`, `h<{% include inc %}>t`, `h<{% include incx %}>t`, `{% for i := 0; i < 2; i++ %}<{% include incb %}>{% endfor %}t`,
			`{% jsonquote %}"{%= ss %}"{% htmlescape %}<{%= bv %}>{% endhtmlescape %}{% endjsonquote %}`, `{% for _, v := range lst sep , %}{% continue %}{% endfor %}.`,
			`{% if v, ok := vok(ss); ok %}[{%= v %}]{% else %}no{% endif %}`, `a{% exit %}b`, `{% for _, v := range lst %}{%= v %}{% exit %}{% endfor %}`,
		}
		var bases []*RCase
		for _, src := range fixed {
			b := &RCase{Tpls: []TplDef{{Key: "inc", Src: `i{%= si %}j`, KeepFmt: true}, {Key: "incx", Src: `i{% exit %}j`, KeepFmt: true}, {Key: "incb", Src: `i{% if i == 1 %}{% break %}{% endif %}j`, KeepFmt: true},
				{Key: "main", Src: src, KeepFmt: true}}}
			b.Ops = []SOp{{Kind: "static", Name: "si", Val: int64(1)}, {Kind: "static", Name: "ss", Val: `a"b<c`}, {Kind: "bytes", Name: "bv", Val: []byte("x&y")}, {Kind: "strs", Name: "lst", Val: []string{"p", "q", "r"}},
				{Kind: "strs", Name: "empty", Val: []string{}}, {Kind: "render", Key: "main"}}
			bases = append(bases, b)
			r.Dist["fixed-write-sites"]++
		}
		for i := 0; i < nT; i++ {
			gc := cfg
			if i%2 == 1 {
				gc = cfgCtl
			}
			b, _ := genCase(r, gc)
			bases = append(bases, b)
		}
		for _, base := range bases {
			if !runWatched(r, base) {
				break
			}
			if base.Panic != "" || base.PErr != "" || len(base.GoRes) != 1 {
				cases = append(cases, base) // let runSessions report it
				continue
			}
			_, out0, ws, _, ok := resultFields(base.GoRes[0])
			W, _ := strconv.Atoi(ws)
			if !ok {
				continue
			}
			r.Dist[fmt.Sprintf("writes:%d", min(W, 20))]++
			base.Meta = map[string]any{"fault_free_out": string(out0), "fault_free_writes": W}
			cases = append(cases, base)
			if W > 40 {
				W = 40
			}
			for k := 1; k <= W; k++ {
				c := cloneCase(base)
				c.Ops[len(c.Ops)-1].FailAt = k
				c.Meta["k"] = k
				c.Meta["ff"] = out0
				cases = append(cases, c)
			}
		}
		r.Exhaustive = true
		runSessionsJudged(r, cases, func(c *RCase, i int, g, m string) string {
			gs, gout, _, _, _ := resultFields(g)
			if k, ok := c.Meta["k"].(int); ok {
				if gs == "ok" {
					return fmt.Sprintf("render reported success although write #%d failed", k)
				}
				if ff, ok := c.Meta["ff"].([]byte); ok && !bytes.HasPrefix(ff, gout) {
					return fmt.Sprintf("bytes accepted before the failure %q are not a prefix of the fault-free output %q", gout, ff)
				}
			}
			return ""
		}, outputDiffers)
	}

	props["C18"] = func(r *Run) {
		r.Rule = "templates in which harness modifiers vdefer(tag) / vacquire(tag) register deferred functions and take pooled objects at top level, in loops, in includes (two levels), before and after exit, " +
			"rendered in sequences render / render / reset / render on ONE context; the event log (reg, ran, acq, rel with tags, in order) after every render and reset is compared with the Lean model; " +
			"non-trivial = the log is non-empty; distinct by request"
		cfg := GenCfg{MaxDepth: 3, MaxNodes: 12, Loops: true, Include: true, Exit: true, Mods: true, Defer: true, Switch: true}
		var cases []*RCase
		for i := 0; i < r.N(3000, 80000); i++ {
			c, _ := genCase(r, cfg)
			// sequence on one context: render, (render | reset+sets), render, reset
			env := append([]SOp(nil), c.Ops[:len(c.Ops)-1]...)
			ops := append([]SOp(nil), c.Ops...)
			switch r.Rng.Intn(5) {
			case 0:
				ops = append(ops, SOp{Kind: "render", Key: "main"})
			case 1:
				ops = append(ops, SOp{Kind: "reset"})
				ops = append(ops, env...)
				ops = append(ops, SOp{Kind: "render", Key: "main"})
			case 2:
				// a second reset right after the first: nothing is released twice
				ops = append(ops, SOp{Kind: "reset"}, SOp{Kind: "reset"}, SOp{Kind: "render", Key: "probe"})
			case 3:
				// after the reset a render that acquires FEWER objects, then reset again: only its own are released
				c.Tpls = append(c.Tpls, TplDef{Key: "small", Src: "{%= si|vacquire(901) %}s", KeepFmt: true})
				ops = append(ops, SOp{Kind: "reset"})
				ops = append(ops, env...)
				ops = append(ops, SOp{Kind: "render", Key: "small"}, SOp{Kind: "reset"}, SOp{Kind: "render", Key: "probe"}, SOp{Kind: "reset"})
			}
			c.Pool = r.Rng.Intn(3) == 0 // reset = ReleaseCtx + AcquireCtx
			ops = append(ops, SOp{Kind: "reset"})
			// a final render of a trivial template exposes the log after the last reset
			c.Tpls = append(c.Tpls, TplDef{Key: "probe", Src: "p", KeepFmt: true})
			ops = append(ops, SOp{Kind: "render", Key: "probe"})
			c.Ops = ops
			cases = append(cases, c)
		}
		// fixed skeletons: every placement over a small set
		tag := 0
		mk := func(body string, incs ...string) *RCase {
			c := &RCase{Entries: true}
			for i, s := range incs {
				c.Tpls = append(c.Tpls, TplDef{Key: fmt.Sprintf("inc%d", i), Src: s, KeepFmt: true})
			}
			c.Tpls = append(c.Tpls, TplDef{Key: "main", Src: body, KeepFmt: true}, TplDef{Key: "probe", Src: "p", KeepFmt: true})
			c.Ops = []SOp{{Kind: "static", Name: "si", Val: int64(1)}, {Kind: "render", Key: "main"}, {Kind: "render", Key: "main"}, {Kind: "reset"}, {Kind: "render", Key: "probe"}}
			return c
		}
		d := func(kind string) string { tag++; return fmt.Sprintf("{%%= si|%s(%d) %%}", kind, tag) }
		for _, kind := range []string{"vdefer", "vacquire"} {
			cases = append(cases,
				mk("a"+d(kind)+"b"),
				mk(d(kind)+"{% include inc0 %}"+d(kind), "x"+d(kind)),
				mk(d(kind)+"{% include inc0 %}z", "{% include inc1 %}"+d(kind), d(kind)+"{% exit %}"+d(kind)),
				mk(d(kind)+"{% exit %}"+d(kind)),
				mk("{% for i := 0; i < 3; i++ %}"+d(kind)+"{% endfor %}"),
				mk("{% for i := 0; i < 3; i++ %}"+d(kind)+"{% exit %}{% endfor %}"+d(kind)),
				mk(d(kind)+"{% if si == 1 %}{% exit %}{% endif %}"+d(kind)),
				mk(d(kind)+"{% include missing %}"+d(kind)),
				// a modifier that FAILS in a print tag is swallowed there (nothing is printed, the render goes on and
				// succeeds) but leaves its error in ctx.Err: the deferred functions still run at the end
				mk(d(kind)+"{%= si|default() %}tail"),
				mk(d(kind)+"{%= si|vfail() %}"),
				mk("{%= nope|default() %}"+d(kind)+"{% if si == 1 %}{%= si|vfail() %}{% endif %}"),
				// an included template that ends — by break, continue, exit or an error — BEFORE it has written a byte,
				// inside a loop of the host, with deferred functions / pooled objects before, in and after it
				mk("{% for i := 0; i < 3; i++ %}"+d(kind)+"{% include inc0 %}"+d(kind)+"{% endfor %}"+d(kind), "{% if si == 1 %}{% break %}{% endif %}never"),
				mk("{% for i := 0; i < 2; i++ %}"+d(kind)+"{% include inc0 %}"+d(kind)+"{% endfor %}"+d(kind), d(kind)+"{% continue %}never"),
				mk(d(kind)+"{% for i := 0; i < 2; i++ %}{% include inc0 %}{% endfor %}"+d(kind), "{% exit %}never"+d(kind)),
				mk("{% for i := 0; i < 2; i++ %}{% include inc0 %}"+d(kind)+"{% endfor %}", "{% include inc1 %}", "{% lazybreak %}{% if si == 1 %}{% continue %}{% endif %}"),
			)
		}
		// renders of many KiB (a context that grew large is still reset and its objects returned), through both reset
		// forms: Reset, and ReleaseCtx + AcquireCtx
		for _, pool := range []bool{false, true} {
			for _, n := range []int{3000, 70000, 300000} {
				c := &RCase{Pool: pool, Entries: true, Meta: map[string]any{"big-output-bytes": n}}
				c.Tpls = []TplDef{{Key: "main", Src: "{%= si|vacquire(4) %}{%= big %}{%h= big %}{%= si|vdefer(6) %}{%= si|vacquire(7) %}", KeepFmt: true}, {Key: "probe", Src: "p", KeepFmt: true}}
				c.Ops = []SOp{{Kind: "static", Name: "si", Val: int64(1)}, {Kind: "static", Name: "big", Val: strings.Repeat("x<y ", n/4)}, {Kind: "render", Key: "main"}, {Kind: "reset"},
					{Kind: "render", Key: "probe"}, {Kind: "static", Name: "si", Val: int64(1)}, {Kind: "render", Key: "main"}, {Kind: "reset"}, {Kind: "render", Key: "probe"}}
				cases = append(cases, c)
				r.Dist["big-output"]++
			}
		}
		runSessions(r, cases, func(c *RCase, i int, g, m string) string {
			if w := outputDiffers(c, i, g, m); w != "" {
				return w
			}
			_, _, _, gl, _ := resultFields(g)
			_, _, _, ml, _ := resultFields(m)
			if gl != ml {
				return fmt.Sprintf("event log %s differs from the reference %s (deferred functions / pooled objects not settled exactly once, in order, after the output)", gl, ml)
			}
			return ""
		})
		// Go-only sequences (event log against the expected text): a deferred function that defers another one while the
		// list is being run; pooled byte buffers of every size are reset AND put back; deferred functions of the renders
		// that follow a FAILED render on the same un-reset context still run, each after its own render
		for _, sq := range []struct {
			name, tpl, bad, want string
			n                    int
		}{
			{"nested-defer", "{%= si|vdefer2(7) %}{%= si|vdefer(8) %}x", "", "reg7,reg8,ran7,ran8,ran1007", 1},
			{"nested-defer-twice", "{%= si|vdefer2(7) %}x", "", "reg7,ran7,ran1007,reg7,ran7,ran1007", 2},
			{"buffer-pool-small", "{%= si|vgrow(100) %}x", "", "acqbuf100,resetbuf100,putbuf0", 1},
			{"buffer-pool-64k", "{%= si|vgrow(65536) %}x", "", "acqbuf65536,resetbuf65536,putbuf0", 1},
			{"buffer-pool-big", "{%= si|vgrow(300000) %}{%= si|vgrow(5) %}x", "", "acqbuf300000,acqbuf5,resetbuf300000,putbuf0,resetbuf5,putbuf0", 1},
			{"after-failed-render", "{%= si|vdefer(2) %}g", "{%= si|vdefer(1) %}{% include c18missing %}", "reg1,reg2,ran1,ran2,reg2,ran2", 2},
			{"after-failed-writer", "{%= si|vdefer(2) %}g", "WRITER", "reg2,reg2,ran2,ran2,reg2,ran2", 2},
		} {
			dyntpl.VerifResetRegistry()
			key, err, pan := regTpl(sq.tpl, true)
			if err != nil || pan != "" {
				r.Internal("C18 sequence template does not parse: " + sq.tpl)
				continue
			}
			ctx := dyntpl.NewCtx()
			ctx.SetStatic("si", 1)
			evReset()
			var steps []string
			if sq.bad == "WRITER" {
				werr := dyntpl.Write(&faultWriter{failAt: 1}, key, ctx)
				steps = append(steps, fmt.Sprintf("render on a failing writer -> %v", werr))
			} else if sq.bad != "" {
				kb, err, pan := regTpl(sq.bad, true)
				if err != nil || pan != "" {
					r.Internal("C18 sequence template does not parse: " + sq.bad)
					continue
				}
				res := renderSafe(kb, ctx)
				steps = append(steps, fmt.Sprintf("render %q -> %s", sq.bad, res.ErrStr()))
			}
			okRenders := true
			for i := 0; i < sq.n; i++ {
				res := renderSafe(key, ctx)
				steps = append(steps, fmt.Sprintf("render %q -> %q %s", sq.tpl, res.Out, res.ErrStr()))
				okRenders = okRenders && res.Panic == "" && res.Err == nil
			}
			ctx.Reset()
			steps = append(steps, "ctx.Reset()")
			log := evStr()
			r.Count("sequence:"+sq.name, true)
			r.Dist["go-only-sequences"]++
			if !okRenders || log != sq.want {
				r.Violate("sequence "+sq.name+" log="+log, "deferred functions / pooled objects of a sequence of renders on one context are not settled exactly once, in order, each after its own render",
					map[string]any{"steps": steps, "event_log": log, "expected": sq.want})
			}
		}
		// an acquisition that FAILS (unknown pool; the print tag swallows the error) between two uses of a context: the
		// objects of the earlier use were returned at its Reset and are not returned again, every later object once
		func() {
			dyntpl.VerifResetRegistry()
			k1, e1, p1 := regTpl("{%= si|vacquire(8) %}{%= si|vacquire(9) %}x", true)
			k2, e2, p2 := regTpl("{%= si|vacqbad() %}y{%= si|vacqbad() %}", true)
			k3, e3, p3 := regTpl("{%= si|vacquire(10) %}{%= si|vacqbad() %}{%= si|vacquire(12) %}z", true)
			if e1 != nil || e2 != nil || e3 != nil || p1+p2+p3 != "" {
				r.Internal("C18 failed-acquisition templates do not parse")
				return
			}
			for mode := 0; mode < 2; mode++ {
				ctx := dyntpl.NewCtx()
				evReset()
				var steps []string
				reset := func() {
					if mode == 1 {
						dyntpl.ReleaseCtx(ctx)
						ctx = dyntpl.AcquireCtx()
						steps = append(steps, "ReleaseCtx + AcquireCtx")
					} else {
						ctx.Reset()
						steps = append(steps, "ctx.Reset()")
					}
				}
				okR := true
				for _, k := range []string{k1, k2, k2, k3, k1} {
					ctx.SetStatic("si", 1)
					res := renderSafe(k, ctx)
					steps = append(steps, fmt.Sprintf("render -> %q %s", res.Out, res.ErrStr()))
					okR = okR && res.Panic == ""
					reset()
				}
				log := evStr()
				want := "acq8,acq9,rel8,rel9,acqbad,acqbad,acqbad,acqbad,acq10,acqbad,acq12,rel10,rel12,acq8,acq9,rel8,rel9"
				r.Count(fmt.Sprintf("failed-acquisition:%d", mode), true)
				r.Dist["failed-acquisition"]++
				if !okR || log != want {
					r.Violate(fmt.Sprintf("failed-acquisition mode=%d log=%s", mode, log), "after an acquisition from an unknown pool failed, pooled objects of an earlier use of the context are returned again (or later ones not exactly once)",
						map[string]any{"templates": []string{"{%= si|vacquire(8) %}{%= si|vacquire(9) %}x", "{%= si|vacqbad() %}y{%= si|vacqbad() %}", "{%= si|vacquire(10) %}{%= si|vacqbad() %}{%= si|vacquire(12) %}z"},
							"steps": steps, "event_log": log, "expected": want})
				}
			}
		}()
		// deferred functions that do NOT come from a modifier: registered by a condition helper (if, case, break-if), or
		// by the caller before the render — in templates without any modifier or include. They run at the end of THAT
		// render, once.
		for _, sq := range []struct{ name, tpl, want string }{
			{"cond-helper", "a{% if vdeferc(7) %}b{% endif %}c", "regc7,ranc7"},
			{"case-helper", "{% switch %}{% case vdeferc(8) %}x{% endswitch %}{% for i := 0; i < 2; i++ %}{% break if vdeferc(9) %}{% endfor %}", "regc8,regc9,ranc8,ranc9"},
			{"caller-before-render", "plain text only", "ran-caller"},
			{"caller-and-helper", "{% if vdeferc(3) %}y{% endif %}", "regc3,ran-caller,ranc3"},
		} {
			key, err, pan := regTpl(sq.tpl, true)
			if err != nil || pan != "" {
				r.Internal("C18 non-modifier deferred functions: template does not parse: " + sq.tpl)
				continue
			}
			for reps := 1; reps <= 2; reps++ {
				ctx := dyntpl.NewCtx()
				evReset()
				want := ""
				var outs []string
				for i := 0; i < reps; i++ {
					if strings.HasPrefix(sq.name, "caller") {
						ctx.Defer(func() error { evAdd("ran-caller"); return nil })
					}
					res := renderSafe(key, ctx)
					outs = append(outs, string(res.Out)+" "+res.ErrStr())
					if i > 0 {
						want += ","
					}
					want += sq.want
				}
				afterRenders := evStr()
				ctx.Reset()
				log := evStr()
				r.Count(fmt.Sprintf("non-modifier-deferred:%s:%d", sq.name, reps), true)
				r.Dist["non-modifier-deferred"]++
				if afterRenders != want || log != want {
					r.Violate(fmt.Sprintf("non-modifier-deferred %s reps=%d log=%s", sq.name, reps, afterRenders), "a function deferred by a condition helper or by the caller (no modifier, no include in the template) does not run exactly once at the end of its render",
						map[string]any{"template": sq.tpl, "renders": outs, "event_log_after_the_renders": afterRenders, "event_log_after_reset": log, "expected": want})
				}
			}
		}
		// a pool key registered a second time (another package's init, a late registration) while a context holds
		// objects of the first registration: every object goes back to the pool it was taken from
		func() {
			dyntpl.VerifResetRegistry()
			key, err, pan := regTpl("{%= si|vacquire(12) %}{%= si|vacquire(13) %}x", true)
			if err != nil || pan != "" {
				r.Internal("C18 re-registration template does not parse")
				return
			}
			ctx := dyntpl.NewCtx()
			ctx.SetStatic("si", 1)
			evReset()
			res := renderSafe(key, ctx)
			_ = dyntpl.RegisterPool("vpool", vpool{"vpool-late"})
			_ = dyntpl.RegisterPool("vpool2", vpool{"vpool2-late"})
			ctx.Reset()
			log := evStr()
			r.Count("pool-registered-again", true)
			r.Dist["pool-registered-again"]++
			if res.Panic != "" || res.Err != nil || log != "acq12,acq13,rel12,rel13" {
				r.Violate("pool-registered-again log="+log, "after a pool key was registered a second time the objects taken before are not returned to the pool they came from (log: acquisitions, then one rel<tag> per object; wrongpool<tag> = handed to another pool)",
					map[string]any{"template": "{%= si|vacquire(12) %}{%= si|vacquire(13) %}x", "steps": []string{"render", `RegisterPool("vpool", other)`, `RegisterPool("vpool2", other)`, "ctx.Reset()"}, "event_log": log, "expected": "acq12,acq13,rel12,rel13", "error": res.ErrStr(), "panic": res.Panic})
			}
		}()
		_ = strings.Join
	}
}

func min(a, b int) int {
	if a < b {
		return a
	}
	return b
}

// runSessionsJudged: like runSessions, but a property judge looks at EVERY render result (not only at
// divergences from the model); diverge classifies model divergences.
func runSessionsJudged(r *Run, cases []*RCase, judge func(c *RCase, i int, g, m string) string, diverge func(c *RCase, i int, g, m string) string) {
	runSessions(r, cases, func(c *RCase, i int, g, m string) string {
		if w := judge(c, i, g, m); w != "" {
			return w
		}
		return diverge(c, i, g, m)
	})
	// judge also the cases where Go == model
	for _, c := range cases {
		if c.Panic != "" || c.PErr != "" || c.Answer == "" {
			continue
		}
		ms := strings.Split(c.Answer, " | ")
		for i := range c.GoRes {
			if i < len(ms) && ms[i] == c.GoRes[i] {
				if w := judge(c, i, c.GoRes[i], ms[i]); w != "" {
					r.Violate(fmt.Sprintf("render#%d go=[%s] tpl=%s", i, c.GoRes[i], c.Tpls[len(c.Tpls)-1].Src), w, c.Describe())
				}
			}
		}
	}
}
