package main

import (
	"bytes"
	"fmt"
	"strings"

	"github.com/koykov/bytebuf"
	"github.com/koykov/dyntpl"
	"github.com/koykov/inspector/testobj_ins"
)

// chainAst is the AST of "{%<letters>= v|m1|m2… %}": each m is `name` or `name(a, b)`; a trailing raw is the print's flag.
func chainAst(letters string, chain []string) []TNode {
	p := Print{Letters: letters, Path: "v"}
	for i, m := range chain {
		if m == "raw" && i == len(chain)-1 {
			p.Raw = true
			break
		}
		mc := ModCall{Name: m}
		if j := strings.IndexByte(m, '('); j >= 0 && strings.HasSuffix(m, ")") {
			mc.Name = m[:j]
			mc.Args = []string{}
			if inner := m[j+1 : len(m)-1]; inner != "" {
				mc.Args = strings.Split(inner, ", ")
			}
		}
		p.Mods = append(p.Mods, mc)
	}
	return []TNode{p}
}

func init() {
	props["C11"] = func(r *Run) {
		r.Rule = "ALL directive strings over {h,a,j,q,J,u,l,c} up to length 4 (4680) on rotating input strings, plus random directives up to length 6; modifier chains up to length 3 over default / ifThen / ifThenElse / the escape modifiers / " +
			"the harness modifier vcat with literal, variable and key-value arguments, on every scalar kind incl. missing, nil, zero, false, empty; Go output vs Lean model (modifier loop = left fold) on the dumped real tree; " +
			"non-trivial = non-empty output; distinct by request"
		letters := "hajqJulc"
		inputs := []string{"hello wide world", "a<b>&\"c'", "x y/z?q=1&r=2", "it's \"q\"\n\t\\", "é日本 ", "plain", "", "<", "&amp;", "%41+", "\x01\x1f\x7f"}
		var cases []*RCase
		var dirs []string
		var rec func(prefix string, n int)
		rec = func(prefix string, n int) {
			if prefix != "" {
				dirs = append(dirs, prefix)
			}
			if n == 0 {
				return
			}
			for i := 0; i < len(letters); i++ {
				rec(prefix+string(letters[i]), n-1)
			}
		}
		rec("", 4)
		for i := 0; i < r.N(300, 20000); i++ {
			l := 5 + r.Rng.Intn(2)
			var sb strings.Builder
			for j := 0; j < l; j++ {
				sb.WriteByte(letters[r.Rng.Intn(len(letters))])
			}
			dirs = append(dirs, sb.String())
		}
		nIn := r.N(2, len(inputs))
		for di, d := range dirs {
			for k := 0; k < nIn; k++ {
				in := inputs[(di+k*3)%len(inputs)]
				c := &RCase{Tpls: []TplDef{{Key: "main", Src: "{%" + d + "= v %}", KeepFmt: true, Ast: []TNode{Print{Letters: d, Path: "v"}}}}, Meta: map[string]any{"directive": d, "input": in}}
				op := SOp{Kind: "static", Name: "v", Val: in}
				switch (di + k) % 3 {
				case 1:
					op = SOp{Kind: "bytes", Name: "v", Val: []byte(in)}
				case 2:
					op = SOp{Kind: "static", Name: "v", Val: []byte(in)}
				}
				c.Ops = []SOp{op, {Kind: "render", Key: "main"}}
				cases = append(cases, c)
				r.Dist[fmt.Sprintf("dirlen:%d", len(d))]++
			}
		}
		// precision directives f.N / F.N (floorPrec / ceilPrec), alone and next to escape letters: tied to the parser
		// oracle only (asttie.go); their arithmetic is C20's subject
		for _, d := range []string{"f.1", "F.1", "f.3", "F.9", "f.10", "f.12", "F.15", "hf.2", "f.2h", "uf.12", "F.11jj", "qqf.0"} {
			tieTemplates(r, []TplDef{{Key: "main", Src: "{%" + d + "= v %}", KeepFmt: true, Ast: []TNode{Print{Letters: d, Path: "v"}}}})
		}
		r.Exhaustive = true
		// chains
		mods := []string{`default("dd")`, "default(w)", "default(0)", `ifThen("T")`, "ifThen(w)", `ifThenElse("T", "F")`, "ifThenElse(w, v)", "jsonEscape", "jsonQuote", "htmlEscape", "urlEncode", "linkEscape",
			"attrEscape", "jsEscape", "cssEscape", "vcat()", `vcat("l", 7)`, "vcat(w, {k: w})", `vcat({k1: "x"}, v)`, "raw"}
		vals := []SOp{{Kind: "static", Name: "v", Val: "a<b"}, {Kind: "static", Name: "v", Val: ""}, {Kind: "static", Name: "v", Val: int64(0)}, {Kind: "static", Name: "v", Val: int64(-5)},
			{Kind: "static", Name: "v", Val: uint64(0)}, {Kind: "static", Name: "v", Val: float64(0)}, {Kind: "static", Name: "v", Val: 2.5}, {Kind: "static", Name: "v", Val: true}, {Kind: "static", Name: "v", Val: false},
			{Kind: "bytes", Name: "v", Val: []byte("by\"tes")}, {Kind: "bytes", Name: "v", Val: []byte{}}, {Kind: "static", Name: "v", Val: []byte{}}, {Kind: "static", Name: "v", Val: nil}, {Kind: "counter", Name: "v", Val: 0}, {Kind: "counter", Name: "v", Val: 3},
			{Kind: "static", Name: "zz", Val: int64(1)},
			// tiny non-zero floats are not empty
			{Kind: "static", Name: "v", Val: 1e-12}, {Kind: "static", Name: "v", Val: -2.5e-10}, {Kind: "static", Name: "v", Val: 5e-324}, {Kind: "static", Name: "v", Val: float32(1e-12)}}
		ws := []SOp{{Kind: "static", Name: "w", Val: "W&w"}, {Kind: "bytes", Name: "w", Val: []byte("Wb")}, {Kind: "static", Name: "w", Val: int64(9)}}
		first := "" // an earlier print on the same context (leaves its output in the modifier buffers)
		addChain := func(chain []string, vi, wi int, letters string) {
			src := first + "{%" + letters + "= v|" + strings.Join(chain, "|") + " %}"
			c := &RCase{Tpls: []TplDef{{Key: "main", Src: src, KeepFmt: true}}, Meta: map[string]any{"chain": chain}}
			if ast := chainAst(letters, chain); first == "" && Source(ast) == src {
				c.Tpls[0].Ast = ast // parser oracle (asttie.go)
			}
			c.Ops = []SOp{vals[vi], ws[wi], {Kind: "render", Key: "main"}}
			cases = append(cases, c)
			r.Dist[fmt.Sprintf("chainlen:%d", len(chain))]++
		}
		for i, m := range mods {
			for vi := range vals {
				addChain([]string{m}, vi, (i+vi)%len(ws), "")
			}
		}
		for i, m1 := range mods {
			for j, m2 := range mods {
				for k := 0; k < 3; k++ {
					addChain([]string{m1, m2}, (i*7+j*3+k)%len(vals), (i+j+k)%len(ws), []string{"", "h", "jq"}[(i+j+k)%3])
				}
			}
		}
		for i := 0; i < r.N(3000, 100000); i++ {
			addChain([]string{pick(r, mods), pick(r, mods), pick(r, mods)}, r.Rng.Intn(len(vals)), r.Rng.Intn(len(ws)), pick(r, []string{"", "", "u", "a", "hh", "cJ"}))
		}
		// a second print after a first one that went through a modifier: no output of the first may resurface
		// (every escape letter / modifier on every value, empty and missing ones included)
		for _, f := range []string{"{%= w|jsonEscape %}|", "{%q= w %}|", "{%h= w %}{%u= w %}|", "{%= w|default(\"x\") %}-"} {
			first = f
			for vi := range vals {
				for _, l := range []string{"q", "qq", "j", "h", "u", "a", "l", "c", "J"} {
					src := first + "{%" + l + "= v %}"
					c := &RCase{Tpls: []TplDef{{Key: "main", Src: src, KeepFmt: true}}, Meta: map[string]any{"second-print": l}}
					c.Ops = []SOp{vals[vi], ws[vi%len(ws)], {Kind: "render", Key: "main"}}
					cases = append(cases, c)
					r.Dist["second-print"]++
				}
				for i, m := range mods {
					addChain([]string{m}, vi, (i+vi)%len(ws), "")
				}
			}
		}
		first = ""
		// key-value groups of several pairs, on a context that was used and Reset before: every pair keeps its own
		// key and value (the slots of the key-value buffer are reused across renders)
		for _, src := range []string{`{%= v|vcat({a: "1", b: w, c: "3"}, "tail") %}`, `{%= v|vcat({k1: w}, {k2: "x", k3: v}) %}|{%= w|vcat({z: "9", y: v}) %}`,
			`{%= v|vcat({a: "1", b: "2"}) %}{%= v|vcat({c: "3", d: "4", e: w}) %}`} {
			for vi := range vals {
				c := &RCase{Tpls: []TplDef{{Key: "main", Src: src, KeepFmt: true}, {Key: "other", Src: `{%= w|vcat({p: "0"}, {q: v, r: "r"}) %}`, KeepFmt: true}}, Meta: map[string]any{"kv-groups": src}}
				c.Ops = []SOp{vals[vi], ws[vi%len(ws)], {Kind: "render", Key: "main"}, {Kind: "render", Key: "other"}, {Kind: "reset"}, vals[vi], ws[(vi+1)%len(ws)],
					{Kind: "render", Key: "main"}, {Kind: "reset"}, vals[(vi+1)%len(vals)], ws[vi%len(ws)], {Kind: "render", Key: "other"}, {Kind: "render", Key: "main"}}
				cases = append(cases, c)
				r.Dist["kv-groups"]++
			}
		}
		runSessions(r, cases, outputDiffers)
		// escape letters in front of the call form of a modifier ({%hh= mod(args) %}, no variable): the letters apply to the
		// modifier's result exactly as they apply to a variable holding that result (a relation on the real engine alone)
		for _, call := range []string{`vcat(v)`, `vcat("a b<c>&'d'")`, `vcat(v, {k: w})`, `math::abs(n)`} {
			kc, err, pan := regTpl("{%= "+call+" %}", true)
			if err != nil || pan != "" {
				r.Violate("call-form parse "+call, "the call form of a modifier is rejected by Parse", map[string]any{"source": "{%= " + call + " %}", "error": fmt.Sprint(err), "panic": pan})
				continue
			}
			mk := func() *dyntpl.Ctx {
				c := dyntpl.NewCtx()
				c.SetString("v", `x<y>&"z" /?`)
				c.SetStatic("w", int64(-7))
				c.SetStatic("n", -5.5)
				return c
			}
			plain := renderSafe(kc, mk())
			for _, letters := range []string{"h", "hh", "q", "u", "uu", "j", "a", "c", "J", "hq", "ju"} {
				kl, err1, pan1 := regTpl("{%"+letters+"= "+call+" %}", true)
				kv, err2, pan2 := regTpl("{%"+letters+"= res %}", true)
				if err1 != nil || err2 != nil || pan1 != "" || pan2 != "" {
					r.Violate("call-form parse "+letters+" "+call, "escape letters with the call form of a modifier are rejected by Parse", map[string]any{"source": "{%" + letters + "= " + call + " %}"})
					continue
				}
				got := renderSafe(kl, mk())
				cv := mk()
				cv.SetBytes("res", plain.Out)
				want := renderSafe(kv, cv)
				r.Count("call-form:"+letters+":"+call, true)
				r.Dist["call-form-letters"]++
				if got.Panic != "" || got.ErrStr() != want.ErrStr() || !bytes.Equal(got.Out, want.Out) {
					r.Violate("call-form "+letters+" "+call, "escape letters in front of the call form of a modifier do not escape the modifier's result",
						map[string]any{"source": "{%" + letters + "= " + call + " %}", "output": string(got.Out), "modifier_result": string(plain.Out), "letters_on_that_result": string(want.Out), "error": got.ErrStr()})
				}
			}
		}
		// tags do not influence one another (a relation on the real engine alone): a template made of two or three
		// print tags renders the concatenation of what each tag renders alone — the same expression behind different
		// letters, chains of every length 1..8, results handed back in a public buffer of the context, values that
		// are byte buffers themselves, empty results after non-empty ones
		{
			var tags []string
			for n := 1; n <= 8; n++ {
				chain := "v"
				for k := 0; k < n; k++ {
					chain += []string{`|default(y)`, `|default(z)`, `|default("n/a")`, `|vcat("x")`, `|ifThen(y)`}[(k+n)%5]
				}
				for _, l := range []string{"h", "u", "q", ""} {
					tags = append(tags, "{%"+l+"= "+chain+" %}")
				}
			}
			tags = append(tags, `{%h= title %}`, `{%q= code|vletters %}`, `{%qq= code|vletters %}`, `{%q= digits|vletters %}`, `{%j= digits|vletters %}`, `{%h= digits|vletters|default("none") %}`,
				`{%q= chain %}`, `{%u= chain %}`, `{%q= echain %}`, `{%qq= echain %}`, `{%= echain|jsonQuote %}`, `{%q= e %}`, `{%= title|htmlEscape|jsonQuote %}`, `{%a= title %}`)
			var chain, echain bytebuf.Chain
			mk := func() *dyntpl.Ctx {
				c := dyntpl.NewCtx()
				c.SetString("title", "<Tom & Jerry>")
				c.SetString("code", `a"1b`)
				c.SetString("digits", "123")
				c.SetString("y", "")
				c.SetString("z", `z<"z">`)
				c.SetString("e", "")
				chain.Reset()
				chain.WriteString(`ch "ain" &`)
				echain.Reset()
				c.SetStatic("chain", &chain)
				c.SetStatic("echain", &echain)
				return c
			}
			alone := map[string]rendered{}
			for _, t := range tags {
				k, err, pan := regTpl(t, true)
				if err != nil || pan != "" {
					r.Internal("tag independence: tag does not parse: " + t)
					continue
				}
				alone[t] = renderSafe(k, mk())
			}
			check := func(seq []string) {
				src, want := "", ""
				for i, t := range seq {
					a, ok := alone[t]
					if !ok || a.Err != nil || a.Panic != "" {
						return
					}
					if i > 0 {
						src, want = src+";", want+";"
					}
					src, want = src+t, want+string(a.Out)
				}
				k, err, pan := regTpl(src, true)
				var got rendered
				if err == nil && pan == "" {
					got = renderSafe(k, mk())
				}
				r.Count("tag-independence:"+src, true)
				r.Dist["tag-independence"]++
				if err != nil || pan != "" || got.Err != nil || got.Panic != "" || string(got.Out) != want {
					r.Violate("tag-independence "+src, "print tags of one template influence one another: the template does not render what its tags render one by one",
						map[string]any{"source": src, "output": string(got.Out), "tags_alone": want, "error": got.ErrStr(), "parse_error": fmt.Sprint(err), "panic": got.Panic + pan})
				}
			}
			for i, a := range tags {
				for j, b := range tags {
					if !r.Thorough() && (i*31+j*7)%3 != 0 && a[:4] == b[:4] && i != j {
						// (quick tier: a third of the pairs with equal letters; all pairs with different letters)
						continue
					}
					check([]string{a, b})
				}
				check([]string{a, tags[(i*7+3)%len(tags)], a})
			}
		}
		// names of the registries: a global / a modifier reached through its alias, its namespaced name or its
		// namespaced alias is the global / modifier reached through its plain name (a relation on the real engine alone)
		for _, pair := range [][2]string{{`{%= e|default(vgplain) %}`, `{%= e|default(vgalias) %}`}, {`{%= e|default(vg::greeting) %}`, `{%= e|default(vg::hi) %}`},
			{`{%= e|default(vg::greeting)|vcat(vgplain, vg::hi) %}`, `{%= e|default(vg::hi)|vcat(vgalias, vg::greeting) %}`}, {`{%= v|vcat("a", v) %}`, `{%= v|vns::cat("a", v) %}`},
			{`{%= v|vcat("a", {k: v}) %}`, `{%= v|vns::c("a", {k: v}) %}`}, {`{%h= v|vcatplain(1)|vcat(2) %}`, `{%h= v|vcp(1)|vns::c(2) %}`}, {`{%= e|default(vgplain)|vns::cat() %}`, `{%= e|def(vgalias)|vcp() %}`}} {
			var outs [2]rendered
			bad := ""
			for k := 0; k < 2; k++ {
				key, err, pan := regTpl(pair[k], true)
				if err != nil || pan != "" {
					bad = fmt.Sprintf("Parse rejects %s: %v %s", pair[k], err, pan)
					break
				}
				ctx := dyntpl.NewCtx()
				ctx.SetString("e", "")
				ctx.SetString("v", "V<1>")
				outs[k] = renderSafe(key, ctx)
			}
			sig := "registry-names " + pair[1]
			r.Count(sig, true)
			r.Dist["registry-names"]++
			want := ""
			if strings.Contains(pair[0], "default(vgplain) %}") {
				want = "G<1>"
			} else if strings.Contains(pair[0], "default(vg::greeting) %}") {
				want = "G<2>"
			}
			if bad != "" || outs[0].ErrStr() != outs[1].ErrStr() || !bytes.Equal(outs[0].Out, outs[1].Out) || len(outs[0].Out) == 0 || (want != "" && string(outs[0].Out) != want) {
				r.Violate(sig, "a global / modifier used through its alias or its namespaced name does not behave like the same global / modifier used through its plain name",
					map[string]any{"by_name": pair[0], "by_alias": pair[1], "by_name_output": string(outs[0].Out), "by_alias_output": string(outs[1].Out), "by_name_error": outs[0].ErrStr(), "by_alias_error": outs[1].ErrStr(), "problem": bad,
						"registered": []string{`RegisterGlobal("vgplain", "vgalias", "G<1>")`, `RegisterGlobalNS("vg", "greeting", "hi", "G<2>")`, `RegisterModFnNS("vns", "cat", "c", vcat)`, `RegisterModFn("vcatplain", "vcp", vcat)`}})
			}
		}
		// the CALL form without `=` — `{% mod(args) %}` — has no escape directive: it renders what `{%= mod(args) %}` renders,
		// whatever letters the NAME of the modifier is made of (default = d-e-f-a-u-l-t …) — a relation on the real engine alone
		for _, call := range []string{`default(v)`, `default(e, v)`, `def(v)`, `vcat(v, "<a>")`, `vcatplain(v)`, `vns::cat(v)`, `jsonQuote(v)`, `htmlEscape(v)`, `urlEncode(v)`, `ifThenElse(t, v, e)`, `vletters(v)`, `testns::pack(v)`} {
			var outs [2]rendered
			bad := ""
			srcs := [2]string{`[{% ` + call + ` %}]`, `[{%= ` + call + ` %}]`}
			for k := 0; k < 2; k++ {
				key, err, pan := regTpl(srcs[k], true)
				if err != nil || pan != "" {
					bad = fmt.Sprintf("Parse rejects %s: %v %s", srcs[k], err, pan)
					break
				}
				ctx := dyntpl.NewCtx()
				ctx.SetString("e", "")
				ctx.SetString("v", "a b<\"&1>")
				ctx.SetStatic("t", true)
				outs[k] = renderSafe(key, ctx)
			}
			sig := "call-form-without-directive " + call
			r.Count(sig, true)
			r.Dist["call-form-without-directive"]++
			if bad != "" || outs[0].ErrStr() != outs[1].ErrStr() || !bytes.Equal(outs[0].Out, outs[1].Out) {
				r.Violate(sig, "the call form {% mod(args) %} renders something else than {%= mod(args) %}: letters of the modifier's name were taken for an escape directive",
					map[string]any{"call_form": srcs[0], "print_form": srcs[1], "call_form_output": string(outs[0].Out), "print_form_output": string(outs[1].Out), "call_form_error": outs[0].ErrStr(), "print_form_error": outs[1].ErrStr(), "problem": bad})
			}
		}
		// more relations of the same kind, each with the expected text where the property gives it: a QUOTED literal is a
		// literal also when its text names a global; default substitutes for every kind of empty value (typed nil
		// pointers, a nil struct pointer, a nil map, an empty slice of structs); a modifier that looks another variable up
		// through Ctx.Get hands its own value on; an escape letter after a bare f / F directive is applied
		{
			var np *int
			var nsp *string
			var nbp *[]byte
			var nfp *float64
			usr := (UserSpec{Id: "7", HasFinance: true}).Build() // Permission nil, Flags nil, History empty
			usrNoFin := (UserSpec{Id: "8"}).Build()
			mk := func() *dyntpl.Ctx {
				c := dyntpl.NewCtx()
				c.SetString("e", "")
				c.SetString("v", "V<1>")
				c.SetString("w", "other")
				c.SetStatic("np", np)
				c.SetStatic("nsp", nsp)
				c.SetStatic("nbp", nbp)
				c.SetStatic("nfp", nfp)
				c.SetStatic("emap", map[string]int{})
				c.SetStatic("eints", []int{})
				c.Set("user", usr, testobj_ins.TestObjectInspector{})
				c.Set("user2", usrNoFin, testobj_ins.TestObjectInspector{})
				return c
			}
			for _, tc := range [][2]string{
				{`{%= e|default("vgplain") %}|{%= e|default(vgplain) %}|{%= e|default("vg::hi") %}|{%= e|default('vgalias') %}`, "vgplain|G<1>|vg::hi|vgalias"},
				{`{%= e|vcat("vgplain", vgplain, {k: "vgalias"}) %}`, "[vgplain,G<1>,k=vgalias]"},
				{`{%= np|default("d") %}|{%= nsp|default("d") %}|{%= nbp|default("d") %}|{%= nfp|default(7) %}`, "d|d|d|7"},
				{`{%= user.Permission|default("none") %}|{%= user.Flags|default("none") %}|{%= user.Finance.History|default("none") %}|{%= user2.Finance|default("none") %}`, "none|none|none|none"},
				{`{%= emap|default("none") %}|{%= eints|default("none") %}|{%= user.Id|default("none") %}`, "none|none|7"},
				{`{%= v|vpeek %}|{%= v|vpeek|vcat() %}|{%h= v|vpeek|default("d") %}|{% ctx x = v|vpeek %}{%= x %}`, "V<1>|V<1>[]|V&lt;1&gt;|V<1>"},
				{`{%fh= v %}|{%Fh= v %}|{%f2h= v %}|{%fj= v %}|{%Fu= v %}|{%fq= e %}|{%fhh= v %}`, "V&lt;1&gt;|V&lt;1&gt;|V&lt;1&gt;|V\\u003c1>|V%3C1%3E|\"\"|V&amp;lt;1&amp;gt;"},
			} {
				key, err, pan := regTpl(tc[0], true)
				var got rendered
				if err == nil && pan == "" {
					got = renderSafe(key, mk())
				}
				sig := "argument-and-letter-relations " + tc[0]
				r.Count(sig, true)
				r.Dist["argument-and-letter-relations"]++
				if err != nil || pan != "" || got.Err != nil || got.Panic != "" || string(got.Out) != tc[1] {
					r.Violate(sig, "literal arguments, default on empty values of every kind, a modifier that calls Ctx.Get, or a letter after a bare f / F directive do not render what the property says",
						map[string]any{"source": tc[0], "output": string(got.Out), "expected": tc[1], "error": got.ErrStr(), "parse_error": fmt.Sprint(err), "panic": got.Panic + pan})
				}
			}
		}
		// escape letters together with a prefix, a suffix or both: the letters apply to the VALUE, prefix and suffix stand
		// around it as written — every letter, runs and mixes, every spelling of the keywords (a relation on the real
		// engine alone; the parser oracle sees the same tags below)
		{
			var ocases []*RCase
			for _, l := range []string{"h", "a", "j", "q", "J", "u", "l", "c", "cc", "JJ", "hJ", "cu", "qc", "f.2", "F.1"} {
				val := any(`a<b>&"c' d/e`)
				if l[0] == 'f' || l[0] == 'F' {
					val = 3.14159
				}
				k0, err0, pan0 := regTpl("{%"+l+"= v %}", true)
				if err0 != nil || pan0 != "" {
					r.Internal("letters with prefix/suffix: the plain tag does not parse: " + l)
					continue
				}
				c0 := dyntpl.NewCtx()
				c0.SetStatic("v", val)
				plain := renderSafe(k0, c0)
				for _, form := range [][3]string{{"", "sfx", ";"}, {"", "suffix", "</i>"}, {"pfx", "", "["}, {"prefix", "", "<i>"}, {"pfx", "sfx", "()"}, {"prefix", "suffix", "<>"}} {
					pre, suf := "", ""
					tag := "{%" + l + "= v"
					if form[0] != "" {
						pre = form[2][:1]
						tag += " " + form[0] + " " + pre
					}
					if form[1] != "" {
						suf = form[2][len(form[2])-1:]
						if form[0] == "" {
							suf = form[2]
						}
						tag += " " + form[1] + " " + suf
					}
					tag += " %}"
					key, err, pan := regTpl(tag, true)
					var got rendered
					if err == nil && pan == "" {
						ctx := dyntpl.NewCtx()
						ctx.SetStatic("v", val)
						got = renderSafe(key, ctx)
					}
					want := pre + string(plain.Out) + suf
					sig := "letters-with-prefix-suffix " + tag
					r.Count(sig, true)
					r.Dist["letters-with-prefix-suffix"]++
					if err != nil || pan != "" || got.Err != nil || got.Panic != "" || string(got.Out) != want {
						r.Violate(sig, "escape letters combined with a prefix / suffix do not render prefix, the escaped value and suffix",
							map[string]any{"source": tag, "output": string(got.Out), "expected": want, "plain_tag": "{%" + l + "= v %}", "plain_tag_output": string(plain.Out), "error": got.ErrStr(), "parse_error": fmt.Sprint(err)})
					}
					body := []TNode{Print{Letters: l, Path: "v", Pre: pre, Suf: suf, PreKW: form[0], SufKW: form[1]}}
					if Source(body) == tag && (l[0] == 'f' || l[0] == 'F') {
						// (precision directives are outside the interpreter model: parser oracle only)
						tieTemplates(r, []TplDef{{Key: "main", Src: tag, KeepFmt: true, Ast: body}})
					} else if Source(body) == tag {
						ocases = append(ocases, &RCase{Tpls: []TplDef{{Key: "main", Src: tag, KeepFmt: true, Ast: body}}, Ops: []SOp{{Kind: "static", Name: "v", Val: val}, {Kind: "render", Key: "main"}}})
					}
				}
			}
			runSessions(r, ocases, outputDiffers)
		}
		// spellings of a key-value group (a relation on the real engine alone: the parser decides what the
		// modifier receives): blanks after "{", before "}", around ":" and ",", single quotes — the same arguments
		respell := []func(string) string{
			func(b string) string { return strings.ReplaceAll(b, "}", " }") },
			func(b string) string { return strings.ReplaceAll(b, "{", "{ ") },
			func(b string) string { return strings.ReplaceAll(strings.ReplaceAll(b, "{", "{ "), "}", " }") },
			func(b string) string { return strings.ReplaceAll(strings.ReplaceAll(b, ": ", ":"), ", ", ",") },
			func(b string) string { return strings.ReplaceAll(strings.ReplaceAll(b, ":", " :"), ",", " ,") },
			func(b string) string { return strings.ReplaceAll(b, `"`, "'") },
		}
		for _, body := range []string{`v|vcat({a: "1", b: w, c: "3"}, "tail")`, `v|vcat({k1: w}, {k2: "x", k3: v})`, `w|vcat({z: 9, y: v, x: -3.5})`, `v|vcat({a: "two words", b: w})|vcat({c: v})`} {
			base := "{%= " + body + " %}"
			kb, err, pan := regTpl(base, true)
			if err != nil || pan != "" {
				r.Violate("kv-spelling parse "+base, "a key-value group is rejected by Parse", map[string]any{"source": base, "error": fmt.Sprint(err), "panic": pan})
				continue
			}
			for si, f := range respell {
				alt := "{%= " + f(body) + " %}"
				ka, err, pan := regTpl(alt, true)
				ctxA, ctxB := dyntpl.NewCtx(), dyntpl.NewCtx()
				for _, c := range []*dyntpl.Ctx{ctxA, ctxB} {
					c.SetString("v", "V<1>")
					c.SetStatic("w", int64(-7))
				}
				var ra, rb rendered
				if err == nil && pan == "" {
					ra, rb = renderSafe(ka, ctxA), renderSafe(kb, ctxB)
				}
				r.Count(fmt.Sprintf("kv-spelling:%d:%s", si, body), true)
				r.Dist["kv-spelling"]++
				if err != nil || pan != "" || ra.ErrStr() != rb.ErrStr() || !bytes.Equal(ra.Out, rb.Out) {
					r.Violate("kv-spelling "+alt, "two spellings of the same key-value arguments render differently",
						map[string]any{"compact": base, "respelled": alt, "compact_output": string(rb.Out), "respelled_output": string(ra.Out), "compact_error": rb.ErrStr(), "respelled_error": ra.ErrStr(), "parse_error": fmt.Sprint(err)})
				}
			}
		}
	}
}
