package main

import (
	"bytes"
	"fmt"
	"strings"

	"github.com/koykov/dyntpl"
)

// regFreePairings: registration histories in which IDs and keys are paired FREELY (the same ID registered together
// with different keys and the other way round), a relation on the real registry alone.
//
// Two references are kept side by side: the property as written (two maps, name -> the version most recently
// registered under that name) and the registry's slot discipline proved in Props/C04 (a registration finds its slot
// by key, else by ID, else takes a new one, and points every name it was given at it). Where both say the same, the
// real registry must say it too; lookups on which they differ (a slot shared by names that were later registered
// apart) are counted and not judged here (DESIGN.md, C04: pairing is part of the universe).
//
// Every step registers a tree of its own source, except that now and then the tree of an EARLIER step is registered
// again under other names (one tree under several names).
type regFreeOp struct {
	kind    byte // 'i' RegisterTplID, 'k' RegisterTplKey, 'b' RegisterTpl
	id      int
	key     string
	version int
}

func (o regFreeOp) String() string {
	switch o.kind {
	case 'i':
		return fmt.Sprintf("RegisterTplID(%d, v%d)", o.id, o.version)
	case 'k':
		return fmt.Sprintf("RegisterTplKey(%q, v%d)", o.key, o.version)
	}
	return fmt.Sprintf("RegisterTpl(%d, %q, v%d)", o.id, o.key, o.version)
}

// regFreeCase: one history as sent to the Lean registry model (driver request `db`, DriverC04.lean) together with
// what the real registry answered to every lookup of it.
type regFreeCase struct {
	line   string
	goToks []string
	hist   []string
}

var regFreeBatch []*regFreeCase

func regFreeRun(r *Run, prefix string, trees []*dyntpl.Tree, ids []int, keys []string, ops []regFreeOp, what string) bool {
	dyntpl.VerifResetRegistry()
	rc := &regFreeCase{}
	var lb strings.Builder
	lb.WriteString("db")
	for v := range trees {
		fmt.Fprintf(&lb, " P:%d", v)
		rc.goToks = append(rc.goToks, fmt.Sprint(v))
	}
	tokOf := func(out string) string {
		var v int
		if _, err := fmt.Sscanf(out, "[v%d T]", &v); err == nil {
			return fmt.Sprint(v)
		}
		if strings.Contains(out, "not found") {
			return "nf"
		}
		return "?" + out
	}
	defer func() {
		rc.line = lb.String()
		regFreeBatch = append(regFreeBatch, rc)
	}()
	text := func(v int) string { return fmt.Sprintf("[v%d T]", v) }
	strictID, strictKey := map[int]int{}, map[string]int{}
	var slots []int
	slotID, slotKey := map[int]int{}, map[string]int{}
	var hist []string
	render := func(byID bool, id int, key string) string {
		ctx := dyntpl.NewCtx()
		ctx.SetString("tag", "T")
		var buf bytes.Buffer
		var err error
		if byID {
			err = dyntpl.WriteByID(&buf, id, ctx)
		} else {
			err = dyntpl.Write(&buf, key, ctx)
		}
		if err != nil {
			return "error: " + err.Error()
		}
		return buf.String()
	}
	for si, o := range ops {
		hasID, hasKey := o.kind != 'k', o.kind != 'i'
		idx := -1
		if i, ok := slotKey[o.key]; hasKey && ok {
			idx = i
		} else if i, ok := slotID[o.id]; hasID && ok {
			idx = i
		}
		if idx < 0 {
			slots = append(slots, o.version)
			idx = len(slots) - 1
		} else {
			slots[idx] = o.version
		}
		if hasID {
			slotID[o.id], strictID[o.id] = idx, o.version
		}
		if hasKey {
			slotKey[o.key], strictKey[o.key] = idx, o.version
		}
		switch o.kind {
		case 'i':
			dyntpl.RegisterTplID(o.id, trees[o.version])
			fmt.Fprintf(&lb, " I:%d:%d", o.id, o.version)
		case 'k':
			dyntpl.RegisterTplKey(o.key, trees[o.version])
			fmt.Fprintf(&lb, " K:%s:%d", khex(o.key), o.version)
		default:
			dyntpl.RegisterTpl(o.id, o.key, trees[o.version])
			fmt.Fprintf(&lb, " R:%d:%s:%d", o.id, khex(o.key), o.version)
		}
		hist = append(hist, o.String())
		rc.hist = hist
		// every name of the universe (registered or not) against the Lean model of the registry
		for _, id := range ids {
			fmt.Fprintf(&lb, " i:%d", id)
			rc.goToks = append(rc.goToks, tokOf(render(true, id, "")))
		}
		for _, key := range keys {
			fmt.Fprintf(&lb, " k:%s", khex(key))
			rc.goToks = append(rc.goToks, tokOf(render(false, 0, key)))
		}
		for _, id := range ids {
			v, ok := strictID[id]
			if !ok {
				continue
			}
			if slots[slotID[id]] != v {
				r.Dist["pairing_sensitive_lookups"]++
				continue
			}
			r.Dist["free_pairing_lookups"]++
			if got := render(true, id, ""); got != text(v) {
				r.Violate(fmt.Sprintf("%sfree-pairing step=%d by-id=%d history=%s", prefix, si, id, strings.Join(hist, ";")), what,
					map[string]any{"history": hist, "lookup": fmt.Sprintf("WriteByID(%d)", id), "output": got, "expected": text(v), "sources": "v<n> = \"[v<n> {%= tag %}]\", tag = \"T\""})
				return false
			}
		}
		for _, key := range keys {
			v, ok := strictKey[key]
			if !ok {
				continue
			}
			if slots[slotKey[key]] != v {
				r.Dist["pairing_sensitive_lookups"]++
				continue
			}
			r.Dist["free_pairing_lookups"]++
			if got := render(false, 0, key); got != text(v) {
				r.Violate(fmt.Sprintf("%sfree-pairing step=%d by-key=%s history=%s", prefix, si, key, strings.Join(hist, ";")), what,
					map[string]any{"history": hist, "lookup": fmt.Sprintf("Write(%q)", key), "output": got, "expected": text(v), "sources": "v<n> = \"[v<n> {%= tag %}]\", tag = \"T\""})
				return false
			}
		}
	}
	return true
}

func regFreePairings(r *Run, prefix, what string, enumLen, nRandom int) {
	dyntpl.VerifResetRegistry()
	var trees []*dyntpl.Tree
	for v := 0; v < 12; v++ {
		t, err, pan := parseSafe([]byte(fmt.Sprintf("[v%d {%%= tag %%}]", v)), false)
		if err != nil || pan != "" {
			r.Internal("free pairings: source does not parse")
			return
		}
		trees = append(trees, t)
	}
	ids, keys := []int{7101, 7102}, []string{"fpA", "fpC"}
	var forms []regFreeOp
	for _, id := range ids {
		forms = append(forms, regFreeOp{kind: 'i', id: id})
	}
	for _, k := range keys {
		forms = append(forms, regFreeOp{kind: 'k', key: k})
	}
	for _, id := range ids {
		for _, k := range keys {
			forms = append(forms, regFreeOp{kind: 'b', id: id, key: k})
		}
	}
	// all histories of enumLen registrations, every step with a version of its own
	var rec func(ops []regFreeOp) bool
	rec = func(ops []regFreeOp) bool {
		if len(ops) == enumLen {
			r.Count(prefix+"free-pairing-enum:"+fmt.Sprint(ops), true)
			r.Dist["free_pairing_histories_enumerated"]++
			return regFreeRun(r, prefix, trees, ids, keys, ops, what)
		}
		for _, f := range forms {
			f.version = len(ops)
			if !rec(append(append([]regFreeOp(nil), ops...), f)) {
				return false
			}
		}
		return true
	}
	if !rec(nil) {
		dyntpl.VerifResetRegistry()
		regFreeFlush(r)
		return
	}
	// random longer ones over three keys and three IDs; the tree of an earlier step is registered again now and then
	ids3, keys3 := []int{7101, 7102, 7103}, []string{"fpA", "fpC", "fpE"}
	for it := 0; it < nRandom; it++ {
		n := 4 + r.Rng.Intn(7)
		var ops []regFreeOp
		for j := 0; j < n; j++ {
			o := regFreeOp{kind: "ikb"[r.Rng.Intn(3)], id: ids3[r.Rng.Intn(3)], key: keys3[r.Rng.Intn(3)], version: j}
			if j > 0 && r.Rng.Intn(4) == 0 {
				o.version = ops[r.Rng.Intn(j)].version
			}
			ops = append(ops, o)
		}
		r.Count(prefix+"free-pairing-random:"+fmt.Sprint(ops), true)
		r.Dist["free_pairing_histories_random"]++
		if !regFreeRun(r, prefix, trees, ids3, keys3, ops, what) {
			break
		}
	}
	dyntpl.VerifResetRegistry()
	regFreeFlush(r)
}

// regFreeFlush: the same histories on the Lean model `Db` (the object of Props/C04 and Props/C04F): every lookup of
// every name after every registration must agree. A difference on a lookup the property decides has been reported
// above; any other difference breaks the correspondence Db.set / Db.getKey / Db.getID ≙ db.go.
func regFreeFlush(r *Run) {
	batch := regFreeBatch
	regFreeBatch = nil
	if len(batch) == 0 {
		return
	}
	lines := make([]string, len(batch))
	for i, c := range batch {
		lines[i] = c.line
	}
	ans := r.Drive(lines)
	for i, c := range batch {
		fs := strings.Fields(ans[i])
		if len(fs) < 1 || fs[0] != "ok" {
			r.Internal("driver could not answer the registry history: " + c.line + " -> " + ans[i])
			return
		}
		var model []string
		for _, t := range fs[1:] {
			if t == "|" {
				break
			}
			model = append(model, t)
		}
		r.Dist["free_pairing_model_lookups"] += len(model)
		if strings.Join(model, " ") != strings.Join(c.goToks, " ") {
			r.TieBreak("Db.set / Db.getKey / Db.getID ≙ db.go (free pairing of IDs and keys)", map[string]any{"history": c.hist, "request": c.line,
				"note": "tokens: 12 Parse results, then after every registration the lookups of every ID and every key of the universe (version found | nf)"},
				strings.Join(c.goToks, " "), strings.Join(model, " "))
		}
	}
}
