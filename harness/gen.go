package main

import (
	"fmt"
	"math"
	"strconv"
	"strings"
)

// Type-directed generator of templates (AST) and data.

type kind int

const (
	kInt kind = iota
	kUint
	kFloat
	kBool
	kStr
	kBytes
	kMissing
)

type tpath struct {
	Path string
	K    kind
	Val  any // current Go value (for literal generation): int64 / uint64 / float64 / bool / string
	Bits int // integer width when a code-generated inspector parses the literal into the field's type (0 = 64)
}

// Env is the generated data: session ops plus the typed paths they make available.
type Env struct {
	Ops   []SOp
	Paths []tpath
	User  UserSpec
	List  []string
	NHist int
	// FlagKey is the value of the variable fk
	FlagKey string
}

func genEnv(r *Run) *Env {
	e := &Env{}
	si := pick(r, intPool)
	i8 := int8(pick(r, []int64{0, 1, -1, 127, -128, 5}))
	su := pick(r, uintPool)
	sf := pick(r, floatPool)
	sb := r.Rng.Intn(2) == 0
	ss := pick(r, strPool)
	sy := pick(r, strPool)
	bv := pick(r, strPool)
	bs := pick(r, strPool)
	cn := int(pick(r, []int64{0, 1, 5, -3, 42}))
	e.User = genUser(r)
	n := r.Rng.Intn(5)
	for i := 0; i < n; i++ {
		e.List = append(e.List, pick(r, strPool))
	}
	e.Ops = []SOp{
		{Kind: "static", Name: "si", Val: si},
		{Kind: "static", Name: "i8", Val: i8},
		{Kind: "static", Name: "su", Val: su},
		{Kind: "static", Name: "sf", Val: sf},
		{Kind: "static", Name: "sb", Val: sb},
		{Kind: "static", Name: "ss", Val: ss},
		{Kind: "static", Name: "sy", Val: []byte(sy)},
		{Kind: "bytes", Name: "bv", Val: []byte(bv)},
		{Kind: "string", Name: "bs", Val: bs},
		{Kind: "counter", Name: "cn", Val: cn},
		{Kind: "obj", Name: "user", Val: e.User},
		{Kind: "strs", Name: "lst", Val: e.List},
		// names that start with / contain / end with a keyword of the literal syntax are still names
		{Kind: "static", Name: "trueCount", Val: int64(3)}, {Kind: "static", Name: "falseAlarms", Val: int64(-2)}, {Kind: "static", Name: "countnil", Val: int64(7)},
	}
	// fk: the text of a key of user.Flags (or of no key), for user.Flags[fk] inside counter loops
	fk := "nokey"
	if len(e.User.Flags) > 0 && r.Rng.Intn(5) > 0 {
		fk = e.User.Flags[r.Rng.Intn(len(e.User.Flags))].Key
	}
	e.FlagKey = fk
	if r.Rng.Intn(2) == 0 {
		e.Ops = append(e.Ops, SOp{Kind: "string", Name: "fk", Val: fk})
	} else {
		e.Ops = append(e.Ops, SOp{Kind: "static", Name: "fk", Val: fk})
	}
	r.Rng.Shuffle(len(e.Ops), func(i, j int) { e.Ops[i], e.Ops[j] = e.Ops[j], e.Ops[i] })
	// earlier assignments of the same names through OTHER setters (every final value above overwrites one):
	// a setter that leaves a stale representation behind shows as the old value
	if r.Rng.Intn(3) == 0 {
		var pre []SOp
		for _, nm := range []string{"bs", "bv", "ss", "si", "sy", "cn", "su", "user", "lst", "fk"} {
			if r.Rng.Intn(2) == 0 {
				continue
			}
			switch r.Rng.Intn(5) {
			case 4: // the name was a counter before
				pre = append(pre, SOp{Kind: "counter", Name: nm, Val: 7})
			case 0:
				pre = append(pre, SOp{Kind: "static", Name: nm, Val: int64(15)})
			case 1:
				pre = append(pre, SOp{Kind: "static", Name: nm, Val: "Draft"})
			case 2:
				pre = append(pre, SOp{Kind: "bytes", Name: nm, Val: []byte("old")})
			default:
				pre = append(pre, SOp{Kind: "string", Name: nm, Val: "older"})
			}
		}
		e.Ops = append(pre, e.Ops...)
	}
	bk := func(s string) kind {
		if s == "" {
			return kMissing
		}
		return kBytes
	}
	e.Paths = []tpath{
		{Path: "si", K: kInt, Val: si}, {Path: "i8", K: kInt, Val: int64(i8)}, {Path: "su", K: kUint, Val: su}, {Path: "sf", K: kFloat, Val: sf},
		{Path: "sb", K: kBool, Val: sb}, {Path: "ss", K: kStr, Val: ss}, {Path: "sy", K: kBytes, Val: sy},
		{Path: "bv", K: bk(bv), Val: bv}, {Path: "bs", K: bk(bs), Val: bs}, {Path: "cn", K: kInt, Val: int64(cn)},
		{Path: "user.Id", K: kStr, Val: e.User.Id}, {Path: "user.Name", K: kBytes, Val: e.User.Name}, {Path: "user.Status", K: kInt, Val: int64(e.User.Status), Bits: 32},
		{Path: "user.Ustate", K: kUint, Val: e.User.Ustate}, {Path: "user.Cost", K: kFloat, Val: e.User.Cost},
		{Path: "nope", K: kMissing}, {Path: "user.Nope", K: kMissing},
		{Path: "trueCount", K: kInt, Val: int64(3)}, {Path: "falseAlarms", K: kInt, Val: int64(-2)}, {Path: "countnil", K: kInt, Val: int64(7)},
	}
	if e.User.HasFinance {
		e.Paths = append(e.Paths, tpath{Path: "user.Finance.Balance", K: kFloat, Val: e.User.Balance}, tpath{Path: "user.Finance.MoneyIn", K: kFloat, Val: e.User.MoneyIn},
			tpath{Path: "user.Finance.AllowBuy", K: kBool, Val: e.User.AllowBuy})
		e.NHist = len(e.User.History)
		for i, h := range e.User.History {
			e.Paths = append(e.Paths, tpath{Path: fmt.Sprintf("user.Finance.History.%d.Cost", i), K: kFloat, Val: h.Cost},
				tpath{Path: fmt.Sprintf("user.Finance.History.%d.Comment", i), K: kBytes, Val: h.Comment})
		}
	} else {
		e.Paths = append(e.Paths, tpath{Path: "user.Finance.Balance", K: kMissing, Val: nil}, tpath{Path: "user.Finance.AllowBuy", K: kMissing, Val: nil})
	}
	for _, kv := range e.User.Flags {
		e.Paths = append(e.Paths, tpath{Path: "user.Flags." + kv.Key, K: kInt, Val: int64(kv.Val), Bits: 32})
	}
	for i, s := range e.List {
		e.Paths = append(e.Paths, tpath{Path: fmt.Sprintf("lst.%d", i), K: kStr, Val: s})
	}
	e.Paths = append(e.Paths, tpath{Path: "lst.9", K: kMissing, Val: nil})
	return e
}

// GenCfg selects constructs.
type GenCfg struct {
	MaxDepth    int
	MaxNodes    int
	Loops       bool
	Ctl         bool
	Switch      bool
	Ternary     bool
	CtxSet      bool
	Counter     bool
	Include     bool
	Exit        bool
	Region      bool
	Mods        bool
	Letters     bool
	Defer       bool
	PreSuf      bool
	Comments    bool
	Newlines    bool
	Helpers     bool
	BreakN      bool
	LazyBreak   bool
	BuiltinOnly bool // no harness-registered modifiers / helpers (they allocate)
	NoRaw       bool // no |raw prints (values that bypass the bound tags)
	NoCross     bool // no crossed regions (a wrapper region around the template must stay balanced)
	NoIfOK      bool // no if-ok nodes (the helper vok is harness-registered and allocates)
}

type gen struct {
	r        *Run
	cfg      GenCfg
	env      *Env
	loops    int      // current loop nesting
	cvars    []string // counter-loop variables in scope
	extra    []tpath  // loop-bound paths in scope
	incl     []TplDef // generated include targets
	nTag     int
	nodes    int
	inIncl   bool
	noCtlNow bool
	hist     map[string]int
}

const textAlpha = "abcXYZ 019.,:;!?-_=+/()[]<>&\"'"

func (g *gen) text() string {
	n := 1 + g.r.Rng.Intn(6)
	var sb strings.Builder
	for i := 0; i < n; i++ {
		switch g.r.Rng.Intn(12) {
		case 0:
			sb.WriteString("é")
		case 1:
			if g.cfg.Newlines {
				sb.WriteString("\n\t ")
			} else {
				sb.WriteByte(' ')
			}
		case 2:
			sb.WriteString("{x")
		default:
			sb.WriteByte(textAlpha[g.r.Rng.Intn(len(textAlpha))])
		}
	}
	return sb.String()
}

// marker text: short and identifiable
func (g *gen) mark() string {
	g.nTag++
	return fmt.Sprintf("<%d>", g.nTag)
}

func (g *gen) paths() []tpath {
	ps := append(append([]tpath(nil), g.env.Paths...), g.extra...)
	if g.cfg.BuiltinOnly {
		// the code-generated inspector hands out a map element as the address of a fresh copy (an allocation of the dependency)
		k := 0
		for _, p := range ps {
			if !strings.Contains(p.Path, "Flags") {
				ps[k] = p
				k++
			}
		}
		ps = ps[:k]
	}
	return ps
}

func (g *gen) anyPath() tpath { ps := g.paths(); return ps[g.r.Rng.Intn(len(ps))] }

func safeLit(s string) bool {
	for _, c := range s {
		if !(c >= 'a' && c <= 'z' || c >= 'A' && c <= 'Z' || c >= '0' && c <= '9' || c == ' ' || c == '_' || c == '.' || c == '-') {
			return false
		}
	}
	return s != ""
}

// literal near the value of p, as source text; ok=false if no literal of the class exists.
func (g *gen) literalFor(p tpath) (string, bool) {
	d := int64(g.r.Rng.Intn(3) - 1)
	switch p.K {
	case kInt:
		v := p.Val.(int64)
		if (d > 0 && v == math.MaxInt64) || (d < 0 && v == math.MinInt64) {
			d = 0
		}
		if p.Bits == 32 && ((d > 0 && v == math.MaxInt32) || (d < 0 && v == math.MinInt32)) {
			d = 0
		}
		return strconv.FormatInt(v+d, 10), true
	case kUint:
		v := p.Val.(uint64)
		if d < 0 && v == 0 {
			d = 0
		}
		if d > 0 && v == math.MaxUint64 {
			d = 0
		}
		return strconv.FormatUint(uint64(int64(v)+d), 10), true
	case kFloat:
		v := p.Val.(float64)
		cands := []float64{v, v + 0.5, v - 0.5, v + 1, v - 1}
		t := ftxt(cands[g.r.Rng.Intn(len(cands))])
		if strings.ContainsAny(t, "eE") {
			return "", false
		}
		if !strings.Contains(t, ".") && g.r.Rng.Intn(2) == 0 {
			// integer-looking float literal
			return t, true
		}
		return t, true
	case kBool:
		if g.r.Rng.Intn(2) == 0 {
			return "true", true
		}
		return "false", true
	case kStr, kBytes:
		v := p.Val.(string)
		cands := []string{v, v + "a", "a", "abc", "Z"}
		s := cands[g.r.Rng.Intn(len(cands))]
		if !safeLit(s) {
			return "", false
		}
		return `"` + s + `"`, true
	}
	return "", false
}

var ops6 = []string{"==", "!=", ">", ">=", "<", "<="}

func (g *gen) cond() Cond {
	for tries := 0; tries < 20; tries++ {
		p := g.anyPath()
		switch g.r.Rng.Intn(10) {
		case 0: // missing field on the left
			return Cond{L: "nope.x", Op: "==", R: "1"}
		case 1:
			if g.cfg.Helpers && g.r.Rng.Intn(4) == 0 {
				// a helper called with NO arguments (the built-in ones then say false): it must not see the arguments
				// an earlier helper or modifier call left behind
				return Cond{Hlp: pick(g.r, []string{"lenEq0", "lenGt0", "lenGtq0"})}
			}
			if g.cfg.Helpers && (p.K == kStr || p.K == kBytes) {
				return Cond{Hlp: pick(g.r, []string{"lenEq0", "lenGt0", "lenGtq0"}), HlpArgs: []string{p.Path}}
			}
		case 2:
			if g.cfg.Helpers && (p.K == kStr || p.K == kBytes) && !strings.Contains(p.Path, "lst.") {
				n := len(p.Val.(string)) + g.r.Rng.Intn(3) - 1
				if n < 0 {
					n = 0
				}
				hlp := "len"
				if (p.Path == "bv" || p.Path == "bs") && g.r.Rng.Intn(2) == 0 {
					// cap() of a bytes variable: the context's own copy, whose spare room is not data (it reads as the length)
					hlp = "cap"
				}
				return Cond{Hlp: hlp, HlpArgs: []string{p.Path}, Op: pick(g.r, ops6), R: strconv.Itoa(n)}
			}
		case 3:
			if g.cfg.Helpers && !g.cfg.BuiltinOnly {
				if lit, ok := g.literalFor(p); ok && p.K != kMissing {
					return Cond{Hlp: "veq", HlpArgs: []string{p.Path, lit}}
				}
			}
		case 4: // var vs var of the same kind
			q := g.anyPath()
			if p.K == q.K && p.K != kMissing && p.K != kBool {
				op := pick(g.r, ops6)
				if p.K == kBytes {
					op = pick(g.r, []string{"==", "!="})
				}
				if (p.K == kStr || p.K == kBytes) && q.Val.(string) == "" {
					continue
				}
				if p.Bits == 32 && p.K == kInt && (q.Val.(int64) > math.MaxInt32 || q.Val.(int64) < math.MinInt32) {
					continue // the generated inspector parses the right side into the field's own width
				}
				if p.Bits == 32 && p.K == kInt && (strings.HasPrefix(q.Path, "v0") || strings.HasPrefix(q.Path, "v1") || strings.HasPrefix(q.Path, "v2") || strings.Contains(q.Path, "[")) {
					continue // … and a loop variable takes the values of ALL elements, of which q.Val is only the first
				}
				return Cond{L: p.Path, Op: op, R: q.Path}
			}
		case 5:
			// (operator-less conditions `if !x` / `if x` are not part of the grammar: reCondExpr requires an
			// operator; they parse to an empty, always-false condition — not generated)
			if p.K == kBool {
				return Cond{L: p.Path, Op: pick(g.r, []string{"==", "!="}), R: pick(g.r, []string{"true", "false"})}
			}
		default:
			lit, ok := g.literalFor(p)
			if !ok {
				continue
			}
			if p.K != kMissing && !g.cfg.BuiltinOnly && g.r.Rng.Intn(12) == 0 { // (not for C19: strconv allocates its error value)
				// a literal of ANOTHER kind than the operand: the static inspector answers false, a code-generated
				// one returns its strconv error (both are what the comparison "under the left operand's type" means)
				lit = pick(g.r, []string{`"abc"`, "0.5", "-1", "true", "1e3", `"7"`, "007"})
			}
			op := pick(g.r, ops6)
			if p.K == kBool || p.K == kBytes {
				op = pick(g.r, []string{"==", "!="})
			}
			if g.r.Rng.Intn(4) == 0 {
				return Cond{L: lit, Op: op, R: p.Path} // literal on the left
			}
			return Cond{L: p.Path, Op: op, R: lit}
		}
	}
	return Cond{L: "si", Op: "==", R: "1"}
}

func (g *gen) modArg() string {
	switch g.r.Rng.Intn(3) {
	case 0:
		return `"` + pick(g.r, []string{"N-D", "dflt", "x1"}) + `"`
	case 1:
		return strconv.Itoa(g.r.Rng.Intn(100))
	default:
		return g.anyPath().Path
	}
}

func (g *gen) mods() []ModCall {
	if !g.cfg.Mods {
		return nil
	}
	var ms []ModCall
	n := g.r.Rng.Intn(3)
	for i := 0; i < n; i++ {
		switch g.r.Rng.Intn(7) {
		case 0:
			ms = append(ms, ModCall{Name: pick(g.r, []string{"default", "def"}), Args: []string{g.modArg()}})
		case 1:
			ms = append(ms, ModCall{Name: "ifThenElse", Args: []string{g.modArg(), g.modArg()}})
		case 2:
			ms = append(ms, ModCall{Name: "ifThen", Args: []string{g.modArg()}})
		case 3:
			ms = append(ms, ModCall{Name: pick(g.r, []string{"jsonEscape", "htmlEscape", "urlEncode", "linkEscape", "jsonQuote", "attrEscape", "jsEscape", "cssEscape"})})
		case 4:
			if g.cfg.BuiltinOnly {
				continue
			}
			args := []string{}
			for k := g.r.Rng.Intn(3); k > 0; k-- {
				args = append(args, g.modArg())
			}
			if g.r.Rng.Intn(3) == 0 {
				args = append(args, "{k1: "+g.modArg()+"}")
			}
			ms = append(ms, ModCall{Name: "vcat", Args: args})
		case 5:
			if g.cfg.Defer {
				g.nTag++
				ms = append(ms, ModCall{Name: pick(g.r, []string{"vdefer", "vacquire"}), Args: []string{strconv.Itoa(g.nTag)}})
			}
		}
	}
	return ms
}

func (g *gen) letters() string {
	if !g.cfg.Letters || g.r.Rng.Intn(3) > 0 {
		return ""
	}
	n := 1 + g.r.Rng.Intn(2)
	var sb strings.Builder
	for i := 0; i < n; i++ {
		sb.WriteByte("hajqJulc"[g.r.Rng.Intn(8)])
	}
	return sb.String()
}

func (g *gen) print() TNode {
	p := Print{Path: g.anyPath().Path, Letters: g.letters(), Mods: g.mods()}
	if g.cfg.PreSuf && g.r.Rng.Intn(4) == 0 {
		p.Pre, p.PreKW = pick(g.r, []string{"<li>", "[", "p:", `{"k":`, "{", "100%"}), pick(g.r, []string{"prefix", "pfx"})
	}
	if g.cfg.PreSuf && g.r.Rng.Intn(4) == 0 {
		p.Suf, p.SufKW = pick(g.r, []string{"</li>", "]", ";", "}", "}]", "%", "{"}), pick(g.r, []string{"suffix", "sfx"})
	}
	if g.cfg.Region && !g.cfg.NoRaw && g.r.Rng.Intn(6) == 0 {
		p.Raw = true
	}
	return p
}

func (g *gen) block(depth int) []TNode {
	n := 1 + g.r.Rng.Intn(4)
	var out []TNode
	for i := 0; i < n && g.nodes < g.cfg.MaxNodes; i++ {
		nd := g.node(depth)
		if m, ok := nd.(Multi); ok {
			out = append(out, m...)
		} else {
			out = append(out, nd)
		}
	}
	return out
}

func (g *gen) node(depth int) TNode {
	g.nodes++
	c := g.cfg
	for tries := 0; tries < 30; tries++ {
		switch g.r.Rng.Intn(16) {
		case 0, 1:
			return Text{g.text()}
		case 2, 3, 4:
			return g.print()
		case 5:
			if depth < c.MaxDepth && !c.BuiltinOnly && !c.NoIfOK && g.r.Rng.Intn(5) == 0 {
				return g.ifok(depth)
			}
			if depth < c.MaxDepth {
				n := If{C: g.cond(), Then: g.block(depth + 1), HasElse: g.r.Rng.Intn(2) == 0}
				if n.HasElse {
					n.Else = g.block(depth + 1)
					switch g.r.Rng.Intn(10) {
					case 0:
						n.Then = nil // {% if c %}{% else %}…{% endif %}
					case 1:
						n.Else = nil
					}
				}
				return n
			}
		case 6:
			if c.Loops && depth < c.MaxDepth && g.loops < 3 {
				return g.cloop(depth)
			}
		case 7:
			if c.Loops && depth < c.MaxDepth && g.loops < 3 {
				return g.rloop(depth)
			}
		case 8:
			if c.Ctl && g.loops > 0 && !g.noCtlNow {
				return g.ctl()
			}
		case 9:
			if c.Switch && depth < c.MaxDepth {
				return g.sw(depth)
			}
		case 10:
			if c.CtxSet {
				return g.ctxset()
			}
		case 11:
			if c.Counter {
				return g.counter()
			}
		case 12:
			if c.Include && !g.inIncl && len(g.incl) < 3 {
				return g.include(depth)
			}
		case 13:
			if c.Exit && g.r.Rng.Intn(3) == 0 {
				return Exit{}
			}
		case 14:
			if c.Region && !c.NoCross && g.r.Rng.Intn(5) == 0 {
				// two regions crossing each other; the text after the foreign end tag is still inside the second one
				kinds := []string{"jsonquote", "htmlescape", "urlencode"}
				a := kinds[g.r.Rng.Intn(3)]
				b := kinds[g.r.Rng.Intn(3)]
				return Multi{RegionTag{Kind: a}, Text{g.text()}, RegionTag{Kind: b}, g.print(), Text{g.text()}, RegionTag{Kind: a, End: true},
					Text{g.text()}, g.print(), RegionTag{Kind: b, End: true}, Text{g.text()}}
			}
			if c.Region && depth < c.MaxDepth {
				return Region{Kind: pick(g.r, []string{"jsonquote", "htmlescape", "urlencode"}), Body: g.block(depth + 1)}
			}
		case 15:
			if c.Comments {
				if c.Newlines && g.r.Rng.Intn(3) == 0 {
					return Comment{" note\n\t over " + strconv.Itoa(g.r.Rng.Intn(9)) + "\nlines "}
				}
				return Comment{" note " + strconv.Itoa(g.r.Rng.Intn(9)) + " "}
			}
			if c.Ternary {
				p := g.anyPath()
				q := g.anyPath()
				cd := g.cond()
				if cd.Hlp == "" && !cd.Not {
					t := Ternary{C: cd, T: p.Path, F: q.Path, Letters: g.letters()}
					// the raw flag belongs to ONE alternative (parser oracle: each keeps its own)
					rawPick := g.r.Rng.Intn(8)
					if c.NoRaw {
						rawPick = 7
					}
					switch rawPick {
					case 0:
						t.T += "|raw"
					case 1:
						t.F += "|raw"
					}
					return t
				}
			}
		}
	}
	return Text{g.mark()}
}

// ifok: {% if v, ok := vok(arg).(static); ok %} — the helper yields the text of its first argument; both
// variables stay assigned after the block.
func (g *gen) ifok(depth int) TNode {
	n := IfOK{Var: pick(g.r, []string{"x1", "x2", "ov"}), OK: pick(g.r, []string{"ok1", "okv"}), Hlp: pick(g.r, []string{"vok", "vokmaybe"}), Ins: "static"}
	switch g.r.Rng.Intn(8) {
	case 0:
		n.Ins = "" // no inspector named and none registered for the variable: ErrUnknownInspector
	case 1:
		n.Hlp = "vnosuch" // ErrCondHlpNotFound
	}
	n.AsKW = n.Ins != "" && g.r.Rng.Intn(3) == 0
	n.Not = g.r.Rng.Intn(3) == 0
	switch g.r.Rng.Intn(4) {
	case 0:
		n.Args = []string{`"` + pick(g.r, []string{"lit", "Q"}) + `"`}
	case 1:
		n.Args = []string{g.anyPath().Path, g.modArg()}
	case 2:
		n.Args = nil
	default:
		n.Args = []string{g.anyPath().Path}
	}
	n.Then = g.block(depth + 1)
	if g.r.Rng.Intn(2) == 0 {
		n.HasElse = true
		n.Else = g.block(depth + 1)
	}
	return n
}

func (g *gen) cloop(depth int) TNode {
	v := []string{"i", "j", "k"}[g.loops%3]
	up := g.r.Rng.Intn(3) > 0
	trips := pick(g.r, []int{0, 1, 2, 3, 5})
	start := g.r.Rng.Intn(3)
	neg := g.r.Rng.Intn(5) == 0 // negative literal bound (the initial value must match \w+: never negative)
	l := CLoop{Var: v, Init: strconv.Itoa(start)}
	if up {
		l.Step = "++"
		l.Op = pick(g.r, []string{"<", "<=", "!="})
		lim := start + trips
		if l.Op == "<=" {
			lim--
		}
		if neg {
			// no trip at all: the bound is below the start
			trips = 0
			l.Op = pick(g.r, []string{"<", "<="})
			lim = -(1 + g.r.Rng.Intn(3))
		}
		l.Lim = strconv.Itoa(lim)
	} else {
		l.Step = "--"
		if !neg {
			start += trips + 2
		}
		l.Init = strconv.Itoa(start)
		l.Op = pick(g.r, []string{">", ">=", "!="})
		lim := start - trips
		if l.Op == ">=" {
			lim++
		}
		l.Lim = strconv.Itoa(lim)
	}
	if g.r.Rng.Intn(3) == 0 {
		l.Sep, l.SepKW = pick(g.r, []string{",", "; ", "|", "},{", "}{", "%"}), pick(g.r, []string{"separator", "sep"})
	}
	g.loops++
	g.cvars = append(g.cvars, v)
	sv := g.extra
	g.extra = append(append([]tpath(nil), g.extra...), tpath{Path: v, K: kInt, Val: int64(start)})
	if up && start >= 0 && g.env.NHist > 0 && start+trips <= g.env.NHist {
		g.extra = append(g.extra, tpath{Path: "user.Finance.History[" + v + "].Cost", K: kFloat, Val: g.env.User.History[0].Cost},
			tpath{Path: "user.Finance.History[" + v + "].Comment", K: kBytes, Val: g.env.User.History[0].Comment})
	}
	for _, kv := range g.env.User.Flags {
		if kv.Key == g.env.FlagKey {
			// a map entry addressed through a variable holding the key's text (not a number)
			g.extra = append(g.extra, tpath{Path: "user.Flags[fk]", K: kInt, Val: int64(kv.Val), Bits: 32})
		}
	}
	if up && start >= 0 && len(g.env.List) > 0 && start+trips <= len(g.env.List) {
		g.extra = append(g.extra, tpath{Path: "lst[" + v + "]", K: kStr, Val: g.env.List[0]})
	}
	l.Body = g.block(depth + 1)
	g.extra = sv
	g.cvars = g.cvars[:len(g.cvars)-1]
	g.loops--
	if g.r.Rng.Intn(4) == 0 {
		l.HasElse = true
		sn := g.noCtlNow
		g.noCtlNow = g.loops == 0
		l.Else = g.block(depth + 1)
		g.noCtlNow = sn
	}
	return l
}

func (g *gen) rloop(depth int) TNode {
	kn := []string{"k0", "k1", "k2"}[g.loops%3]
	vn := []string{"v0", "v1", "v2"}[g.loops%3]
	l := RLoop{}
	sv := g.extra
	g.extra = append([]tpath(nil), g.extra...)
	switch g.r.Rng.Intn(3) {
	case 0:
		l.Src = "lst"
		l.Key, l.Val = kn, vn
		if len(g.env.List) > 0 {
			g.extra = append(g.extra, tpath{Path: kn, K: kBytes, Val: "0"}, tpath{Path: vn, K: kStr, Val: g.env.List[0]})
		}
	case 1:
		l.Src = "user.Finance.History"
		l.Key, l.Val = kn, vn
		if g.env.NHist > 0 {
			g.extra = append(g.extra, tpath{Path: kn, K: kBytes, Val: "0"}, tpath{Path: vn + ".Cost", K: kFloat, Val: g.env.User.History[0].Cost},
				tpath{Path: vn + ".Comment", K: kBytes, Val: g.env.User.History[0].Comment}, tpath{Path: vn + ".DateUnix", K: kInt, Val: g.env.User.History[0].DateUnix})
		}
	default:
		l.Src = pick(g.r, []string{"lst", "user.Finance.History", "nope", "si"})
		l.Val = vn
	}
	if g.r.Rng.Intn(4) == 0 {
		l.Key = ""
	}
	if g.r.Rng.Intn(3) == 0 {
		l.Sep, l.SepKW = pick(g.r, []string{",", "; ", "|", "},{", "}{", "%"}), pick(g.r, []string{"separator", "sep"})
	}
	g.loops++
	l.Body = g.block(depth + 1)
	g.loops--
	g.extra = sv
	if g.r.Rng.Intn(4) == 0 {
		l.HasElse = true
		sn := g.noCtlNow
		g.noCtlNow = g.loops == 0
		l.Else = g.block(depth + 1)
		g.noCtlNow = sn
	}
	return l
}

func (g *gen) ctl() TNode {
	c := Ctl{Kind: "break"}
	switch g.r.Rng.Intn(4) {
	case 0:
		c.Kind = "continue"
	case 1:
		if g.cfg.LazyBreak {
			c.Kind = "lazybreak"
		}
	}
	if g.cfg.BreakN && c.Kind != "continue" && g.r.Rng.Intn(2) == 0 {
		c.N = 1 + g.r.Rng.Intn(g.loops+1)
		if g.r.Rng.Intn(10) == 0 {
			c.N = 10 + g.r.Rng.Intn(3) // two digits: far beyond the nesting depth
		}
	}
	if g.r.Rng.Intn(2) == 0 {
		cd := g.cond()
		c.C = &cd
	}
	return c
}

func (g *gen) sw(depth int) TNode {
	s := Switch{}
	p := g.anyPath()
	withArg := g.r.Rng.Intn(2) == 0 && p.K != kMissing && p.K != kBool && p.K != kFloat
	n := 1 + g.r.Rng.Intn(3)
	if withArg {
		s.Arg = p.Path
		for i := 0; i < n; i++ {
			lit, ok := g.literalFor(p)
			if !ok {
				lit = "1"
			}
			if p.K == kInt && p.Bits == 0 && !g.cfg.BuiltinOnly && g.r.Rng.Intn(4) == 0 {
				// a VARIABLE as case label (also one whose name looks like a keyword)
				lit = pick(g.r, []string{"trueCount", "falseAlarms", "countnil", "si"})
			}
			s.Cases = append(s.Cases, Case{Val: lit, Body: g.block(depth + 1)})
		}
	} else {
		for i := 0; i < n; i++ {
			cd := g.cond()
			if cd.Not || cd.Hlp == "len" || cd.Hlp == "cap" {
				cd = Cond{L: "si", Op: "==", R: "1"}
			}
			// (all six operators: since repair the case expression recognises the one-character ones too)
			s.Cases = append(s.Cases, Case{C: cd, Body: g.block(depth + 1)})
		}
	}
	if g.r.Rng.Intn(2) == 0 {
		s.HasDefault = true
		s.Default = g.block(depth + 1)
		s.DefaultAt = len(s.Cases)
		if g.r.Rng.Intn(3) == 0 {
			s.DefaultAt = g.r.Rng.Intn(len(s.Cases) + 1) // {% default %} before some of the cases
		}
	}
	return s
}

func (g *gen) ctxset() TNode {
	n := CtxSet{Var: pick(g.r, []string{"x1", "x2", "si", "bv"}), KW: pick(g.r, []string{"ctx", "context"})}
	if len(g.cvars) > 0 && !g.cfg.BuiltinOnly && g.r.Rng.Intn(6) == 0 {
		// assignment to a counter-loop variable inside its body; literal sources only: the variable is used as
		// an index ([i]) and the code-generated test inspector (a dependency) panics on a negative index
		n.Var = g.cvars[g.r.Rng.Intn(len(g.cvars))]
		// (numbers only: a non-numeric index is an error of the inspectors' own strconv.Atoi, outside the model)
		n.Src = strconv.Itoa(g.r.Rng.Intn(4))
		return n
	}
	if g.cfg.BuiltinOnly {
		// keep the declared kinds of si / bv: an ill-typed comparison makes strconv allocate its error
		n.Var = pick(g.r, []string{"x1", "x2"})
	}
	switch g.r.Rng.Intn(4) {
	case 0:
		n.Src = strconv.Itoa(g.r.Rng.Intn(60) - 10)
		if g.r.Rng.Intn(4) == 0 {
			n.OK = "ok1"
		}
	case 1:
		q := pick(g.r, []string{`"`, `"`, `'`})                            // both quote characters make a literal
		n.Src = q + pick(g.r, []string{"lit", "a b", "Q", "si", "x1"}) + q // (also texts that are names of variables)
		if g.r.Rng.Intn(3) == 0 {
			n.OK = "ok1" // a literal source sets the flag too
		}
	default:
		p := g.anyPath()
		// a ctx variable assigned from a counter / loop counter aliases its storage (known finding F-ctx-alias): not generated here
		for strings.Contains(p.Path, "[") || p.Path == "cn" || p.Path == "c1" || contains(g.cvars, p.Path) {
			p = g.anyPath()
		}
		n.Src = p.Path
		if g.r.Rng.Intn(3) == 0 {
			n.OK = "ok1"
		}
		if g.cfg.Mods && g.r.Rng.Intn(3) == 0 {
			n.Mods = []ModCall{{Name: "default", Args: []string{pick(g.r, []string{`"dd"`, `"d-d"`, `"5%"`, `-3`, `"n/a"`})}}}
		}
	}
	return n
}

func contains(xs []string, s string) bool {
	for _, x := range xs {
		if x == s {
			return true
		}
	}
	return false
}

func (g *gen) counter() TNode {
	n := Counter{Var: pick(g.r, []string{"c1", "cn"}), KW: pick(g.r, []string{"counter", "cntr"})}
	switch g.r.Rng.Intn(5) {
	case 0:
		n.Kind, n.N = "init", g.r.Rng.Intn(20)
	case 1:
		n.Kind = "++"
	case 2:
		n.Kind = "--"
	case 3:
		n.Kind, n.N = "+", g.r.Rng.Intn(10) // (also a step of zero)
	default:
		n.Kind, n.N = "-", g.r.Rng.Intn(10)
	}
	return n
}

func (g *gen) include(depth int) TNode {
	key := fmt.Sprintf("inc%d", len(g.incl))
	// body generated with the same environment; no loop control referring to outer loops
	sl, sc, sn := g.loops, g.cvars, g.noCtlNow
	si := g.inIncl
	g.inIncl = len(g.incl) >= 1 // allow one level of nesting
	g.loops, g.cvars, g.noCtlNow = 0, nil, true
	g.incl = append(g.incl, TplDef{Key: key})
	idx := len(g.incl) - 1
	body := g.block(depth + 1)
	g.incl[idx].Src = Source(body)
	g.incl[idx].Ast = append([]TNode{}, body...) // parser oracle (asttie.go)
	g.incl[idx].KeepFmt = true
	g.loops, g.cvars, g.noCtlNow, g.inIncl = sl, sc, sn, si
	n := Include{Dot: g.r.Rng.Intn(3) == 0}
	if g.r.Rng.Intn(3) == 0 {
		n.Names = append(n.Names, "missingTpl")
	}
	n.Names = append(n.Names, key)
	var done []string // finished include targets (never an enclosing one: that would be a self-inclusion)
	for k := 0; k < idx; k++ {
		if g.incl[k].Src != "" || g.incl[k].Ast != nil {
			done = append(done, g.incl[k].Key)
		}
	}
	if len(done) > 0 && g.r.Rng.Intn(3) == 0 {
		// a second REGISTERED name, before or after: the first registered name of the list wins
		other := done[g.r.Rng.Intn(len(done))]
		if g.r.Rng.Intn(2) == 0 {
			n.Names = append(n.Names, other)
		} else {
			n.Names = append([]string{other}, n.Names...)
		}
	}
	if g.r.Rng.Intn(8) == 0 {
		n.Names = []string{"missingTpl"}
	}
	return n
}

// genCase builds one render case from a config.
func genCase(r *Run, cfg GenCfg) (*RCase, []TNode) {
	return genCaseEnv(r, cfg, genEnv(r))
}

// genCaseEnv builds a render case over GIVEN data (several templates of one session share their data: the
// literals and operand pairings a template is generated with are chosen for the values it will see).
func genCaseEnv(r *Run, cfg GenCfg, env *Env) (*RCase, []TNode) {
	g := &gen{r: r, cfg: cfg, env: env}
	body := g.block(0)
	c := &RCase{Entries: r.Rng.Intn(4) == 0}
	for _, t := range g.incl {
		c.Tpls = append(c.Tpls, t)
	}
	c.Tpls = append(c.Tpls, TplDef{Key: "main", Src: Source(body), KeepFmt: !cfg.Newlines || r.Rng.Intn(2) == 0, Ast: append([]TNode{}, body...)})
	c.Ops = append(c.Ops, g.env.Ops...)
	c.Ops = append(c.Ops, SOp{Kind: "render", Key: "main"})
	return c, body
}
