package main

import (
	"bytes"
	"fmt"
	"time"

	"github.com/koykov/dyntpl"
	"github.com/koykov/inspector"
)

// c05GoOnly: the property itself on the real engine alone — whatever a context rendered before, after Reset (or
// release + acquire) it renders what a NEW context renders. Here the earlier renders may lie outside the class the
// Lean model covers (deferred functions that fail, the clock), and the variable slots of the second use are laid out
// so that every slot that held a counter / a loop variable before is taken by a new name that is then COMPARED.
func c05GoOnly(r *Run) {
	dyntpl.VerifResetRegistry()
	type tdef struct{ key, src string }
	dirty := []tdef{
		{"d_counters", `{% counter c1 = 5 %}{% counter c2 = 6 %}{% counter c3 = 7 %}{% counter c4 = 8 %}{%= c1 %}{%= c4 %}`},
		{"d_loopvars", `{% for i := 0; i < 3; i++ %}{% for k, e := range lst %}{%= k %}{% endfor %}{% endfor %}{% counter z = 9 %}`},
		{"d_now", `{% ctx t = time::now() %}{%= t|time::date("%s.%N") %}`},
		{"d_html_open_deferfail", `{% htmlescape %}<b>{%= si|vdeferfail() %}`},
		{"d_json_exit_deferfail", `a{% jsonquote %}"q"{%= si|vdeferfail() %}{% exit %}z{% endjsonquote %}`},
		{"d_url_open_deferfail", `{% urlencode %}a b{%= si|vdeferfail() %}`},
		{"d_loops_deferfail", `{% for i := 0; i < 3; i++ %}{% for k, e := range lst %}{%= e|vdeferfail() %}{% lazybreak 2 %}{% endfor %}{% endfor %}`},
		{"d_acquire_deferfail", `{%= si|vacquire(8) %}{%= si|vdefer(3) %}{%= si|vdeferfail() %}{%= si|vdefer(4) %}`},
		{"d_include_deferfail", `{% htmlescape %}{% include d_counters %}{%= si|vdeferfail() %}{% include nosuch %}`},
		{"d_modfail_open", `{% jsonquote %}{%= si|vfail() %}"{% for i := 0; i < 2; i++ %}{% break 2 %}{% endfor %}`},
	}
	probes := []tdef{
		{"p_plain", `<b>"x y"&{%= ss %}|{%= si %}|{% for i := 0; i < 2; i++ %}{%= i %}{% endfor %}`},
		{"p_cmp", `{% if v == 3 %}Y{% else %}N{% endif %}{% switch v %}{% case 3 %}three{% default %}d{% endswitch %}{%= v %}` +
			`{% for i := 0; i < 3; i++ %}{% if i == 0 %}first{% endif %}{% break if v != 3 %}{%= i %}{% endfor %}` +
			`{% for k, e := range lst %}{% if k == 0 %}K0{% endif %}{% if e == "a" %}A{% endif %}{% endfor %}{% ctx w = "lit" %}{% if w == "lit" %}L{% endif %}`},
		{"p_now", `{% ctx t = time::now() %}{%= t|time::date("%s.%N") %}`},
		{"p_defer", `{%= si|vdefer(5) %}{%= si|vacquire(6) %}x`},
	}
	for _, t := range append(append([]tdef(nil), dirty...), probes...) {
		tree, err, pan := parseSafe([]byte(t.src), true)
		if err != nil || pan != "" {
			r.Internal(fmt.Sprintf("C05 go-only: %s does not parse: %v %s", t.key, err, pan))
			return
		}
		dyntpl.RegisterTplKey(t.key, tree)
	}
	setDirty := func(ctx *dyntpl.Ctx, d string) {
		if d == "d_counters" {
			return // nothing before the counters: they take the slots 0..3
		}
		ctx.SetStatic("si", 1)
		ctx.SetString("ss", "s<")
		ctx.Set("lst", []string{"a", "b"}, inspector.StringsInspector{})
	}
	setProbe := func(ctx *dyntpl.Ctx, k int, vkind int) {
		for j := 0; j < k; j++ {
			ctx.SetStatic(fmt.Sprintf("dummy%d", j), j)
		}
		switch vkind {
		case 0:
			ctx.SetStatic("v", 3)
		case 1:
			x := int64(3)
			ctx.SetStatic("v", &x)
		default:
			ctx.SetString("v", "3")
		}
		ctx.SetStatic("si", 1)
		ctx.SetString("ss", "s<")
		ctx.Set("lst", []string{"a", "b"}, inspector.StringsInspector{})
	}
	render := func(key string, ctx *dyntpl.Ctx) (res rendered, log string) {
		evReset()
		res = renderSafe(key, ctx)
		return res, evStr()
	}
	stamp := func(out []byte) (time.Time, bool) {
		var sec, nsec int64
		if _, err := fmt.Sscanf(string(out), "%d.%d", &sec, &nsec); err != nil {
			return time.Time{}, false
		}
		return time.Unix(sec, nsec), true
	}
	for _, d := range dirty {
		for mode := 0; mode < 2; mode++ {
			for _, p := range probes {
				for k := 0; k < 4; k++ {
					vkind := (k + mode) % 3
					if p.key != "p_cmp" && k > 0 {
						continue
					}
					ctx := dyntpl.NewCtx()
					if mode == 1 {
						ctx = dyntpl.AcquireCtx()
					}
					setDirty(ctx, d.key)
					first, _ := render(d.key, ctx)
					how := "Reset()"
					if mode == 1 {
						dyntpl.ReleaseCtx(ctx)
						ctx = dyntpl.AcquireCtx()
						how = "ReleaseCtx + AcquireCtx"
					} else {
						ctx.Reset()
					}
					shape, shapeNew := string(dyntpl.VerifCtxShape(ctx)), string(dyntpl.VerifCtxShape(dyntpl.NewCtx()))
					// the public readers on the reset context: every name of the earlier use reads as on a new context
					// (no value, counter 0)
					for _, nm := range []string{"c1", "c2", "c3", "c4", "z", "si", "ss", "lst", "t", "i", "k", "e", "nosuchname"} {
						fresh := dyntpl.NewCtx()
						gv, gc := fmt.Sprint(ctx.Get(nm)), ctx.GetCounter(nm)
						wv, wc := fmt.Sprint(fresh.Get(nm)), fresh.GetCounter(nm)
						if gv != wv || gc != wc {
							r.Violate(fmt.Sprintf("go-only dirty=%s how=%d readers name=%s", d.key, mode, nm), "a context that was reset ("+how+") does not behave like a new one: Ctx.Get / Ctx.GetCounter still see what the earlier use left",
								map[string]any{"first_template": d.src, "then": how, "name": nm, "Get": gv, "GetCounter": gc, "new_context_Get": wv, "new_context_GetCounter": wc})
							break
						}
					}
					if d.key == "d_now" || p.key == "p_now" {
						time.Sleep(2 * time.Millisecond)
					}
					before := time.Now()
					setProbe(ctx, k, vkind)
					got, gotLog := render(p.key, ctx)
					fresh := dyntpl.NewCtx()
					setProbe(fresh, k, vkind)
					want, wantLog := render(p.key, fresh)
					after := time.Now()
					sig := fmt.Sprintf("go-only dirty=%s how=%d probe=%s k=%d v=%d", d.key, mode, p.key, k, vkind)
					r.Count(sig, true)
					r.Dist["go-only-reset-vs-new"]++
					desc := map[string]any{"first_template": d.src, "first_result": string(first.Out) + " " + first.ErrStr(), "then": how, "second_template": p.src,
						"variables_before_v": k, "output": string(got.Out), "error": got.ErrStr(), "new_context_output": string(want.Out), "new_context_error": want.ErrStr(),
						"events": gotLog, "new_context_events": wantLog}
					bad := ""
					if p.key == "p_now" {
						tg, ok1 := stamp(got.Out)
						tw, ok2 := stamp(want.Out)
						switch {
						case !ok1 || !ok2 || got.Err != nil || want.Err != nil:
							bad = "time::now() did not render a time"
						case tw.Before(before.Add(-time.Millisecond)) || tw.After(after.Add(time.Millisecond)):
							r.Internal("C05 go-only: a NEW context prints a time outside the window of its render")
						case tg.Before(before.Add(-time.Millisecond)) || tg.After(after.Add(time.Millisecond)):
							bad = fmt.Sprintf("time::now() printed %s on the reset context, the render happened between %s and %s", tg.Format(time.RFC3339Nano), before.Format(time.RFC3339Nano), after.Format(time.RFC3339Nano))
						}
					} else if got.Panic != "" || got.ErrStr() != want.ErrStr() || !bytes.Equal(got.Out, want.Out) || gotLog != wantLog {
						bad = "the render on the reset context differs from the render on a new context"
					}
					if bad != "" {
						r.Violate(sig+" out="+string(got.Out), "a context that was reset ("+how+") does not behave like a new one: "+bad, desc)
					} else if shape != shapeNew {
						desc["shape"], desc["new_context_shape"] = shape, shapeNew
						r.TieBreak("Ctx.Reset ≙ NewCtx() (internal state, hook VerifCtxShape): after reset: "+shape+" vs new: "+shapeNew, desc, shape, shapeNew)
					}
					if mode == 1 {
						dyntpl.ReleaseCtx(ctx)
					}
				}
			}
		}
	}
	dyntpl.VerifResetRegistry()
}
