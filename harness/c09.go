package main

import (
	"bytes"
	"net/url"
	"strings"
)

func init() { props["C09"] = c09 }

func c09(r *Run) {
	r.Rule = "every input is rendered through each form ({%u= %}, {%uu= %}, {%uuu= %}, |urlEncode, {%l= %}, {%ll= %}, |linkEscape); " +
		"inputs: empty, all 256 bytes, all 65536 byte pairs, random byte strings incl. invalid UTF-8; " +
		"non-trivial = the model output differs from the input (some byte needs encoding); distinct by (form, input)"
	forms := []*escForm{
		{Name: "u", Tpl: "{%u= v %}", Cmd: "url", Itr: 1},
		{Name: "uu", Tpl: "{%uu= v %}", Cmd: "url", Itr: 2},
		{Name: "uuu", Tpl: "{%uuu= v %}", Cmd: "url", Itr: 3},
		{Name: "|urlEncode", Tpl: "{%= v|urlEncode %}", Cmd: "url", Itr: 1},
		{Name: "l", Tpl: "{%l= v %}", Cmd: "link", Itr: 1},
		{Name: "ll", Tpl: "{%ll= v %}", Cmd: "link", Itr: 2},
		{Name: "|linkEscape", Tpl: "{%= v|linkEscape %}", Cmd: "link", Itr: 1},
	}
	r.Exhaustive = true
	judge := func(c *escCase, fs []string) string {
		if c.Form.Cmd == "url" {
			if len(fs) < 2 {
				return "driver answer too short"
			}
			if fs[0] != "1" {
				return "output leaves the URL-safe alphabet"
			}
			if dec, ok := unhx(fs[1]); !ok || !bytes.Equal(dec, c.In) {
				return "query-string decoding does not return the input"
			}
			return ""
		}
		if len(fs) < 1 || fs[0] != "1" {
			return "link-escape output contains a space or an unescaped double quote"
		}
		return ""
	}
	// Second opinion from the standard library (never the deciding oracle unless it disagrees with Lean's).
	second := func(c *escCase) string {
		if c.Form.Cmd != "url" {
			return ""
		}
		s := string(c.Go.Out)
		for i := 0; i < c.Form.Itr; i++ {
			d, err := url.QueryUnescape(s)
			if err != nil {
				return "net/url.QueryUnescape rejects the output"
			}
			s = d
		}
		if s != string(c.In) {
			return "net/url.QueryUnescape does not return the input"
		}
		if c.Form.Itr == 1 && strings.ReplaceAll(url.QueryEscape(string(c.In)), "~", "%7E") != string(c.Go.Out) {
			return "output differs from url.QueryEscape modulo '~'"
		}
		return ""
	}
	runEsc(r, forms, byteInputs(r, true, r.N(2000, 100000), []byte(" \"%+~/?&=\\")), judge, second)
	regionRel(r, "urlencode", "url", r.N(1500, 60000))
	escRuns(r, []string{"u", "l"}, []string{"urlEncode", "linkEscape"}, "urlencode")
	regionRaw(r, r.N(1500, 40000))
	escConcurrent(r, append(forms, &escForm{Name: "region", Tpl: "{% urlencode %}{%= v %}|{%= v %}{% endurlencode %}"}), r.N(4000, 100000))
	modifierSpellings(r, []string{"urlEncode", "linkEscape", "ue", "le"}, "{% urlencode %}", "{% endurlencode %}")
}
