package main

import (
	"encoding/hex"
	"fmt"
	"hash/crc64"
	"hash/fnv"
	"runtime/debug"
	"sort"
	"strconv"
	"strings"

	"github.com/koykov/dyntpl"
)

// C04 — lookups always see the latest registration; Parse returns its own source's tree.
//
// Every generated history is executed three times: on the real registry (in-process, reset by hook before
// each history), on the Lean model (driver request "db", protocol in lean/DyntplV/DriverC04.lean), and on a
// reference written directly from the property (two maps name -> source, see c04Ref). One token per
// Parse / lookup op is compared.

func init() { props["C04"] = c04 }

const c04NoKey = "-1"

// The universe. Keys k0,k1,k2 and ids 0,1,2 get registered; kx and id 9 never. Fixed partial pairing:
// k0<->0, k1<->1, k2 has no id, id 2 has no key.
// c04K2: a key that contains a Unicode space (NO-BREAK SPACE) and whose part before it is another key: key lists of
// include tags are separated by the ASCII blank only, so this is one name.
const c04K2 = "k0\u00a0z"

type c04Name struct {
	ID  int
	Key string
}

var c04Names = []c04Name{
	{0, "k0"}, {1, "k1"}, // RegisterTpl
	{0, c04NoKey}, {1, c04NoKey}, {2, c04NoKey}, // RegisterTplID
	{-1, "k0"}, {-1, "k1"}, {-1, c04K2}, // RegisterTplKey
}

// Focused universe for the longer exhaustive tier: one paired template and one key-only template.
var c04NamesFocus = []c04Name{{0, "k0"}, {0, c04NoKey}, {-1, "k0"}, {-1, c04K2}}

const (
	c04CollA = 4 // sources 4 and 5: the CRC-64 collision pair
	c04CollB = 5
	c04Inc0  = 10 // sources 10.. : includer templates
)

var c04Src = map[int]string{
	0: "A{%= v %}", 1: "B{%= v %}b", 2: "C", 3: "{%= v %}D",
	c04CollA: "@@@@@@@@@@@@@@@@@", c04CollB: "D@@@@@@@G@@@@@@DA",
}

// What each source renders to with v="!".
var c04Out = map[string]int{"A!": 0, "B!b": 1, "C": 2, "!D": 3, "@@@@@@@@@@@@@@@@@": c04CollA, "D@@@@@@@G@@@@@@DA": c04CollB}

// Include name lists (some entries are never registered).
var c04IncLists = [][]string{{"k0", "k1"}, {"kx", c04K2, "k0"}, {"kx"}, {"k1", "kx"}}

func c04IncSrc(j int) string { return "{% include " + strings.Join(c04IncLists[j], " ") + " %}" }
func c04IncKey(j int) string { return "inc" + strconv.Itoa(j) }

// One protocol op.
type c04Op struct {
	Kind   byte // P R I K  k i f b
	ID     int
	Key    string
	Key2   string
	Keys   []string
	Src    int    // P
	Ref    int    // R I K: number of the P op whose tree is registered
	IncKey string // b: the key the includer template was registered under (Go side only)
}

func khex(k string) string {
	if k == "" {
		return "-"
	}
	return hex.EncodeToString([]byte(k))
}

func (o c04Op) tok() string {
	switch o.Kind {
	case 'P':
		return fmt.Sprintf("P:%d", o.Src)
	case 'R':
		return fmt.Sprintf("R:%d:%s:%d", o.ID, khex(o.Key), o.Ref)
	case 'I':
		return fmt.Sprintf("I:%d:%d", o.ID, o.Ref)
	case 'K':
		return fmt.Sprintf("K:%s:%d", khex(o.Key), o.Ref)
	case 'k':
		return "k:" + khex(o.Key)
	case 'i':
		return fmt.Sprintf("i:%d", o.ID)
	case 'f':
		return "f:" + khex(o.Key) + ":" + khex(o.Key2)
	case 'b':
		hs := make([]string, len(o.Keys))
		for i, k := range o.Keys {
			hs[i] = khex(k)
		}
		return "b:" + strings.Join(hs, ",")
	}
	return "?"
}

// Human-readable form for case descriptions.
func (o c04Op) String() string {
	switch o.Kind {
	case 'P':
		return fmt.Sprintf("t%%d=Parse(src%d)", o.Src)
	case 'R':
		return fmt.Sprintf("RegisterTpl(%d,%q,t%d)", o.ID, o.Key, o.Ref)
	case 'I':
		return fmt.Sprintf("RegisterTplID(%d,t%d)", o.ID, o.Ref)
	case 'K':
		return fmt.Sprintf("RegisterTplKey(%q,t%d)", o.Key, o.Ref)
	case 'k':
		return fmt.Sprintf("Write(%q)", o.Key)
	case 'i':
		return fmt.Sprintf("WriteByID(%d)", o.ID)
	case 'f':
		return fmt.Sprintf("WriteFallback(%q,%q)", o.Key, o.Key2)
	case 'b':
		return fmt.Sprintf("Write(%q) /* {%% include %s %%} */", o.IncKey, strings.Join(o.Keys, " "))
	}
	return "?"
}

func (o c04Op) answers() bool {
	return o.Kind == 'P' || o.Kind == 'k' || o.Kind == 'i' || o.Kind == 'f' || o.Kind == 'b'
}

// History builder.
type c04Hist struct {
	ops  []c04Op
	nP   int
	coll bool // declare H:4=5
}

func (h *c04Hist) parse(src int) int {
	h.ops = append(h.ops, c04Op{Kind: 'P', Src: src})
	h.nP++
	return h.nP - 1
}

func (h *c04Hist) reg(n c04Name, ref int) {
	switch {
	case n.ID >= 0 && n.Key != c04NoKey:
		h.ops = append(h.ops, c04Op{Kind: 'R', ID: n.ID, Key: n.Key, Ref: ref})
	case n.ID >= 0:
		h.ops = append(h.ops, c04Op{Kind: 'I', ID: n.ID, Key: c04NoKey, Ref: ref})
	default:
		h.ops = append(h.ops, c04Op{Kind: 'K', ID: -1, Key: n.Key, Ref: ref})
	}
}

func (h *c04Hist) regFresh(n c04Name, src int) { h.reg(n, h.parse(src)) }
func (h *c04Hist) byKey(k string)              { h.ops = append(h.ops, c04Op{Kind: 'k', Key: k}) }
func (h *c04Hist) byID(i int)                  { h.ops = append(h.ops, c04Op{Kind: 'i', ID: i}) }
func (h *c04Hist) fallback(k, fb string)       { h.ops = append(h.ops, c04Op{Kind: 'f', Key: k, Key2: fb}) }

// include lookup j: parse the includer template, register it under its own key, render it.
func (h *c04Hist) include(j int) {
	ref := h.parse(c04Inc0 + j)
	h.ops = append(h.ops, c04Op{Kind: 'K', ID: -1, Key: c04IncKey(j), Ref: ref})
	h.ops = append(h.ops, c04Op{Kind: 'b', Keys: c04IncLists[j], IncKey: c04IncKey(j)})
}

// sweep observes everything: Parse of every source, every name (and one unknown of each kind), fallbacks, includes.
func (h *c04Hist) sweep(srcs []int) {
	for _, s := range srcs {
		h.parse(s)
	}
	for _, k := range []string{"k0", "k1", c04K2, "kx"} {
		h.byKey(k)
	}
	for _, i := range []int{0, 1, 2, 9} {
		h.byID(i)
	}
	h.fallback("k0", "k1")
	h.fallback(c04K2, "k0")
	h.fallback("kx", "k1")
	h.fallback("kx", "kx")
	for j := range c04IncLists {
		h.include(j)
	}
}

func (h *c04Hist) line() string {
	var sb strings.Builder
	sb.WriteString("db")
	if h.coll {
		fmt.Fprintf(&sb, " H:%d=%d", c04CollA, c04CollB)
	}
	for _, o := range h.ops {
		sb.WriteByte(' ')
		sb.WriteString(o.tok())
	}
	return sb.String()
}

func (h *c04Hist) readable() []string {
	out := make([]string, 0, len(h.ops))
	n := 0
	for _, o := range h.ops {
		s := o.String()
		if o.Kind == 'P' {
			s = fmt.Sprintf(s, n)
			n++
		}
		out = append(out, s)
	}
	return out
}

// cwriter counts what reaches the writer.
type cwriter struct {
	buf   []byte
	calls int
}

func (w *cwriter) Write(p []byte) (int, error) {
	w.calls++
	w.buf = append(w.buf, p...)
	return len(p), nil
}

// c04RunGo executes the history on the real registry.
func c04RunGo(h *c04Hist, ident map[string]int) (toks []string) {
	dyntpl.VerifResetRegistry()
	var trees []*dyntpl.Tree
	ctx := dyntpl.NewCtx()
	defer func() {
		if x := recover(); x != nil {
			toks = append(toks, "panic:"+strings.ReplaceAll(fmt.Sprint(x), " ", "_")+"@"+strings.ReplaceAll(trimStack(debug.Stack()), " ", "_"))
		}
	}()
	srcText := func(s int) string {
		if s >= c04Inc0 {
			return c04IncSrc(s - c04Inc0)
		}
		return c04Src[s]
	}
	lookup := func(f func(w *cwriter) error) string {
		ctx.Reset()
		ctx.SetString("v", "!")
		w := &cwriter{}
		err := f(w)
		switch {
		case err == dyntpl.ErrTplNotFound:
			if w.calls == 0 && len(w.buf) == 0 {
				return "nf"
			}
			return "nf!wrote:" + hx(w.buf)
		case err != nil:
			return "err:" + strings.ReplaceAll(err.Error(), " ", "_")
		}
		if s, ok := c04Out[string(w.buf)]; ok {
			return strconv.Itoa(s)
		}
		return "out:" + hx(w.buf)
	}
	for n, o := range h.ops {
		switch o.Kind {
		case 'P':
			t, err := dyntpl.Parse([]byte(srcText(o.Src)), false)
			trees = append(trees, t)
			if err != nil {
				toks = append(toks, "err:"+strings.ReplaceAll(err.Error(), " ", "_"))
			} else if s, ok := ident[string(dyntpl.VerifDumpTree(t))]; ok {
				toks = append(toks, strconv.Itoa(s))
			} else {
				toks = append(toks, "tree:?")
			}
			if toks[len(toks)-1] != strconv.Itoa(o.Src) {
				// Parse returned another source's tree: already a violation. Do not go on: registering that tree can make an
				// includer template include itself (unbounded recursion, a fatal stack overflow that cannot be recovered).
				for _, o2 := range h.ops[n+1:] {
					if o2.answers() {
						toks = append(toks, "skipped")
					}
				}
				return
			}
		case 'R':
			dyntpl.RegisterTpl(o.ID, o.Key, trees[o.Ref])
		case 'I':
			dyntpl.RegisterTplID(o.ID, trees[o.Ref])
		case 'K':
			dyntpl.RegisterTplKey(o.Key, trees[o.Ref])
		case 'k':
			toks = append(toks, lookup(func(w *cwriter) error { return dyntpl.Write(w, o.Key, ctx) }))
		case 'i':
			toks = append(toks, lookup(func(w *cwriter) error { return dyntpl.WriteByID(w, o.ID, ctx) }))
		case 'f':
			toks = append(toks, lookup(func(w *cwriter) error { return dyntpl.WriteFallback(w, o.Key, o.Key2, ctx) }))
		case 'b':
			toks = append(toks, lookup(func(w *cwriter) error { return dyntpl.Write(w, o.IncKey, ctx) }))
		}
	}
	return
}

// c04Ref is the property evaluated directly: two maps name -> source of the latest registration, and
// "Parse(s) yields s's tree". A key and an ID that were registered together (RegisterTpl(id,key,..)) name the
// same template from then on: a later registration under either name alone replaces that template
// ("aliased"). strict is the same without aliasing; it is only counted (Dist alias_sensitive_lookups).
func c04Ref(h *c04Hist) (aliased, strict []string) {
	type st struct {
		byKey map[string]int
		byID  map[int]int
	}
	a := st{map[string]int{}, map[int]int{}}
	s := st{map[string]int{}, map[int]int{}}
	pairID := map[string]int{} // key -> id it was registered together with
	pairKey := map[int]string{}
	var treeSrc []int
	tok := func(v int, ok bool) string {
		if !ok {
			return "nf"
		}
		return strconv.Itoa(v)
	}
	look := func(m st, o c04Op) string {
		switch o.Kind {
		case 'k':
			v, ok := m.byKey[o.Key]
			return tok(v, ok)
		case 'i':
			v, ok := m.byID[o.ID]
			return tok(v, ok)
		case 'f':
			if v, ok := m.byKey[o.Key]; ok {
				return tok(v, ok)
			}
			v, ok := m.byKey[o.Key2]
			return tok(v, ok)
		case 'b':
			for _, k := range o.Keys {
				if v, ok := m.byKey[k]; ok {
					return tok(v, ok)
				}
			}
		}
		return "nf"
	}
	for _, o := range h.ops {
		switch o.Kind {
		case 'P':
			treeSrc = append(treeSrc, o.Src)
			aliased = append(aliased, strconv.Itoa(o.Src))
			strict = append(strict, strconv.Itoa(o.Src))
		case 'R', 'I', 'K':
			src := treeSrc[o.Ref]
			if o.Key != c04NoKey {
				a.byKey[o.Key], s.byKey[o.Key] = src, src
				if id, ok := pairID[o.Key]; ok {
					a.byID[id] = src
				}
			}
			if o.ID >= 0 {
				a.byID[o.ID], s.byID[o.ID] = src, src
				if k, ok := pairKey[o.ID]; ok {
					a.byKey[k] = src
				}
			}
			if o.Kind == 'R' {
				pairID[o.Key], pairKey[o.ID] = o.ID, o.Key
			}
		default:
			aliased = append(aliased, look(a, o))
			strict = append(strict, look(s, o))
		}
	}
	return
}

// features of a history for the distribution / non-triviality rule.
type c04Feat struct {
	sets, lookups, found                             int
	overwrite, aba, idThenKey, soloAfterBind, oldRef bool
}

func c04Features(h *c04Hist) (f c04Feat) {
	var treeSrc []int
	seenKey := map[string][]int{} // sources registered under the name, in order
	seenID := map[int][]int{}
	bound := map[string]bool{}
	boundID := map[int]bool{}
	idOnly := map[int]bool{}
	lastP := -1
	for idx, o := range h.ops {
		switch o.Kind {
		case 'P':
			treeSrc = append(treeSrc, o.Src)
			lastP = idx
		case 'R', 'I', 'K':
			if o.Key != "" && strings.HasPrefix(o.Key, "inc") {
				continue
			}
			f.sets++
			if !(lastP == idx-1 && o.Ref == len(treeSrc)-1) {
				f.oldRef = true
			}
			src := treeSrc[o.Ref]
			if o.Key != c04NoKey {
				if len(seenKey[o.Key]) > 0 {
					f.overwrite = true
				}
				seenKey[o.Key] = append(seenKey[o.Key], src)
			}
			if o.ID >= 0 {
				if len(seenID[o.ID]) > 0 {
					f.overwrite = true
				}
				seenID[o.ID] = append(seenID[o.ID], src)
			}
			switch o.Kind {
			case 'R':
				if idOnly[o.ID] && !bound[o.Key] && len(seenKey[o.Key]) == 1 {
					f.idThenKey = true
				}
				bound[o.Key], boundID[o.ID] = true, true
			case 'I':
				idOnly[o.ID] = true
				if boundID[o.ID] {
					f.soloAfterBind = true
				}
			case 'K':
				if bound[o.Key] {
					f.soloAfterBind = true
				}
			}
		default:
			f.lookups++
		}
	}
	isABA := func(l []int) bool {
		for i := 0; i+2 < len(l); i++ {
			if l[i] != l[i+1] {
				for j := i + 2; j < len(l); j++ {
					if l[j] == l[i] {
						return true
					}
				}
			}
		}
		return false
	}
	for _, l := range seenKey {
		if isABA(l) {
			f.aba = true
		}
	}
	for _, l := range seenID {
		if isABA(l) {
			f.aba = true
		}
	}
	return
}

type c04Case struct {
	h      *c04Hist
	family string
	goToks []string
}

func c04(r *Run) {
	r.Rule = "a case is one history: the registry is emptied (VerifResetRegistry), then Parse / RegisterTpl / RegisterTplID / RegisterTplKey / " +
		"Write / WriteByID / WriteFallback / render of an includer template ({% include k.. %}, registered under its own key just before) " +
		"are executed on the real package; universe: keys k0,k1,k2 (+kx never registered), ids 0,1,2 (+9 never), pairing k0<->0, k1<->1, " +
		"4 sources identified by their output (Parse results by VerifDumpTree). Families: 'enum' = ALL sequences of n registrations " +
		"(8 registration forms x sources up to renaming, each a fresh Parse + Register) followed by a sweep (Parse of every source, every key, " +
		"every id, 4 fallbacks, 4 includes), n<=4 quick / n<=5 thorough; 'enum-focus' (thorough) = the same over 4 forms x 3 sources, n=6; " +
		"'random' = interleaved ops of every kind incl. re-registering trees of earlier Parse calls, <=40 ops; 'collision' = random histories over the " +
		"CRC-64 collision pair. Each answer token (source found | nf; nf only if nothing at all reached the writer) is compared: Go vs Lean model " +
		"(Db.lean via driver) vs the two-map reference (which is itself compared with the Lean specification lastKey/lastID on every history). non-trivial = the history overwrites a name, or looks up after >=2 registrations; distinct by history"
	// CRC-64 collision pair must collide, else the probe is void.
	tab := crc64.MakeTable(crc64.ISO)
	if crc64.Checksum([]byte(c04Src[c04CollA]), tab) != crc64.Checksum([]byte(c04Src[c04CollB]), tab) {
		r.Internal("the CRC-64 collision pair does not collide")
	}
	// Identify trees by their dump: parse every source once on an empty registry.
	ident := map[string]int{}
	dyntpl.VerifResetRegistry()
	allSrc := []int{0, 1, 2, 3, c04CollA, c04CollB}
	for j := range c04IncLists {
		allSrc = append(allSrc, c04Inc0+j)
	}
	for _, s := range allSrc {
		txt := c04Src[s]
		if s >= c04Inc0 {
			txt = c04IncSrc(s - c04Inc0)
		}
		t, err := dyntpl.Parse([]byte(txt), false)
		if err != nil {
			r.Internal(fmt.Sprintf("source %d does not parse: %v", s, err))
			return
		}
		d := string(dyntpl.VerifDumpTree(t))
		if o, dup := ident[d]; dup {
			r.Internal(fmt.Sprintf("sources %d and %d have the same tree dump", o, s))
			return
		}
		ident[d] = s
	}

	var batch []*c04Case
	nSample := 0
	flush := func() {
		if len(batch) == 0 {
			return
		}
		lines := make([]string, len(batch))
		for i, c := range batch {
			lines[i] = c.h.line()
		}
		ans := r.Drive(lines)
		for i, c := range batch {
			c04Judge(r, c, lines[i], ans[i], &nSample)
		}
		batch = batch[:0]
	}
	emit := func(h *c04Hist, family string) {
		c := &c04Case{h: h, family: family}
		c.goToks = c04RunGo(h, ident)
		batch = append(batch, c)
		if len(batch) >= 4000 {
			flush()
		}
	}

	// --- exhaustive: all registration sequences up to length n, sources up to renaming (first use in order) ---
	var enum func(names []c04Name, nsrc int, fam string, prefix []int, maxSrc int, n int)
	enum = func(names []c04Name, nsrc int, fam string, prefix []int, maxSrc int, n int) {
		// prefix holds pairs (name index, source)
		h := &c04Hist{}
		for i := 0; i+1 < len(prefix); i += 2 {
			h.regFresh(names[prefix[i]], prefix[i+1])
		}
		if len(prefix)/2 == n {
			h.sweep([]int{0, 1, 2, 3})
			emit(h, fam)
			return
		}
		for ni := range names {
			for s := 0; s <= maxSrc+1 && s < nsrc; s++ {
				m := maxSrc
				if s > m {
					m = s
				}
				enum(names, nsrc, fam, append(append([]int(nil), prefix...), ni, s), m, n)
			}
		}
	}
	for n := 0; n <= r.N(4, 5); n++ { // shortest first, so that the retained violations are minimal
		enum(c04Names, 4, "enum", nil, -1, n)
	}
	if r.Thorough() {
		enum(c04NamesFocus, 3, "enum-focus", nil, -1, 6)
	}
	flush()
	r.Exhaustive = len(r.InternalErrs) == 0

	// --- random interleavings ---
	rnd := func(srcs []int, coll bool, maxLen int) *c04Hist {
		h := &c04Hist{coll: coll}
		n := 1 + r.Rng.Intn(maxLen)
		for len(h.ops) < n {
			name := c04Names[r.Rng.Intn(len(c04Names))]
			src := srcs[r.Rng.Intn(len(srcs))]
			switch x := r.Rng.Intn(100); {
			case x < 34:
				h.regFresh(name, src)
			case x < 44:
				// re-register the tree of an earlier Parse of a plain source (never an includer: it would include itself)
				var refs []int
				np := 0
				for _, o := range h.ops {
					if o.Kind == 'P' {
						if o.Src < c04Inc0 {
							refs = append(refs, np)
						}
						np++
					}
				}
				if len(refs) > 0 {
					h.reg(name, refs[r.Rng.Intn(len(refs))])
				}
			case x < 54:
				h.parse(src)
			case x < 66:
				h.byKey([]string{"k0", "k1", c04K2, "kx"}[r.Rng.Intn(4)])
			case x < 78:
				h.byID([]int{0, 1, 2, 9}[r.Rng.Intn(4)])
			case x < 88:
				ks := []string{"k0", "k1", c04K2, "kx"}
				h.fallback(ks[r.Rng.Intn(4)], ks[r.Rng.Intn(4)])
			default:
				h.include(r.Rng.Intn(len(c04IncLists)))
			}
		}
		return h
	}
	for i, n := 0, r.N(3000, 60000); i < n; i++ {
		emit(rnd([]int{0, 1, 2, 3}, false, 40), "random")
	}
	for i, n := 0, r.N(300, 5000); i < n; i++ {
		emit(rnd([]int{0, c04CollA, c04CollB}, true, 12), "collision")
	}
	flush()

	// --- the CRC-64 collision probe, through renders ---
	func() {
		dyntpl.VerifResetRegistry()
		a, b := c04Src[c04CollA], c04Src[c04CollB]
		ta, err := dyntpl.Parse([]byte(a), false)
		if err != nil {
			r.Internal("collision probe: " + err.Error())
			return
		}
		dyntpl.RegisterTplKey("k0", ta)
		tb, err := dyntpl.Parse([]byte(b), false)
		if err != nil {
			r.Internal("collision probe: " + err.Error())
			return
		}
		dyntpl.RegisterTplKey("k1", tb)
		w := &cwriter{}
		err = dyntpl.Write(w, "k1", dyntpl.NewCtx())
		r.Count("collision-probe", true)
		r.Dist["collision_probe"]++
		if err != nil || string(w.buf) != b {
			r.Violate(fmt.Sprintf("crc64-collision probe: Parse(%q) after registering %q renders %q", b, a, w.buf),
				"Parse returned the tree of another source with the same CRC-64 checksum",
				map[string]any{"registered_first": a, "parsed_second": b, "render_of_second": string(w.buf), "err": fmt.Sprint(err)})
		}
	}()
	// --- keep-format is part of what is parsed: Parse(src, keepFmt) returns the tree of THAT pair ---
	// (random histories of Parse+Register over sources with line breaks, both flags; every Parse result is
	// identified by its dump against the dump taken on an empty registry)
	for it := 0; it < r.N(300, 5000); it++ {
		srcs := []string{"E\n\t{%= v %}\n", "head\n  {% if v == \"!\" %}\n\tT\n{% endif %}\ntail", "a\n\n\tb"}
		type pk struct {
			s int
			k bool
		}
		ref := map[pk]string{}
		for si, s := range srcs {
			for _, k := range []bool{false, true} {
				dyntpl.VerifResetRegistry()
				t, err := dyntpl.Parse([]byte(s), k)
				if err != nil {
					r.Internal("keepfmt source does not parse")
					return
				}
				ref[pk{si, k}] = string(dyntpl.VerifDumpTree(t))
			}
			if ref[pk{si, false}] == ref[pk{si, true}] {
				r.Internal("keepfmt source is insensitive to the flag")
				return
			}
		}
		dyntpl.VerifResetRegistry()
		var hist []string
		n := 2 + r.Rng.Intn(6)
		for j := 0; j < n; j++ {
			p := pk{r.Rng.Intn(len(srcs)), r.Rng.Intn(2) == 0}
			t, err := dyntpl.Parse([]byte(srcs[p.s]), p.k)
			hist = append(hist, fmt.Sprintf("Parse(src%d, keepFmt=%v)", p.s, p.k))
			r.Count("keepfmt:"+strings.Join(hist, ";"), j > 0)
			if err != nil || string(dyntpl.VerifDumpTree(t)) != ref[p] {
				r.Violate("keepfmt-parse "+strings.Join(hist, ";"), "Parse returned a tree that is not the tree of its own (source, keepFmt) pair",
					map[string]any{"history": hist, "source": srcs[p.s], "keepFmt": p.k, "dump": string(dyntpl.VerifDumpTree(t)), "expected_dump": ref[p]})
				break
			}
			if r.Rng.Intn(3) > 0 {
				key := fmt.Sprintf("k%d", r.Rng.Intn(3))
				dyntpl.RegisterTplKey(key, t)
				hist = append(hist, "RegisterTplKey("+key+")")
			}
		}
		r.Dist["keepfmt_histories"]++
	}
	dyntpl.VerifResetRegistry()
	// --- IDs and keys paired freely (regfree.go) ---
	regFreePairings(r, "", "after a sequence of registrations a lookup by a name does not give the template most recently registered under that name", 4, r.N(3000, 100000))
	// --- a Parse that FAILED leaves nothing behind: the next Parse of a well-formed source yields that source's tree ---
	c04AfterFailedParse(r)
	parseVerdictStable(r, "")
	nilTreeKeepsRegistry(r, "c04:")
	c04IDWithTwoKeys(r)
	// --- the file entry point: ParseFile(name) is Parse(what the file holds now) ---
	parseFileRel(r, "")
}

// c04AfterFailedParse: "Parsing a source always yields a tree that renders that source, regardless of which templates
// were parsed ... before" — also when the parses before were REJECTED (unclosed or surplus block tags at some depth,
// unterminated tags), on the same goroutine (pooled parser state).
func c04AfterFailedParse(r *Run) {
	bad := []string{"{% if a == 1 %}x", "{% for i := 0; i < 2; i++ %}x", "{% switch a %}{% case 1 %}x", "x{% endif %}", "x{% endfor %}", "x{% endswitch %}",
		"{% if a == 1 %}{% for _, v := range l %}{% switch v %}", "{% if a == 1 %}{% if b == 2 %}{% if c == 3 %}x{% endif %}", "{% for _, v := range l %}{% endif %}{% endfor %}",
		"{% if a == 1 %}x{% endfor %}", "a{%= v", "{% if a == 1 %}x{% else %}y", "{% jsonquote %}{% if a == 1 %}"}
	good := []string{"plain", "G[{%= v %}]", "{% if v == \"!\" %}yes{% else %}no{% endif %}", "{% for i := 0; i < 2; i++ %}<{%= i %}>{% endfor %}.", "{% switch v %}{% case \"!\" %}one{% default %}other{% endswitch %}"}
	// expected: what the same source renders when nothing was parsed before it
	renderOf := func(tree *dyntpl.Tree) string {
		dyntpl.RegisterTplKey("afterfail", tree)
		ctx := dyntpl.NewCtx()
		ctx.SetString("v", "!")
		res := renderSafe("afterfail", ctx)
		out := string(res.Out)
		if res.ErrStr() != "ok" {
			out += " " + res.ErrStr()
		}
		return out
	}
	var want []string
	for _, g := range good {
		dyntpl.VerifResetRegistry()
		tree, err, pan := parseSafe([]byte(g), false)
		if err != nil || pan != "" {
			r.Internal("parse-after-failed-parse: a good source does not parse: " + g)
			return
		}
		want = append(want, renderOf(tree))
	}
	if want[0] != "plain" || want[1] != "G[!]" || want[3] != "<0><1>." {
		r.Internal("parse-after-failed-parse: unexpected reference outputs " + strings.Join(want, " | "))
		return
	}
	for bi := range bad {
		for n := 1; n <= 3; n++ {
			for gi, g := range good {
				dyntpl.VerifResetRegistry()
				var hist []string
				rejected := true
				for k := 0; k < n; k++ {
					b := bad[(bi+k)%len(bad)]
					_, err, pan := parseSafe([]byte(b), k%2 == 0)
					hist = append(hist, fmt.Sprintf("Parse(%q) -> %v", b, err))
					if err == nil || pan != "" {
						rejected = false
					}
				}
				src := g + fmt.Sprintf("{# %d.%d #}", bi, n)
				tree, err, pan := parseSafe([]byte(src), false)
				hist = append(hist, fmt.Sprintf("Parse(%q) -> %v", src, err))
				out := ""
				if err == nil && pan == "" {
					out = renderOf(tree)
				}
				sig := fmt.Sprintf("parse-after-failed-parse bad=%d n=%d good=%d", bi, n, gi)
				r.Count(sig, rejected)
				r.Dist["parse_after_failed_parse"]++
				if err != nil || pan != "" || out != want[gi] {
					r.Violate(sig+" out="+out, "after a rejected Parse, Parse of a well-formed source does not yield a tree that renders that source",
						map[string]any{"history": hist, "output": out, "expected": want[gi], "error": fmt.Sprint(err), "panic": pan})
					dyntpl.VerifResetRegistry()
					return
				}
			}
		}
	}
	dyntpl.VerifResetRegistry()
}

func c04Judge(r *Run, c *c04Case, line, ans string, nSample *int) {
	h := c.h
	f := c04Features(h)
	hk := fnv.New64a()
	hk.Write([]byte(line))
	r.Count(strconv.FormatUint(hk.Sum64(), 36), f.overwrite || (f.sets >= 2 && f.lookups > 0)) // distinct by history (hashed: millions of lines)
	r.Dist["family:"+c.family]++
	r.Dist[fmt.Sprintf("registrations:%02d", f.sets)]++
	if f.overwrite {
		r.Dist["hist_with_overwrite"]++
	}
	if f.aba {
		r.Dist["hist_with_A-B-A"]++
	}
	if f.idThenKey {
		r.Dist["hist_with_RegisterTplID_then_RegisterTpl"]++
	}
	if f.soloAfterBind {
		r.Dist["hist_with_single-name_registration_after_pairing"]++
	}
	if f.oldRef {
		r.Dist["hist_registering_an_earlier_tree"]++
	}
	for _, o := range h.ops {
		r.Dist["op:"+string(o.Kind)]++
	}
	refA, refS := c04Ref(h)
	fs := strings.Fields(ans)
	if len(fs) == 0 || fs[0] != "ok" {
		r.Internal("driver could not answer: " + line + " -> " + ans)
		return
	}
	// "ok <model tokens> | <specification tokens>"
	bar := -1
	for i, t := range fs {
		if t == "|" {
			bar = i
		}
	}
	if bar < 0 {
		r.Internal("driver answer without specification part: " + line + " -> " + ans)
		return
	}
	model, spec := fs[1:bar], fs[bar+1:]
	desc := func(op int) map[string]any {
		return map[string]any{"family": c.family, "request": line, "history": h.readable(), "go": strings.Join(c.goToks, " "),
			"model": strings.Join(model, " "), "reference": strings.Join(refA, " "), "lean_spec": strings.Join(spec, " "), "answer_index": op,
			"sources": c04Src, "collision_declared": h.coll}
	}
	if *nSample%7919 == 0 {
		r.Sample(desc(-1))
	}
	*nSample++
	// The Go-side reference and the Lean-side specification (lastKey / lastID, the functions the theorems are stated
	// with) must be the same function.
	if strings.Join(spec, " ") != strings.Join(refA, " ") {
		r.TieBreak("harness reference c04Ref ≙ Lean specification lastKey/lastID", desc(-1), strings.Join(refA, " "), strings.Join(spec, " "))
		return
	}
	if len(model) != len(refA) || len(c.goToks) != len(refA) {
		// a panic token shortens the Go answer
		if n := len(c.goToks); n > 0 && strings.HasPrefix(c.goToks[n-1], "panic:") {
			r.Violate("history="+line+" panic", "the registry operation panicked: "+c.goToks[n-1], desc(n-1))
			return
		}
		r.Internal(fmt.Sprintf("answer lengths differ: go %d model %d reference %d for %s", len(c.goToks), len(model), len(refA), line))
		return
	}
	// which protocol op produced answer i
	opOf := make([]int, 0, len(refA))
	for i, o := range h.ops {
		if o.answers() {
			opOf = append(opOf, i)
		}
	}
	for i := range refA {
		g, m, want := c.goToks[i], model[i], refA[i]
		if g == "nf" {
			r.Dist["lookup_not_found"]++
		} else if h.ops[opOf[i]].Kind != 'P' {
			r.Dist["lookup_found"]++
		}
		if refS[i] != refA[i] {
			r.Dist["alias_sensitive_lookups"]++
		}
		if g == want && m == want {
			continue
		}
		o := h.ops[opOf[i]]
		if g != want {
			sig := fmt.Sprintf("history=%s op=%d(%s) got=%s want=%s", strings.TrimPrefix(line, "db "), opOf[i], o.tok(), g, want)
			isColl := func(t string) bool { return t == strconv.Itoa(c04CollA) || t == strconv.Itoa(c04CollB) }
			if h.coll && isColl(g) && isColl(want) {
				sig = "crc64-collision " + sig
			}
			what := fmt.Sprintf("%s: got %s, the latest registration / own source is %s", o.String(), g, want)
			if o.Kind == 'P' {
				what = fmt.Sprintf("Parse(src%d) returned the tree of source %s", o.Src, g)
			}
			if strings.HasPrefix(g, "nf!wrote") {
				what = "template not found, but bytes were written: " + g
			}
			class := "lookup_sees_an_older_registration"
			switch {
			case strings.HasPrefix(sig, "crc64-collision"):
				class = "crc64_collision"
			case o.Kind == 'P':
				class = "parse_returned_another_sources_tree"
			case g == "nf":
				class = "registered_name_not_found"
			case strings.HasPrefix(g, "nf!"):
				class = "not_found_but_bytes_written"
			case want == "nf":
				class = "unregistered_name_found"
			}
			if r.Dist["violating_histories:"+class] == 0 {
				r.Notes = append(r.Notes, "first "+class+": "+sig)
			}
			r.Dist["violating_histories:"+class]++
			r.Violate(sig, what, desc(i))
		} else {
			r.TieBreak("Db model ≙ db.go", desc(i), g, m)
		}
		return // later tokens of the same history are consequences
	}
}

// parseVerdictStable: the verdict of Parse on a byte string does not depend on what was registered before — in
// particular not on the PARTIAL tree Parse hands out next to an error (README: `tree, _ := dyntpl.Parse(...)`
// followed by RegisterTplKey). A relation on the real engine alone; model: C04.parse_verdict_own_source.
func parseVerdictStable(r *Run, prefix string) {
	bad := []string{"vs-a {% if user.Id == 1 %}hello", "vs-b hello{% endif %}", "vs-c {% if a == 1 %}{% for _, v := range l %}x{% endif %}{% endfor %}", "vs-d a{%= v", "vs-e {% switch a %}{% case 1 %}x",
		"vs-f {% for i := 0; i < 2; i++ %}x", "vs-g {% if a == 1 %}x{% else %}y", "vs-h x{% endswitch %}", "vs-i {% if a == 1 %}x{% endfor %}"}
	good := []string{"vs-good plain", "vs-good {% if a == 1 %}x{% endif %}", "vs-good {% for i := 0; i < 2; i++ %}{%= i %}{% endfor %}"}
	defer dyntpl.VerifResetRegistry()
	for bi, b := range bad {
		for _, keep := range []bool{false, true} {
			for variant := 0; variant < 4; variant++ {
				dyntpl.VerifResetRegistry()
				var hist []string
				tree, err1, pan := parseSafe([]byte(b), keep)
				hist = append(hist, fmt.Sprintf("Parse(%q, %v) -> tree=%v err=%v", b, keep, tree != nil, err1))
				sig := fmt.Sprintf("%sparse-verdict-stable bad=%d keepFmt=%v variant=%d", prefix, bi, keep, variant)
				r.Count(sig, true)
				r.Dist[prefix+"parse_verdict_stable"]++
				if pan != "" || err1 == nil {
					r.Violate(sig+" first", "a malformed source is not rejected by the first Parse", map[string]any{"history": hist, "panic": pan})
					continue
				}
				regPan := ""
				if tree != nil {
					func() {
						defer func() {
							if x := recover(); x != nil {
								regPan = fmt.Sprint(x)
							}
						}()
						switch variant {
						case 0:
							dyntpl.RegisterTplKey("vs-kept", tree)
						case 1:
							dyntpl.RegisterTplID(41, tree)
						case 2:
							dyntpl.RegisterTpl(42, "vs-both", tree)
						case 3:
							// registered, then replaced by the tree of a good source under the same key, then registered again under another
							dyntpl.RegisterTplKey("vs-kept", tree)
							if gt, gerr, gpan := parseSafe([]byte(good[bi%len(good)]), keep); gerr == nil && gpan == "" {
								dyntpl.RegisterTplKey("vs-kept", gt)
							}
							dyntpl.RegisterTplKey("vs-again", tree)
						}
					}()
					hist = append(hist, fmt.Sprintf("register variant %d (panic=%q)", variant, regPan))
				}
				for round := 0; round < 2; round++ {
					_, err2, pan2 := parseSafe([]byte(b), keep)
					hist = append(hist, fmt.Sprintf("Parse(%q, %v) -> err=%v", b, keep, err2))
					if pan2 != "" || err2 == nil || err2.Error() != err1.Error() {
						r.Violate(sig+" again", "the same malformed bytes get a different verdict from Parse once the partial tree of the first Parse was registered",
							map[string]any{"history": hist, "first_error": err1.Error(), "later_error": fmt.Sprint(err2), "panic": pan2})
						break
					}
				}
				for _, g := range good {
					_, gerr, gpan := parseSafe([]byte(g), keep)
					if gerr != nil || gpan != "" {
						hist = append(hist, fmt.Sprintf("Parse(%q, %v) -> err=%v", g, keep, gerr))
						r.Violate(sig+" good", "a well-formed source is rejected after the partial tree of a rejected one was registered",
							map[string]any{"history": hist, "error": fmt.Sprint(gerr), "panic": gpan})
						break
					}
				}
			}
		}
	}
}

// c04IDWithTwoKeys: one ID registered with two different keys, one after the other — each key is paired with that ID
// only, as the property's quantifier asks — makes the FIRST key render the second template: the slot found through the
// ID is reused and the first key keeps pointing at it (open finding F-id-two-keys; the registry is built on "an ID and a
// key are two names of ONE slot", see C04F). Probed in the forms the property names: by key, through an include, by
// key-with-fallback; and the aliasing that follows (a later registration under the first key changes the second).
func c04IDWithTwoKeys(r *Run) {
	defer dyntpl.VerifResetRegistry()
	dyntpl.VerifResetRegistry()
	parse := func(src string) *dyntpl.Tree {
		t, err, pan := parseSafe([]byte(src), false)
		if err != nil || pan != "" {
			return nil
		}
		return t
	}
	a, b, c, host := parse("two-keys A"), parse("two-keys B"), parse("two-keys C"), parse("<{% include tk/a %}>")
	if a == nil || b == nil || c == nil || host == nil {
		r.Internal("C04 id-with-two-keys: sources do not parse")
		return
	}
	dyntpl.RegisterTpl(4201, "tk/a", a)
	dyntpl.RegisterTpl(4201, "tk/b", b)
	dyntpl.RegisterTplKey("tk/host", host)
	render := func(f func(ctx *dyntpl.Ctx) ([]byte, error)) string {
		out, err := f(dyntpl.NewCtx())
		if err != nil {
			return "error: " + err.Error()
		}
		return string(out)
	}
	got := map[string]string{
		"Render(tk/a)":               render(func(ctx *dyntpl.Ctx) ([]byte, error) { return dyntpl.Render("tk/a", ctx) }),
		"include tk/a":               render(func(ctx *dyntpl.Ctx) ([]byte, error) { return dyntpl.Render("tk/host", ctx) }),
		"RenderFallback(tk/a, tk/b)": render(func(ctx *dyntpl.Ctx) ([]byte, error) { return dyntpl.RenderFallback("tk/a", "tk/b", ctx) }),
		"Render(tk/b)":               render(func(ctx *dyntpl.Ctx) ([]byte, error) { return dyntpl.Render("tk/b", ctx) }),
		"RenderByID(4201)":           render(func(ctx *dyntpl.Ctx) ([]byte, error) { return dyntpl.RenderByID(4201, ctx) }),
	}
	dyntpl.RegisterTplKey("tk/a", c)
	got["Render(tk/b) after RegisterTplKey(tk/a, C)"] = render(func(ctx *dyntpl.Ctx) ([]byte, error) { return dyntpl.Render("tk/b", ctx) })
	want := map[string]string{"Render(tk/a)": "two-keys A", "include tk/a": "<two-keys A>", "RenderFallback(tk/a, tk/b)": "two-keys A", "Render(tk/b)": "two-keys B", "RenderByID(4201)": "two-keys B",
		"Render(tk/b) after RegisterTplKey(tk/a, C)": "two-keys B"}
	sig := "id-two-keys"
	r.Count(sig, true)
	r.Dist["id_with_two_keys_probe"]++
	var wrong []string
	for k, w := range want {
		if got[k] != w {
			wrong = append(wrong, fmt.Sprintf("%s = %q, want %q", k, got[k], w))
		}
	}
	sort.Strings(wrong)
	if len(wrong) > 0 {
		r.Violate(sig, "RegisterTpl(4201, \"tk/a\", A) then RegisterTpl(4201, \"tk/b\", B): the first key no longer renders the template most recently registered under it",
			map[string]any{"history": []string{`RegisterTpl(4201, "tk/a", A)`, `RegisterTpl(4201, "tk/b", B)`, `RegisterTplKey("tk/host", "<{% include tk/a %}>")`, "lookups", `RegisterTplKey("tk/a", C)`, "lookup"}, "wrong": wrong})
	}
}
