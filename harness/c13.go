package main

import (
	"fmt"
	"github.com/koykov/inspector/testobj"
	"math"
	"os"
	"path/filepath"
	"regexp"
	"strconv"
	"strings"
	"time"

	"github.com/koykov/dyntpl"
	"github.com/koykov/inspector"
	"github.com/koykov/inspector/testobj_ins"
)

type c13Val struct {
	Name string
	V    any
}

// named (defined) types of every basic kind: conversion code that switches on concrete types falls through to its
// default branch for them, and reflection-based fallbacks see their kind
type (
	c13NInt    int
	c13NInt8   int8
	c13NUint16 uint16
	c13NUint64 uint64
	c13NFloat  float64
	c13NStr    string
	c13NBytes  []byte
	c13NBool   bool
)

func c13Values() []c13Val {
	bs := []byte("by")
	es := ""
	var np *int
	nu, ni, nf, ns := c13NUint16(3), c13NInt(-4), c13NFloat(2.5), c13NStr("n<s")
	named := []c13Val{{"named-int", c13NInt(5)}, {"named-int8", c13NInt8(-7)}, {"named-uint16", c13NUint16(9)}, {"named-uint64", c13NUint64(math.MaxUint64)}, {"named-float", c13NFloat(1.25)},
		{"named-str", c13NStr("named")}, {"named-bytes", c13NBytes("nb")}, {"named-bool", c13NBool(true)}, {"pnamed-uint16", &nu}, {"pnamed-int", &ni}, {"pnamed-float", &nf}, {"pnamed-str", &ns}}
	return append(named, []c13Val{
		{"nil", nil}, {"int0", 0}, {"int-1", -1}, {"int7", 7}, {"maxint64", int64(math.MaxInt64)}, {"minint64", int64(math.MinInt64)}, {"int8", int8(-128)},
		{"uint0", uint(0)}, {"maxuint64", uint64(math.MaxUint64)}, {"f0", 0.0}, {"f0.5", 0.5}, {"f-2.5", -2.5}, {"f3", 3.0}, {"NaN", math.NaN()}, {"+Inf", math.Inf(1)}, {"-Inf", math.Inf(-1)},
		{"huge", 1e308}, {"tiny", 5e-324}, {"f1e18", 1e18}, {"f32", float32(1.5)}, {"str-empty", ""}, {"str-abc", "abc"}, {"str-12", "12"}, {"str-beyond-int64", "99999999999999999999"}, {"bytes-beyond-int64", []byte("-99999999999999999999")}, {"str-1e5", "1e5"}, {"str--0.5", "-0.5"}, {"str-5", "5"}, {"pstr-empty", &es},
		{"bytes", []byte("b<\"")}, {"pbytes", &bs}, {"true", true}, {"false", false}, {"time", time.Unix(1600000000, 5)}, {"ptime", func() *time.Time { t := time.Unix(0, 0); return &t }()},
		{"nilptr", np}, {"nilptr-string", (*string)(nil)}, {"nilptr-float64", (*float64)(nil)}, {"nilptr-bytes", (*[]byte)(nil)}, {"nilptr-bool", (*bool)(nil)}, {"nilptr-time", (*time.Time)(nil)}, {"nilptr-uint32", (*uint32)(nil)}, {"nilptr-int64", (*int64)(nil)}, {"strs", []string{"a", "b"}}, {"map", map[string]any{"k": 1}}, {"struct", struct{ A int }{1}}, {"user", (UserSpec{Id: "1", HasFinance: true}).Build()},
		// values registered WITHOUT an inspector (`ctx.Set(name, v, nil)`; repair: every read called the nil inspector)
		{"noins-int", 7}, {"noins-str", "s"}, {"noins-strs", []any{"a"}}, {"noins-nil", nil},
	}...)
}

var c13Mods = []string{"default", "ifThen", "ifThenElse", "jsonEscape", "jsonQuote", "htmlEscape", "linkEscape", "urlEncode", "attrEscape", "cssEscape", "jsEscape", "raw",
	"round", "roundPrec", "ceil", "ceilPrec", "floor", "floorPrec", "time::now", "time::format", "time::date", "time::add", "time::date_modify",
	"math::abs", "math::inc", "math::dec", "math::add", "math::sub", "math::mul", "math::div", "math::mod", "math::sqrt", "math::cbrt", "math::radical", "math::rad", "math::exp", "math::log",
	"testns::modCB", "testns::pack", "testns::extract", "testns::marshal", "math::factorial", "math::fact", "math::max", "math::min", "math::pow", "def", "if", "ifel", "je", "jq", "he", "le", "ue", "ae", "ce", "jse", "roundp", "ceilp", "floorp"}

var escFamily = map[string]bool{"jsonEscape": true, "jsonQuote": true, "htmlEscape": true, "linkEscape": true, "urlEncode": true, "attrEscape": true, "cssEscape": true, "jsEscape": true,
	"je": true, "jq": true, "he": true, "le": true, "ue": true, "ae": true, "ce": true, "jse": true}

var c13VCount int

var c13ReCLoop = regexp.MustCompile(`for\s+\w+\s*:?=[^;%]*;`)

var c13Helpers = []string{"lenEq0", "lenGt0", "lenGtq0"}

func c13Setup(ctx *dyntpl.Ctx, names []string, vals []c13Val) {
	for i, n := range names {
		v := vals[i].V
		if strings.HasPrefix(vals[i].Name, "noins-") {
			ctx.Set(n, v, nil)
			continue
		}
		switch x := v.(type) {
		case []string:
			ctx.Set(n, x, inspector.StringsInspector{})
		default:
			if vals[i].Name == "user" {
				ctx.Set(n, v, testobj_ins.TestObjectInspector{})
			} else {
				ctx.SetStatic(n, v)
			}
		}
	}
}

// panicSite: innermost /repo frame "file.go:line".
func panicSite(p string) string {
	for _, l := range strings.Split(p, "\n") {
		l = strings.TrimSpace(l)
		if strings.HasPrefix(l, "/repo/") {
			l = strings.TrimPrefix(l, "/repo/")
			if i := strings.IndexByte(l, ' '); i > 0 {
				l = l[:i]
			}
			return l
		}
	}
	return "?"
}

func init() {
	dyntpl.RegisterModFn("vcount", "", func(ctx *dyntpl.Ctx, buf *any, val any, args []any) error {
		c13VCount++
		if c13VCount > 3000 {
			panic("vcount: more than 3000 nested renders — include recursion is not stopped")
		}
		return nil
	})
	props["C13"] = func(r *Run) {
		r.Rule = "(a) matrix: every registered built-in modifier (and alias) and condition helper x forms {v|m(), v|m(a), v|m(a,b), m(a,b), v|m(literal…)} x argument tuples from 38 values of every kind " +
			"(nil, every int/uint/float edge incl. NaN/±Inf/huge/tiny, numeric and non-numeric strings, bytes, bools, times, pointers, slices, maps, structs): all singles, all pairs, sampled triples; " +
			"(b) fuzz: the repository's own templates and generated templates of every construct (also mutated) rendered against contexts holding values of unexpected kinds; self-including templates; " +
			"each render under recover + watchdog; a panic counts when its innermost non-runtime frame is in /repo; non-trivial = every case (distinct by template+values)"
		vals := c13Values()
		hanging := map[string]bool{}
		var held *dyntpl.Ctx
		held = dyntpl.NewCtx()
		run := func(kind, name, src string, names []string, vs []c13Val) {
			if hanging[name] {
				r.Dist["skipped_after_timeout"]++
				return
			}
			key, err, pan := regTpl(src, true)
			sig := fmt.Sprintf("%s=%s tpl=%s vals=", kind, name, src)
			for _, v := range vs {
				sig += v.Name + ","
			}
			desc := map[string]any{"template": src, "values": sig}
			r.Count(sig, true)
			if pan != "" {
				if panicInRepo(pan) {
					desc["panic"] = pan
					r.Violate(sig+" parse-panic", "Parse panicked", desc)
				}
				return
			}
			if err != nil {
				r.Dist["parse_rejected"]++
				return
			}
			ctx := dyntpl.NewCtx()
			reused := false
			if kind == "fuzz" && held != nil && r.Rng.Intn(2) == 0 {
				// a context that has already rendered other templates (loops, includes, regions…) and was Reset
				ctx, reused = held, true
				ctx.Reset()
				desc["context"] = "reused after Reset (it rendered earlier fuzz templates)"
				r.Dist["reused_context"]++
			}
			setPanic := ""
			func() {
				defer func() {
					if x := recover(); x != nil {
						setPanic = fmt.Sprintf("%v\n%s", x, trimStack(stack()))
					}
				}()
				c13Setup(ctx, names, vs)
				if r.Evaluations%2 == 0 {
					c13Setup(ctx, names, vs) // the same names bound a second time (no Reset in between): legal, and no different
				}
			}()
			if setPanic != "" {
				if panicInRepo(setPanic) {
					desc["panic"] = setPanic
					r.Violate(sig+" site="+panicSite(setPanic)+" set-panic "+firstLine(setPanic), "binding the values to the context (Set / SetStatic, the second time without Reset) panicked inside dyntpl: "+firstLine(setPanic), desc)
				}
				held = nil
				return
			}
			res := renderWatch(key, ctx, 1500*time.Millisecond)
			r.Dist["result:"+strings.SplitN(res.ErrStr(), ":", 2)[0]]++
			if kind == "fuzz" {
				held = ctx
				if res.Timeout || res.Panic != "" {
					held = nil // may still be in use by the abandoned render / in an undefined state
				}
			}
			_ = reused
			if res.Timeout {
				hanging[name] = true
				r.Violate(sig+" timeout", "render did not return within 1.5 s (unbounded computation)", desc)
				return
			}
			if res.Panic != "" {
				desc["panic"] = res.Panic
				if panicInRepo(res.Panic) {
					kind := ""
					if strings.Contains(res.Panic, "nil pointer dereference") && strings.Contains(sig, "nilptr") {
						kind = " kind=typed-nil-deref"
					}
					r.Violate(sig+kind+" site="+panicSite(res.Panic)+" panic "+firstLine(res.Panic), "render panicked inside dyntpl: "+firstLine(res.Panic), desc)
				} else {
					r.Dist["panic_in_dependency"]++
				}
			}
			if r.Evaluations%2501 == 0 {
				r.Sample(desc)
			}
		}
		// (a) modifier matrix
		for _, m := range c13Mods {
			for i := range vals {
				run("mod", m, "{%= v|"+m+"() %}", []string{"v"}, []c13Val{vals[i]})
				run("mod", m, "{%= v|"+m+" %}", []string{"v"}, []c13Val{vals[i]})
				run("mod", m, "{%= "+m+"(v) %}", []string{"v"}, []c13Val{vals[i]})
				run("mod", m, `{%= v|`+m+`("x", 2, {k: v}) %}`, []string{"v"}, []c13Val{vals[i]})
				run("mod", m, `{%= v|`+m+`(0) %}`, []string{"v"}, []c13Val{vals[i]})
				run("mod", m, `{%= v|`+m+`(0.5) %}`, []string{"v"}, []c13Val{vals[i]})
				run("mod", m, `{%= v|`+m+`(-3, 0) %}`, []string{"v"}, []c13Val{vals[i]})
				run("mod", m, `{% ctx x = v|`+m+`(2) %}{%= x %}`, []string{"v"}, []c13Val{vals[i]})
				if i < 6 {
					// literal text arguments of degenerate shapes (a lone sign, blanks, a unit without a number …)
					for _, lit := range []string{`"+"`, `"-"`, `" "`, `"+ "`, `"."`, `"-."`, `"e"`, `"1e"`, `"0x"`, `"%"`, `"d"`, `"+d"`, `"1 "`, `" 1"`, `"1  d"`, `"\\"`, `"()"`} {
						run("mod-lit", m, `{%= v|`+m+`(`+lit+`) %}`, []string{"v"}, []c13Val{vals[i]})
					}
				}
				for j := range vals {
					run("mod", m, "{%= v|"+m+"(a) %}", []string{"v", "a"}, []c13Val{vals[i], vals[j]})
				}
			}
			for k := 0; k < r.N(150, 3000); k++ {
				a, b, c := pick(r, vals), pick(r, vals), pick(r, vals)
				run("mod", m, "{%= v|"+m+"(a, b) %}", []string{"v", "a", "b"}, []c13Val{a, b, c})
				run("mod", m, "{%= "+m+"(a, b) %}", []string{"a", "b"}, []c13Val{b, c})
			}
		}
		// integer arguments at and around every size boundary (tables of precomputed powers, digit counts, bit widths),
		// on a non-integral float, an integer and a string
		piV := c13Val{"float-3.14159", 3.14159}
		intV := c13Val{"int-12345", 12345}
		strV := c13Val{"str-a<b", "a<b"}
		ks := []int{}
		for k := 0; k <= 40; k++ {
			ks = append(ks, k)
		}
		ks = append(ks, 63, 64, 65, 127, 128, 129, 255, 256, 257, 307, 308, 309, 310, 1000, -1, -16, -17, -308, -309)
		for _, m := range c13Mods {
			if hanging[m] {
				continue
			}
			for _, k := range ks {
				if k > 12 && escFamily[m] {
					continue // repeat counts: the output doubles with every pass over an escaped byte, as asked for
				}
				for _, v := range []c13Val{piV, intV, strV} {
					run("mod-arg", m, fmt.Sprintf("{%%= v|%s(%d) %%}", m, k), []string{"v"}, []c13Val{v})
				}
			}
		}
		for k := 0; k <= 40; k++ {
			run("node", "tpl", fmt.Sprintf("{%%f.%d= v %%}{%%F.%d= v %%}", k, k), []string{"v"}, []c13Val{piV})
		}
		// loop headers in odd spellings: Parse may reject them; what it accepts must end
		for _, hdr := range []string{"i+-", "i-+", "i+++", "i++-", "i+ +", "+i+", "i**", "i+=1", "i=i+1", "++i", "i", "", "i---", "i--+", "--i"} {
			// (the bound is chosen so that the loop ends if the step is read as the sign it starts with)
			conds := []string{"i<3", "i < 3", "i!=3"}
			if strings.Contains(hdr, "--") {
				conds = []string{"i>-3", "i != -3"}
			}
			for _, cond := range conds {
				run("node", "loop-step", "{% for i:=0; "+cond+"; "+hdr+" %}{% if i == 999 %}x{% endif %}{% endfor %}|", []string{"v"}, []c13Val{intV})
			}
		}
		// the if-ok helper registered by the library itself (init.go), with every value as its argument — nil and typed
		// nil pointers at both levels of the pointer-to-pointer it expects included — and its counter moved below zero
		okVals := append([]c13Val{{"nilpp-finance", (**testobj.TestFinance)(nil)}, {"pp-nil-finance", new(*testobj.TestFinance)}, {"user-no-finance", &testobj.TestObject{}}}, vals...)
		for i := range okVals {
			for _, src := range []string{"{% if h, ok := __testUserNextHistory999(v) as TestHistory; ok %}a{% else %}b{% endif %}", "{% if h, ok := __testUserNextHistory999(v.Finance); ok %}{%= h.Cost %}{% else %}b{% endif %}",
				"{% counter __testUserNextHistory999counter-- %}{% if h, ok := __testUserNextHistory999(v); !ok %}n{% endif %}"} {
				run("hlp-ok", "__testUserNextHistory999", src, []string{"v"}, []c13Val{okVals[i]})
			}
		}
		for _, h := range c13Helpers {
			for i := range vals {
				run("hlp", h, "{% if "+h+"(v) %}T{% endif %}", []string{"v"}, []c13Val{vals[i]})
				run("hlp", h, "{% if "+h+"() %}T{% endif %}", nil, nil)
				run("hlp", h, "{% switch %}{% case "+h+"(v) %}T{% endswitch %}", []string{"v"}, []c13Val{vals[i]})
			}
		}
		for i := range vals {
			for _, src := range []string{"{%= v %}", "{% if v == 1 %}T{% else %}F{% endif %}", `{% if v == "a" %}T{% endif %}`, "{% if len(v) > 1 %}T{% endif %}", "{% if cap(v.x) > 1 %}T{% endif %}",
				"{% for i := 0; i < v; i++ %}x{% endfor %}", "{% for i := v; i < 3; i++ %}x{% endfor %}",
				// empty bodies, empty else parts, zero iterations
				"{% for i := 0; i < v; i++ %}{% endfor %}|", "{% for i := 7; i < v; i++ %}{% endfor %}|{% for i := 0; i < 0; i++ %}{% else %}{% endfor %}|", "{% for _, x := range v %}{% endfor %}|{% for _, x := range v %}{% else %}{% endfor %}|",
				"{% if v == 1 %}{% endif %}{% if v == 1 %}{% else %}{% endif %}{% switch v %}{% endswitch %}{% switch v %}{% case 1 %}{% default %}{% endswitch %}{% switch %}{% endswitch %}|", "{% for k, x := range v %}{%= k %}{%= x %}{% endfor %}", "{% for _, x := range v.a.b %}{%= x %}{% endfor %}",
				"{% switch v %}{% case 1 %}a{% case \"b\" %}b{% default %}d{% endswitch %}", "{% ctx x = v %}{%= x %}", "{% ctx x, ok = v.a %}{%= ok %}", "{% counter v++ %}{%= v %}", "{% counter c = 1 %}{% counter c+5 %}{%= c %}",
				"{%= v.a.b.c %}", "{%= v[v] %}", "{% for i := 0; i < 2; i++ %}{%= v[i] %}{%= v[v] %}{%= v[nope].x %}{% endfor %}", "{%j= v %}{%hh= v %}{%f.2= v %}{%F.3= v %}{%qq= v %}",
				// len() / cap() / helpers with an EMPTY argument list in every place a condition can stand
				"{%= len() ? v : v %}|{%= cap( ) ? v : v %}|{%= len(,) ? v : v %}", "{%= lenEq0() ? v : v %}{%= nosuchhelper() ? v : v %}", "{% if len() == 0 %}x{% endif %}{% if cap() > 1 %}y{% endif %}",
				"{% for i := 0; i < 2; i++ %}{% break if len() > 0 %}{% continue if cap( ) == 0 %}{% lazybreak if len(,) >= 0 %}{% endfor %}", "{% switch %}{% case len() %}a{% case lenGt0() %}b{% endswitch %}",
				// an if-ok tag WITHOUT a type for its new variable, and reads of that variable in both branches
				"{% if x, ok := vok(v); ok %}{%= x %}{%= x.a %}{% if x == 1 %}e{% endif %}{% else %}[{%= x %}]{% endif %}", "{% if x, ok := vok(v); !ok %}{%= x.a.b %}{% else %}{%= x %}{% switch x %}{% case 1 %}o{% endswitch %}{% endif %}",
				"{% if x, ok := vokmaybe(v); ok %}{% for _, e := range x %}{%= e %}{% endfor %}{%= x|default(1) %}{% endif %}{%= x %}", "{% if x, ok := nosuchhelper(v); ok %}{%= x %}{% else %}{%= x %}{% endif %}",
				// the same name assigned again and again (ctx tag twice, in a loop, from a sub-path)
				"{% ctx m = v %}{% ctx m = v %}{%= m %}", "{% for i := 0; i < 3; i++ %}{% ctx m = v %}{% ctx n = v.k %}{% endfor %}z", "{% ctx m = v.k %}{% ctx m = v.k %}{% ctx m = v %}z",
				// square brackets in odd places (the [i] substitution slices the path between them)
				"{% for i := 0; i < 2; i++ %}{%= v]x[i %}{%= v[ %}{%= v] %}{%= v[][i] %}{%= [i]v %}{%= v[i %}{% endfor %}",
				"{% for i := 0; i < 2; i++ %}{%= v|default(v][i) %}{% if v]a[i == 1 %}x{% endif %}{% ctx x = v][ %}{% endfor %}",
				"{%= v == 1 ? v : v %}", "{% if lenEq0(v) %}e{% endif %}", "{% if nosuchhelper(v) %}e{% endif %}", "{% break %}", "{% continue %}", "{% lazybreak 3 %}", "{% for _, x := range v %}{% break 9 %}{% endfor %}"} {
				if (strings.Contains(src, "i < v") && vals[i].Name == "maxint64") || (strings.Contains(src, "i := v") && vals[i].Name == "minint64") {
					continue // a loop of 9e18 iterations is what the template asks for, not a hang inside dyntpl
				}
				run("node", "tpl", src, []string{"v"}, []c13Val{vals[i]})
			}
		}
		// a map[string]any whose values are maps and slices themselves (the built-in map inspector hands the raw values
		// on): ranged over, assigned to the same name repeatedly, bound twice by the caller
		{
			data := map[string]any{"users": map[string]any{"a": 1, "b": 2}, "tags": map[string]any{"x": "y"}, "list": []any{1, "two"}, "more": map[string]any{"n": map[string]any{"d": 1}}, "s": []string{"p"}, "t": []string{"q"}}
			for _, src := range []string{"{% for k, x := range data %}{%= k %}{% endfor %}", "{% for _, x := range data %}{% for _, y := range x %}.{% endfor %}{% endfor %}|", "{% ctx m = data.users %}{% ctx m = data.tags %}z",
				"{% for i := 0; i < 3; i++ %}{% ctx us = data.users %}{% ctx us = data.more.n %}{%= i %}{% endfor %}", "{% ctx l = data.list %}{% ctx l = data.list %}{% ctx l = data.s %}{% ctx l = data.t %}z",
				"{% for _, x := range data.more %}{% for _, y := range data.more %}{%= y.d %}{% endfor %}{% endfor %}"} {
				key, err, pan := regTpl(src, true)
				sig := "map-of-maps tpl=" + src
				r.Count(sig, true)
				r.Dist["map-of-maps"]++
				if err != nil || pan != "" {
					if pan != "" && panicInRepo(pan) {
						r.Violate(sig+" parse-panic", "Parse panicked", map[string]any{"template": src, "panic": pan})
					}
					continue
				}
				for twice := 0; twice < 2; twice++ {
					ctx := dyntpl.NewCtx()
					setPanic := ""
					func() {
						defer func() {
							if x := recover(); x != nil {
								setPanic = fmt.Sprintf("%v\n%s", x, trimStack(stack()))
							}
						}()
						ctx.Set("data", data, inspector.StringAnyMapInspector{})
						if twice == 1 {
							ctx.Set("data", data, inspector.StringAnyMapInspector{})
							ctx.SetStatic("data2", data)
							ctx.SetStatic("data2", data)
						}
					}()
					if setPanic != "" {
						if panicInRepo(setPanic) {
							r.Violate(sig+" site="+panicSite(setPanic)+" set-panic "+firstLine(setPanic), "binding a map to the context a second time panicked inside dyntpl: "+firstLine(setPanic),
								map[string]any{"data": "map[string]any of maps and slices, inspector StringAnyMapInspector", "calls": "ctx.Set(data) ; ctx.Set(data) ; ctx.SetStatic(data2) ; ctx.SetStatic(data2)", "panic": setPanic})
						}
						break
					}
					for round := 0; round < 2; round++ { // the second render on the same context, without Reset
						res := renderWatch(key, ctx, 1500*time.Millisecond)
						if res.Timeout {
							r.Violate(sig+" timeout", "render did not return within 1.5 s", map[string]any{"template": src})
							break
						}
						if res.Panic != "" && panicInRepo(res.Panic) {
							r.Violate(sig+" site="+panicSite(res.Panic)+" panic "+firstLine(res.Panic), "render panicked inside dyntpl: "+firstLine(res.Panic),
								map[string]any{"template": src, "data": "map[string]any of maps and slices, inspector StringAnyMapInspector", "bound_twice": twice == 1, "render": round + 1, "panic": res.Panic})
							break
						}
					}
				}
			}
		}
		// sequences of renders on ONE context in which a deferred function, a pool, a modifier or the writer fails and
		// the context is used again — with and without Reset in between: whatever a failed render leaves behind,
		// the next one must not crash on it
		seqT := []string{"{%= v|vdeferfail() %}x", "{%= v|vdefer(1) %}{%= v|vdeferfail() %}{%= v|vdefer(2) %}y", "{%= v|vdefer(3) %}z", "p{%= v|vfail() %}q", "{%= v|vacquire(4) %}{%= v|vdeferfail() %}",
			"{% for i := 0; i < 2; i++ %}{%= v|vdeferfail() %}{% include seq2 %}{% endfor %}", "{% jsonquote %}{%= v|vdeferfail() %}{% exit %}{% endjsonquote %}",
			// a template that includes itself (the render ends with the depth error), one that includes a missing template,
			// and plain includes after them on the same context
			"a{% include seq7 %}", "<{% include seq3 %}>{% include seq3 %}", "b{% include nosuch13 %}", "{% for i := 0; i < 2; i++ %}c{% include seq7 %}{% endfor %}"}
		okSeq := true
		for i, body := range seqT {
			tree, err, pan := parseSafe([]byte(body), true)
			if err != nil || pan != "" {
				okSeq = false
				break
			}
			dyntpl.RegisterTplKey("seq"+strconv.Itoa(i), tree)
		}
		for a := 0; okSeq && a < len(seqT); a++ {
			for b := 0; b < len(seqT); b++ {
				for mode := 0; mode < 3; mode++ { // 0: no reset, 1: Reset, 2: failing writer on the first render, no reset
					ctx := dyntpl.NewCtx()
					sig := fmt.Sprintf("render-sequence first=%s second=%s mode=%d", seqT[a], seqT[b], mode)
					r.Count(sig, true)
					r.Dist["render-sequence"]++
					pan := ""
					for step, k := range []int{a, b, b} {
						ctx.SetStatic("v", 1)
						var res rendered
						if mode == 2 && step == 0 {
							func() {
								defer func() {
									if x := recover(); x != nil {
										res.Panic = fmt.Sprintf("%v\n%s", x, trimStack(stack()))
									}
								}()
								res.Err = dyntpl.Write(&faultWriter{failAt: 1}, "seq"+strconv.Itoa(k), ctx)
							}()
						} else {
							res = renderSafe("seq"+strconv.Itoa(k), ctx)
						}
						if res.Panic != "" {
							pan = fmt.Sprintf("render #%d: %s", step+1, res.Panic)
							break
						}
						if mode == 1 {
							ctx.Reset()
						}
					}
					if pan != "" && panicInRepo(pan) {
						r.Violate(sig+" site="+panicSite(pan)+" panic", "a render on a context that an earlier render left with a failed deferred function / error panicked: "+firstLine(pan),
							map[string]any{"first": seqT[a], "second": seqT[b], "mode": []string{"no reset", "Reset between renders", "first render on a failing writer"}[mode], "panic": pan})
					}
				}
			}
		}
		// templates that include each other (a cycle of two and of three): must end with an error as well
		// (every template of the cycle calls the harness modifier vcount, which panics — recoverably — after 3000 calls:
		// a legitimate render cannot nest deeper than the include limit, and an unbounded recursion would otherwise
		// end in a fatal stack overflow of the whole process)
		for _, cyc := range [][]string{{"x{%= v|vcount() %}{% include cycB %}", "y{%= v|vcount() %}{% include cycA %}"},
			{"{%= v|vcount() %}{% include cycB %}", "{% for i := 0; i < 1; i++ %}{%= v|vcount() %}{% include cycC %}{% endfor %}", "z{%= v|vcount() %}{% . cycA %}"}} {
			c13VCount = 0
			okc := true
			for i, body := range cyc {
				tree, err, pan := parseSafe([]byte(body), true)
				if err != nil || pan != "" {
					okc = false
					break
				}
				dyntpl.RegisterTplKey("cyc"+string(rune('A'+i)), tree)
			}
			if !okc {
				continue
			}
			ctx := dyntpl.NewCtx()
			ctx.SetStatic("v", 1)
			res := renderWatch("cycA", ctx, 5*time.Second)
			sig := "include-cycle tpl=" + strings.Join(cyc, " | ")
			r.Count(sig, true)
			if res.Timeout || res.Panic != "" || res.Err == nil {
				r.Violate(sig+" "+res.ErrStr(), "templates including each other do not end with an error", map[string]any{"templates": cyc, "result": res.ErrStr(), "panic": res.Panic})
			}
			r.Dist["include-cycle:"+res.ErrStr()]++
		}
		// self-including templates: must end with an error, not exhaust the stack
		for _, body := range []string{"a{%= v|vcount() %}{% include selfinc %}b", "{% for i := 0; i < 2; i++ %}{%= v|vcount() %}{% include selfinc %}{% endfor %}", "{%= v|vcount() %}{% if v == 1 %}{% . selfinc %}{% endif %}"} {
			c13VCount = 0
			tree, err, pan := parseSafe([]byte(body), true)
			if err == nil && pan == "" {
				dyntpl.RegisterTplKey("selfinc", tree)
				ctx := dyntpl.NewCtx()
				ctx.SetStatic("v", 1)
				res := renderWatch("selfinc", ctx, 5*time.Second)
				sig := "selfinclude tpl=" + body
				r.Count(sig, true)
				if res.Timeout || res.Panic != "" {
					r.Violate(sig+" "+res.ErrStr(), "a self-including template does not end with an error", map[string]any{"template": body, "result": res.ErrStr(), "panic": res.Panic})
				}
				r.Dist["selfinclude:"+res.ErrStr()]++
			}
		}
		// the fragment of the termination theorems (Props/C13.lean), Go against the model: include graphs with cycles and
		// self-includes, counter loops with literal bounds in both directions (nested, around includes), range loops —
		// the driver runs the model with the PROVED fuel bound of the registry (TermIncl.fuelFor), so a wrong bound shows
		// as `err:outoffuel` against Go's result; the watchdog of the session runner sees a hang on Go's side
		{
			var tcases []*RCase
			mk := func(meta string, tpls ...string) {
				c := &RCase{Meta: map[string]any{"termination-fragment": meta}}
				for i := 0; i+1 < len(tpls); i += 2 {
					c.Tpls = append(c.Tpls, TplDef{Key: tpls[i], Src: tpls[i+1], KeepFmt: true})
				}
				c.Ops = []SOp{{Kind: "strs", Name: "lst", Val: []string{"p", "q", "r"}}, {Kind: "static", Name: "v", Val: int64(1)}}
				for i := 0; i+1 < len(tpls); i += 2 {
					c.Ops = append(c.Ops, SOp{Kind: "render", Key: tpls[i]})
				}
				c.Ops = append(c.Ops, SOp{Kind: "render", Key: tpls[0], FailAt: 3}, SOp{Kind: "render", Key: tpls[0]})
				tcases = append(tcases, c)
				r.Dist["termination-fragment"]++
			}
			mk("self-include", "ts", `a{% include ts %}b`)
			mk("self-include-after-loop", "ts", `{% for _, x := range lst sep , %}{%= x %}{% endfor %}|{% include ts %}`)
			mk("cycle-of-three", "ta", `A{% include tb %}`, "tb", `B{% include tc %}`, "tc", `C{% if v == 1 %}{% include ta %}{% endif %}`)
			mk("fallback-list-cycle", "ta", `A{% include nosuch tb %}`, "tb", `B{% . nosuch ta %}`)
			mk("literal-loops-up-down", "t", `{% for i := 0; i < 3; i++ sep ; %}{% for j := 5; j > 2; j-- %}{%= i %}{%= j %}{% endfor %}{% endfor %}`)
			mk("literal-loops-all-operators", "t", `{% for i := 0; i <= 2; i++ %}a{% endfor %}{% for i := 2; i >= 0; i-- %}b{% endfor %}{% for i := 0; i != 3; i++ %}c{% endfor %}{% for i := 3; i != 0; i-- %}d{% endfor %}`+
				`{% for i := 5; i < 3; i++ %}never{% else %}f{% endfor %}`)
			mk("literal-loop-around-include", "t", `{% for i := 0; i < 4; i++ %}[{% include row %}]{% endfor %}`, "row", `{% for j := 2; j > 0; j-- %}{%= j %}{% endfor %}{% for _, x := range lst %}{%= x %}{% endfor %}`)
			mk("loop-break-exit", "t", `{% for i := 0; i < 50; i++ %}{%= i %}{% if i == 2 %}{% break %}{% endif %}{% endfor %}{% for i := 0; i < 50; i++ %}{% if i == 1 %}{% exit %}{% endif %}x{% endfor %}y`)
			mk("deep-literal-nest", "t", `{% for a := 0; a < 2; a++ %}{% for b := 0; b < 2; b++ %}{% for c := 0; c < 2; c++ %}{% for d := 0; d < 2; d++ %}{% for e := 0; e < 2; e++ %}{%= e %}{% endfor %}{% endfor %}{% endfor %}{% endfor %}{% endfor %}`)
			mk("hundred-iterations", "t", `{% for i := 0; i < 100; i++ sep , %}{%= i %}{% endfor %}`)
			runSessions(r, tcases, outputDiffers)
		}
		// (b) fuzz: repository templates and generated ones against contexts of unexpected kinds
		var corpus []string
		_ = filepath.Walk("/repo/testdata", func(p string, info os.FileInfo, err error) error {
			if err == nil && strings.HasSuffix(p, ".tpl") {
				if b, e := os.ReadFile(p); e == nil {
					corpus = append(corpus, string(b))
				}
			}
			return nil
		})
		r.Dist["corpus_templates"] = len(corpus)
		names := []string{"user", "v", "si", "ss", "lst", "list", "x", "i", "obj", "title", "date", "num", "val", "f", "a", "b", "userName", "valueWithQuotes", "var0", "pi", "now"}
		for k := 0; k < r.N(4000, 150000); k++ {
			var src string
			if len(corpus) > 0 && r.Rng.Intn(3) > 0 {
				src = corpus[r.Rng.Intn(len(corpus))]
				if r.Rng.Intn(2) == 0 {
					b := []byte(src)
					for m := r.Rng.Intn(4); m >= 0 && len(b) > 2; m-- {
						p := r.Rng.Intn(len(b))
						switch r.Rng.Intn(4) {
						case 0:
							b[p] = "{}%=|(),:\"' .[]0aZ"[r.Rng.Intn(18)]
						case 1:
							b = append(b[:p], b[p+1:]...)
						case 2:
							q := r.Rng.Intn(len(b))
							if p > q {
								p, q = q, p
							}
							b = append(append(append([]byte(nil), b[:p]...), b[q:]...), b[p:q]...)
						default:
							b = append(b[:p], append([]byte(pick(r, []string{"{% endif %}", "{% endfor %}", "{%= v|default(", "{% break 2 %}", "[i]", "|math::rad(0)"})), b[p:]...)...)
						}
					}
					src = string(b)
				}
			} else {
				c, _ := genCase(r, GenCfg{MaxDepth: 3, MaxNodes: 14, Loops: true, Ctl: true, BreakN: true, LazyBreak: true, Switch: true, Ternary: true, CtxSet: true, Counter: true, Exit: true, Region: true, Mods: true, Letters: true, PreSuf: true, Helpers: true})
				src = c.Tpls[len(c.Tpls)-1].Src
			}
			var ns []string
			var vs []c13Val
			hasCounterLoop := c13ReCLoop.MatchString(src)
			for _, n := range names {
				if r.Rng.Intn(3) > 0 {
					ns = append(ns, n)
					v := pick(r, vals)
					// the kinds the templates were written for, half of the time: loops have elements to iterate
					if r.Rng.Intn(2) == 0 {
						switch n {
						case "user":
							v = c13Val{"user", (UserSpec{Id: "7", Name: "N", HasFinance: true, History: []History{{DateUnix: 1, Cost: 2.5, Comment: "c<1>"}, {DateUnix: 2, Cost: 0, Comment: ""}}}).Build()}
						case "lst", "list":
							v = c13Val{"strs", []string{"a", "b", "c"}}
						}
					}
					// a counter loop bounded by a variable of 9e18 (or ±Inf, 1e308 converted to an integer) runs that
					// many iterations — what the template asks for, not a hang inside dyntpl: not used as data of
					// templates with counter loops
					if hasCounterLoop && (v.Name == "maxint64" || v.Name == "minint64" || v.Name == "maxuint64" || v.Name == "huge" || v.Name == "f1e18" || v.Name == "+Inf" || v.Name == "-Inf" || v.Name == "NaN") {
						v = c13Val{"int7", 7}
					}
					vs = append(vs, v)
				}
			}
			run("fuzz", "tpl", src, ns, vs)
		}
	}
}
