package main

import (
	"fmt"
	"go/ast"
	"go/token"
	"sort"
	"strings"
)

// ---- DbLocks.lean: lock discipline of every function that touches the registry ----

const dbStruct = "db"

type lockFact struct {
	name          string
	first         string // lock | rlock | none | unknown
	release       string // deferUnlock | deferRUnlock | lastUnlock | lastRUnlock | midUnlock | midRUnlock | none | unknown
	outside       bool
	writes        bool
	retInside     bool
	callsLocked   map[string]bool
	callsUnlocked map[string]bool
	why           string // reason for unknown (comment only)
}

type dbShape struct {
	mux  map[string]bool // mutex fields of the struct
	data map[string]bool // every other field
}

func (p *pkgInfo) dbShape() dbShape {
	sh := dbShape{mux: map[string]bool{}, data: map[string]bool{}}
	for name, t := range p.structs[dbStruct] {
		switch baseName(t) {
		case "sync.RWMutex", "sync.Mutex":
			sh.mux[name] = true
		default:
			sh.data[name] = true
		}
	}
	return sh
}

func (p *pkgInfo) isDbExpr(e ast.Expr, en env) bool {
	for _, t := range p.typesOf(e, en) {
		if id, ok := deref(t).(*ast.Ident); ok && id.Name == dbStruct {
			return true
		}
	}
	return false
}

// lockCall recognises X.<mux>.<Lock|RLock|Unlock|RUnlock>() with X of type *db.
func (p *pkgInfo) lockCall(e ast.Expr, en env, sh dbShape) string {
	c, ok := e.(*ast.CallExpr)
	if !ok || len(c.Args) != 0 {
		return ""
	}
	s, ok := c.Fun.(*ast.SelectorExpr)
	if !ok {
		return ""
	}
	m, ok := s.X.(*ast.SelectorExpr)
	if !ok || !sh.mux[m.Sel.Name] || !p.isDbExpr(m.X, en) {
		return ""
	}
	switch s.Sel.Name {
	case "Lock", "RLock", "Unlock", "RUnlock":
		return s.Sel.Name
	}
	return "other:" + s.Sel.Name
}

type stmtFacts struct {
	access, write, ret, lockNested bool
	calls                          []string
}

// dataRoot reports whether the chain X.f / X.f[i] / X.f[i].g ... of e goes through a data field of a *db value.
func (p *pkgInfo) dataRoot(e ast.Expr, en env, sh dbShape) bool {
	for e != nil {
		switch x := e.(type) {
		case *ast.SelectorExpr:
			if sh.data[x.Sel.Name] && p.isDbExpr(x.X, en) {
				return true
			}
			e = x.X
		case *ast.IndexExpr:
			e = x.X
		case *ast.SliceExpr:
			e = x.X
		case *ast.StarExpr:
			e = x.X
		case *ast.ParenExpr:
			e = x.X
		default:
			return false
		}
	}
	return false
}

func (p *pkgInfo) inspectStmt(n ast.Node, en env, sh dbShape) stmtFacts {
	var sf stmtFacts
	ast.Inspect(n, func(n ast.Node) bool {
		switch x := n.(type) {
		case *ast.FuncLit:
			// A closure may run at any time: count its accesses where it is written, its returns not at all.
			inner := p.inspectStmt(x.Body, en, sh)
			sf.access = sf.access || inner.access
			sf.write = sf.write || inner.write
			sf.lockNested = sf.lockNested || inner.lockNested
			sf.calls = append(sf.calls, inner.calls...)
			return false
		case *ast.ReturnStmt:
			sf.ret = true
		case *ast.SelectorExpr:
			if sh.data[x.Sel.Name] && p.isDbExpr(x.X, en) {
				sf.access = true
			}
		case *ast.AssignStmt:
			for _, l := range x.Lhs {
				if p.dataRoot(l, en, sh) {
					sf.write = true
				}
			}
		case *ast.IncDecStmt:
			if p.dataRoot(x.X, en, sh) {
				sf.write = true
			}
		case *ast.RangeStmt:
			if x.Tok == token.ASSIGN {
				if (x.Key != nil && p.dataRoot(x.Key, en, sh)) || (x.Value != nil && p.dataRoot(x.Value, en, sh)) {
					sf.write = true
				}
			}
		case *ast.CallExpr:
			if p.lockCall(x, en, sh) != "" {
				sf.lockNested = true
			}
			if id, ok := x.Fun.(*ast.Ident); ok && len(x.Args) > 0 {
				switch id.Name {
				case "delete", "clear", "copy":
					if p.dataRoot(x.Args[0], en, sh) {
						sf.write = true
					}
				}
			}
			if s, ok := x.Fun.(*ast.SelectorExpr); ok && p.isDbExpr(s.X, en) && p.isDbMethod(s.Sel.Name) {
				sf.calls = append(sf.calls, s.Sel.Name)
			}
		}
		return true
	})
	return sf
}

func (p *pkgInfo) isDbMethod(name string) bool {
	for _, f := range p.byName[name] {
		if f.recv == dbStruct {
			return true
		}
	}
	return false
}

func (p *pkgInfo) analyseLocks(f *fn, sh dbShape) (lockFact, bool) {
	lf := lockFact{name: f.name, first: "none", release: "none", callsLocked: map[string]bool{}, callsUnlocked: map[string]bool{}}
	if f.recv != dbStruct {
		lf.name = "func " + f.qual()
	}
	if f.decl.Body == nil {
		return lf, f.recv == dbStruct
	}
	en := p.paramEnv(f)
	p.bindLocals(f.decl.Body, en)

	unknown := func(why string) {
		lf.first, lf.release = "unknown", "unknown"
		if lf.why == "" {
			lf.why = why
		}
	}
	held := "" // "", "Lock", "RLock"
	deferred := false
	released := false
	touches := false
	stmts := f.decl.Body.List
	for i, st := range stmts {
		// top-level lock / unlock / defer unlock
		if es, ok := st.(*ast.ExprStmt); ok {
			switch k := p.lockCall(es.X, en, sh); k {
			case "Lock", "RLock":
				touches = true
				if lf.first != "none" || held != "" || released {
					unknown("more than one lock call")
					continue
				}
				held = k
				if k == "Lock" {
					lf.first = "lock"
				} else {
					lf.first = "rlock"
				}
				continue
			case "Unlock", "RUnlock":
				touches = true
				if held == "" || deferred {
					unknown("unlock without a lock held (or after a deferred unlock)")
					continue
				}
				rest := stmts[i+1:]
				last := len(rest) == 0
				if len(rest) == 1 {
					if r, ok := rest[0].(*ast.ReturnStmt); ok && len(r.Results) == 0 {
						last = true
					}
				}
				pos := "mid"
				if last {
					pos = "last"
				}
				if lf.first != "unknown" {
					lf.release = pos + k
				}
				held = ""
				released = true
				continue
			case "":
			default:
				touches = true
				unknown("unrecognised mutex call " + k)
				continue
			}
		}
		if ds, ok := st.(*ast.DeferStmt); ok {
			if k := p.lockCall(ds.Call, en, sh); k != "" {
				touches = true
				if (k == "Unlock" || k == "RUnlock") && held != "" && !deferred {
					if lf.first != "unknown" {
						lf.release = "defer" + k
					}
					deferred = true
				} else {
					unknown("deferred mutex call outside a locked span")
				}
				continue
			}
		}
		sf := p.inspectStmt(st, en, sh)
		if sf.lockNested {
			touches = true
			unknown("mutex call nested inside another statement")
		}
		if sf.access {
			touches = true
		}
		if sf.write {
			lf.writes = true
		}
		if held == "" {
			if sf.access {
				lf.outside = true
			}
			for _, c := range sf.calls {
				lf.callsUnlocked[c] = true
			}
		} else {
			if sf.ret && !deferred {
				lf.retInside = true
			}
			for _, c := range sf.calls {
				lf.callsLocked[c] = true
			}
		}
	}
	if held != "" && !deferred && lf.first != "unknown" {
		lf.release = "none"
	}
	return lf, touches || f.recv == dbStruct
}

func emitDbLocks(p *pkgInfo) string {
	sh := p.dbShape()
	var facts []lockFact
	for _, f := range p.funcs {
		if f.name == "initDB" {
			continue // constructor: the value is not shared yet
		}
		lf, rel := p.analyseLocks(f, sh)
		if rel {
			facts = append(facts, lf)
		}
	}
	sort.SliceStable(facts, func(i, j int) bool {
		fi, fj := strings.HasPrefix(facts[i].name, "func "), strings.HasPrefix(facts[j].name, "func ")
		if fi != fj {
			return !fi
		}
		return facts[i].name < facts[j].name
	})
	// callers of every db method, by name, anywhere in the package
	callers := map[string]map[string]bool{}
	for _, f := range p.funcs {
		if f.decl.Body == nil {
			continue
		}
		who := f.name
		if f.recv != dbStruct {
			who = "func " + f.qual()
		}
		en := p.paramEnv(f)
		p.bindLocals(f.decl.Body, en)
		ast.Inspect(f.decl.Body, func(n ast.Node) bool {
			if c, ok := n.(*ast.CallExpr); ok {
				if s, ok := c.Fun.(*ast.SelectorExpr); ok && p.isDbMethod(s.Sel.Name) &&
					(p.isDbExpr(s.X, en) || len(p.typesOf(s.X, en)) == 0) {
					if callers[s.Sel.Name] == nil {
						callers[s.Sel.Name] = map[string]bool{}
					}
					callers[s.Sel.Name][who] = true
				}
			}
			return true
		})
	}

	var b strings.Builder
	b.WriteString("import DyntplV.Conc.Facts\n")
	b.WriteString("/-! GENERATED by /verif/extract from /repo (db.go and every function touching the registry). Do not edit. -/\n")
	b.WriteString("namespace DyntplV.Generated\nopen DyntplV.Conc\n\n")
	fmt.Fprintf(&b, "/-- fields of `type %s struct`: mutexes -/\ndef dbMutexFields : List String := %s\n", dbStruct, leanStrList(sortedSet(sh.mux)))
	fmt.Fprintf(&b, "/-- fields of `type %s struct`: guarded data -/\ndef dbDataFields : List String := %s\n\n", dbStruct, leanStrList(sortedSet(sh.data)))
	emit := func(name, doc string, sel func(lockFact) bool) {
		var l []lockFact
		for _, lf := range facts {
			if sel(lf) {
				l = append(l, lf)
			}
		}
		fmt.Fprintf(&b, "/-- %s -/\ndef %s : List (String × LockFact) := [\n", doc, name)
		for i, lf := range l {
			if lf.why != "" {
				fmt.Fprintf(&b, "  -- %s: %s\n", lf.name, lf.why)
			}
			fmt.Fprintf(&b, "  (%s, { first := .%s, release := .%s, outside := %s, writes := %s, retInside := %s, callsLocked := %s, callsUnlocked := %s })",
				leanStr(lf.name), lf.first, lf.release, leanBool(lf.outside), leanBool(lf.writes), leanBool(lf.retInside),
				leanStrList(sortedSet(lf.callsLocked)), leanStrList(sortedSet(lf.callsUnlocked)))
			if i+1 < len(l) {
				b.WriteString(",")
			}
			b.WriteString("\n")
		}
		b.WriteString("]\n\n")
	}
	isFunc := func(lf lockFact) bool { return strings.HasPrefix(lf.name, "func ") }
	emit("dbLocks", "methods of the registry (`func (db *db) …`), by bare name", func(lf lockFact) bool { return !isFunc(lf) })
	emit("dbFuncLocks", "other functions of the package that use the registry's mutex or data fields directly", isFunc)
	b.WriteString("/-- for every method of the registry: who calls a method of that name (registry methods by bare name, others as `func …`) -/\n")
	b.WriteString("def dbCallers : List (String × List String) := [\n")
	var ms []string
	for _, f := range p.funcs {
		if f.recv == dbStruct {
			ms = append(ms, f.name)
		}
	}
	sort.Strings(ms)
	for i, m := range ms {
		fmt.Fprintf(&b, "  (%s, %s)", leanStr(m), leanStrList(sortedSet(callers[m])))
		if i+1 < len(ms) {
			b.WriteString(",")
		}
		b.WriteString("\n")
	}
	b.WriteString("]\n\nend DyntplV.Generated\n")
	return b.String()
}
