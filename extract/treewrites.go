package main

import (
	"fmt"
	"go/ast"
	"go/token"
	"regexp"
	"sort"
	"strings"
)

// ---- TreeWrites.lean: writes through tree-typed values on the render path ----

// The types a parsed template is made of.
var treeTypes = map[string]bool{"Tpl": true, "Tree": true, "node": true, "mod": true, "arg": true}

// Roots of the render path (by bare name) ...
var renderRoots = []string{"write", "writeTree", "writeNode"}

// ... plus everything that is called back dynamically while a template is rendered:
// methods of these receivers, and every function that takes a value of these types.
var renderRecv = map[string]bool{"Ctx": true, "RangeLoop": true}

// Methods (of types outside the package) that change their receiver.
var mutatingMethod = regexp.MustCompile(`^(Reset|Write|Set|Append|Grow|Truncate|Store|Add|Swap|CompareAndSwap|Put|Delete|Clear|Push|Pop|Insert|Remove|Sort|Reverse|Fill|Lock|Unlock|ReadFrom|UnreadByte|Next)`)

func isTreeType(t ast.Expr) bool { return treeTypes[baseName(t)] }

type twFunc struct {
	f        *fn
	en       env
	tainted  map[string]bool // locals / params bound to memory reachable from a tree
	paramIdx map[string]int  // parameter name -> position (receiver = -1)
	params   []string        // parameter names by position
	recvName string
}

type twState struct {
	p     *pkgInfo
	funcs map[*fn]*twFunc
}

func (s *twState) get(f *fn) *twFunc {
	if tf, ok := s.funcs[f]; ok {
		return tf
	}
	tf := &twFunc{f: f, en: s.p.paramEnv(f), tainted: map[string]bool{}, paramIdx: map[string]int{}}
	if f.decl.Recv != nil && len(f.decl.Recv.List) > 0 && len(f.decl.Recv.List[0].Names) > 0 {
		tf.recvName = f.decl.Recv.List[0].Names[0].Name
		tf.paramIdx[tf.recvName] = -1
	}
	if f.decl.Type.Params != nil {
		for _, fd := range f.decl.Type.Params.List {
			if len(fd.Names) == 0 {
				tf.params = append(tf.params, "_")
			}
			for _, nm := range fd.Names {
				tf.paramIdx[nm.Name] = len(tf.params)
				tf.params = append(tf.params, nm.Name)
			}
		}
	}
	s.p.bindLocals(f.decl.Body, tf.en)
	s.funcs[f] = tf
	return tf
}

func (tf *twFunc) hasTreeType(p *pkgInfo, e ast.Expr) bool {
	for _, t := range p.typesOf(e, tf.en) {
		if isTreeType(t) {
			return true
		}
	}
	return false
}

func (tf *twFunc) isScalar(p *pkgInfo, e ast.Expr) bool {
	ts := p.typesOf(e, tf.en)
	if len(ts) == 0 {
		return false
	}
	for _, t := range ts {
		if !p.scalar(t) {
			return false
		}
	}
	return true
}

// rooted: the expression denotes (or aliases) memory that belongs to a parsed template.
func (tf *twFunc) rooted(p *pkgInfo, e ast.Expr) bool {
	switch x := e.(type) {
	case *ast.Ident:
		return tf.tainted[x.Name] || tf.hasTreeType(p, x)
	case *ast.SelectorExpr:
		return tf.rooted(p, x.X) || tf.hasTreeType(p, x)
	case *ast.IndexExpr:
		return tf.rooted(p, x.X) || tf.hasTreeType(p, x)
	case *ast.SliceExpr:
		return tf.rooted(p, x.X)
	case *ast.StarExpr:
		return tf.rooted(p, x.X)
	case *ast.ParenExpr:
		return tf.rooted(p, x.X)
	case *ast.UnaryExpr:
		return x.Op == token.AND && tf.rooted(p, x.X)
	case *ast.CallExpr:
		if id, ok := x.Fun.(*ast.Ident); ok && id.Name == "append" && len(x.Args) > 0 {
			return tf.rooted(p, x.Args[0])
		}
	}
	return false
}

// aliasing: rooted and not known to be a plain scalar copy.
func (tf *twFunc) aliasing(p *pkgInfo, e ast.Expr) bool {
	return tf.rooted(p, e) && !tf.isScalar(p, e)
}

// writeTarget: e is not a bare local and a proper prefix of its access path is tree memory.
func (tf *twFunc) writeTarget(p *pkgInfo, e ast.Expr) bool {
	var inner ast.Expr
	switch x := e.(type) {
	case *ast.SelectorExpr:
		inner = x.X
	case *ast.IndexExpr:
		inner = x.X
	case *ast.SliceExpr:
		inner = x.X
	case *ast.StarExpr:
		inner = x.X
	case *ast.ParenExpr:
		return tf.writeTarget(p, x.X)
	default:
		return false
	}
	return tf.rooted(p, inner)
}

func (s *twState) callees(c *ast.CallExpr) (fs []*fn, recv ast.Expr) {
	switch f := c.Fun.(type) {
	case *ast.Ident:
		for _, d := range s.p.byName[f.Name] {
			if d.recv == "" {
				fs = append(fs, d)
			}
		}
	case *ast.SelectorExpr:
		for _, d := range s.p.byName[f.Sel.Name] {
			if d.recv != "" {
				fs = append(fs, d)
			}
		}
		recv = f.X
	}
	return
}

func emitTreeWrites(p *pkgInfo) string {
	s := &twState{p: p, funcs: map[*fn]*twFunc{}}

	// 1. reachable set: roots, dynamic entry points, then the call graph by name (calls and function values).
	reach := map[*fn]bool{}
	var work []*fn
	push := func(f *fn) {
		if f.decl.Body != nil && !reach[f] {
			reach[f] = true
			work = append(work, f)
		}
	}
	for _, r := range renderRoots {
		for _, f := range p.byName[r] {
			push(f)
		}
	}
	for _, f := range p.funcs {
		if renderRecv[f.recv] {
			push(f)
			continue
		}
		if f.decl.Type.Params != nil {
			for _, fd := range f.decl.Type.Params.List {
				if renderRecv[baseName(fd.Type)] {
					push(f)
					break
				}
			}
		}
	}
	for len(work) > 0 {
		f := work[len(work)-1]
		work = work[:len(work)-1]
		ast.Inspect(f.decl.Body, func(n ast.Node) bool {
			switch x := n.(type) {
			case *ast.Ident:
				for _, d := range p.byName[x.Name] {
					if d.recv == "" {
						push(d)
					}
				}
			case *ast.SelectorExpr:
				for _, d := range p.byName[x.Sel.Name] {
					if d.recv != "" {
						push(d)
					}
				}
			}
			return true
		})
	}
	var rl []*fn
	for _, f := range p.funcs {
		if reach[f] {
			rl = append(rl, f)
		}
	}

	// 2. taint: locals bound to tree memory; parameters that receive tree memory at some call site. Fixpoint.
	for round := 0; round < 12; round++ {
		changed := false
		mark := func(tf *twFunc, name string) {
			if name != "_" && name != "" && !tf.tainted[name] {
				tf.tainted[name] = true
				changed = true
			}
		}
		for _, f := range rl {
			tf := s.get(f)
			ast.Inspect(f.decl.Body, func(n ast.Node) bool {
				switch x := n.(type) {
				case *ast.AssignStmt:
					if len(x.Lhs) == len(x.Rhs) {
						for i, l := range x.Lhs {
							if id, ok := l.(*ast.Ident); ok && tf.aliasing(p, x.Rhs[i]) {
								mark(tf, id.Name)
							}
						}
					} else if len(x.Rhs) == 1 {
						if id, ok := x.Lhs[0].(*ast.Ident); ok {
							if _, isIdx := x.Rhs[0].(*ast.IndexExpr); isIdx && tf.aliasing(p, x.Rhs[0]) {
								mark(tf, id.Name)
							}
						}
					}
				case *ast.ValueSpec:
					if len(x.Values) == len(x.Names) {
						for i, nm := range x.Names {
							if tf.aliasing(p, x.Values[i]) {
								mark(tf, nm.Name)
							}
						}
					}
				case *ast.RangeStmt:
					if id, ok := x.Value.(*ast.Ident); ok && tf.rooted(p, x.X) {
						// element copy: still aliases whatever the element points to
						scal := false
						for _, xt := range p.typesOf(x.X, tf.en) {
							if et := elemType(xt); et != nil && p.scalar(et) {
								scal = true
							}
						}
						if !scal {
							mark(tf, id.Name)
						}
					}
				case *ast.CallExpr:
					fs, recv := s.callees(x)
					for _, d := range fs {
						if !reach[d] {
							continue
						}
						ctf := s.get(d)
						if recv != nil && ctf.recvName != "" && tf.aliasing(p, recv) {
							mark(ctf, ctf.recvName)
						}
						for i, a := range x.Args {
							if tf.aliasing(p, a) {
								j := i
								if j >= len(ctf.params) {
									j = len(ctf.params) - 1 // variadic tail
								}
								if j >= 0 {
									mark(ctf, ctf.params[j])
								}
							}
						}
					}
				}
				return true
			})
		}
		if !changed {
			break
		}
	}

	// 3. report.
	var writes, escapes []string
	for _, f := range rl {
		tf := s.get(f)
		at := func(n ast.Node, what string) string {
			return fmt.Sprintf("%s: %s in %s", p.pos(n), what, f.qual())
		}
		ast.Inspect(f.decl.Body, func(n ast.Node) bool {
			switch x := n.(type) {
			case *ast.AssignStmt:
				for _, l := range x.Lhs {
					if tf.writeTarget(p, l) {
						writes = append(writes, at(x, exprStr(l)+" "+x.Tok.String()+" ..."))
					}
				}
				if x.Tok != token.DEFINE {
					for i, l := range x.Lhs {
						if _, bare := l.(*ast.Ident); !bare && i < len(x.Rhs) && !tf.writeTarget(p, l) {
							if u, ok := x.Rhs[i].(*ast.UnaryExpr); ok && u.Op == token.AND && tf.rooted(p, u.X) {
								escapes = append(escapes, at(x, exprStr(l)+" = "+exprStr(x.Rhs[i])))
							}
						}
					}
				}
			case *ast.IncDecStmt:
				if tf.writeTarget(p, x.X) {
					writes = append(writes, at(x, exprStr(x.X)+x.Tok.String()))
				}
			case *ast.RangeStmt:
				if x.Tok == token.ASSIGN {
					for _, l := range []ast.Expr{x.Key, x.Value} {
						if l != nil && tf.writeTarget(p, l) {
							writes = append(writes, at(x, "range into "+exprStr(l)))
						}
					}
				}
			case *ast.CallExpr:
				if id, ok := x.Fun.(*ast.Ident); ok && len(x.Args) > 0 {
					switch id.Name {
					case "append":
						if tf.rooted(p, x.Args[0]) {
							writes = append(writes, at(x, exprStr(x)))
						}
					case "delete", "clear", "copy":
						if tf.rooted(p, x.Args[0]) {
							writes = append(writes, at(x, exprStr(x)))
						}
					}
				}
				fs, recv := s.callees(x)
				if recv != nil && len(fs) == 0 && tf.rooted(p, recv) {
					if sel := x.Fun.(*ast.SelectorExpr); mutatingMethod.MatchString(sel.Sel.Name) {
						writes = append(writes, at(x, exprStr(x.Fun)+"(...)"))
					}
				}
				if len(fs) == 0 {
					// the callee is not a function of the package: an address of tree memory handed over
					for _, a := range x.Args {
						if u, ok := a.(*ast.UnaryExpr); ok && u.Op == token.AND && tf.rooted(p, u.X) {
							escapes = append(escapes, at(x, exprStr(x.Fun)+"(... "+exprStr(a)+" ...)"))
						}
					}
				}
			}
			return true
		})
	}
	sort.Strings(writes)
	sort.Strings(escapes)
	var names []string
	for _, f := range rl {
		names = append(names, f.qual())
	}
	sort.Strings(names)

	var b strings.Builder
	b.WriteString("/-! GENERATED by /verif/extract from /repo (render path of package dyntpl). Do not edit. -/\n")
	b.WriteString("namespace DyntplV.Generated\n\n")
	b.WriteString("/-- functions analysed: reachable by name from write / writeTree / writeNode, methods of *Ctx and *RangeLoop,\n    and every function that takes a *Ctx (modifiers, condition helpers, ...) -/\n")
	fmt.Fprintf(&b, "def treeReach : List String := %s\n\n", leanStrListMultiline(names))
	b.WriteString("/-- assignments, increments and decrements, append/copy/delete/clear and calls of mutating methods whose target is memory of a\n    *Tpl / *Tree / node / mod / arg, inside the functions of `treeReach` (\"file:line: what in function\") -/\n")
	fmt.Fprintf(&b, "def treeWrites : List String := %s\n\n", leanStrListMultiline(writes))
	b.WriteString("/-- informational, not used by any theorem: addresses of tree memory stored outside the tree or handed to code\n    outside the package (static modifier arguments are passed to modifier functions by pointer) -/\n")
	fmt.Fprintf(&b, "def treeAddrEscapes : List String := %s\n\n", leanStrListMultiline(escapes))
	b.WriteString("end DyntplV.Generated\n")
	return b.String()
}
