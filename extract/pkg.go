package main

import (
	"fmt"
	"go/ast"
	"go/parser"
	"go/token"
	"os"
	"path/filepath"
	"sort"
	"strings"
)

// fn is one function or method declaration of the package.
type fn struct {
	decl *ast.FuncDecl
	name string // bare name
	recv string // base name of the receiver type ("" for functions)
	file string // base file name
}

// qual is the display name: "Recv.name" or "name".
func (f *fn) qual() string {
	if f.recv != "" {
		return f.recv + "." + f.name
	}
	return f.name
}

type pkgInfo struct {
	fset    *token.FileSet
	structs map[string]map[string]ast.Expr // struct name -> field name -> type
	named   map[string]ast.Expr            // every named type -> its underlying type expression
	byName  map[string][]*fn               // bare name -> declarations (functions and methods of any receiver)
	funcs   []*fn                          // all, sorted by file then position
	globals map[string]ast.Expr            // package-level variable -> type (nil if not derivable)
}

func loadPkg(dir string) (*pkgInfo, error) {
	ents, err := os.ReadDir(dir)
	if err != nil {
		return nil, err
	}
	var names []string
	for _, e := range ents {
		n := e.Name()
		if e.IsDir() || !strings.HasSuffix(n, ".go") || strings.HasSuffix(n, "_test.go") {
			continue
		}
		names = append(names, n)
	}
	sort.Strings(names)
	p := &pkgInfo{fset: token.NewFileSet(), structs: map[string]map[string]ast.Expr{}, named: map[string]ast.Expr{},
		byName: map[string][]*fn{}, globals: map[string]ast.Expr{}}
	var files []*ast.File
	var fnames []string
	for _, n := range names {
		f, err := parser.ParseFile(p.fset, filepath.Join(dir, n), nil, parser.SkipObjectResolution)
		if err != nil {
			return nil, fmt.Errorf("parse %s: %v", n, err)
		}
		if f.Name.Name != "dyntpl" {
			continue
		}
		files = append(files, f)
		fnames = append(fnames, n)
	}
	if len(files) == 0 {
		return nil, fmt.Errorf("no files of package dyntpl in %s", dir)
	}
	// Pass 1: types and functions.
	for i, f := range files {
		for _, d := range f.Decls {
			switch d := d.(type) {
			case *ast.GenDecl:
				if d.Tok != token.TYPE {
					continue
				}
				for _, s := range d.Specs {
					ts := s.(*ast.TypeSpec)
					p.named[ts.Name.Name] = ts.Type
					if st, ok := ts.Type.(*ast.StructType); ok {
						fields := map[string]ast.Expr{}
						for _, fl := range st.Fields.List {
							if len(fl.Names) == 0 {
								// embedded: field name = base type name
								fields[baseName(fl.Type)] = fl.Type
							}
							for _, nm := range fl.Names {
								fields[nm.Name] = fl.Type
							}
						}
						p.structs[ts.Name.Name] = fields
					}
				}
			case *ast.FuncDecl:
				fd := &fn{decl: d, name: d.Name.Name, file: fnames[i]}
				if d.Recv != nil && len(d.Recv.List) > 0 {
					fd.recv = baseName(d.Recv.List[0].Type)
				}
				p.funcs = append(p.funcs, fd)
				p.byName[fd.name] = append(p.byName[fd.name], fd)
			}
		}
	}
	// Pass 2: package-level variables (need function result types).
	for _, f := range files {
		for _, d := range f.Decls {
			gd, ok := d.(*ast.GenDecl)
			if !ok || gd.Tok != token.VAR {
				continue
			}
			for _, s := range gd.Specs {
				vs := s.(*ast.ValueSpec)
				for i, nm := range vs.Names {
					var t ast.Expr
					if vs.Type != nil {
						t = vs.Type
					} else if len(vs.Values) == len(vs.Names) {
						t = p.typeOf(vs.Values[i], nil)
					}
					p.globals[nm.Name] = t
				}
			}
		}
	}
	return p, nil
}

func (p *pkgInfo) pos(n ast.Node) string {
	ps := p.fset.Position(n.Pos())
	return fmt.Sprintf("%s:%d", filepath.Base(ps.Filename), ps.Line)
}

// ---- syntactic types ----

// baseName strips pointers, slices, arrays, parentheses (and takes the value type of a map) and returns the
// identifier that remains ("" if none, e.g. func types; "pkg.Name" for qualified names).
func baseName(t ast.Expr) string {
	for t != nil {
		switch x := t.(type) {
		case *ast.StarExpr:
			t = x.X
		case *ast.ArrayType:
			t = x.Elt
		case *ast.MapType:
			t = x.Value
		case *ast.ParenExpr:
			t = x.X
		case *ast.Ellipsis:
			t = x.Elt
		case *ast.Ident:
			return x.Name
		case *ast.SelectorExpr:
			if id, ok := x.X.(*ast.Ident); ok {
				return id.Name + "." + x.Sel.Name
			}
			return ""
		default:
			return ""
		}
	}
	return ""
}

var basicTypes = map[string]bool{
	"bool": true, "string": true, "int": true, "int8": true, "int16": true, "int32": true, "int64": true,
	"uint": true, "uint8": true, "uint16": true, "uint32": true, "uint64": true, "uintptr": true, "byte": true,
	"rune": true, "float32": true, "float64": true, "complex64": true, "complex128": true, "error": true,
}

// scalar reports whether t is known to be a type whose values cannot alias memory reachable from a tree:
// a basic type or a named type whose underlying type is basic (rtype, op, lc, ...).
func (p *pkgInfo) scalar(t ast.Expr) bool {
	for i := 0; i < 8 && t != nil; i++ {
		id, ok := t.(*ast.Ident)
		if !ok {
			return false
		}
		if basicTypes[id.Name] {
			return true
		}
		u, ok := p.named[id.Name]
		if !ok {
			return false
		}
		t = u
	}
	return false
}

// env maps local names to every type they are bound to anywhere in the function (flow-insensitive).
type env map[string][]ast.Expr

func (e env) add(name string, t ast.Expr) bool {
	if name == "_" || t == nil {
		return false
	}
	s := typeStr(t)
	for _, o := range e[name] {
		if typeStr(o) == s {
			return false
		}
	}
	e[name] = append(e[name], t)
	return true
}

func typeStr(t ast.Expr) string {
	switch x := t.(type) {
	case nil:
		return "?"
	case *ast.Ident:
		return x.Name
	case *ast.StarExpr:
		return "*" + typeStr(x.X)
	case *ast.ArrayType:
		return "[]" + typeStr(x.Elt)
	case *ast.MapType:
		return "map[" + typeStr(x.Key) + "]" + typeStr(x.Value)
	case *ast.SelectorExpr:
		return typeStr(x.X) + "." + x.Sel.Name
	case *ast.ParenExpr:
		return typeStr(x.X)
	case *ast.Ellipsis:
		return "[]" + typeStr(x.Elt)
	case *ast.InterfaceType:
		return "interface"
	case *ast.FuncType:
		return "func"
	}
	return fmt.Sprintf("%T", t)
}

func deref(t ast.Expr) ast.Expr {
	for {
		switch x := t.(type) {
		case *ast.StarExpr:
			t = x.X
		case *ast.ParenExpr:
			t = x.X
		default:
			return t
		}
	}
}

func elemType(t ast.Expr) ast.Expr {
	switch x := deref(t).(type) {
	case *ast.ArrayType:
		return x.Elt
	case *ast.MapType:
		return x.Value
	case *ast.Ellipsis:
		return x.Elt
	}
	return nil
}

// typesOf returns every syntactically derivable type of e (usually zero or one).
func (p *pkgInfo) typesOf(e ast.Expr, en env) []ast.Expr {
	switch x := e.(type) {
	case *ast.Ident:
		if en != nil {
			if ts, ok := en[x.Name]; ok {
				return ts
			}
		}
		if t, ok := p.globals[x.Name]; ok && t != nil {
			return []ast.Expr{t}
		}
		return nil
	case *ast.ParenExpr:
		return p.typesOf(x.X, en)
	case *ast.SelectorExpr:
		var out []ast.Expr
		xs := p.typesOf(x.X, en)
		known := false
		for _, xt := range xs {
			if id, ok := deref(xt).(*ast.Ident); ok {
				if fields, ok := p.structs[id.Name]; ok {
					known = true
					if ft, ok := fields[x.Sel.Name]; ok {
						out = append(out, ft)
					}
				}
			}
		}
		if !known {
			// Receiver type unknown: fall back to the field name (conservative: every struct that has it).
			for _, sn := range sortedKeys(p.structs) {
				if ft, ok := p.structs[sn][x.Sel.Name]; ok {
					out = append(out, ft)
				}
			}
		}
		return out
	case *ast.IndexExpr:
		var out []ast.Expr
		for _, xt := range p.typesOf(x.X, en) {
			if et := elemType(xt); et != nil {
				out = append(out, et)
			}
		}
		return out
	case *ast.SliceExpr:
		return p.typesOf(x.X, en)
	case *ast.StarExpr:
		var out []ast.Expr
		for _, xt := range p.typesOf(x.X, en) {
			if st, ok := xt.(*ast.StarExpr); ok {
				out = append(out, st.X)
			}
		}
		return out
	case *ast.UnaryExpr:
		if x.Op == token.AND {
			var out []ast.Expr
			for _, xt := range p.typesOf(x.X, en) {
				out = append(out, &ast.StarExpr{X: xt})
			}
			return out
		}
		return nil
	case *ast.CompositeLit:
		if x.Type != nil {
			return []ast.Expr{x.Type}
		}
		return nil
	case *ast.TypeAssertExpr:
		if x.Type != nil {
			return []ast.Expr{x.Type}
		}
		return nil
	case *ast.CallExpr:
		switch f := x.Fun.(type) {
		case *ast.Ident:
			if f.Name == "append" && len(x.Args) > 0 {
				return p.typesOf(x.Args[0], en)
			}
			if f.Name == "make" || f.Name == "new" {
				if len(x.Args) > 0 {
					if f.Name == "new" {
						return []ast.Expr{&ast.StarExpr{X: x.Args[0]}}
					}
					return []ast.Expr{x.Args[0]}
				}
				return nil
			}
			return p.resultTypes(f.Name, false)
		case *ast.SelectorExpr:
			return p.resultTypes(f.Sel.Name, true)
		}
		return nil
	}
	return nil
}

func (p *pkgInfo) typeOf(e ast.Expr, en env) ast.Expr {
	ts := p.typesOf(e, en)
	if len(ts) > 0 {
		return ts[0]
	}
	return nil
}

// resultTypes: single-result type of every package function (method = true: method) of that name.
func (p *pkgInfo) resultTypes(name string, method bool) []ast.Expr {
	var out []ast.Expr
	for _, f := range p.byName[name] {
		if (f.recv != "") != method {
			continue
		}
		r := f.decl.Type.Results
		if r == nil || len(r.List) != 1 || len(r.List[0].Names) > 1 {
			continue
		}
		out = append(out, r.List[0].Type)
	}
	return out
}

func sortedKeys(m map[string]map[string]ast.Expr) []string {
	l := make([]string, 0, len(m))
	for k := range m {
		l = append(l, k)
	}
	sort.Strings(l)
	return l
}

// paramEnv binds receiver, parameters and named results.
func (p *pkgInfo) paramEnv(f *fn) env {
	en := env{}
	add := func(fl *ast.FieldList) {
		if fl == nil {
			return
		}
		for _, fd := range fl.List {
			for _, nm := range fd.Names {
				t := fd.Type
				if el, ok := t.(*ast.Ellipsis); ok {
					t = &ast.ArrayType{Elt: el.Elt}
				}
				en.add(nm.Name, t)
			}
		}
	}
	add(f.decl.Recv)
	add(f.decl.Type.Params)
	add(f.decl.Type.Results)
	return en
}

// bindLocals adds every local binding of the body to en (:=, =, var, range), to a fixpoint.
func (p *pkgInfo) bindLocals(body *ast.BlockStmt, en env) {
	if body == nil {
		return
	}
	for round := 0; round < 6; round++ {
		changed := false
		ast.Inspect(body, func(n ast.Node) bool {
			switch s := n.(type) {
			case *ast.AssignStmt:
				if len(s.Lhs) == len(s.Rhs) {
					for i, l := range s.Lhs {
						if id, ok := l.(*ast.Ident); ok {
							for _, t := range p.typesOf(s.Rhs[i], en) {
								changed = en.add(id.Name, t) || changed
							}
						}
					}
				} else if len(s.Rhs) == 1 && len(s.Lhs) == 2 {
					// v, ok := m[k] / x.(T) ; other multi-value forms are not typed.
					if id, ok := s.Lhs[0].(*ast.Ident); ok {
						switch r := s.Rhs[0].(type) {
						case *ast.IndexExpr, *ast.TypeAssertExpr:
							for _, t := range p.typesOf(r, en) {
								changed = en.add(id.Name, t) || changed
							}
						}
					}
				}
			case *ast.ValueSpec:
				for i, nm := range s.Names {
					if s.Type != nil {
						changed = en.add(nm.Name, s.Type) || changed
					} else if len(s.Values) == len(s.Names) {
						for _, t := range p.typesOf(s.Values[i], en) {
							changed = en.add(nm.Name, t) || changed
						}
					}
				}
			case *ast.RangeStmt:
				if id, ok := s.Value.(*ast.Ident); ok {
					for _, xt := range p.typesOf(s.X, en) {
						if et := elemType(xt); et != nil {
							changed = en.add(id.Name, et) || changed
						}
					}
				}
			}
			return true
		})
		if !changed {
			break
		}
	}
}

// exprStr renders an expression compactly (for messages).
func exprStr(e ast.Expr) string {
	switch x := e.(type) {
	case nil:
		return ""
	case *ast.Ident:
		return x.Name
	case *ast.BasicLit:
		return x.Value
	case *ast.SelectorExpr:
		return exprStr(x.X) + "." + x.Sel.Name
	case *ast.IndexExpr:
		return exprStr(x.X) + "[" + exprStr(x.Index) + "]"
	case *ast.SliceExpr:
		return exprStr(x.X) + "[" + exprStr(x.Low) + ":" + exprStr(x.High) + "]"
	case *ast.StarExpr:
		return "*" + exprStr(x.X)
	case *ast.ParenExpr:
		return "(" + exprStr(x.X) + ")"
	case *ast.UnaryExpr:
		return x.Op.String() + exprStr(x.X)
	case *ast.BinaryExpr:
		return exprStr(x.X) + x.Op.String() + exprStr(x.Y)
	case *ast.CallExpr:
		as := make([]string, len(x.Args))
		for i, a := range x.Args {
			as[i] = exprStr(a)
		}
		return exprStr(x.Fun) + "(" + strings.Join(as, ", ") + ")"
	case *ast.CompositeLit:
		return typeStr(x.Type) + "{...}"
	case *ast.TypeAssertExpr:
		return exprStr(x.X) + ".(" + typeStr(x.Type) + ")"
	case *ast.ArrayType, *ast.MapType:
		return typeStr(x)
	case *ast.FuncLit:
		return "func(...){...}"
	}
	return fmt.Sprintf("<%T>", e)
}
