// Command verifextract regenerates the Lean source-fact files of /verif from the CURRENT Go source of /repo.
//
//	go run . -repo /repo -out /verif/lean/DyntplV/Generated
//
// It writes DbLocks.lean (lock discipline of the registry) and TreeWrites.lean (writes through tree types on the
// render path). Everything is syntactic (go/ast only, no type checker); see README.md for what is recognised.
// A shape that is not recognised is emitted as `unknown`, never guessed.
package main

import (
	"flag"
	"fmt"
	"os"
	"path/filepath"
	"sort"
	"strings"
)

func main() {
	repo := flag.String("repo", "/repo", "directory of package dyntpl")
	out := flag.String("out", "/verif/lean/DyntplV/Generated", "output directory for the generated Lean files")
	flag.Parse()

	p, err := loadPkg(*repo)
	if err != nil {
		fmt.Fprintln(os.Stderr, "verifextract:", err)
		os.Exit(1)
	}
	if err := os.MkdirAll(*out, 0o755); err != nil {
		fmt.Fprintln(os.Stderr, "verifextract:", err)
		os.Exit(1)
	}
	files := map[string]string{
		"DbLocks.lean":    emitDbLocks(p),
		"TreeWrites.lean": emitTreeWrites(p),
	}
	names := make([]string, 0, len(files))
	for n := range files {
		names = append(names, n)
	}
	sort.Strings(names)
	for _, n := range names {
		path := filepath.Join(*out, n)
		// Do not touch an unchanged file (keeps lake's no-op rebuild a no-op).
		if old, err := os.ReadFile(path); err == nil && string(old) == files[n] {
			continue
		}
		if err := os.WriteFile(path, []byte(files[n]), 0o644); err != nil {
			fmt.Fprintln(os.Stderr, "verifextract:", err)
			os.Exit(1)
		}
	}
}

// ---- Lean literal helpers ----

func leanStr(s string) string {
	var b strings.Builder
	b.WriteByte('"')
	for _, r := range s {
		switch {
		case r == '"':
			b.WriteString(`\"`)
		case r == '\\':
			b.WriteString(`\\`)
		case r == '\n':
			b.WriteString(`\n`)
		case r == '\t':
			b.WriteString(`\t`)
		case r < 0x20 || r > 0x7e:
			fmt.Fprintf(&b, `\u{%x}`, r)
		default:
			b.WriteRune(r)
		}
	}
	b.WriteByte('"')
	return b.String()
}

func leanStrList(l []string) string {
	q := make([]string, len(l))
	for i, s := range l {
		q[i] = leanStr(s)
	}
	return "[" + strings.Join(q, ", ") + "]"
}

func leanStrListMultiline(l []string) string {
	if len(l) == 0 {
		return "[]"
	}
	q := make([]string, len(l))
	for i, s := range l {
		q[i] = "  " + leanStr(s)
	}
	return "[\n" + strings.Join(q, ",\n") + "\n]"
}

func leanBool(b bool) string {
	if b {
		return "true"
	}
	return "false"
}

func sortedSet(m map[string]bool) []string {
	l := make([]string, 0, len(m))
	for k := range m {
		l = append(l, k)
	}
	sort.Strings(l)
	return l
}
