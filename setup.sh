#!/bin/sh
# Build the framework from files on disk only (offline).
set -e
cd "$(dirname "$0")"
export GOFLAGS=-mod=mod GOPROXY=off GOSUMDB=off GOTOOLCHAIN=local
mkdir -p .work evidence replays
(cd lean && lake build DyntplV drv)
(cd harness && cp /repo/go.sum . 2>/dev/null || true; go build -tags verif -o ../.work/vharness .)
if [ -f extract/main.go ]; then (cd extract && go build -o ../.work/vextract .); fi
echo setup-ok
