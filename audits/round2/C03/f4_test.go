package dyntpl

import (
	"testing"

	"github.com/koykov/inspector"
)

// Property C03: "The separator appears exactly between consecutive iterations".
//
// The text of the whole tag is trimmed with the cut set "{}% " before it is matched (processCtl: bytealg.Trim(ctl,
// ctlTrim)), and the separator is the tail of the tag: every '{', '}' and '%' at the END of the separator is cut off
// with the tag's own "%}". The separator "},{" (the natural one for a list of JSON objects whose braces stand outside
// the body) becomes "},"; the separators "}{" and "%" vanish. The template is accepted and rendered without error.
func TestAudit4(t *testing.T) {
	list := []string{"a", "b", "c"}
	for _, c := range []struct{ key, src, want string }{
		{"audit4_a", `[{{% for _, v := range list separator },{ %}"v":"{%= v %}"{% endfor %}}]`, `[{"v":"a"},{"v":"b"},{"v":"c"}]`},
		{"audit4_b", `{{% for _, v := range list sep }{ %}{%= v %}{% endfor %}}`, `{a}{b}{c}`},
		{"audit4_c", `{% for i:=1; i<=3; i++ sep % %}{%= i %}{% endfor %}%`, `1%2%3%`},
		{"audit4_d", `{% for i:=0; i<3; i++ sep {%}{%= i %}{% endfor %}`, `0{1{2`},
	} {
		tree, err := Parse([]byte(c.src), false)
		if err != nil {
			t.Logf("%s: rejected by the parser: %v", c.key, err)
			continue
		}
		RegisterTplKey(c.key, tree)
		ctx := NewCtx()
		ctx.Set("list", &list, inspector.StringsInspector{})
		got, err := Render(c.key, ctx)
		if err != nil || string(got) != c.want {
			t.Errorf("%s: %s\n got  %q, err %v\n want %q, err <nil>", c.key, c.src, got, err, c.want)
		}
	}
}
