package dyntpl

import (
	"errors"
	"testing"

	"github.com/koykov/inspector"
)

// Property C03: "A counter loop renders its body once for each counter value ..." and "nested or successive loops do
// not disturb one another".
//
// A print tag whose modifier fails prints nothing and lets the render go on: writeNode returns nil and only leaves the
// error in ctx.Err (outside loops the render ends with err == nil, and so it does inside a range loop). The counter
// loop ignores that error while it iterates, but after the LAST iteration the error still stands in ctx.Err and the
// loop node takes it for its own: the render is aborted right behind a loop that did all its iterations. When the
// loop is nested, the outer loop - counter or range - loses all iterations but the first.
func TestAudit2(t *testing.T) {
	RegisterModFn("audit2Odd", "", func(_ *Ctx, _ *any, val any, _ []any) error {
		if i, ok := ConvInt(val); ok && i%2 != 0 {
			return errors.New("audit2: odd value")
		}
		return nil
	})
	one := 1
	list := []string{"a", "b", "c"}
	run := func(key, src string) (string, error) {
		tree, err := Parse([]byte(src), false)
		if err != nil {
			t.Fatalf("%s: parse: %v", key, err)
		}
		RegisterTplKey(key, tree)
		ctx := NewCtx()
		ctx.SetStatic("one", &one)
		ctx.Set("list", &list, inspector.StringsInspector{})
		b, err := Render(key, ctx)
		return string(b), err
	}

	// Controls: the failing modifier is not fatal, neither at the top level nor inside a range loop.
	if got, err := run("audit2_c0", `<{%= one|audit2Odd %}>after`); err != nil || got != "<>after" {
		t.Fatalf("control (top level): got %q, err %v; want %q, <nil>", got, err, "<>after")
	}
	if got, err := run("audit2_c1", `{% for _, v := range list %}<{%= one|audit2Odd %}>{% endfor %}after`); err != nil || got != "<><><>after" {
		t.Fatalf("control (range loop): got %q, err %v; want %q, <nil>", got, err, "<><><>after")
	}

	for _, c := range []struct{ key, src, want string }{
		// single counter loop: all iterations are done, then the render fails
		{"audit2_a", `{% for i:=0; i<2; i++ %}<{%= i|audit2Odd %}>{% endfor %}after`, "<0><>after"},
		// counter loop in counter loop: the outer loop is cut after its first iteration
		{"audit2_b", `{% for i:=0; i<3; i++ %}[{% for j:=0; j<2; j++ %}{%= j|audit2Odd %}.{% endfor %}]{% endfor %}after`, "[0..][0..][0..]after"},
		// counter loop in range loop: the same
		{"audit2_c", `{% for _, v := range list %}[{%= v %}{% for j:=0; j<2; j++ %}{%= j|audit2Odd %}.{% endfor %}]{% endfor %}after`, "[a0..][b0..][c0..]after"},
	} {
		got, err := run(c.key, c.src)
		if err != nil || got != c.want {
			t.Errorf("%s: %s\n got  %q, err %v\n want %q, err <nil>", c.key, c.src, got, err, c.want)
		}
	}
}
