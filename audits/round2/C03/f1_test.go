package dyntpl

import "testing"

// Property C03, first sentence: "A counter loop renders its body once for each counter value from the initial value
// while the bound comparison holds, stepping by one up or down, with initial value and bound given as literals or
// variables".
//
// The parser accepts white space between the bound and the semicolon that follows it (the regular expression even
// spells it out: `([^;]+)\s*;`), but the greedy group keeps the white space in the bound: a literal bound "3 " is no
// integer, a variable bound "n " is no variable. The loop does not run, the render fails.
func TestAudit1(t *testing.T) {
	n := 3
	for _, c := range []struct{ key, src string }{
		{"audit1_lit", `{% for i := 0; i < 3 ; i++ %}{%= i %}{% endfor %}`},
		{"audit1_var", `{% for i := 0; i < n ; i++ %}{%= i %}{% endfor %}`},
		{"audit1_sep", `{% for i:=0 ; i<n ; i++ sep , %}{%= i %}{% endfor %}`},
	} {
		tree, err := Parse([]byte(c.src), false)
		if err != nil {
			// A rejected template would be no finding.
			t.Logf("%s: rejected by the parser: %v", c.key, err)
			continue
		}
		RegisterTplKey(c.key, tree)
		ctx := NewCtx()
		ctx.SetStatic("n", &n)
		got, err := Render(c.key, ctx)
		want := "012"
		if c.key == "audit1_sep" {
			want = "0,1,2"
		}
		if err != nil || string(got) != want {
			t.Errorf("%s: %s\n got  %q, err %v\n want %q, err <nil>", c.key, c.src, got, err, want)
		}
	}
}
