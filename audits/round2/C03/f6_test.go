package dyntpl

import "testing"

// Property C03: "A counter loop renders its body once for each counter value ..., stepping by one up or down" and
// "The separator appears exactly between consecutive iterations" - a loop that has no separator has nothing between
// its iterations.
//
// reLoopCount ends in `\w*(--|\+\+)+\s*(?:separator|sep)*\s*(.*)`: the name in front of the step operator and the
// keyword in front of the separator are both optional, and whatever follows the operator is the separator. The
// prefix spelling of the step "++i" / "--i" is accepted, steps the counter - and makes the counter's NAME the
// separator; a C-style trailing semicolon "i++;" becomes the separator ";". Both spellings are accepted by the parser
// and mean something else than "i++".
func TestAudit6(t *testing.T) {
	for _, c := range []struct{ key, src, want string }{
		{"audit6_a", `{% for i:=0; i<3; ++i %}[{%= i %}]{% endfor %}`, "[0][1][2]"},
		{"audit6_b", `{% for i:=2; i>=0; --i %}[{%= i %}]{% endfor %}`, "[2][1][0]"},
		{"audit6_c", `{% for i:=0; i<3; i++; %}[{%= i %}]{% endfor %}`, "[0][1][2]"},
	} {
		tree, err := Parse([]byte(c.src), false)
		if err != nil {
			t.Logf("%s: rejected by the parser: %v", c.key, err)
			continue
		}
		RegisterTplKey(c.key, tree)
		got, err := Render(c.key, NewCtx())
		if err != nil || string(got) != c.want {
			t.Errorf("%s: %s\n got  %q, err %v\n want %q, err <nil>", c.key, c.src, got, err, c.want)
		}
	}
}
