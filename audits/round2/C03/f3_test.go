package dyntpl

import (
	"errors"
	"testing"
)

// Property C03: "the else branch renders if and only if there were no iterations, and nested or successive loops do not
// disturb one another" - a range loop over a collection that is not there has no iterations and no output; it is not
// an error (with an else branch it renders the branch and the render succeeds).
//
// Ctx.rloop does not touch ctx.Err when the variable is not set (and the loop has no else branch), but the loop node
// in writeNode reads ctx.Err after the call. Whatever an EARLIER tag left there - a print tag whose modifier failed,
// which by itself is not fatal - or even an earlier render on the same context, is reported as the error of the
// loop, and the render is aborted at the loop.
func TestAudit3(t *testing.T) {
	RegisterModFn("audit3Fail", "", func(_ *Ctx, _ *any, _ any, _ []any) error {
		return errors.New("audit3: soft failure")
	})
	reg := func(key, src string) {
		tree, err := Parse([]byte(src), false)
		if err != nil {
			t.Fatalf("%s: parse: %v", key, err)
		}
		RegisterTplKey(key, tree)
	}
	one := 1

	// Control: the failing print tag alone is not fatal; the loop alone is not fatal.
	reg("audit3_c0", `<{%= one|audit3Fail %}>ok`)
	reg("audit3_c1", `{% for _, v := range nosuch %}x{% endfor %}ok`)
	reg("audit3_c2", `<{%= one|audit3Fail %}>{% for _, v := range nosuch %}x{% else %}E{% endfor %}ok`)
	for key, want := range map[string]string{"audit3_c0": "<>ok", "audit3_c1": "ok", "audit3_c2": "<>Eok"} {
		ctx := NewCtx()
		ctx.SetStatic("one", &one)
		if got, err := Render(key, ctx); err != nil || string(got) != want {
			t.Fatalf("control %s: got %q, err %v; want %q, <nil>", key, got, err, want)
		}
	}

	// One render: print tag, then the loop.
	reg("audit3_a", `<{%= one|audit3Fail %}>{% for _, v := range nosuch %}x{% endfor %}ok`)
	ctx := NewCtx()
	ctx.SetStatic("one", &one)
	if got, err := Render("audit3_a", ctx); err != nil || string(got) != "<>ok" {
		t.Errorf("one render: got %q, err %v\n want %q, err <nil>", got, err, "<>ok")
	}

	// Two renders on one context (no Reset between them): the first one succeeds, the second one - the loop alone -
	// fails with the error the first one left behind.
	ctx = NewCtx()
	ctx.SetStatic("one", &one)
	if got, err := Render("audit3_c0", ctx); err != nil || string(got) != "<>ok" {
		t.Fatalf("first render: got %q, err %v", got, err)
	}
	if got, err := Render("audit3_c1", ctx); err != nil || string(got) != "ok" {
		t.Errorf("second render on the same context: got %q, err %v\n want %q, err <nil>", got, err, "ok")
	}
}
