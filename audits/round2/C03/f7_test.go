package dyntpl

import "testing"

// Property C03: "the else branch renders if and only if there were no iterations".
//
// reLoopRange takes the source with `([^\s]*)`, which may be empty: the tag "for _, v := range" (no source at all) is
// accepted. At render time Ctx.rloop splits the empty path into zero parts
// and returns at once (`if len(ctx.bufS) == 0 { return }`) - before the place where the else branch is rendered for
// a source that is not there. There are no iterations, and no else branch either.
func TestAudit7(t *testing.T) {
	for _, c := range []struct{ key, src, want string }{
		{"audit7_a", `[{% for _, v := range %}x{% else %}EMPTY{% endfor %}]`, "[EMPTY]"},
		{"audit7_b", `[{% for k := range %}x{% else %}EMPTY{% endfor %}]`, "[EMPTY]"},
	} {
		tree, err := Parse([]byte(c.src), false)
		if err != nil {
			t.Logf("%s: rejected by the parser: %v", c.key, err)
			continue
		}
		RegisterTplKey(c.key, tree)
		got, err := Render(c.key, NewCtx())
		if err != nil || string(got) != c.want {
			t.Errorf("%s: %s\n got  %q, err %v\n want %q, err <nil>", c.key, c.src, got, err, c.want)
		}
	}
}
