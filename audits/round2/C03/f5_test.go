package dyntpl

import (
	"errors"
	"testing"
)

type audit5NoInt struct{}

func (audit5NoInt) Int() (int64, error) { return 0, errors.New("audit5: not a number") }

// Property C03: "A counter loop renders its body once for each counter value from the initial value while the bound
// comparison holds ... with initial value and bound given as literals or variables", "the else branch renders if and
// only if there were no iterations".
//
// if2int (conv.go), which turns a variable bound into int64, has two arms that make a number of a value that is none
// (the sibling text arms were repaired: text out of int64 range is a wrong bound now):
//   - uint / uint64 (and the pointers) above MaxInt64 are converted with int64(x): the bound 1<<63 becomes MinInt64.
//     "i < big" holds for 0, 1, 2 ..., yet the loop has no iteration and renders its else branch;
//   - a value with an Int() (int64, error) method whose Int fails falls out of the switch with ok == true and r == 0:
//     the bound is 0 instead of a wrong bound (every other value without an integer reading gives ErrWrongLoopLim).
func TestAudit5(t *testing.T) {
	big := uint64(1) << 63
	reg := func(key, src string) {
		tree, err := Parse([]byte(src), false)
		if err != nil {
			t.Fatalf("%s: parse: %v", key, err)
		}
		RegisterTplKey(key, tree)
	}

	reg("audit5_a", `{% for i:=0; i<big; i++ %}{% break if i == 3 %}{%= i %}{% else %}EMPTY{% endfor %}`)
	ctx := NewCtx()
	ctx.SetStatic("big", &big)
	got, err := Render("audit5_a", ctx)
	// Acceptable: the iterations 0, 1, 2 (then break), or a wrong-bound error. Not acceptable: "no iterations".
	if !(err == nil && string(got) == "012") && !(err == ErrWrongLoopLim) {
		t.Errorf("bound uint64(1<<63), 'i < big' from 0: got %q, err %v\n want %q (or err %v)", got, err, "012", ErrWrongLoopLim)
	}

	reg("audit5_b", `{% for i:=0; i<=lim; i++ %}{%= i %}{% else %}EMPTY{% endfor %}`)
	ctx = NewCtx()
	ctx.SetStatic("lim", audit5NoInt{})
	got, err = Render("audit5_b", ctx)
	if err != ErrWrongLoopLim {
		t.Errorf("bound whose Int() fails: got %q, err %v\n want err %v (as for every other bound that is no integer)", got, err, ErrWrongLoopLim)
	}
}
