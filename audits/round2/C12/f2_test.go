package dyntpl

import (
	"bytes"
	"hash/crc64"
	"testing"
)

// audit2Forge returns 8 bytes s such that crc64-ISO(prefix || s) == target. The checksum is affine over GF(2) in the
// bits of s, and a bijection of the last 8 bytes, so a 64x64 linear system over GF(2) gives them.
func audit2Forge(prefix []byte, target uint64) []byte {
	tab := crc64.MakeTable(crc64.ISO)
	sum := func(s []byte) uint64 { return crc64.Checksum(append(append([]byte{}, prefix...), s...), tab) }
	base := sum(make([]byte, 8))
	var vec, mask [64]uint64
	for i := 0; i < 64; i++ {
		s := make([]byte, 8)
		s[i/8] = 1 << (uint(i) % 8)
		v, m := sum(s)^base, uint64(1)<<uint(i)
		for b := 63; b >= 0 && v != 0; b-- {
			if v>>uint(b)&1 == 0 {
				continue
			}
			if vec[b] == 0 {
				vec[b], mask[b] = v, m
				break
			}
			v ^= vec[b]
			m ^= mask[b]
		}
	}
	v, m := target^base, uint64(0)
	for b := 63; b >= 0; b-- {
		if v>>uint(b)&1 == 1 {
			v ^= vec[b]
			m ^= mask[b]
		}
	}
	s := make([]byte, 8)
	for i := 0; i < 64; i++ {
		if m>>uint(i)&1 == 1 {
			s[i/8] |= 1 << (uint(i) % 8)
		}
	}
	return s
}

// TestAudit2 contradicts the third sentence of C12: "one with a missing ... closing tag ... is rejected with an
// error" (quantified "for all byte strings").
//
// Parse does not look at the source at all when the registry holds a tree with the same CRC-64 of the source
// (parser.go, Parse: tplDB.getTreeByHash(hsum) -> return that tree and its verdict). CRC-64 is a linear code: for
// any prefix, eight trailing bytes can be chosen so that the checksum takes any wanted value. So as soon as some
// valid template is registered, a template with a missing {% endif %} whose trailing text was chosen that way is
// accepted: Parse answers with the tree of the OTHER template and a nil error. The very same bytes are rejected
// before the registration.
func TestAudit2(t *testing.T) {
	valid := []byte(`{% if user.Id == 1 %}welcome{% endif %}`)
	tab := crc64.MakeTable(crc64.ISO)
	want := crc64.Checksum(valid, tab)

	// A template with a missing closing tag; only its trailing raw text is tuned.
	var broken []byte
	for pad := 0; pad < 64; pad++ {
		prefix := append([]byte(`{% if user.Id == 1 %}welcome`), bytes.Repeat([]byte("."), pad)...)
		s := audit2Forge(prefix, want)
		cand := append(prefix, s...)
		// The tuned bytes must stay plain text for the parser.
		if bytes.Contains(s, []byte("{")) || bytes.Contains(s, []byte("%")) || bytes.Contains(s, []byte("#")) {
			continue
		}
		broken = cand
		break
	}
	if broken == nil || crc64.Checksum(broken, tab) != want {
		t.Skip("could not build the colliding source")
	}

	// Before anything is registered the source is rejected, as it must be.
	if _, err := Parse(broken, true); err == nil {
		t.Fatalf("precondition: %q must be rejected while the registry is empty", broken)
	}

	tree, err := Parse(valid, true)
	if err != nil {
		t.Fatalf("precondition: valid template rejected: %v", err)
	}
	RegisterTplKey("auditC12_valid", tree)

	got, err := Parse(broken, true)
	if err == nil {
		t.Fatalf("Parse(%q) after registering %q:\n got: err=nil (same *Tree as the registered template: %v)\nwant: an error - the {%% if %%} block is never closed",
			broken, valid, got == tree)
	}
}
