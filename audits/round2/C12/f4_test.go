package dyntpl

import "testing"

// TestAudit4 contradicts the second sentence of C12: "A template whose if, for and switch blocks are properly
// nested and closed parses successfully."
//
// processCtl strips only the ASCII blank next to the tag delimiters. An opening tag that ends (or a switch/for/if
// that is followed) by a tab or a line break is still recognised, because reCond/reLoop/reSwitch are anchored at the
// start only ("^if .*", "^for .*", "^switch\s*(.*)"); the end tags are compared with bytes.Equal, so the same
// spelling of the closing tag is not an end tag: "{% endif\t%}" falls through to "unknown control structure" and
// the template is reported as unbalanced. The block is opened by a tag the parser accepts and closed by the
// matching end tag written the same way, and it is rejected. (With keepFmt=false only "\n\t* *" runs are removed,
// a lone tab stays; with keepFmt=true the line break stays as well.)
func TestAudit4(t *testing.T) {
	for _, c := range []struct {
		src     string
		keepFmt bool
	}{
		{"{% if a\t%}x{% endif\t%}", false},
		{"{% for i := 0; i < 3; i++\t%}x{% endfor\t%}", false},
		{"{% switch x\t%}{% case 1 %}x{% endswitch\t%}", false},
		{"{% if a\n%}x{% endif\n%}", true},
		{"{% switch x\n%}\n{% case 1\n%}x{% endswitch\n%}", true},
	} {
		if _, err := Parse([]byte(c.src), c.keepFmt); err != nil {
			t.Errorf("Parse(%q, keepFmt=%v):\n got: err=%v\nwant: err=nil (the opening tag in this spelling is accepted, the block is closed by its end tag in the same spelling)",
				c.src, c.keepFmt, err)
		}
	}
	// Control: the opening tags alone are block openers in this spelling (the error is "unbalanced", not "unknown").
	if _, err := Parse([]byte("{% if a\t%}x{% endif %}"), false); err != nil {
		t.Logf("(control) opener with a tab, plain end tag: err=%v", err)
	}
}
