package dyntpl

import "testing"

// TestAudit5 contradicts the second sentence of C12: "A template whose if, for and switch blocks are properly
// nested and closed parses successfully."
//
// reSwitch is `^switch\s*(.*)`: the blank between the keyword and the argument is optional ("{% switchx %}" opens a
// switch over x). But "{% switch(x) %}" never reaches that branch: the print check at the top of processCtl matches
// it with reTplCB (`^([^(\s]+)\(([^)]*)\)`, the "modifier call" form) and stores a print node. No block is opened,
// so the {% endswitch %} that closes the block is taken for a surplus end tag and the template is rejected as
// unbalanced. "{% switch (x) %}" - one blank more - is accepted.
func TestAudit5(t *testing.T) {
	src := `{% switch(x.Status) %}{% case 1 %}one{% default %}other{% endswitch %}`
	if _, err := Parse([]byte(src), false); err != nil {
		t.Errorf("Parse(%q):\n got: err=%v\nwant: err=nil (as for %q)", src, err, `{% switch (x.Status) %}...`)
	}
	ctl := `{% switch (x.Status) %}{% case 1 %}one{% default %}other{% endswitch %}`
	if _, err := Parse([]byte(ctl), false); err != nil {
		t.Logf("(control) Parse(%q) err=%v", ctl, err)
	}
}
