package dyntpl

import (
	"bytes"
	"fmt"
	"os"
	"os/exec"
	"testing"
)

// TestAudit1 contradicts the first sentence of C12: "For every byte sequence Parse returns either a tree or an
// error: it never panics and always terminates."
//
// The parser recurses once per open block (parseTpl -> processCtl -> processCond/parseTpl ...) and every level
// costs about 10 KB of goroutine stack (node values are passed and copied by value), so a template of ~100 000
// nested blocks - 0.8 MB of "{%if a%}" - exhausts the 1 GB goroutine stack. That is not an error value and not even
// a recoverable panic: the runtime throws "fatal error: stack overflow" and the whole process dies. The template
// used here is properly nested and closed (second sentence: it "parses successfully"), the same happens when the
// closing tags are left out (third sentence: "is rejected with an error").
//
// Because the failure kills the process, the call is made in a child process (the test binary re-executes itself).
func TestAudit1(t *testing.T) {
	const depth = 120000
	if os.Getenv("AUDIT1_CHILD") == "1" {
		src := bytes.Repeat([]byte("{%if a%}"), depth)
		src = append(src, bytes.Repeat([]byte("{%endif%}"), depth)...)
		tree, err := Parse(src, true)
		fmt.Printf("AUDIT1 PARSE RETURNED tree=%v err=%v\n", tree != nil, err)
		return
	}
	cmd := exec.Command(os.Args[0], "-test.run=^TestAudit1$", "-test.count=1")
	cmd.Env = append(os.Environ(), "AUDIT1_CHILD=1")
	out, err := cmd.CombinedOutput()
	if !bytes.Contains(out, []byte("AUDIT1 PARSE RETURNED tree=true err=<nil>")) {
		if len(out) > 400 {
			out = out[:400]
		}
		t.Fatalf("Parse of %d properly nested {%%if a%%}...{%%endif%%} blocks (%d bytes):\n got: the process died (%v), output starts with:\n%s\nwant: Parse returns (tree, nil) - or at least an error value",
			depth, depth*(8+9), err, out)
	}
}
