package dyntpl

import "testing"

// TestAudit3 contradicts the second sentence of C12: "A template whose if, for and switch blocks are properly
// nested and closed parses successfully."
//
// Each template below is one if block with ONE comparison of a variable with a quoted literal (the documented form
// "{% if leftVar == rightVar %}"), closed by its {% endif %}. processCond looks for "&&", "||", "(" and ")" in the
// raw text of the tag - inside the quoted literal as well - and, when the text cannot be read as a helper call,
// rejects the whole template with "too complex condition". The same literal with the closing parenthesis (or with
// both of them) is accepted, so the verdict depends on which punctuation the literal holds, not on the nesting.
func TestAudit3(t *testing.T) {
	for _, src := range []string{
		`{% if x.Name == "(" %}yes{% endif %}`,
		`{% if x.Name == "a||b" %}yes{% endif %}`,
		`{% if x.Name != "Q&&A" %}yes{% else %}no{% endif %}`,
		`{% for _, v := range list %}{% if v == "f(x" %}yes{% endif %}{% endfor %}`,
	} {
		if _, err := Parse([]byte(src), false); err != nil {
			t.Errorf("Parse(%q):\n got: err=%v\nwant: err=nil (one comparison, block properly nested and closed)", src, err)
		}
	}
	// For comparison: these are accepted.
	for _, src := range []string{
		`{% if x.Name == ")" %}yes{% endif %}`,
		`{% if x.Name == "(x)" %}yes{% endif %}`,
	} {
		if _, err := Parse([]byte(src), false); err != nil {
			t.Logf("(control) Parse(%q) err=%v", src, err)
		}
	}
}
