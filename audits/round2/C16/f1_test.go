package dyntpl

import "testing"

// Property C16, sentence: "An include tag renders the first registered template among its listed names exactly as if
// that template's source stood in place of the tag ... and fails with template-not-found when none is registered."
//
// The name list of an include tag is cut at every single blank (parser.go: bytes.Split(m[1], space)), so a second blank
// between the keyword and a name, or between two names, adds an EMPTY name to the list. The empty name is looked up like
// any other (db.getBKeys) and is found when a template is registered under the empty key - which then is rendered
// instead of the templates that are listed.
func TestAudit1(t *testing.T) {
	reg := func(key, src string) {
		tree, err := Parse([]byte(src), true)
		if err != nil {
			t.Fatalf("parse %q: %v", key, err)
		}
		RegisterTplKey(key, tree)
	}
	reg("", "EMPTY-KEY")
	reg("audit1/a", "A")
	reg("audit1/b", "B")
	for _, c := range []struct{ key, src, want string }{
		// one blank: the reference
		{"audit1/one", `[{% include audit1/a %}]`, "[A]"},
		// two blanks after the keyword
		{"audit1/two", `[{% include  audit1/a %}]`, "[A]"},
		{"audit1/dot", `[{% .  audit1/a %}]`, "[A]"},
		// two blanks between the names: the first name is missing, the second is registered
		{"audit1/list", `[{% include audit1/nope  audit1/b %}]`, "[B]"},
	} {
		reg(c.key, c.src)
		got, err := Render(c.key, NewCtx())
		if err != nil || string(got) != c.want {
			t.Errorf("%s: got %q, err %v; want %q, err <nil>", c.src, got, err, c.want)
		}
	}
}
