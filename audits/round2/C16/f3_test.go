package dyntpl

import (
	"testing"

	"github.com/koykov/inspector/testobj"
	"github.com/koykov/inspector/testobj_ins"
)

// Property C16, sentence: "An include tag renders the first registered template ... exactly as if that template's
// source stood in place of the tag" (quantifier: "compared with the textually inlined template").
//
// With keepFmt == false (the mode of every fixture of the repository) the parser trims blanks from both ENDS of a source
// (parser.cutFmt: bytealg.Trim(p.tpl, " \t\n")). The ends of an included source are the middle of the text once it is
// inlined, where blanks are kept. A sub-template that ends (or starts) with a blank - a label in front of a value -
// therefore renders differently when it is included and when its source stands in place of the tag.
func TestAudit3(t *testing.T) {
	parse := func(src string) *Tree {
		tree, err := Parse([]byte(src), false)
		if err != nil {
			t.Fatalf("parse %q: %v", src, err)
		}
		return tree
	}
	RegisterTplKey("audit3/label", parse(`Id: `))
	RegisterTplKey("audit3/main", parse(`<{% include audit3/label %}{%= user.Id %}>`))
	RegisterTplKey("audit3/inlined", parse(`<Id: {%= user.Id %}>`))

	ctx := NewCtx()
	ctx.Set("user", &testobj.TestObject{Id: "115"}, testobj_ins.TestObjectInspector{})
	want, err := Render("audit3/inlined", ctx)
	if err != nil {
		t.Fatal(err)
	}
	got, err := Render("audit3/main", ctx)
	if err != nil || string(got) != string(want) {
		t.Errorf("include: got %q, err %v; want %q (the inlined template, same parse mode)", got, err, want)
	}
}
