package dyntpl

import "testing"

// Property C16, sentence: "An include tag renders the first registered template among its listed names ... and fails
// with template-not-found when none is registered."
//
// RegisterTpl(id, keyB, treeB) with an id that is already in use overwrites the slot of that id (db.set / getIdxLF), but
// the key the slot was known by before (keyA) stays in the key index and keeps pointing to the slot. An include that
// lists keyA then renders treeB - a template that was never registered under keyA - and it does so even before a later,
// really registered name of its list.
func TestAudit2(t *testing.T) {
	parse := func(src string) *Tree {
		tree, err := Parse([]byte(src), true)
		if err != nil {
			t.Fatalf("parse %q: %v", src, err)
		}
		return tree
	}
	RegisterTpl(916001, "audit2/a", parse("TA"))
	RegisterTplKey("audit2/c", parse("TC"))
	RegisterTplKey("audit2/main", parse(`[{% include audit2/a audit2/c %}]`))

	got, err := Render("audit2/main", NewCtx())
	if err != nil || string(got) != "[TA]" {
		t.Fatalf("before: got %q, err %v; want \"[TA]\"", got, err)
	}

	// The template number 916001 is registered again, under another key.
	RegisterTpl(916001, "audit2/b", parse("TB"))

	got, err = Render("audit2/main", NewCtx())
	// Either reading of "registered" is fine: audit2/a still is the template that was registered under that name (TA),
	// or it went away together with the overwritten template and the next listed name is taken (TC).
	if err != nil || (string(got) != "[TA]" && string(got) != "[TC]") {
		t.Errorf("include audit2/a audit2/c: got %q, err %v; want \"[TA]\" or \"[TC]\" (TB was registered as audit2/b only)", got, err)
	}
}
