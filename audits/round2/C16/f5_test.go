package dyntpl

import "testing"

// Property C16, sentence: "An include tag renders the first registered template among its listed names ... and fails
// with template-not-found when none is registered."
//
// The registry uses the key "-1" as the mark "registered by ID only" (RegisterTplID -> db.set(id, "-1", tree);
// db.set: if key != "-1" { idxKey[key] = idx }). A template that is registered under the NAME "-1" through the public
// RegisterTplKey / RegisterTpl is stored but never indexed: an include that lists it fails with template-not-found (and
// goes on to a later name of the list), although a template is registered under the listed name.
func TestAudit5(t *testing.T) {
	parse := func(src string) *Tree {
		tree, err := Parse([]byte(src), true)
		if err != nil {
			t.Fatalf("parse %q: %v", src, err)
		}
		return tree
	}
	RegisterTplKey("-1", parse("MINUS-ONE"))
	RegisterTplKey("audit5/other", parse("OTHER"))
	RegisterTplKey("audit5/single", parse(`[{% include -1 %}]`))
	RegisterTplKey("audit5/list", parse(`[{% . -1 audit5/other %}]`))

	got, err := Render("audit5/single", NewCtx())
	if err != nil || string(got) != "[MINUS-ONE]" {
		t.Errorf("include -1: got %q, err %v; want \"[MINUS-ONE]\", err <nil>", got, err)
	}
	got, err = Render("audit5/list", NewCtx())
	if err != nil || string(got) != "[MINUS-ONE]" {
		t.Errorf(". -1 audit5/other: got %q, err %v; want \"[MINUS-ONE]\", err <nil>", got, err)
	}
}
