package dyntpl

import (
	"testing"

	"github.com/koykov/inspector/testobj"
	"github.com/koykov/inspector/testobj_ins"
)

// Property C16, sentence: "exit stops the template in which it is evaluated at once - wherever it stands, including
// inside conditions, switches and loops - so that the output is exactly what had been produced up to that point".
//
// The parser accepts tags between {% switch %} and its first {% case %}, after a second {% else %} of a condition and
// after a second {% else %} of a loop, but drops them from the tree (rollupSwitchNodes skips everything before the first
// case; processCond / the loop branch of processCtl keep only the first two parts of splitNodes). An exit that stands
// there never runs: the template is not stopped and everything behind it is rendered.
func TestAudit4(t *testing.T) {
	for i, c := range []struct{ src, want string }{
		{`a{% switch user.Status %}{% exit %}{% case 78 %}b{% endswitch %}c`, "a"},
		{`a{% if user.Status == 1 %}x{% else %}b{% else %}{% exit %}{% endif %}c`, "ab"},
	} {
		tree, err := Parse([]byte(c.src), true)
		if err != nil {
			t.Fatalf("parse %q: %v", c.src, err)
		}
		key := "audit4/" + string(rune('a'+i))
		RegisterTplKey(key, tree)
		ctx := NewCtx()
		ctx.Set("user", &testobj.TestObject{Status: 78}, testobj_ins.TestObjectInspector{})
		got, err := Render(key, ctx)
		if err != nil || string(got) != c.want {
			t.Errorf("%s: got %q, err %v; want %q, err <nil>", c.src, got, err, c.want)
		}
	}
}
