package dyntpl

import "testing"

// Property C04, first sentence: rendering "through an include uses the template most recently registered under that
// name, and an unknown name yields the template-not-found error".
//
// The include tag splits its operand on every single blank (parser.go: bytes.Split(m[1], space)), so a second blank
// between "include" and the name, or between two names of the fallback list, makes an EMPTY name that is looked up
// like any other (db.getBKeys) - and the empty string is an ordinary key for RegisterTplKey / Render. With a
// template registered under "" the tag renders that template instead of the named one, and an include of an unknown
// name no longer fails.
func TestAudit5(t *testing.T) {
	parse := func(s string) *Tree {
		tr, err := Parse([]byte(s), false)
		if err != nil {
			t.Fatal(err)
		}
		return tr
	}
	RegisterTplKey("", parse("EMPTY-KEY"))
	RegisterTplKey("audit5/a", parse("A"))
	RegisterTplKey("audit5/fb", parse("FB"))

	RegisterTplKey("audit5/one", parse("[{% include audit5/a %}]"))
	RegisterTplKey("audit5/two", parse("[{% include  audit5/a %}]"))
	RegisterTplKey("audit5/list", parse("[{% include audit5/missing  audit5/fb %}]"))
	RegisterTplKey("audit5/unknown", parse("[{% include  audit5/missing %}]"))

	if b, err := Render("audit5/one", NewCtx()); err != nil || string(b) != "[A]" {
		t.Fatalf("control: %q, %v", b, err)
	}
	if b, err := Render("audit5/two", NewCtx()); err != nil || string(b) != "[A]" {
		t.Errorf("{%% include  audit5/a %%} (two blanks)\n got: %q, %v\nwant: %q, <nil>", b, err, "[A]")
	}
	if b, err := Render("audit5/list", NewCtx()); err != nil || string(b) != "[FB]" {
		t.Errorf("{%% include audit5/missing  audit5/fb %%} (two blanks)\n got: %q, %v\nwant: %q, <nil>", b, err, "[FB]")
	}
	if b, err := Render("audit5/unknown", NewCtx()); err != ErrTplNotFound {
		t.Errorf("{%% include  audit5/missing %%} (two blanks, unknown name)\n got: %q, %v\nwant: error %v", b, err, ErrTplNotFound)
	}
}
