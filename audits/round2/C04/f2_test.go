package dyntpl

import "testing"

// Property C04, first sentence: "After any sequence of registrations, rendering by key, by ID, by key-with-fallback
// or through an include uses the template most recently registered under that name".
// Quantifier: "each key consistently paired with at most one ID" - here each of the two keys is always registered
// with the one ID 4201, nothing else.
//
// db.set finds the slot of RegisterTpl(4201, "audit2/b", B) through the ID (key b is new), overwrites the slot that
// key a points to and leaves idxKey["audit2/a"] on it: a registration under the name b replaces the template of the
// name a. From then on a, b and 4201 are one slot: re-registering a changes b as well.
func TestAudit2(t *testing.T) {
	parse := func(s string) *Tree {
		tr, err := Parse([]byte(s), false)
		if err != nil {
			t.Fatal(err)
		}
		return tr
	}
	render := func(key string) string {
		b, err := Render(key, NewCtx())
		if err != nil {
			return "error: " + err.Error()
		}
		return string(b)
	}
	RegisterTpl(4201, "audit2/a", parse("audit2 template A"))
	RegisterTpl(4201, "audit2/b", parse("audit2 template B"))

	if got, want := render("audit2/a"), "audit2 template A"; got != want {
		t.Errorf("Render(a) after RegisterTpl(4201,a,A); RegisterTpl(4201,b,B)\n got: %q\nwant: %q", got, want)
	}
	RegisterTplKey("audit2/host", parse("[{% include audit2/a %}]"))
	if got, want := render("audit2/host"), "[audit2 template A]"; got != want {
		t.Errorf("include a\n got: %q\nwant: %q", got, want)
	}
	if b, err := RenderFallback("audit2/a", "audit2/b", NewCtx()); err != nil || string(b) != "audit2 template A" {
		t.Errorf("RenderFallback(a, b)\n got: %q, %v\nwant: %q", b, err, "audit2 template A")
	}

	// The other direction: key a is registered again (key only), key b follows.
	RegisterTplKey("audit2/a", parse("audit2 template C"))
	if got, want := render("audit2/b"), "audit2 template B"; got != want {
		t.Errorf("Render(b) after RegisterTplKey(a, C)\n got: %q\nwant: %q", got, want)
	}
}
