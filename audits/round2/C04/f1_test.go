package dyntpl

import "testing"

// Property C04, second sentence: "Parsing a source always yields a tree that renders that source, regardless of
// which templates were parsed, registered or replaced before."
//
// Parse identifies a source by the CRC-64/ISO of its pre-processed text alone (parser.go Parse, db.go getTreeByHash)
// and never compares the text. CRC-64 is linear, so a second source with the checksum of a registered one is
// computed in microseconds (80 free bits in an HTML comment here). While the first source is registered, Parse of
// the second one returns the tree of the first.
func TestAudit1(t *testing.T) {
	const (
		srcA = `Hello, {%= name %}!`
		srcB = `Goodbye, {%= name %}! <!-- 01000000000111010010101001010001010101101100110011100000111111110000000000000000 -->`
	)
	treeA, err := Parse([]byte(srcA), false)
	if err != nil {
		t.Fatal(err)
	}
	RegisterTplKey("audit1/hello", treeA)

	treeB, err := Parse([]byte(srcB), false)
	if err != nil {
		t.Fatal(err)
	}
	RegisterTplKey("audit1/goodbye", treeB)

	ctx := NewCtx()
	ctx.SetString("name", "Bob")
	got, err := Render("audit1/goodbye", ctx)
	if err != nil {
		t.Fatal(err)
	}
	want := `Goodbye, Bob! <!-- 01000000000111010010101001010001010101101100110011100000111111110000000000000000 -->`
	if string(got) != want {
		t.Errorf("Parse(srcB) while srcA is registered renders\n got: %q\nwant: %q (same tree object as srcA's: %v)", got, want, treeA == treeB)
	}
}
