package dyntpl

import "testing"

// Property C04, first sentence: "After any sequence of registrations, rendering by key, by ID ... uses the template
// most recently registered under that name, and an unknown name yields the template-not-found error".
//
// db.set uses the key "-1" and negative IDs as "no name" marks (RegisterTplID passes "-1", RegisterTplKey passes -1)
// and does not index them. RegisterTplKey("-1", t), RegisterTplID(-5, t) and the ID half of RegisterTpl(-5, key, t)
// succeed silently, append a slot that no lookup reaches (one more on every call), and the name stays unknown.
func TestAudit4(t *testing.T) {
	parse := func(s string) *Tree {
		tr, err := Parse([]byte(s), false)
		if err != nil {
			t.Fatal(err)
		}
		return tr
	}
	RegisterTplKey("-1", parse("audit4 key minus one"))
	if b, err := Render("-1", NewCtx()); err != nil || string(b) != "audit4 key minus one" {
		t.Errorf("Render(\"-1\") after RegisterTplKey(\"-1\", T)\n got: %q, %v\nwant: %q, <nil>", b, err, "audit4 key minus one")
	}
	RegisterTplKey("audit4/host", parse("[{% include -1 %}]"))
	if b, err := Render("audit4/host", NewCtx()); err != nil || string(b) != "[audit4 key minus one]" {
		t.Errorf("include -1\n got: %q, %v\nwant: %q, <nil>", b, err, "[audit4 key minus one]")
	}

	RegisterTplID(-5, parse("audit4 id minus five"))
	if b, err := RenderByID(-5, NewCtx()); err != nil || string(b) != "audit4 id minus five" {
		t.Errorf("RenderByID(-5) after RegisterTplID(-5, T)\n got: %q, %v\nwant: %q, <nil>", b, err, "audit4 id minus five")
	}
	RegisterTpl(-7, "audit4/k", parse("audit4 id minus seven"))
	if b, err := RenderByID(-7, NewCtx()); err != nil || string(b) != "audit4 id minus seven" {
		t.Errorf("RenderByID(-7) after RegisterTpl(-7, k, T)\n got: %q, %v\nwant: %q, <nil>", b, err, "audit4 id minus seven")
	}

	// Every such call appends a slot that is never reused.
	n := len(tplDB.tpl)
	for i := 0; i < 10; i++ {
		RegisterTplKey("-1", parse("audit4 key minus one"))
	}
	if d := len(tplDB.tpl) - n; d != 0 {
		t.Errorf("ten re-registrations of the key \"-1\" grew the slot array by %d; want 0 (a replaced name reuses its slot)", d)
	}
}
