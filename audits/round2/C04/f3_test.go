package dyntpl

import (
	"bytes"
	"testing"
)

// Property C04, second sentence: "Parsing a source always yields a tree that renders that source, regardless of
// which templates were parsed, registered or replaced before."
//
// The parser binds modifiers (GetModFn), globals (GetGlobal) and variable-inspector pairs (GetInsByVarName) at parse
// time; a modifier that is not known is dropped silently. The hash short-cut of Parse hands out the tree of an
// EARLIER parse whenever that tree is registered. Two sources that differ in one letter of text are parsed before
// and after a modifier is registered; the only difference in their histories is that the first tree of the one was
// registered under a key. Parse of that one returns the stale tree: what Parse yields depends on which templates
// were registered before.
func TestAudit3(t *testing.T) {
	const (
		srcX = `X: {%= name|audit3Upper() %}`
		srcY = `Y: {%= name|audit3Upper() %}`
	)
	// Both sources are parsed once before the modifier exists; only X's tree is registered.
	treeX0, err := Parse([]byte(srcX), false)
	if err != nil {
		t.Fatal(err)
	}
	if _, err = Parse([]byte(srcY), false); err != nil {
		t.Fatal(err)
	}
	RegisterTplKey("audit3/old", treeX0)

	RegisterModFn("audit3Upper", "", func(ctx *Ctx, buf *any, val any, _ []any) error {
		if b, ok := ConvBytes(val); ok {
			ctx.BufModOut(buf, bytes.ToUpper(b))
		} else if s, ok := ConvStr(val); ok {
			ctx.BufModOut(buf, bytes.ToUpper([]byte(s)))
		}
		return nil
	})

	// Both sources are parsed again and registered under new keys.
	treeX1, err := Parse([]byte(srcX), false)
	if err != nil {
		t.Fatal(err)
	}
	treeY1, err := Parse([]byte(srcY), false)
	if err != nil {
		t.Fatal(err)
	}
	RegisterTplKey("audit3/x", treeX1)
	RegisterTplKey("audit3/y", treeY1)

	ctx := NewCtx()
	ctx.SetString("name", "Bob")
	gotY, err := Render("audit3/y", ctx)
	if err != nil || string(gotY) != "Y: BOB" {
		t.Fatalf("control: Render(y) = %q, %v; want %q", gotY, err, "Y: BOB")
	}
	gotX, err := Render("audit3/x", ctx)
	if err != nil || string(gotX) != "X: BOB" {
		t.Errorf("Parse(srcX) after its earlier tree was registered renders\n got: %q, %v\nwant: %q (the same history without the registration gives %q)",
			gotX, err, "X: BOB", gotY)
	}
}
