package dyntpl

import "testing"

// Property C11, sentences contradicted:
//
//	"A run of n identical escape letters before '=' equals applying that escape n times, and a mixed run applies the
//	 escapes from left to right" / "Modifiers chained with '|' run from left to right before any escape letter".
//
// The escapes that run are the letters written before '='. In the call form without '=' ({% mod(args) %}, see
// testdata/parser/modCallback.tpl) no letter is written at all, but processCtl hands the NAME of the modifier to
// extractMods as the directive string (parser.go, reTplCB branch: p.extractMods(..., m[1])), so every letter of the
// name that happens to be in {j,h,q,l,u,a,c,J,f,F} is applied as an escape: "default" -> f, a, u, l.
func TestAudit1(t *testing.T) {
	render := func(key, src string) string {
		tree, err := Parse([]byte(src), false)
		if err != nil {
			t.Fatalf("parse %q: %v", src, err)
		}
		RegisterTplKey(key, tree)
		ctx := NewCtx()
		ctx.SetStatic("x", "a b<")
		out, err := Render(key, ctx)
		if err != nil {
			t.Fatalf("render %q: %v", src, err)
		}
		return string(out)
	}
	want := render("audit1_eq", `{%= default(x) %}`) // "a b<"
	got := render("audit1_cb", `{% default(x) %}`)
	if want != "a b<" {
		t.Fatalf("reference spelling: got %q, want %q", want, "a b<")
	}
	if got != want {
		t.Errorf("{%% default(x) %%} with x=%q: got %q, want %q (no escape letter is written, yet attrEscape, urlEncode and linkEscape ran: the letters a, u, l of the name \"default\")", "a b<", got, want)
	}
}
