package dyntpl

import "testing"

// Property C11, sentence contradicted:
//
//	"Modifiers ... each receiving the previous result together with its own arguments, which may be literals,
//	 variables ...".
//
// State carried from one tag to a later tag: the numeric modifiers return a pointer to the one cell ctx.BufF
// (time::add: ctx.BufT). A ctx tag stores that pointer in the variable (dyntpl.go, typeCtx: ctx.Set(var, raw, ins)),
// so the variable does not hold the value it was given but whatever the latest numeric modifier of the render
// produced. Used as an argument of a later chain, the modifier receives the previous result of its OWN chain
// instead of the variable.
func TestAudit7(t *testing.T) {
	src := `{% ctx a = x|math::add(0) %}{%= a %};{%= y|math::mul(2)|math::add(a) %};{%= a %}`
	tree, err := Parse([]byte(src), false)
	if err != nil {
		t.Fatal(err)
	}
	RegisterTplKey("audit7", tree)
	ctx := NewCtx()
	ctx.SetStatic("x", 1)
	ctx.SetStatic("y", 10)
	out, err := Render("audit7", ctx)
	// a = 1; y*2 = 20; 20 + a = 21; a is still 1.
	if want := "1;21;1"; err != nil || string(out) != want {
		t.Errorf("%s with x=1, y=10: got %q, err %v; want %q", src, out, err, want)
	}
}
