package dyntpl

import "testing"

// Property C11, sentence contradicted:
//
//	"Modifiers chained with '|' run from left to right before any escape letter ...".
//
// Parse has two modes. With keepFmt=false the line breaks inside a tag are removed before parsing and the chain
// runs; with keepFmt=true they stay, and the print regexps (reTpl etc., parser.go) use '.', which does not match a
// line break, and are not anchored at the end: everything after the first line break inside the tag - the rest of
// the modifier chain - is silently dropped.
func TestAudit6(t *testing.T) {
	src := "{%h= x\n\t|default(\"<\") %}"
	for _, keepFmt := range []bool{false, true} {
		tree, err := Parse([]byte(src), keepFmt)
		if err != nil {
			t.Errorf("parse keepFmt=%v: %v", keepFmt, err)
			continue
		}
		key := "audit6_f"
		if keepFmt {
			key = "audit6_t"
		}
		RegisterTplKey(key, tree)
		out, err := Render(key, NewCtx()) // x is not set
		if want := "&lt;"; err != nil || string(out) != want {
			t.Errorf("Parse(%q, keepFmt=%v): got %q, err %v; want %q", src, keepFmt, out, err, want)
		}
	}
}
