package dyntpl

import (
	"fmt"
	"testing"
)

// Property C11, sentences contradicted:
//
//	"A run of n identical escape letters before '=' equals applying that escape n times ..." (quantifier: all input
//	strings and scalar types) and "default substitutes its argument exactly when the incoming value is empty
//	(missing, nil, zero, false or of zero length)".
//
// A typed nil pointer ((*string)(nil), (*int)(nil) ...) is a nil value: default treats it as empty, the Conv* helpers
// skip it (commit 5c60bfa), but every escape modifier - and the print tag itself - passes it to
// ctx.BufAcc.WriteX(val), i.e. to x2bytes, which dereferences it: the render panics.
func TestAudit2(t *testing.T) {
	render := func(key, src string, p any) (out string, err error) {
		defer func() {
			if r := recover(); r != nil {
				err = fmt.Errorf("PANIC: %v", r)
			}
		}()
		tree, perr := Parse([]byte(src), false)
		if perr != nil {
			return "", perr
		}
		RegisterTplKey(key, tree)
		ctx := NewCtx()
		ctx.SetStatic("p", p)
		b, rerr := Render(key, ctx)
		return string(b), rerr
	}
	// Reference: a missing variable under the same directives prints nothing.
	for i, c := range []struct {
		src string
		p   any
	}{
		{`[{%h= p %}]`, (*string)(nil)},
		{`[{%hh= p %}]`, (*string)(nil)},
		{`[{%qa= p %}]`, (*int)(nil)},
		{`[{%u= x|default(p) %}]`, (*[]byte)(nil)}, // default hands the nil pointer on to urlEncode
	} {
		got, err := render(fmt.Sprintf("audit2_%d", i), c.src, c.p)
		if err != nil || got != "[]" {
			t.Errorf("%s with p=%T(nil): got %q, err %v; want %q, no error (as for a missing variable)", c.src, c.p, got, err, "[]")
		}
	}
}
