package dyntpl

import "testing"

// Property C11, sentences contradicted:
//
//	"A run of n identical escape letters before '=' equals applying that escape n times" together with
//	"Modifiers ... each receiving ... its own arguments, which may be literals, variables ...".
//
// The run hh is implemented as htmlEscape with the repeat count 2 as first argument (printIterations, mod.go). The
// count is honoured only when the argument arrives as *[]byte (a literal, or a variable set with SetString /
// SetBytes): a variable holding the integer 2 - or the string "2" set with SetStatic - is ignored and the escape
// runs once.
func TestAudit8(t *testing.T) {
	render := func(key, src string, n any) string {
		tree, err := Parse([]byte(src), false)
		if err != nil {
			t.Fatalf("parse %q: %v", src, err)
		}
		RegisterTplKey(key, tree)
		ctx := NewCtx()
		ctx.SetStatic("x", "<")
		if s, ok := n.(*string); ok {
			ctx.SetString("n", *s)
		} else {
			ctx.SetStatic("n", n)
		}
		out, err := Render(key, ctx)
		if err != nil {
			t.Fatalf("render %q: %v", src, err)
		}
		return string(out)
	}
	want := "&amp;lt;"
	if got := render("audit8_ref0", `{%hh= x %}`, 0); got != want {
		t.Fatalf("reference {%%hh= x %%}: got %q want %q", got, want)
	}
	if got := render("audit8_ref1", `{%= x|htmlEscape(2) %}`, 0); got != want {
		t.Fatalf("reference literal count: got %q want %q", got, want)
	}
	two := "2"
	if got := render("audit8_ref2", `{%= x|htmlEscape(n) %}`, &two); got != want {
		t.Fatalf("reference SetString count: got %q want %q", got, want)
	}
	if got := render("audit8_int", `{%= x|htmlEscape(n) %}`, 2); got != want {
		t.Errorf("{%%= x|htmlEscape(n) %%} with x=\"<\", n=int(2): got %q, want %q", got, want)
	}
	if got := render("audit8_str", `{%= x|htmlEscape(n) %}`, "2"); got != want {
		t.Errorf("{%%= x|htmlEscape(n) %%} with x=\"<\", n=SetStatic string \"2\": got %q, want %q", got, want)
	}
}
