package dyntpl

import "testing"

// Property C11, sentence contradicted:
//
//	"Modifiers ... each receiving the previous result together with its own arguments, which may be literals,
//	 variables or key-value groups; default substitutes its argument ...".
//
// A quoted literal is cut to pieces before anybody looks at the quotes: extractMods splits the tag at every '|',
// reMod ends the argument list at the first ')', extractArgs splits it at every ',' and a key-value pair at every
// ':'; bytealg.Trim(a, quotes) strips every quote character at both ends, not the one pair that delimits the
// literal. The template is accepted, the modifier gets another argument (or none) and the render is wrong.
func TestAudit4(t *testing.T) {
	for i, c := range []struct{ src, want string }{
		{`{%= x|default("a,b") %}`, `a,b`},
		{`{%= x|default("a|b") %}`, `a|b`},
		{`{%= x|default("(n/a)") %}`, `(n/a)`},
		{`{%= x|default("'n/a'") %}`, `'n/a'`},
		{`{%h= x|default("<a>, <b>") %}`, `&lt;a&gt;, &lt;b&gt;`},
	} {
		tree, err := Parse([]byte(c.src), false)
		if err != nil {
			t.Errorf("parse %s: %v", c.src, err)
			continue
		}
		key := "audit4_" + string(rune('a'+i))
		RegisterTplKey(key, tree)
		out, err := Render(key, NewCtx()) // x is not set: default must substitute its literal
		if err != nil || string(out) != c.want {
			t.Errorf("%s with x unset: got %q, err %v; want %q", c.src, out, err, c.want)
		}
	}
}
