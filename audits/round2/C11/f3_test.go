package dyntpl

import "testing"

// Property C11, sentence contradicted:
//
//	"Modifiers chained with '|' run from left to right ..., each receiving the previous result together with its own
//	 arguments".
//
// A chain may start with a modifier in call form ({%= time::now("stuck") %}, {%= math::abs(x) %} are documented and
// work). As soon as a second modifier is chained with '|', extractMods (parser.go: idx = 1 when the text contains a
// '|') takes the first chunk for a variable name: the first modifier never runs, the second receives nil.
func TestAudit3(t *testing.T) {
	render := func(key, src string) string {
		tree, err := Parse([]byte(src), false)
		if err != nil {
			t.Fatalf("parse %q: %v", src, err)
		}
		RegisterTplKey(key, tree)
		ctx := NewCtx()
		ctx.SetStatic("x", -3)
		out, err := Render(key, ctx)
		if err != nil {
			t.Fatalf("render %q: %v", src, err)
		}
		return string(out)
	}
	if got := render("audit3_ref0", `{%= math::abs(x) %}`); got != "3" {
		t.Fatalf("reference {%%= math::abs(x) %%}: got %q, want 3", got)
	}
	if got := render("audit3_ref1", `{%= x|math::abs|math::add(1) %}`); got != "4" {
		t.Fatalf("reference {%%= x|math::abs|math::add(1) %%}: got %q, want 4", got)
	}
	if got, want := render("audit3_a", `{%= math::abs(x)|math::add(1) %}`), "4"; got != want {
		t.Errorf("{%%= math::abs(x)|math::add(1) %%} with x=-3: got %q, want %q", got, want)
	}
	if got, want := render("audit3_b", `{%= time::now("stuck")|time::date("%Y") %}`), "2020"; got != want {
		t.Errorf("{%%= time::now(\"stuck\")|time::date(\"%%Y\") %%}: got %q, want %q", got, want)
	}
}
