package dyntpl

import "testing"

// Property C11, sentences contradicted:
//
//	"Modifiers chained with '|' run from left to right ..." and "default substitutes its argument exactly when the
//	 incoming value is empty".
//
// Blanks around '|' (the usual way to write a filter chain) or between the modifier name and '(' are accepted by the
// parser but change the meaning: extractMods looks the modifier up under the untrimmed chunk (" default",
// "default ") - not found, the modifier is silently dropped - and takes "x " (with the blank) for the variable
// name - not found, the value is lost and default substitutes although x is set.
func TestAudit5(t *testing.T) {
	for i, c := range []struct{ src, want string }{
		{`{%= x|default("d") %}`, `<`},        // reference spelling
		{`{%= y|default("d") %}`, `d`},        // reference spelling
		{`{%= y | default("d") %}`, `d`},      // modifier dropped, prints nothing
		{`{%= y| default("d") %}`, `d`},       // modifier dropped, prints nothing
		{`{%= y|default ("d") %}`, `d`},       // modifier dropped, prints nothing
		{`{%= x |default("d") %}`, `<`},       // x not found: default substitutes a non-empty value
		{`{%h= x |htmlEscape %}`, `&amp;lt;`}, // x not found: prints nothing
	} {
		tree, err := Parse([]byte(c.src), false)
		if err != nil {
			t.Errorf("parse %s: %v", c.src, err)
			continue
		}
		key := "audit5_" + string(rune('a'+i))
		RegisterTplKey(key, tree)
		ctx := NewCtx()
		ctx.SetStatic("x", "<")
		out, err := Render(key, ctx)
		if err != nil || string(out) != c.want {
			t.Errorf("%s with x=%q, y unset: got %q, err %v; want %q", c.src, "<", out, err, c.want)
		}
	}
}
