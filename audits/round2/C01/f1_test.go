package dyntpl

import "testing"

// Property C01: "a print's prefix and suffix appear exactly when the printed value is non-empty" and "at each print
// tag, the canonical text of the addressed value" (quantifier: prefix/suffix in long and short spelling).
//
// processCtl trims the whole tag with the character set "{}% " before the print regexps see it, so a suffix (or a lone
// prefix) that ENDS in '}', '{' or '%' loses those bytes. When nothing is left after the keyword, the keyword is no
// longer followed by a space, the prefix/suffix regexp does not match any more and the keyword is swallowed by the
// prefix or by the path - the value is then printed with a wrong prefix, or not printed at all.
func TestAudit1(t *testing.T) {
	cases := []struct{ key, src, want string }{
		// the typical JSON use: prefix `{"name":` and suffix `}`
		{"audit1/0", `{%= x pfx {"name": sfx } %}`, `{"name":X}`},
		{"audit1/1", `{%= x prefix {"name": suffix } %}`, `{"name":X}`},
		{"audit1/2", `{%= x sfx % %}`, `X%`},
		{"audit1/3", `{%= x sfx 100% %}`, `X100%`},
		{"audit1/4", `{%= x pfx width:{ %}`, `width:{X`},
		{"audit1/5", `{%= x pfx { %}`, `{X`},
		{"audit1/6", `{%= x pfx [ sfx ]} %}`, `[X]}`},
	}
	for _, c := range cases {
		for _, keep := range []bool{false, true} {
			tree, err := Parse([]byte(c.src), keep)
			if err != nil {
				t.Errorf("%q: parse: %v", c.src, err)
				continue
			}
			RegisterTplKey(c.key, tree)
			ctx := NewCtx()
			ctx.SetStatic("x", "X")
			got, err := Render(c.key, ctx)
			if err != nil || string(got) != c.want {
				t.Errorf("keepFmt=%v %q: got %q (err %v), want %q", keep, c.src, got, err, c.want)
			}
		}
	}
}
