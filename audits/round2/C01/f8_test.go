package dyntpl

import "testing"

// Property C01: "Rendering emits the template's static text byte-for-byte ... all in source order".
//
// Parse identifies a source by the CRC-64 of its (pre-processed) bytes only: if a REGISTERED template has the same
// checksum, Parse returns that template's tree without looking at the source (parser.go, getTreeByHash). CRC-64 is
// linear, so sources with equal checksums are trivial to write down (XOR with a shifted copy of the generator
// polynomial): "AAAAAAAAA" and "CAAAAAA!B" collide. Registering the second one then renders the text of the first.
func TestAudit8(t *testing.T) {
	srcA, srcB := `AAAAAAAAA`, `CAAAAAA!B`
	treeA, err := Parse([]byte(srcA), false)
	if err != nil {
		t.Fatal(err)
	}
	RegisterTplKey("audit8/a", treeA)
	treeB, err := Parse([]byte(srcB), false)
	if err != nil {
		t.Fatal(err)
	}
	RegisterTplKey("audit8/b", treeB)
	ctx := NewCtx()
	gotA, errA := Render("audit8/a", ctx)
	gotB, errB := Render("audit8/b", ctx)
	if errA != nil || string(gotA) != srcA {
		t.Errorf("template a: got %q (err %v), want %q", gotA, errA, srcA)
	}
	if errB != nil || string(gotB) != srcB {
		t.Errorf("template b: got %q (err %v), want %q", gotB, errB, srcB)
	}
	// The same with print tags around: a longer pair with the same difference collides as well.
	srcC, srcD := `<b>{%= x %}</b> AAAAAAAAA`, `<b>{%= x %}</b> CAAAAAA!B`
	treeC, _ := Parse([]byte(srcC), false)
	RegisterTplKey("audit8/c", treeC)
	treeD, _ := Parse([]byte(srcD), false)
	RegisterTplKey("audit8/d", treeD)
	ctx.SetStatic("x", "X")
	gotD, errD := Render("audit8/d", ctx)
	if want := `<b>X</b> CAAAAAA!B`; errD != nil || string(gotD) != want {
		t.Errorf("template d: got %q (err %v), want %q", gotD, errD, want)
	}
}
