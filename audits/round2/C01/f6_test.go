package dyntpl

import (
	"testing"

	"github.com/koykov/inspector/testobj"
	"github.com/koykov/inspector/testobj_ins"
)

// Property C01: "at each print tag, the canonical text of the addressed value" (quantifier: "plain field paths of any
// depth, indexed paths").
//
// Ctx.replaceQB substitutes only the FIRST [..] of a path (bytes.Index for '[' and ']', once) and appends the rest
// verbatim. A path with two indexes - m[i][j], a[i].b[j] - inside two nested counter loops therefore reaches the
// inspector as "m.0[j]": the render fails (strconv.ParseInt: parsing "0[j]") or, for string keys, prints nothing,
// although each index alone works (m[i].1 and m.1[j] print the right cells).
func TestAudit6(t *testing.T) {
	o := &testobj.TestObject1{IntIntMapMap: map[int32]map[int32]int32{
		0: {0: 100, 1: 101},
		1: {0: 110, 1: 111},
	}}
	render := func(key, src string) (string, error) {
		tree, err := Parse([]byte(src), false)
		if err != nil {
			return "", err
		}
		RegisterTplKey(key, tree)
		ctx := NewCtx()
		ctx.Set("o", o, testobj_ins.TestObject1Inspector{})
		b, err := Render(key, ctx)
		return string(b), err
	}
	// Control: one index at a time addresses the cells.
	got, err := render("audit6/0", `{% for i:=0; i<2; i++ %}{% for j:=0; j<2; j++ %}[{%= o.IntIntMapMap[i].1 %},{%= o.IntIntMapMap.1[j] %}]{% endfor %}{% endfor %}`)
	if want := "[101,110][101,111][111,110][111,111]"; err != nil || got != want {
		t.Fatalf("control: got %q (err %v), want %q", got, err, want)
	}
	// Two indexes in one path.
	got, err = render("audit6/1", `{% for i:=0; i<2; i++ %}{% for j:=0; j<2; j++ %}[{%= o.IntIntMapMap[i][j] %}]{% endfor %}{% endfor %}`)
	if want := "[100][101][110][111]"; err != nil || got != want {
		t.Errorf("m[i][j]: got %q (err %v), want %q", got, err, want)
	}
}
