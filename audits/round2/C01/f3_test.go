package dyntpl

import "testing"

// Property C01: "at each print tag, the canonical text of the addressed value ..., and a print's prefix and suffix
// appear exactly when the printed value is non-empty" (quantifier: print tags with prefix/suffix, long and short).
//
// processCtl tries reTplTernary and reTplTernaryHelper BEFORE the prefix/suffix forms, on the whole tag. A print tag
// whose prefix/suffix text contains a comparison character (every HTML tag has '<' and '>') followed somewhere by '?'
// and then ':' - e.g. a link with a query string - is therefore compiled into a condition node ("x pfx" < `a href=...`)
// with two nonsense prints as branches. Nothing is printed although the value is non-empty.
// The helper form of the ternary has the same effect for "( ... )? ... :" in the prefix: the render then FAILS with
// "condition helper not found".
func TestAudit3(t *testing.T) {
	cases := []struct{ key, src, want string }{
		{"audit3/0", `{%= x prefix <a href="/go?to=https://example.com/"> suffix </a> %}`, `<a href="/go?to=https://example.com/">X</a>`},
		{"audit3/1", `{%= x pfx <a href="/p?u=1:2"> sfx </a> %}`, `<a href="/p?u=1:2">X</a>`},
		{"audit3/2", `{%= x sfx  >= 5? yes: no %}`, `X >= 5? yes: no`},
		{"audit3/3", `{%= x pfx (optional)? note: sfx . %}`, `(optional)? note:X.`},
	}
	for _, c := range cases {
		tree, err := Parse([]byte(c.src), false)
		if err != nil {
			t.Errorf("%q: parse: %v", c.src, err)
			continue
		}
		RegisterTplKey(c.key, tree)
		ctx := NewCtx()
		ctx.SetStatic("x", "X")
		got, err := Render(c.key, ctx)
		if err != nil || string(got) != c.want {
			t.Errorf("%q: got %q (err %v), want %q", c.src, got, err, c.want)
		}
	}
}
