package dyntpl

import (
	"testing"

	"github.com/koykov/inspector/testobj"
	"github.com/koykov/inspector/testobj_ins"
)

// Property C01: "A missing, nil or empty value prints nothing" (quantifier: "... nil pointers and missing fields"),
// and the static text after the tag must still reach the output ("all in source order").
//
// A path that ends in an absent map key or in an index beyond the slice is a missing value. The generated inspectors
// answer such a path with the CONTAINER (the map / the slice) instead of nothing; the print branch of writeNode hands
// whatever it got to BufAcc.WriteX and returns x2bytes' "unknown type" as the error of the whole render, so the output
// is cut off in the middle. (A missing struct field - user.Nope - prints nothing, as the property says.)
func TestAudit5(t *testing.T) {
	u := &testobj.TestObject{
		Id:    "115",
		Flags: testobj.TestFlag{"ro": 4},
		Finance: &testobj.TestFinance{History: []testobj.TestHistory{
			{Cost: 1.5, Comment: []byte("c0")},
		}},
	}
	cases := []struct{ key, src, want string }{
		{"audit5/0", `[{%= user.Flags.ro %}][{%= user.Flags.nokey pfx < sfx > %}]end`, `[4][]end`},
		{"audit5/1", `[{%= user.Finance.History.0.Cost %}][{%= user.Finance.History.5.Cost pfx < sfx > %}]end`, `[1.5][]end`},
		{"audit5/2", `[{%= user.HistoryTree.nokey.Cost pfx < sfx > %}]end`, `[]end`},
	}
	for _, c := range cases {
		tree, err := Parse([]byte(c.src), false)
		if err != nil {
			t.Errorf("%q: parse: %v", c.src, err)
			continue
		}
		RegisterTplKey(c.key, tree)
		ctx := NewCtx()
		ctx.Set("user", u, testobj_ins.TestObjectInspector{})
		got, err := Render(c.key, ctx)
		if err != nil || string(got) != c.want {
			t.Errorf("%q: got %q (err %v), want %q (err <nil>)", c.src, got, err, c.want)
		}
	}
}
