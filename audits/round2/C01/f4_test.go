package dyntpl

import "testing"

// Property C01: "Rendering emits the template's static text byte-for-byte (after the documented removal of comments
// ...)".
//
// cutComments uses the regexp `{#[^#]*#}`: a comment whose text contains a '#' (an issue number, a colour, a CSS id,
// a markdown heading ...) is not recognised and stays in the output as static text. Both keep-format settings.
func TestAudit4(t *testing.T) {
	cases := []struct{ key, src, want string }{
		{"audit4/0", `a{# see issue #12 #}b`, `ab`},
		{"audit4/1", `a{# colour was #fff before #}{%= x %}b`, `aXb`},
		{"audit4/2", `a{###}b`, `ab`},
		{"audit4/3", `a{# c #}b{# d # e #}c{# f #}`, `abc`},
	}
	for _, c := range cases {
		for _, keep := range []bool{false, true} {
			tree, err := Parse([]byte(c.src), keep)
			if err != nil {
				t.Errorf("%q: parse: %v", c.src, err)
				continue
			}
			RegisterTplKey(c.key, tree)
			ctx := NewCtx()
			ctx.SetStatic("x", "X")
			got, err := Render(c.key, ctx)
			if err != nil || string(got) != c.want {
				t.Errorf("keepFmt=%v %q: got %q (err %v), want %q", keep, c.src, got, err, c.want)
			}
		}
	}
}
