package dyntpl

import (
	"testing"

	"github.com/koykov/inspector/testobj"
	"github.com/koykov/inspector/testobj_ins"
)

// Property C01: "the canonical text of the addressed value (decimal integers, shortest round-trip floats, ...)"
// (quantifier: "every supported scalar type including boundary numbers").
//
// float32 / *float32 values are passed by writeNode to BufAcc.WriteX, i.e. to x2bytes.FloatToBytes, which widens them to
// float64 and formats with bitSize 64: the text is the shortest round-trip text of the widened DOUBLE, not of the float32
// in the context (0.1 -> 0.10000000149011612). float32 is a type the conversion accepts, so it is a supported scalar.
func TestAudit7(t *testing.T) {
	tree, err := Parse([]byte(`{%= a %}|{%= b %}|{%= c %}|{%= o.FloatSlice.0 %}`), false)
	if err != nil {
		t.Fatal(err)
	}
	RegisterTplKey("audit7", tree)
	ctx := NewCtx()
	f := float32(3.141592)
	ctx.SetStatic("a", float32(0.1))
	ctx.SetStatic("b", &f)
	ctx.SetStatic("c", float32(16777216))
	ctx.Set("o", &testobj.TestObject1{FloatSlice: testobj.TestFloatSlice{0.3}}, testobj_ins.TestObject1Inspector{})
	got, err := Render("audit7", ctx)
	if want := "0.1|3.141592|16777216|0.3"; err != nil || string(got) != want {
		t.Errorf("got %q (err %v), want %q", got, err, want)
	}
}
