package dyntpl

import (
	"fmt"
	"testing"

	"github.com/koykov/inspector/testobj"
	"github.com/koykov/inspector/testobj_ins"
)

// Property C01: "A missing, nil or empty value prints nothing" (quantifier: "... empty strings/bytes, nil pointers
// and missing fields").
//
// The print branch of writeNode only tests `raw == nil || raw == ""`. A typed nil pointer ((*string)(nil), (*int)(nil),
// (*[]byte)(nil) ...) stored in the context is not a nil interface: it goes to BufAcc.WriteX -> x2bytes, which
// dereferences it, and the render PANICS. The same happens one step earlier for a nil struct pointer given with its
// inspector: ctx.get hands it to the generated GetTo, which takes the address of a field of the nil struct.
// (conv.go already has typedNil() for the Conv* helpers; the print path does not use it.)
func TestAudit2(t *testing.T) {
	render := func(key, src string, prep func(ctx *Ctx)) (out string) {
		defer func() {
			if r := recover(); r != nil {
				out = fmt.Sprintf("PANIC: %v", r)
			}
		}()
		tree, err := Parse([]byte(src), false)
		if err != nil {
			return "parse error: " + err.Error()
		}
		RegisterTplKey(key, tree)
		ctx := NewCtx()
		prep(ctx)
		b, err := Render(key, ctx)
		if err != nil {
			return fmt.Sprintf("%s ERR: %v", b, err)
		}
		return string(b)
	}
	cases := []struct {
		key, src string
		prep     func(ctx *Ctx)
	}{
		{"audit2/0", `[{%= p pfx < sfx > %}]`, func(ctx *Ctx) { ctx.SetStatic("p", (*string)(nil)) }},
		{"audit2/1", `[{%= p pfx < sfx > %}]`, func(ctx *Ctx) { ctx.SetStatic("p", (*int)(nil)) }},
		{"audit2/2", `[{%= p pfx < sfx > %}]`, func(ctx *Ctx) { ctx.SetStatic("p", (*float64)(nil)) }},
		{"audit2/3", `[{%= p pfx < sfx > %}]`, func(ctx *Ctx) { ctx.SetStatic("p", (*bool)(nil)) }},
		{"audit2/4", `[{%= p pfx < sfx > %}]`, func(ctx *Ctx) { ctx.SetStatic("p", (*[]byte)(nil)) }},
		{"audit2/5", `[{%= user.Id pfx < sfx > %}]`, func(ctx *Ctx) {
			ctx.Set("user", (*testobj.TestObject)(nil), testobj_ins.TestObjectInspector{})
		}},
	}
	for _, c := range cases {
		if got, want := render(c.key, c.src, c.prep), "[]"; got != want {
			t.Errorf("%s %q with a nil pointer: got %q, want %q", c.key, c.src, got, want)
		}
	}
}
