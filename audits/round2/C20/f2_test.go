package dyntpl

import (
	"bytes"
	"math"
	"math/big"
	"strconv"
	"testing"
)

// Property C20: "The rounding directives and modifiers return the value rounded down, up, toward zero ... exact at
// the requested number of decimals" (precisions 1..15, all float64 inputs).
//
// roundHelper scales with a float multiplication (f * 10^prec). As soon as the product needs more than 53 bits
// (moderately large value x many decimals) the product and the division back are rounded, and the result lands on the
// WRONG SIDE of the value: floorPrec returns more than the value, ceilPrec less, roundPrec moves away from zero -
// even for a value like 99998.25 that is exact in binary and has two decimals.
func TestAudit2(t *testing.T) {
	render := func(key, src string, x float64) float64 {
		tree, err := Parse([]byte(src), false)
		if err != nil {
			t.Fatalf("%s: parse: %v", key, err)
		}
		RegisterTplKey(key, tree)
		ctx := NewCtx()
		ctx.SetStatic("x", x)
		var buf bytes.Buffer
		if err = Write(&buf, key, ctx); err != nil {
			t.Fatalf("%s: render: %v", key, err)
		}
		f, err := strconv.ParseFloat(buf.String(), 64)
		if err != nil {
			t.Fatalf("%s: output %q is not a number", key, buf.String())
		}
		return f
	}
	// The exact answer: floor / ceil / trunc of the exact binary value scaled by 10^k, as a rational number; then the
	// nearest float64.
	exact := func(f float64, k int, mode string) float64 {
		r := new(big.Rat).SetFloat64(f)
		p := new(big.Int).Exp(big.NewInt(10), big.NewInt(int64(k)), nil)
		r.Mul(r, new(big.Rat).SetInt(p))
		q := new(big.Int).Div(r.Num(), r.Denom()) // floor
		if !r.IsInt() && (mode == "ceil" || (mode == "trunc" && r.Sign() < 0)) {
			q.Add(q, big.NewInt(1))
		}
		x, _ := new(big.Rat).SetFrac(q, p).Float64()
		return x
	}

	cases := []struct {
		x float64
		k string
	}{
		{99998.25, "15"},  // exact in binary, two decimals
		{-99998.25, "15"}, //
		{999996.5, "14"},  // exact in binary, one decimal
		{12781.75811108151, "15"},
		{462624.20114388625, "10"},
	}
	for i, c := range cases {
		k, _ := strconv.Atoi(c.k)
		id := strconv.Itoa(i)
		fl := render("audit2f"+id, `{%= x|floorPrec(`+c.k+`) %}`, c.x)
		ce := render("audit2c"+id, `{%= x|ceilPrec(`+c.k+`) %}`, c.x)
		tr := render("audit2r"+id, `{%= x|roundPrec(`+c.k+`) %}`, c.x)
		fd := render("audit2d"+id, `{%f.`+c.k+`= x %}`, c.x)
		if fl > c.x || fl != exact(c.x, k, "floor") {
			t.Errorf("%v|floorPrec(%s): got %v, want %v (the exact result; rounding down never gives more than the value)", c.x, c.k, fl, exact(c.x, k, "floor"))
		}
		if fd != fl {
			t.Errorf("{%%f.%s= %v %%}: got %v, floorPrec gave %v", c.k, c.x, fd, fl)
		}
		if ce < c.x || ce != exact(c.x, k, "ceil") {
			t.Errorf("%v|ceilPrec(%s): got %v, want %v (the exact result; rounding up never gives less than the value)", c.x, c.k, ce, exact(c.x, k, "ceil"))
		}
		if math.Abs(tr) > math.Abs(c.x) || tr != exact(c.x, k, "trunc") {
			t.Errorf("%v|roundPrec(%s): got %v, want %v (the exact result; cutting toward zero never grows the magnitude)", c.x, c.k, tr, exact(c.x, k, "trunc"))
		}
	}
}
