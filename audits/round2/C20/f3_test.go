package dyntpl

import (
	"bytes"
	"testing"
	"time"

	"github.com/koykov/clock"
)

// Property C20: "Formatting a time ... with a literal layout or a named layout global yields exactly the clock
// formatter's text for that instant and that layout" (quantifier: literal strftime layouts).
//
// A literal layout is cut by the parser before the modifier sees it: the argument list is split at every comma (also
// inside the quotes), the modifier expression ends at the first ")" and the chain is split at every "|" (both also
// inside the quotes), and Trim(quotes) strips an apostrophe that belongs to the layout. The parser accepts all of
// these templates; the render prints nothing (or a mutilated text). The layouts below are the spelled-out texts of
// the library's own globals time::RFC1123 and time::RFC850 among others - the globals work, the same text as a literal
// does not.
func TestAudit3(t *testing.T) {
	tm := time.Date(2006, 1, 2, 15, 4, 5, 123456789, time.UTC)
	layouts := []string{
		"%a, %d %b %Y %H:%M:%S %Z", // = clock.RFC1123
		"%A, %d-%b-%y %H:%M:%S %Z", // = clock.RFC850
		"%d.%m.%Y, %H:%M",
		"%H:%M (%Z)",
		"%H|%M",
		"'%y",
	}
	for i, layout := range layouts {
		key := "audit3_" + string(rune('a'+i))
		src := `{%= t|time::date("` + layout + `") %}`
		tree, err := Parse([]byte(src), false)
		if err != nil {
			t.Logf("%s: rejected by the parser (%v) - not counted", src, err)
			continue
		}
		RegisterTplKey(key, tree)
		ctx := NewCtx()
		ctx.SetStatic("t", tm)
		var buf bytes.Buffer
		if err = Write(&buf, key, ctx); err != nil {
			t.Errorf("%s: render error %v", src, err)
			continue
		}
		want, _ := clock.AppendFormat(nil, layout, tm)
		if buf.String() != string(want) {
			t.Errorf("%s: got %q, want %q", src, buf.String(), want)
		}
	}
}
