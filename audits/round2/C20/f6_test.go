package dyntpl

import (
	"bytes"
	"testing"
	"time"
)

// Property C20: "the arithmetic modifiers return the float64 result of the named operation on value and argument - in
// pipe form or in the documented function-call form"; "Formatting a time ... yields exactly the clock formatter's text".
//
// Inside the ternary print tag {%= a > b ? X : Y %} the two branches are separated by reTplTernary's `([^:]+):(.*)`,
// i.e. at the FIRST colon - which is the first colon of the namespace separator of math::sub / time::date. The branch
// X becomes `a|math` (unknown modifier: dropped silently, the operand is printed untouched), the branch Y becomes
// `:sub(b) : b|math::sub(a)` (prints nothing). The parser accepts the template. The rounding modifiers (no namespace)
// do work in the same place.
func TestAudit6(t *testing.T) {
	tm := time.Date(2006, 1, 2, 15, 4, 5, 0, time.UTC)
	render := func(key, src string, vars map[string]any) string {
		tree, err := Parse([]byte(src), false)
		if err != nil {
			t.Fatalf("%s: parse: %v", src, err)
		}
		RegisterTplKey(key, tree)
		ctx := NewCtx()
		for k, v := range vars {
			ctx.SetStatic(k, v)
		}
		var buf bytes.Buffer
		if err = Write(&buf, key, ctx); err != nil {
			t.Fatalf("%s: render: %v", src, err)
		}
		return buf.String()
	}
	const diff = `{%= a > b ? a|math::sub(b) : b|math::sub(a) %}` // |a-b|
	if got := render("audit6a", diff, map[string]any{"a": 5, "b": 3}); got != "2" {
		t.Errorf("%s with a=5 b=3: got %q, want %q", diff, got, "2")
	}
	if got := render("audit6b", diff, map[string]any{"a": 3, "b": 5}); got != "2" {
		t.Errorf("%s with a=3 b=5: got %q, want %q", diff, got, "2")
	}
	const call = `{%= a > b ? math::sub(a, b) : math::sub(b, a) %}`
	if got := render("audit6c", call, map[string]any{"a": 5, "b": 3}); got != "2" {
		t.Errorf("%s with a=5 b=3: got %q, want %q", call, got, "2")
	}
	const date = `{%= a > b ? t|time::date(time::RFC3339) : t|time::date(time::Kitchen) %}`
	if got := render("audit6d", date, map[string]any{"a": 5, "b": 3, "t": tm}); got != "2006-01-02T15:04:05Z" {
		t.Errorf("%s with a=5 b=3: got %q, want %q", date, got, "2006-01-02T15:04:05Z")
	}
	// Control: modifiers without a namespace are fine in the same place.
	const ctl = `{%= a > b ? a|floor : b|ceil %}`
	if got := render("audit6e", ctl, map[string]any{"a": 5.5, "b": 3.5}); got != "5" {
		t.Fatalf("%s: got %q, want %q (control)", ctl, got, "5")
	}
}
