package dyntpl

import (
	"bytes"
	"testing"
	"time"
)

// Property C20: "the arithmetic modifiers return the float64 result of the named operation on value and argument"
// and "adding a duration of fixed-length units yields the instant plus that duration".
//
// The result of a math::* / round* / time::add modifier is a POINTER to the context's scratch cell (ctx.BufF,
// ctx.BufT). A ctx assignment stores that pointer as the variable, so the variable changes its value as soon as any
// later tag of the same render runs another modifier of the family (running sum in a loop, two derived values...).
func TestAudit1(t *testing.T) {
	render := func(key, src string, vars map[string]any) string {
		tree, err := Parse([]byte(src), false)
		if err != nil {
			t.Fatalf("%s: parse: %v", key, err)
		}
		RegisterTplKey(key, tree)
		ctx := NewCtx()
		for k, v := range vars {
			ctx.SetStatic(k, v)
		}
		var buf bytes.Buffer
		if err = Write(&buf, key, ctx); err != nil {
			t.Fatalf("%s: render: %v", key, err)
		}
		return buf.String()
	}

	// 1. Two derived numbers.
	got := render("audit1a", `{% ctx a = x|math::add(1) %}{% ctx b = y|math::mul(2) %}{%= a %};{%= b %}`,
		map[string]any{"x": 1, "y": 10})
	if want := "2;20"; got != want {
		t.Errorf("a = x+1, b = y*2: got %q, want %q", got, want)
	}

	// 2. A value kept in a variable, then an unrelated print with a math modifier.
	got = render("audit1b", `{% ctx a = x|math::add(1) %}[{%= y|math::mul(2) %}]{%= a %}`,
		map[string]any{"x": 1, "y": 10})
	if want := "[20]2"; got != want {
		t.Errorf("a = x+1 printed after y*2: got %q, want %q", got, want)
	}

	// 3. The same with instants: a = t+1h, b = t+2h.
	tm := time.Date(2006, 1, 2, 15, 4, 5, 0, time.UTC)
	got = render("audit1c", `{% ctx a = t|time::add("1 h") %}{% ctx b = t|time::add("2 h") %}{%= a|time::date("%H") %};{%= b|time::date("%H") %}`,
		map[string]any{"t": tm})
	if want := "16;17"; got != want {
		t.Errorf("a = t+1h, b = t+2h: got %q, want %q", got, want)
	}

	// 4. Rounded value kept, another rounding afterwards.
	got = render("audit1d", `{% ctx a = x|floorPrec(1) %}{%F.1= y %};{%= a %}`,
		map[string]any{"x": 1.26, "y": 7.71})
	if want := "7.8;1.2"; got != want {
		t.Errorf("a = floorPrec(x,1) printed after ceilPrec(y,1): got %q, want %q", got, want)
	}
}
