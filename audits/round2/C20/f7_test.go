package dyntpl

import (
	"bytes"
	"testing"
	"time"
)

// Property C20: "adding a duration of fixed-length units yields the instant plus that duration" (quantifier: every
// documented fixed-length unit spelling, SIGN AND SPACING for time::add).
//
// The plus sign is dyntpl's own addition (clock.Relative knows the minus only): modDateAdd strips it when it is the
// very first byte of the argument, BEFORE the blanks are trimmed (clock.Relative trims them afterwards). "+1 h",
// "+ 1 h", "+1 h " and " 1 h" all work; " +1 h" fails inside clock.Relative with ErrBadNum - and the print tag drops
// that error (writeNode returns the named err, which is still nil), so the render "succeeds" and prints nothing.
func TestAudit7(t *testing.T) {
	tm := time.Date(2006, 1, 2, 15, 4, 5, 0, time.UTC)
	for i, d := range []string{"+1 h", "+ 1 h", "+1 h ", " 1 h", " -1 h", " +1 h", "  +90 min"} {
		key := "audit7_" + string(rune('a'+i))
		src := `{%= t|time::add("` + d + `")|time::date("%H:%M") %}`
		tree, err := Parse([]byte(src), false)
		if err != nil {
			t.Fatalf("%s: parse: %v", src, err)
		}
		RegisterTplKey(key, tree)
		ctx := NewCtx()
		ctx.SetStatic("t", tm)
		var buf bytes.Buffer
		err = Write(&buf, key, ctx)
		want := "16:04"
		switch d {
		case " -1 h":
			want = "14:04"
		case "  +90 min":
			want = "16:34"
		}
		if err != nil || buf.String() != want {
			t.Errorf("%s: got %q (err %v), want %q", src, buf.String(), err, want)
		}
	}
}
