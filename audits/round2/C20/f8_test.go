package dyntpl

import (
	"bytes"
	"testing"
)

// Property C20: "The rounding directives and modifiers return the value rounded down, up, toward zero or to the
// nearest integer - as their name and documented example say ... whichever numeric type or numeric string the operands
// arrive as" (quantifier: all integer and string encodings).
//
// The six rounding modifiers convert the value with ConvFloat (conv.go), which knows float32/float64 and pointers to
// them only; every other carrier falls into the default arm and the value is printed UNROUNDED. The arithmetic modifiers
// use floatConv and do take these carriers. A number assigned with {% ctx pi = 3.1415 %} is kept as bytes, a default
// value is a literal (bytes), a JSON-decoded number may be a string ...
// (The readme's own example `{%f.3= 3.1415 %}` -> 3.141 prints nothing at all: a literal is no print source.)
func TestAudit8(t *testing.T) {
	render := func(key, src string, vars map[string]any) string {
		tree, err := Parse([]byte(src), false)
		if err != nil {
			t.Fatalf("%s: parse: %v", src, err)
		}
		RegisterTplKey(key, tree)
		ctx := NewCtx()
		for k, v := range vars {
			ctx.SetStatic(k, v)
		}
		var buf bytes.Buffer
		if err = Write(&buf, key, ctx); err != nil {
			t.Fatalf("%s: render: %v", src, err)
		}
		return buf.String()
	}
	cases := []struct {
		src  string
		vars map[string]any
		want string
	}{
		{`{% ctx pi = 3.1415 %}{%f.3= pi %}`, nil, "3.141"},
		{`{% ctx pi = 3.1415 %}{%F.3= pi %}`, nil, "3.142"},
		{`{%= x|floor %}`, map[string]any{"x": "3.7"}, "3"},
		{`{%= x|ceil %}`, map[string]any{"x": []byte("3.2")}, "4"},
		{`{%= x|round %}`, map[string]any{"x": "-2.5"}, "-3"},
		{`{%= x|default(2.55)|roundPrec(1) %}`, map[string]any{"x": 0.0}, "2.5"},
		// control: the same carriers under an arithmetic modifier, and a float under floor
		{`{% ctx pi = 3.1415 %}{%= pi|math::add(0)|floorPrec(3) %}`, nil, "3.141"},
		{`{%= x|floor %}`, map[string]any{"x": 3.7}, "3"},
	}
	for i, c := range cases {
		if got := render("audit8_"+string(rune('a'+i)), c.src, c.vars); got != c.want {
			t.Errorf("%s %v: got %q, want %q", c.src, c.vars, got, c.want)
		}
	}
}
