package dyntpl

import (
	"bytes"
	"testing"
	"time"
)

// Property C20: "the arithmetic modifiers return the float64 result of the named operation on value and argument ...
// whichever numeric type or numeric string the operands arrive as".
//
// A numeric string that arrives from an earlier modifier of the same chain is carried in the library's own byte-string
// type: time::date, htmlEscape, jsonEscape, urlEncode ... hand over *bytebuf.Chain (ctx.BufModOut). floatConv (mod_math.go)
// knows string, *string, []byte, *[]byte - not bytebuf.Chain / *bytebuf.Chain (if2int and ConvBytes next door do know
// them), so it falls into the default arm: the modifier does nothing and the operand is printed unchanged.
func TestAudit5(t *testing.T) {
	tm := time.Date(2006, 1, 2, 15, 4, 5, 0, time.UTC)
	cases := []struct{ src, want string }{
		{`{%= t|time::date("%Y")|math::sub(1) %}`, "2005"},          // last year
		{`{%= t|time::date("%H")|math::mod(12) %}`, "3"},            // hour on a 12-hour dial
		{`{%= t|time::date("%s")|math::add(3600) %}`, "1136217845"}, // Unix seconds of t + 1h
		{`{%= n|htmlEscape|math::inc %}`, "42"},
	}
	for i, c := range cases {
		key := "audit5_" + string(rune('a'+i))
		tree, err := Parse([]byte(c.src), false)
		if err != nil {
			t.Fatalf("%s: parse: %v", c.src, err)
		}
		RegisterTplKey(key, tree)
		ctx := NewCtx()
		ctx.SetStatic("t", tm)
		ctx.SetStatic("n", "41")
		var buf bytes.Buffer
		if err = Write(&buf, key, ctx); err != nil {
			t.Fatalf("%s: render: %v", c.src, err)
		}
		if buf.String() != c.want {
			t.Errorf("%s: got %q, want %q", c.src, buf.String(), c.want)
		}
	}
}
