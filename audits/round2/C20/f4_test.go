package dyntpl

import (
	"bytes"
	"testing"
)

// Property C20: "The rounding directives and modifiers return the value rounded down, up ... exact at the requested
// number of decimals" (precisions 1..15, every spelling).
//
// The precision of {%f.<num>= %} / {%F.<num>= %} / floorPrec(<num>) is any run of digits (reModPfxF: \d*, isStatic:
// \d+), but text2int reads it with strconv.ParseInt(s, 0, 0): base 0 takes a leading zero for an OCTAL prefix. So
// f.08 and f.09 are "not a number" and the value is printed unrounded, and f.010 … f.015 round to 8 … 13 decimals.
func TestAudit4(t *testing.T) {
	render := func(key, src string) string {
		tree, err := Parse([]byte(src), false)
		if err != nil {
			t.Fatalf("%s: parse: %v", src, err)
		}
		RegisterTplKey(key, tree)
		ctx := NewCtx()
		ctx.SetStatic("x", 3.14159265358979)
		var buf bytes.Buffer
		if err = Write(&buf, key, ctx); err != nil {
			t.Fatalf("%s: render: %v", src, err)
		}
		return buf.String()
	}
	cases := []struct{ src, plain, want string }{
		{`{%f.08= x %}`, `{%f.8= x %}`, "3.14159265"},
		{`{%F.09= x %}`, `{%F.9= x %}`, "3.141592654"},
		{`{%f.010= x %}`, `{%f.10= x %}`, "3.1415926535"},
		{`{%= x|floorPrec(08) %}`, `{%= x|floorPrec(8) %}`, "3.14159265"},
		{`{%= x|ceilPrec(012) %}`, `{%= x|ceilPrec(12) %}`, "3.14159265359"},
		{`{%f.03= x %}`, `{%f.3= x %}`, "3.141"}, // control: passes (octal 3 = 3)
	}
	for i, c := range cases {
		id := string(rune('a' + i))
		plain := render("audit4p"+id, c.plain)
		if plain != c.want {
			t.Fatalf("%s: got %q, want %q (the test's own expectation is wrong)", c.plain, plain, c.want)
		}
		if got := render("audit4z"+id, c.src); got != c.want {
			t.Errorf("%s: got %q, want %q (as %s)", c.src, got, c.want, c.plain)
		}
	}
}
