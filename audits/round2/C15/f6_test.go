package dyntpl

import (
	"fmt"
	"testing"
)

// Property C15: "A counter holds its initial value plus the sum of the increments and decrements applied since."
//
// processCtl takes every tag that starts with "counter " / "cntr " for a counter tag (reCntr), but when none of
// reCntrInit / reCntrOp0 / reCntrOp1 matches, the node is added with an empty name and a zero operation: the parser
// accepts the tag and the render silently does nothing (it sets a counter named "" to 0). A negative initial value
// (SetCounter takes one, and a counter gets there by decrements) and the operators written with a space are such tags.
func TestAudit6(t *testing.T) {
	for i, c := range []struct{ src, want string }{
		{`{% counter c = -5 %}{% counter c++ %}[{%= c %}]`, "[-4]"},
		{`{% counter c = 5 %}{% counter c ++ %}[{%= c %}]`, "[6]"},
		{`{% counter c = 5 %}{% counter c -- %}[{%= c %}]`, "[4]"},
		{`{% counter c = 5 %}{% counter c +2 %}[{%= c %}]`, "[7]"},
		{`{% counter c = 5 %}{% counter c + 2 %}[{%= c %}]`, "[7]"},
		// control
		{`{% counter c = 5 %}{% counter c++ %}{% counter c+2 %}{% counter c-10 %}[{%= c %}]`, "[-2]"},
	} {
		name := fmt.Sprintf("audit6_%d", i)
		tree, err := Parse([]byte(c.src), false)
		if err != nil {
			// A rejected template is not a wrong render.
			t.Logf("%s: rejected by the parser: %v", c.src, err)
			continue
		}
		RegisterTplKey(name, tree)
		ctx := NewCtx()
		out, err := Render(name, ctx)
		if err != nil {
			t.Fatalf("%s: render: %v", c.src, err)
		}
		if got := string(out); got != c.want {
			t.Errorf("%s: got %q, want %q", c.src, got, c.want)
		}
	}
}
