package dyntpl

import "testing"

// Property C15: "the ok-flag of a ctx assignment is true exactly when the source value was non-empty" and
// "reading a variable yields the value most recently assigned".
//
// The empty literal {% ctx x, ok = "" %} (also '') is not matched by reCtxS0 / reCtxS1 (they want one character between
// the quotes at least), falls through to reCtx, and the source is kept WITH its quotes: x reads the two characters `""`,
// and ok is true.
func TestAudit3(t *testing.T) {
	for _, c := range []struct{ name, src, want string }{
		{"audit3a", `{% ctx x, ok = "" %}[{%= x %}|{%= ok %}|{% if x == "" %}empty{% else %}not empty{% endif %}]`, "[|false|empty]"},
		{"audit3b", `{% ctx x, ok = '' %}[{%= x %}|{%= ok %}]`, "[|false]"},
		// control: a variable source that is empty gives ok = false
		{"audit3c", `{% ctx x, ok = e %}[{%= ok %}]`, "[false]"},
	} {
		tree, err := Parse([]byte(c.src), false)
		if err != nil {
			t.Fatalf("%s: parse: %v", c.name, err)
		}
		RegisterTplKey(c.name, tree)
		ctx := NewCtx()
		ctx.SetString("e", "")
		out, err := Render(c.name, ctx)
		if err != nil {
			t.Fatalf("%s: render: %v", c.name, err)
		}
		if got := string(out); got != c.want {
			t.Errorf("%s: got %q, want %q", c.src, got, c.want)
		}
	}
}
