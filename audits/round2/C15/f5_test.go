package dyntpl

import (
	"fmt"
	"testing"
)

// Property C15: "reading a variable yields the value most recently assigned to that name — through ... a ctx tag ...
// whatever kind of value the name held before", together with "the ok-flag of a ctx assignment is true exactly when
// the source value was non-empty" (so an assignment from an empty source IS an assignment, with ok = false).
//
// writeNode (typeCtx, non-literal source) returns right after setting the ok-flag when the source is empty or absent:
// the name keeps the value of the assignment BEFORE, so x and ok describe two different assignments.
func TestAudit5(t *testing.T) {
	for i, c := range []struct{ src, want string }{
		{`{% ctx x, ok = "first" %}{% ctx x, ok = e %}[{%= x %}|{%= ok %}]`, "[|false]"},
		{`{% ctx x, ok = "first" %}{% ctx x, ok = eb %}[{%= x %}|{%= ok %}]`, "[|false]"},
		{`{% ctx x, ok = "first" %}{% ctx x, ok = e|default(eb) %}{% if x == "first" %}still first{% else %}replaced{% endif %}`, "replaced"},
		{`{% counter x = 7 %}{% ctx x = e %}[{%= x %}]`, "[]"},
		// control: the literal form of the same assignment does replace the value (with the value `""`, see finding 3)
		{`{% ctx x = "first" %}{% ctx x = "" %}{% if x == "first" %}still first{% else %}replaced{% endif %}`, "replaced"},
	} {
		name := fmt.Sprintf("audit5_%d", i)
		tree, err := Parse([]byte(c.src), false)
		if err != nil {
			t.Fatalf("%s: parse: %v", c.src, err)
		}
		RegisterTplKey(name, tree)
		ctx := NewCtx()
		ctx.SetStatic("e", "")
		ctx.SetBytes("eb", nil)
		out, err := Render(name, ctx)
		if err != nil {
			t.Fatalf("%s: render: %v", c.src, err)
		}
		if got := string(out); got != c.want {
			t.Errorf("%s: got %q, want %q", c.src, got, c.want)
		}
	}
}
