package dyntpl

import (
	"testing"

	"github.com/koykov/inspector/testobj"
	"github.com/koykov/inspector/testobj_ins"
)

// Property C15: "reading a variable yields the value most recently assigned to that name — through ... a ctx tag"
// ({% ctx %} with modifier sources) and "Two different variables never alias".
//
// The numeric and the time modifiers (round, ceil, floor, math::*, time::now, time::add) return a pointer to the
// context's scratch cell ctx.BufF / ctx.BufT. {% ctx x = v|round %} stores that pointer in x, so x reads whatever the
// LAST modifier of that family computed, in any later tag.
func TestAudit2(t *testing.T) {
	obj := &testobj.TestObject{Cost: 12.34, Finance: &testobj.TestFinance{Balance: 9000}}
	render := func(name, src string) string {
		tree, err := Parse([]byte(src), false)
		if err != nil {
			t.Fatalf("%s: parse: %v", name, err)
		}
		RegisterTplKey(name, tree)
		ctx := NewCtx()
		ctx.Set("obj", obj, testobj_ins.TestObjectInspector{})
		out, err := Render(name, ctx)
		if err != nil {
			t.Fatalf("%s: render: %v", name, err)
		}
		return string(out)
	}

	// (a) Two variables assigned from two modifier results are one and the same cell.
	got := render("audit2a", `{% ctx x = obj.Cost|round %}{% ctx y = obj.Finance.Balance|math::add(1) %}[{%= x %}|{%= y %}]`)
	if want := "[12|9001]"; got != want {
		t.Errorf("two float results: got %q, want %q", got, want)
	}

	// (b) A print tag that does not mention x changes what x reads.
	got = render("audit2b", `{% ctx x = obj.Cost|round %}<{%= obj.Finance.Balance|round %}>[{%= x %}]`)
	if want := "<9000>[12]"; got != want {
		t.Errorf("float result then unrelated print: got %q, want %q", got, want)
	}

	// (c) The same with time values.
	got = render("audit2c", `{% ctx t0 = time::now("stuck") %}{% ctx t1 = t0|time::add("+1 day") %}[{%= t0|time::format("%Y-%m-%d") %}|{%= t1|time::format("%Y-%m-%d") %}]`)
	if want := "[2020-02-23|2020-02-24]"; got != want {
		t.Errorf("two time results: got %q, want %q", got, want)
	}
}
