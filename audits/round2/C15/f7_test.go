package dyntpl

import (
	"fmt"
	"testing"

	"github.com/koykov/inspector/testobj"
	"github.com/koykov/inspector/testobj_ins"
)

// Property C15: "A counter holds its initial value plus the sum of the increments and decrements applied since ...
// whatever kind of value the name held before."
//
// {% counter n++ %} / n+k / n-- / n-k read the current value of the name with ConvInt, which knows the SIGNED integer
// types only. When the value the name holds was assigned as an unsigned integer (SetStatic("n", uint(5)), a uint64
// field taken with {% ctx %}), as a numeric literal ({% ctx n = 5 %}, kept as the text "5") or as the key of a range
// loop (text as well), the value is dropped and the counter restarts from 0. Signed values of every width (int8 …
// int64, the *int64 of a counter loop) are kept; loop bounds read the very same values with if2int and accept them all.
func TestAudit7(t *testing.T) {
	obj := &testobj.TestObject{Status: 78, Ustate: 9,
		Finance: &testobj.TestFinance{History: []testobj.TestHistory{{DateUnix: 5}, {DateUnix: 6}}}}
	for i, c := range []struct{ src, want string }{
		{`{% ctx n = 5 %}{% counter n++ %}[{%= n %}]`, "[6]"},
		{`{% ctx n = 5 %}{% counter n-- %}[{%= n %}]`, "[4]"},
		{`{% counter u+2 %}[{%= u %}]`, "[7]"},
		{`{% ctx n = obj.Ustate %}{% counter n++ %}[{%= n %}]`, "[10]"},
		{`{% for k, v := range obj.Finance.History %}{% counter k+10 %}{%= k %},{% endfor %}`, "10,11,"},
		// controls: signed kinds keep their value
		{`{% ctx n = obj.Status %}{% counter n++ %}[{%= n %}]`, "[79]"},
		{`{% counter i8++ %}[{%= i8 %}]`, "[6]"},
		{`{% for i:=0; i<2; i++ %}{% counter i+10 %}{%= i %},{% endfor %}`, "10,11,"},
	} {
		name := fmt.Sprintf("audit7_%d", i)
		tree, err := Parse([]byte(c.src), false)
		if err != nil {
			t.Fatalf("%s: parse: %v", c.src, err)
		}
		RegisterTplKey(name, tree)
		ctx := NewCtx()
		ctx.Set("obj", obj, testobj_ins.TestObjectInspector{})
		ctx.SetStatic("u", uint(5))
		ctx.SetStatic("i8", int8(5))
		out, err := Render(name, ctx)
		if err != nil {
			t.Fatalf("%s: render: %v", c.src, err)
		}
		if got := string(out); got != c.want {
			t.Errorf("%s: got %q, want %q", c.src, got, c.want)
		}
	}
}
