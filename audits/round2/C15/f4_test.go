package dyntpl

import (
	"fmt"
	"testing"
)

// Property C15: "reading a variable yields the value most recently assigned to that name — through ... a ctx tag"
// ({% ctx %} with literal sources).
//
// The quoted literal of a ctx tag is not protected from the other alternatives of the ctx grammar:
//   - reCtxAs / reCtxDot are tried BEFORE reCtxS0 / reCtxS1, so a literal that contains " as " or ".(" is cut there
//     and its tail is taken for an inspector name;
//   - the text between the quotes is passed through extractMods, so a literal that contains "|" is cut at the bar.
//
// The parser accepts all of these templates.
func TestAudit4(t *testing.T) {
	for i, c := range []struct{ src, want string }{
		{`{% ctx x = "a|b" %}[{%= x %}]`, "[a|b]"},
		{`{% ctx x = "save as static" %}[{%= x %}]`, "[save as static]"},
		{`{% ctx x = "read as draft" %}[{%= x %}]`, "[read as draft]"},
		{`{% ctx x = 'f.(x)' %}[{%= x %}]`, "[f.(x)]"},
		// control
		{`{% ctx x = "a b" %}[{%= x %}]`, "[a b]"},
	} {
		name := fmt.Sprintf("audit4_%d", i)
		tree, err := Parse([]byte(c.src), false)
		if err != nil {
			t.Fatalf("%s: parse: %v", c.src, err)
		}
		RegisterTplKey(name, tree)
		ctx := NewCtx()
		ctx.SetString("x", "old")
		out, err := Render(name, ctx)
		got := string(out)
		if err != nil {
			got += " (render error: " + err.Error() + ")"
		}
		if got != c.want {
			t.Errorf("%s: got %q, want %q", c.src, got, c.want)
		}
	}
}
