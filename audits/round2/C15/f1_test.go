package dyntpl

import "testing"

// Property C15: "Two different variables never alias: reading or passing one never changes what another reads"
// and "reading a variable yields the value most recently assigned to that name".
//
// {% ctx x = c %} with a counter (or a loop counter) as the source stores a POINTER to the storage cell of the source
// (ctx.vars[i].cntr / ctx.bufLC[j]) in x. Every later {% counter c++ %} / {% counter c = n %} / loop increment is then
// read through x as well, although x was not assigned again.
func TestAudit1(t *testing.T) {
	render := func(name, src string, prep func(ctx *Ctx)) string {
		tree, err := Parse([]byte(src), false)
		if err != nil {
			t.Fatalf("%s: parse: %v", name, err)
		}
		RegisterTplKey(name, tree)
		ctx := NewCtx()
		if prep != nil {
			prep(ctx)
		}
		out, err := Render(name, ctx)
		if err != nil {
			t.Fatalf("%s: render: %v", name, err)
		}
		return string(out)
	}

	// (a) Counter variable as the source. The names x and y exist already (as they do on every pooled context whose
	// variable list has spare room), c is a counter.
	got := render("audit1a",
		`{% counter c = 1 %}{% ctx x = c %}{% counter c++ %}{% ctx y = c %}{% counter c+10 %}[{%= x %}|{%= y %}|{%= c %}]`,
		func(ctx *Ctx) { ctx.SetStatic("x", "-").SetStatic("y", "-") })
	if want := "[1|2|12]"; got != want {
		t.Errorf("counter source: got %q, want %q", got, want)
	}

	// (b) The same with a fresh initial value instead of an increment.
	got = render("audit1b",
		`{% counter c = 1 %}{% ctx x = c %}{% counter c = 50 %}[{%= x %}|{%= c %}]`,
		func(ctx *Ctx) { ctx.SetStatic("x", "-") })
	if want := "[1|50]"; got != want {
		t.Errorf("counter source, new init: got %q, want %q", got, want)
	}

	// (c) Counter of a counter loop as the source: x is assigned once, in the first iteration (i == 0).
	got = render("audit1c",
		`{% for i:=0; i<3; i++ %}{% if i == 0 %}{% ctx x = i %}{% endif %}{%= x %}{% endfor %}|{%= x %}`, nil)
	if want := "000|0"; got != want {
		t.Errorf("loop counter source: got %q, want %q", got, want)
	}

	// (d) Read as condition operand.
	got = render("audit1d",
		`{% counter c = 1 %}{% ctx x = c %}{% counter c++ %}{% if x == 1 %}one{% else %}not one{% endif %}`,
		func(ctx *Ctx) { ctx.SetStatic("x", "-") })
	if want := "one"; got != want {
		t.Errorf("condition operand: got %q, want %q", got, want)
	}

	// (e) No name declared beforehand: a new context hides the aliasing (appending x moves the variable list, so x
	// keeps pointing at the OLD copy of c), the same context after Reset shows it. Two renders of one template with
	// the same data differ.
	tree, err := Parse([]byte(`{% counter c = 1 %}{% ctx x = c %}{% counter c++ %}[{%= x %}|{%= c %}]`), false)
	if err != nil {
		t.Fatal(err)
	}
	RegisterTplKey("audit1e", tree)
	ctx := NewCtx()
	first, _ := Render("audit1e", ctx)
	ctx.Reset()
	second, _ := Render("audit1e", ctx)
	if want := "[1|2]"; string(first) != want || string(second) != want {
		t.Errorf("new context / same context after Reset: got %q / %q, want %q / %q", first, second, want, want)
	}
}
