package dyntpl

import (
	"encoding/json"
	"testing"
)

// Property C07, first sentence: "For every value, the JSON-escape directive produces text that, placed between double
// quotes, is a valid JSON string literal decoding to the original value, and JSON-quote produces that literal including
// the quotes; no quote, backslash or control character survives unescaped." - quantified over "j, q, the
// jsonEscape/jsonQuote modifiers".
//
// The parser accepts a blank after the bar of a modifier ({%= v| jsonEscape %}, {%= v| jsonQuote %}), but looks the
// modifier up under the name " jsonEscape" (with the blank), does not find it and drops it without a word: the value
// is printed as it is, quote, backslash and line feed included.
func TestAudit4(t *testing.T) {
	reg := func(key, src string) {
		tree, err := Parse([]byte(src), true)
		if err != nil {
			t.Fatalf("parse %s: %v", key, err)
		}
		RegisterTplKey(key, tree)
	}
	reg("audit2C07f4e", `"{%= v| jsonEscape %}"`)
	reg("audit2C07f4q", `{%= v| jsonQuote %}`)
	reg("audit2C07f4ok", `"{%= v|jsonEscape %}"`)

	const in = "a\"b\\c\nd"
	ctx := NewCtx()
	ctx.SetString("v", in)
	for _, key := range []string{"audit2C07f4ok", "audit2C07f4e", "audit2C07f4q"} {
		got, err := Render(key, ctx)
		if err != nil {
			t.Fatalf("render %s: %v", key, err)
		}
		var dec string
		if err := json.Unmarshal(got, &dec); err != nil {
			t.Errorf("%s: got %q, want a JSON string literal decoding to %q (%v)", key, got, in, err)
			continue
		}
		if dec != in {
			t.Errorf("%s: got %q decoding to %q, want %q", key, got, dec, in)
		}
	}
}
