package dyntpl

import (
	"testing"
)

// Property C07, second sentence: "Everything rendered inside a jsonquote region ... is JSON-escaped ONCE more than it
// would be outside."
//
// An included template that ends by {% exit %} between its {% jsonquote %} and {% endjsonquote %} ends alone (writeTree
// turns ErrInterrupt of the include into nil and the including template goes on), but the region it opened stays on
// Ctx.bnd. The including template is rendered further with a region open that it never opened: its own region is
// escaped twice, its plain text once.
func TestAudit2(t *testing.T) {
	reg := func(key, src string) {
		tree, err := Parse([]byte(src), true)
		if err != nil {
			t.Fatalf("parse %s: %v", key, err)
		}
		RegisterTplKey(key, tree)
	}
	reg("audit2C07f2sub", `{% jsonquote %}"sub"{% if stop == 1 %}{% exit %}{% endif %}"more"{% endjsonquote %}`)
	reg("audit2C07f2", `{% include audit2C07f2sub %}|{% jsonquote %}"own"{% endjsonquote %}|"plain"`)

	ctx := NewCtx()
	ctx.SetStatic("stop", 1)
	got, err := Render("audit2C07f2", ctx)
	if err != nil {
		t.Fatalf("render: %v", err)
	}
	// "sub" inside the region of the include: once. "own" inside the region of the including template: once.
	// "plain" and the bars: outside of every region.
	want := `\"sub\"` + `|` + `\"own\"` + `|` + `"plain"`
	if string(got) != want {
		t.Errorf("exit inside a jsonquote region of an included template\n got: %s\nwant: %s", got, want)
	}

	// Control: without the exit the same pair of templates is rendered as expected.
	ctx.Reset()
	ctx.SetStatic("stop", 0)
	got, err = Render("audit2C07f2", ctx)
	if err != nil {
		t.Fatalf("render: %v", err)
	}
	if want = `\"sub\"\"more\"|\"own\"|"plain"`; string(got) != want {
		t.Errorf("control (no exit)\n got: %s\nwant: %s", got, want)
	}
}
