package dyntpl

import (
	"testing"

	"github.com/koykov/inspector/testobj"
	"github.com/koykov/inspector/testobj_ins"
)

// Property C07, second sentence: "Everything rendered inside a jsonquote region - static text and printed values
// alike, except values marked raw - is JSON-escaped ONCE more than it would be outside."
//
// A {% continue %} (or {% break %}) that fires between {% jsonquote %} and {% endjsonquote %} of a loop body skips the
// closing tag, and nothing unwinds the stack of open regions (Ctx.bnd): the region of the abandoned iteration stays
// open. Every later iteration pushes its own region on top of it, so its content is escaped TWICE, and the text after
// the loop - outside of every region - is escaped once.
func TestAudit1(t *testing.T) {
	const src = `{% for _, h := range user.Finance.History %}` +
		`{% jsonquote %}"{%= h.Comment %}"{% if h.Comment == "b" %}{% continue %}{% endif %}{% endjsonquote %};` +
		`{% endfor %}"end"`
	tree, err := Parse([]byte(src), true)
	if err != nil {
		t.Fatalf("parse: %v", err)
	}
	RegisterTplKey("audit2C07f1", tree)

	obj := &testobj.TestObject{Finance: &testobj.TestFinance{History: []testobj.TestHistory{
		{Comment: []byte("a")}, {Comment: []byte("b")}, {Comment: []byte("c")}, {Comment: []byte("d")},
	}}}
	ctx := NewCtx()
	ctx.Set("user", obj, testobj_ins.TestObjectInspector{})
	got, err := Render("audit2C07f1", ctx)
	if err != nil {
		t.Fatalf("render: %v", err)
	}
	// Every iteration renders "<comment>" inside exactly one region: escaped once. The iteration of "b" ends at the
	// continue tag (no ';'). `;` and "end" stand outside of the region.
	want := `\"a\";` + `\"b\"` + `\"c\";` + `\"d\";` + `"end"`
	if string(got) != want {
		t.Errorf("continue inside a jsonquote region of a loop body\n got: %s\nwant: %s", got, want)
	}
}
