package dyntpl

import (
	"testing"
)

// Property C07, second sentence: "Everything rendered inside a jsonquote region - static text and printed values
// alike, EXCEPT VALUES MARKED RAW - is JSON-escaped once more than it would be outside."
//
// The raw mark is kept only when raw / noesc is the LAST modifier of the chain: parser.extractMods assigns the flag
// anew for every modifier (`noesc = fnName == "raw" || fnName == "noesc"`), so every modifier that follows takes the
// mark off again. {%= s|default("-")|raw %} is left alone by the region, {%= s|raw|default("-") %} is escaped.
func TestAudit3(t *testing.T) {
	const src = `{% jsonquote %}{%= s|default("-")|raw %}|{%= s|raw|default("-") %}|{%= s|noesc|default("-") %}{% endjsonquote %}`
	tree, err := Parse([]byte(src), true)
	if err != nil {
		t.Fatalf("parse: %v", err)
	}
	RegisterTplKey("audit2C07f3", tree)
	ctx := NewCtx()
	ctx.SetString("s", `{"k":"v"}`)
	got, err := Render("audit2C07f3", ctx)
	if err != nil {
		t.Fatalf("render: %v", err)
	}
	want := `{"k":"v"}|{"k":"v"}|{"k":"v"}`
	if string(got) != want {
		t.Errorf("value marked raw, another modifier after the mark\n got: %s\nwant: %s", got, want)
	}
}
