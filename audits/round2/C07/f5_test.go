package dyntpl

import (
	"encoding/json"
	"testing"
)

// Property C07, first sentence: "For every value, the JSON-escape directive produces text that, placed between double
// quotes, is a valid JSON string literal decoding to the original value ...; no quote, backslash or control character
// survives unescaped." - quantified over "the jsonEscape/jsonQuote modifiers".
//
// In a ctx tag whose source is a quoted literal the modifiers are dropped: the literal forms of the tag (reCtxS0 /
// reCtxS1) capture only the text between the quotes, so extractMods never sees "|jsonEscape", and the node is static -
// writeNode copies the literal and does not run node.mod at all. The same tag with a variable as the source escapes.
func TestAudit5(t *testing.T) {
	reg := func(key, src string) {
		tree, err := Parse([]byte(src), true)
		if err != nil {
			t.Fatalf("parse %s: %v", key, err)
		}
		RegisterTplKey(key, tree)
	}
	reg("audit2C07f5var", `{% ctx z = v|jsonEscape %}"{%= z %}"`)
	reg("audit2C07f5lit", `{% ctx z = 'say "hi"'|jsonEscape %}"{%= z %}"`)
	reg("audit2C07f5litq", `{% ctx z = 'say "hi"'|jsonQuote %}{%= z %}`)

	const in = `say "hi"`
	ctx := NewCtx()
	ctx.SetString("v", in)
	for _, key := range []string{"audit2C07f5var", "audit2C07f5lit", "audit2C07f5litq"} {
		got, err := Render(key, ctx)
		if err != nil {
			t.Fatalf("render %s: %v", key, err)
		}
		var dec string
		if err := json.Unmarshal(got, &dec); err != nil {
			t.Errorf("%s: got %s, want a JSON string literal decoding to %q (%v)", key, got, in, err)
			continue
		}
		if dec != in {
			t.Errorf("%s: got %s decoding to %q, want %q", key, got, dec, in)
		}
	}
}
