package dyntpl

import (
	"bytes"
	"strings"
	"testing"
)

// Property C18, first sentence: "Every function deferred through the context during a render runs exactly once,
// in registration order, after the outermost template has finished producing output".
//
// A render that ends with an error (here: an include of a template that is not registered, a {% continue %} /
// {% break %} that no loop of the render takes, a writer that fails) returns from write() before ctx.defer_():
// the functions deferred so far stay in ctx.dfr, and Ctx.Reset / ReleaseCtx throws them away. They run ZERO times.
var audit1Log []string

type audit1FailWriter struct {
	bytes.Buffer
	n int
}

func (w *audit1FailWriter) Write(p []byte) (int, error) {
	w.n++
	if w.n == 3 {
		return 0, bytes.ErrTooLarge
	}
	return w.Buffer.Write(p)
}

func TestAudit1(t *testing.T) {
	RegisterModFn("audit1Defer", "", func(ctx *Ctx, buf *any, val any, args []any) error {
		tag := "?"
		if len(args) > 0 {
			if b, ok := args[0].(*[]byte); ok {
				tag = string(*b)
			}
		}
		audit1Log = append(audit1Log, "reg:"+tag)
		ctx.Defer(func() error {
			audit1Log = append(audit1Log, "run:"+tag)
			return nil
		})
		return nil
	})
	reg := func(key, src string) {
		tree, err := Parse([]byte(src), false)
		if err != nil {
			t.Fatalf("parse %s: %v", key, err)
		}
		RegisterTplKey(key, tree)
	}
	// The sub-template is fine when it is included in a loop; included outside of one its {% continue %} ends the render.
	reg("audit1_sub", `[sub{%= v|audit1Defer("sub") %}{% continue %}]`)
	cases := []struct {
		name, src string
		failW     bool
	}{
		{"include of an unknown template", `A{%= v|audit1Defer("a") %}B{% include audit1_no_such_tpl %}C`, false},
		{"continue outside of a loop, depth 1", `A{%= v|audit1Defer("a") %}B{% include audit1_sub %}C`, false},
		{"break outside of a loop", `A{% for i:=0; i<2; i++ %}{%= v|audit1Defer("a") %}{% endfor %}B{% break %}C`, false},
		{"writer fails", `A{%= v|audit1Defer("a") %}B`, true},
	}
	for i, c := range cases {
		key := "audit1_" + string(rune('a'+i))
		reg(key, c.src)
		for _, release := range []bool{false, true} {
			audit1Log = audit1Log[:0]
			var ctx *Ctx
			if release {
				ctx = AcquireCtx()
			} else {
				ctx = NewCtx()
			}
			ctx.SetStatic("v", "V")
			var w audit1FailWriter
			if !c.failW {
				w.n = 100
			}
			err := Write(&w, key, ctx)
			if err == nil {
				t.Fatalf("%s: the render was expected to end with an error", c.name)
			}
			if release {
				ReleaseCtx(ctx)
			} else {
				ctx.Reset()
			}
			regs, runs := 0, 0
			for _, l := range audit1Log {
				if strings.HasPrefix(l, "reg:") {
					regs++
				}
				if strings.HasPrefix(l, "run:") {
					runs++
				}
			}
			if runs != regs {
				t.Errorf("%s (release=%v): render ended with %q after writing %q; %d functions were deferred, %d ran before the context was reset\n got log: %s\nwant: every deferred function runs exactly once",
					c.name, release, err, w.String(), regs, runs, strings.Join(audit1Log, " "))
			}
		}
	}
}
