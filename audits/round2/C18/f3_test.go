package dyntpl

import (
	"bytes"
	"errors"
	"strings"
	"testing"
)

// Property C18, first sentence: "EVERY function deferred through the context during a render runs exactly once, in
// registration order, after the outermost template has finished producing output".
//
// Ctx.defer_ stops at the first deferred function that returns an error and then empties the whole list: the
// functions registered after the failing one never run - not at the end of this render, not at the end of the next
// one, not on Reset.
var audit3Log []string

func TestAudit3(t *testing.T) {
	errAudit3 := errors.New("audit3: cleanup failed")
	RegisterModFn("audit3Defer", "", func(ctx *Ctx, buf *any, val any, args []any) error {
		tag := "?"
		if len(args) > 0 {
			if b, ok := args[0].(*[]byte); ok {
				tag = string(*b)
			}
		}
		audit3Log = append(audit3Log, "reg:"+tag)
		ctx.Defer(func() error {
			audit3Log = append(audit3Log, "run:"+tag)
			if tag == "b" {
				return errAudit3
			}
			return nil
		})
		return nil
	})
	reg := func(key, src string) {
		tree, err := Parse([]byte(src), false)
		if err != nil {
			t.Fatalf("parse %s: %v", key, err)
		}
		RegisterTplKey(key, tree)
	}
	reg("audit3_inc", `{%= v|audit3Defer("c") %}`)
	reg("audit3", `A{%= v|audit3Defer("a") %}{%= v|audit3Defer("b") %}{% include audit3_inc %}{%= v|audit3Defer("d") %}Z`)
	reg("audit3_plain", `plain`)

	ctx := NewCtx()
	ctx.SetStatic("v", "V")
	var w bytes.Buffer
	audit3Log = audit3Log[:0]
	err := Write(&w, "audit3", ctx)
	if err != errAudit3 {
		t.Fatalf("Write: got error %v, want the error of the deferred function", err)
	}
	// Give the library every further chance to settle them.
	_ = Write(&w, "audit3_plain", ctx)
	ctx.Reset()
	got := strings.Join(audit3Log, " ")
	want := "reg:a reg:b reg:c reg:d run:a run:b run:c run:d"
	if got != want {
		t.Errorf("output %q, error %q: the functions deferred after the failing one never ran\n got: %s\nwant: %s", w.String(), err, got, want)
	}
}
