package dyntpl

import (
	"bytes"
	"strings"
	"testing"
)

// Property C18, first sentence: deferred functions run "after the OUTERMOST template has finished producing output
// ... and never earlier".
//
// Only the include TAG goes through writeTree. Every public entry point (Write, WriteFallback, WriteByID, Render*)
// goes through write(), which runs and empties ctx.dfr unconditionally - it does not know whether it is the outermost
// render on this context. A modifier that renders a sub-template by a computed name through the public API on the
// context it was given (the only way to include by a name taken from the data) therefore settles everything deferred
// so far in the middle of the outer template's output. (Same root: a deferred function that renders on its context
// re-enters defer_ from index 0 and is run again, without bound.)
var audit4Log []string

type audit4Writer struct{ bytes.Buffer }

func (w *audit4Writer) Write(p []byte) (int, error) {
	audit4Log = append(audit4Log, "w:"+string(p))
	return w.Buffer.Write(p)
}

func TestAudit4(t *testing.T) {
	RegisterModFn("audit4Defer", "", func(ctx *Ctx, buf *any, val any, args []any) error {
		tag := "?"
		if len(args) > 0 {
			if b, ok := args[0].(*[]byte); ok {
				tag = string(*b)
			}
		}
		audit4Log = append(audit4Log, "reg:"+tag)
		ctx.Defer(func() error {
			audit4Log = append(audit4Log, "run:"+tag)
			return nil
		})
		return nil
	})
	// {%= name|audit4Render() %}: renders the template whose key is the value.
	RegisterModFn("audit4Render", "", func(ctx *Ctx, buf *any, val any, args []any) error {
		key := ""
		switch x := val.(type) {
		case *[]byte:
			key = string(*x)
		case *string:
			key = *x
		case string:
			key = x
		}
		out, err := RenderFallback(key, "audit4_fallback", ctx)
		if err != nil {
			return err
		}
		cp := append([]byte(nil), out...)
		*buf = &cp
		return nil
	})
	reg := func(key, src string) {
		tree, err := Parse([]byte(src), false)
		if err != nil {
			t.Fatalf("parse %s: %v", key, err)
		}
		RegisterTplKey(key, tree)
	}
	reg("audit4_fallback", `(sub{%= v|audit4Defer("sub") %})`)
	reg("audit4", `A{%= v|audit4Defer("a") %}B{%= name|audit4Render() %}C{%= v|audit4Defer("c") %}Z`)

	ctx := NewCtx()
	ctx.SetStatic("v", "V")
	ctx.SetStatic("name", "audit4_by_name")
	var w audit4Writer
	audit4Log = audit4Log[:0]
	if err := Write(&w, "audit4", ctx); err != nil {
		t.Fatal(err)
	}
	ctx.Reset()
	got := strings.Join(audit4Log, " ")
	want := "w:A reg:a w:V w:B reg:sub w:(subV) w:C reg:c w:V w:Z run:a run:sub run:c"
	if got != want {
		t.Errorf("output %q: deferred functions ran before the outermost template had finished\n got: %s\nwant: %s", w.String(), got, want)
	}
}
