package dyntpl

import (
	"bytes"
	"strings"
	"testing"
)

// Property C18, first sentence: a function deferred during a render runs exactly once "after the outermost template
// has finished producing output" (of THAT render), over "sequences of renders and resets on one context".
//
// When render #1 ends with an error its deferred functions are neither run nor dropped: they stay in ctx.dfr. The next
// render on the same context (no Reset in between) runs them at ITS end - after the output bytes of an unrelated
// render, in front of that render's own functions - and when that render fails as well they pile up further.
var audit2Log []string

type audit2Writer struct{ bytes.Buffer }

func (w *audit2Writer) Write(p []byte) (int, error) {
	audit2Log = append(audit2Log, "w:"+string(p))
	return w.Buffer.Write(p)
}

func TestAudit2(t *testing.T) {
	RegisterModFn("audit2Defer", "", func(ctx *Ctx, buf *any, val any, args []any) error {
		tag := "?"
		if len(args) > 0 {
			if b, ok := args[0].(*[]byte); ok {
				tag = string(*b)
			}
		}
		audit2Log = append(audit2Log, "reg:"+tag)
		ctx.Defer(func() error {
			audit2Log = append(audit2Log, "run:"+tag)
			return nil
		})
		return nil
	})
	reg := func(key, src string) {
		tree, err := Parse([]byte(src), false)
		if err != nil {
			t.Fatalf("parse %s: %v", key, err)
		}
		RegisterTplKey(key, tree)
	}
	reg("audit2_first", `<1{% for i:=0; i<2; i++ %}{%= v|audit2Defer("first") %}{% endfor %}{% include audit2_no_such_tpl %}1>`)
	reg("audit2_second", `<2{%= v|audit2Defer("second") %}2>`)

	ctx := NewCtx()
	ctx.SetStatic("v", "V")
	var w audit2Writer
	audit2Log = append(audit2Log[:0], "render#1")
	err1 := Write(&w, "audit2_first", ctx)
	if err1 == nil {
		t.Fatal("render #1 was expected to fail")
	}
	audit2Log = append(audit2Log, "end#1", "render#2")
	err2 := Write(&w, "audit2_second", ctx)
	audit2Log = append(audit2Log, "end#2")
	if err2 != nil {
		t.Fatalf("render #2: %v", err2)
	}
	got := strings.Join(audit2Log, " ")
	// Both functions of render #1 must have been settled when Write #1 returned; render #2 runs its own one only.
	want := "render#1 w:<1 reg:first w:V reg:first w:V run:first run:first end#1 render#2 w:<2 reg:second w:V w:2> run:second end#2"
	i2 := strings.Index(got, "render#2")
	if n := strings.Count(got[i2:], "run:first"); n != 0 {
		t.Errorf("functions deferred by render #1 (which ended with %q) ran %d times during render #2, after its output\n got: %s\nwant: %s", err1, n, got, want)
	}
}
