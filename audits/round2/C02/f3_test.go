package dyntpl

import (
	"testing"

	"github.com/koykov/inspector/testobj"
	"github.com/koykov/inspector/testobj_ins"
)

// TestAudit3: property C02, sentence "An if/else block, a ternary print and a switch each render exactly one
// alternative: the one selected by comparing the operands", quantifier "len()/cap() conditions and condition helpers".
//
// A ternary print whose condition is a len()/cap() comparison is parsed by the reTplTernary arm of processCtl, which
// does not know len()/cap(): the left operand becomes the path "len(user.Name)", no such variable exists and the
// ternary always prints the second alternative. The same condition in an if block selects correctly.
func TestAudit3(t *testing.T) {
	cases := []struct {
		key, tpl, want string
	}{
		{"audit3/if", `{% if len(user.Name) > 0 %}{%= user.Id %}{% else %}{%= user.Name %}{% endif %}`, "115"},
		{"audit3/ternary", `{%= len(user.Name) > 0 ? user.Id : user.Name %}`, "115"},
		{"audit3/ternaryEq", `{%= len(user.Name) == 4 ? user.Id : user.Name %}`, "115"},
		{"audit3/ternaryCap", `{%= cap(user.Name) >= 4 ? user.Id : user.Name %}`, "115"},
	}
	for _, c := range cases {
		tree, err := Parse([]byte(c.tpl), false)
		if err != nil {
			t.Errorf("%s: parse error %v", c.key, err)
			continue
		}
		RegisterTplKey(c.key, tree)
		ctx := NewCtx()
		ctx.Set("user", &testobj.TestObject{Id: "115", Name: []byte("John")}, testobj_ins.TestObjectInspector{})
		got, err := Render(c.key, ctx)
		if err != nil || string(got) != c.want {
			t.Errorf("%s: %s (user.Name=\"John\"): got %q (err %v), want %q", c.key, c.tpl, got, err, c.want)
		}
	}
}
