package dyntpl

import (
	"testing"

	"github.com/koykov/inspector/testobj"
	"github.com/koykov/inspector/testobj_ins"
)

// TestAudit6: property C02, sentences "An if/else block ... and a switch each render exactly one alternative",
// "a switch takes the first matching case, otherwise its default, otherwise nothing" and "The choice depends only on
// the operands' current values, never on conditions evaluated earlier in the same render", quantifier "for every
// sequence of conditions evaluated before the one observed (including ones on missing fields)".
//
// When the RIGHT operand of a var-op-var comparison is a variable that is not set (or a field that does not exist),
// nodeCmp / the switch node try to render nil (BufAcc.WriteX(nil) -> "unknown type"):
//   - an if block WITH an else part renders the else part and drops the error (err is overwritten by the branch);
//   - the same if block WITHOUT else part (or with the else part removed) aborts the whole render with "unknown type":
//     what is rendered depends on the presence of an else part, not on the operands, and every later condition of
//     the render is lost;
//   - a switch whose case names the missing variable aborts the render instead of going on to the next case / default.
func TestAudit6(t *testing.T) {
	cases := []struct {
		key, tpl, want string
	}{
		// Reference: with an else part the comparison is simply false.
		{"audit6/else", `{% if user.Status == limit %}eq{% else %}{% endif %}|{% if user.Status == 78 %}ok{% endif %}`, "|ok"},
		// Without else part the same comparison kills the render, the later condition included.
		{"audit6/noelse", `{% if user.Status == limit %}eq{% endif %}|{% if user.Status == 78 %}ok{% endif %}`, "|ok"},
		// Missing field instead of a missing variable.
		{"audit6/field", `{% if user.Status == user.Limit %}eq{% endif %}|{% if user.Status == 78 %}ok{% endif %}`, "|ok"},
		// Switch: the first case names a missing variable, the second one matches.
		{"audit6/switch", `{% switch user.Status %}{% case limit %}lim{% case 78 %}ok{% default %}dflt{% endswitch %}`, "ok"},
		// Switch: nothing matches, default expected.
		{"audit6/switchDefault", `{% switch user.Status %}{% case limit %}lim{% default %}dflt{% endswitch %}`, "dflt"},
		// Argument-less switch.
		{"audit6/switchNoArg", `{% switch %}{% case user.Status == limit %}lim{% case user.Status == 78 %}ok{% endswitch %}`, "ok"},
	}
	for _, c := range cases {
		tree, err := Parse([]byte(c.tpl), false)
		if err != nil {
			t.Errorf("%s: parse error %v", c.key, err)
			continue
		}
		RegisterTplKey(c.key, tree)
		ctx := NewCtx()
		ctx.Set("user", &testobj.TestObject{Id: "115", Name: []byte("John"), Status: 78}, testobj_ins.TestObjectInspector{})
		got, err := Render(c.key, ctx)
		if err != nil || string(got) != c.want {
			t.Errorf("%s: %s (user.Status=78, limit not set): got %q (err %v), want %q", c.key, c.tpl, got, err, c.want)
		}
	}
}
