package dyntpl

import (
	"testing"

	"github.com/koykov/inspector/testobj"
	"github.com/koykov/inspector/testobj_ins"
)

// TestAudit4: property C02, sentence "... whether the operands are literals or variables and whichever side the
// literal stands on", quantifier "all operand placements (var op literal, literal op var, var op var) ...
// len()/cap() conditions".
//
// With the literal on the left of a len()/cap() condition the helper regexp (reCondHelper) takes everything up to the
// parenthesis - "0 < len" - as the name of a condition helper. The template is accepted; rendering it fails with
// ErrCondHlpNotFound and no alternative is written.
func TestAudit4(t *testing.T) {
	cases := []struct {
		key, tpl, want string
	}{
		{"audit4/right", `{% if len(user.Name) > 0 %}yes{% else %}no{% endif %}`, "yes"},
		{"audit4/left", `{% if 0 < len(user.Name) %}yes{% else %}no{% endif %}`, "yes"},
		{"audit4/leftEq", `{% if 4 == len(user.Name) %}yes{% else %}no{% endif %}`, "yes"},
		{"audit4/leftCap", `{% if 100 < cap(user.Name) %}yes{% else %}no{% endif %}`, "no"},
	}
	for _, c := range cases {
		tree, err := Parse([]byte(c.tpl), false)
		if err != nil {
			t.Errorf("%s: parse error %v", c.key, err)
			continue
		}
		RegisterTplKey(c.key, tree)
		ctx := NewCtx()
		ctx.Set("user", &testobj.TestObject{Id: "115", Name: []byte("John")}, testobj_ins.TestObjectInspector{})
		got, err := Render(c.key, ctx)
		if err != nil || string(got) != c.want {
			t.Errorf("%s: %s (user.Name=\"John\"): got %q (err %v), want %q", c.key, c.tpl, got, err, c.want)
		}
	}
}
