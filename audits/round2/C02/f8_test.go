package dyntpl

import (
	"testing"

	"github.com/koykov/inspector/testobj"
	"github.com/koykov/inspector/testobj_ins"
)

// TestAudit8: property C02, sentence "An if/else block, a ternary print and a switch each render exactly one
// alternative: the one selected by comparing the operands".
//
// A ternary print whose selected alternative is a literal - the spelling of testdata/parser/ternary.tpl,
// {%j= user.Status == 1 ? user.Name : "anonymous" %} - renders NO alternative: processCtl turns both alternatives into
// print nodes whose raw is the source text, quotes included, and the print node looks the text "\"anonymous\"" up as a
// variable. The condition is evaluated correctly, but the selected branch writes nothing (and no error).
func TestAudit8(t *testing.T) {
	cases := []struct {
		key, tpl, want string
	}{
		{"audit8/vars", `{%= user.Status == 1 ? user.Name : user.Id %}`, "115"},
		{"audit8/litFalse", `{%= user.Status == 1 ? user.Name : "anonymous" %}`, "anonymous"},
		{"audit8/litTrue", `{%= user.Status == 78 ? "privileged" : user.Name %}`, "privileged"},
		{"audit8/litNum", `{%= user.Status == 78 ? 1 : 0 %}`, "1"},
		{"audit8/helper", `{%= lenGt0(user.Name) ? "named" : "anonymous" %}`, "named"},
	}
	for _, c := range cases {
		tree, err := Parse([]byte(c.tpl), false)
		if err != nil {
			t.Errorf("%s: parse error %v", c.key, err)
			continue
		}
		RegisterTplKey(c.key, tree)
		ctx := NewCtx()
		ctx.Set("user", &testobj.TestObject{Id: "115", Name: []byte("John"), Status: 78}, testobj_ins.TestObjectInspector{})
		got, err := Render(c.key, ctx)
		if err != nil || string(got) != c.want {
			t.Errorf("%s: %s (user.Status=78): got %q (err %v), want %q", c.key, c.tpl, got, err, c.want)
		}
	}
}
