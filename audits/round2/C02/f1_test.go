package dyntpl

import "testing"

// TestAudit1: property C02, sentence "An if/else block, a ternary print and a switch each render exactly one
// alternative: the one selected by comparing the operands under the left operand's type (... byte-wise order for
// strings ...), whether the operands are literals or variables and whichever side the literal stands on".
//
// A string literal on the RIGHT side that contains one of the operator characters (< > == != <= >=) is cut in two by
// the greedy condition regexp (reCondExpr / reTplTernaryCondExpr): the operator is looked for from the end of the tag,
// inside the literal. The template is accepted and the wrong branch is rendered without any error.
func TestAudit1(t *testing.T) {
	cases := []struct {
		key, tpl, val, want string
	}{
		{"audit1/lt", `{% if s == "a<b" %}yes{% else %}no{% endif %}`, "a<b", "yes"},
		{"audit1/gt", `{% if s == "x>y" %}yes{% else %}no{% endif %}`, "x>y", "yes"},
		{"audit1/eq", `{% if s == "k==v" %}yes{% else %}no{% endif %}`, "k==v", "yes"},
		{"audit1/nq", `{% if s == "a!=b" %}yes{% else %}no{% endif %}`, "a!=b", "yes"},
		// The same literal on the left side works, so the two placements of the literal disagree.
		{"audit1/left", `{% if "a<b" == s %}yes{% else %}no{% endif %}`, "a<b", "yes"},
		// Ternary print, same condition.
		{"audit1/ternary", `{%= s == "a<b" ? yes : no %}`, "a<b", "yes"},
	}
	for _, c := range cases {
		tree, err := Parse([]byte(c.tpl), false)
		if err != nil {
			t.Errorf("%s: parse error %v", c.key, err)
			continue
		}
		RegisterTplKey(c.key, tree)
		ctx := NewCtx()
		ctx.SetString("s", c.val)
		ctx.SetString("yes", "yes")
		ctx.SetString("no", "no")
		got, err := Render(c.key, ctx)
		if err != nil || string(got) != c.want {
			t.Errorf("%s: %s with s=%q: got %q (err %v), want %q", c.key, c.tpl, c.val, got, err, c.want)
		}
	}
}
