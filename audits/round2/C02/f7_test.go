package dyntpl

import (
	"testing"

	"github.com/koykov/inspector/testobj"
	"github.com/koykov/inspector/testobj_ins"
)

// TestAudit7: property C02, sentence "An if/else block ... render[s] exactly one alternative: the one selected by
// comparing the operands under the left operand's type (... equality for bytes and booleans)"; task item "every
// spelling the parser accepts for the same construct (and whether they all mean the same)".
//
// The bare boolean spelling {% if user.AllowBuy %} - the example of readme.md / testdata/parser/conditionNested.tpl -
// is accepted by the parser, but reCondExpr needs an operator: the cond node gets no operands at all. At render time
// nodeCmp compares the empty path with the rendering of nil: the else part is rendered whatever the value is, and
// without an else part the render aborts with "unknown type". The spelled-out form == true selects correctly.
func TestAudit7(t *testing.T) {
	cases := []struct {
		key, tpl, want string
	}{
		{"audit7/explicit", `{% if user.Finance.AllowBuy == true %}buy{% else %}confirm{% endif %}`, "buy"},
		{"audit7/bare", `{% if user.Finance.AllowBuy %}buy{% else %}confirm{% endif %}`, "buy"},
		{"audit7/bareNoElse", `{% if user.Finance.AllowBuy %}buy{% endif %}`, "buy"},
		{"audit7/bareStatic", `{% if flag %}on{% else %}off{% endif %}`, "on"},
	}
	for _, c := range cases {
		tree, err := Parse([]byte(c.tpl), false)
		if err != nil {
			t.Errorf("%s: parse error %v", c.key, err)
			continue
		}
		RegisterTplKey(c.key, tree)
		ctx := NewCtx()
		ctx.Set("user", &testobj.TestObject{Finance: &testobj.TestFinance{AllowBuy: true}}, testobj_ins.TestObjectInspector{})
		ctx.SetStatic("flag", true)
		got, err := Render(c.key, ctx)
		if err != nil || string(got) != c.want {
			t.Errorf("%s: %s (AllowBuy=true, flag=true): got %q (err %v), want %q", c.key, c.tpl, got, err, c.want)
		}
	}
}
