package dyntpl

import (
	"testing"

	"github.com/koykov/inspector/testobj"
	"github.com/koykov/inspector/testobj_ins"
)

// TestAudit2: property C02, sentence "... the one selected by comparing the operands ..., whether the operands are
// literals or variables", quantifier "all operand placements (var op literal, literal op var, var op var) ...
// len()/cap() conditions".
//
// A len()/cap() condition whose right operand is a variable (or another len()) hands the NAME of the variable to the
// integer comparison (Ctx.cmpLC passes node.condR unresolved): the name does not parse as a number, the parse error is
// dropped and the condition is false for every operator and every value.
func TestAudit2(t *testing.T) {
	cases := []struct {
		key, tpl, want string
	}{
		{"audit2/gt", `{% if len(user.Name) > n %}yes{% else %}no{% endif %}`, "yes"},    // 4 > 3
		{"audit2/nq", `{% if len(user.Name) != n %}yes{% else %}no{% endif %}`, "yes"},   // 4 != 3
		{"audit2/eq", `{% if len(user.Name) == four %}yes{% else %}no{% endif %}`, "yes"}, // 4 == 4
		{"audit2/lenlen", `{% if len(user.Name) > len(user.Id) %}yes{% else %}no{% endif %}`, "yes"}, // 4 > 3
		{"audit2/cap", `{% if cap(user.Name) >= four %}yes{% else %}no{% endif %}`, "yes"},
	}
	for _, c := range cases {
		tree, err := Parse([]byte(c.tpl), false)
		if err != nil {
			t.Errorf("%s: parse error %v", c.key, err)
			continue
		}
		RegisterTplKey(c.key, tree)
		ctx := NewCtx()
		ctx.Set("user", &testobj.TestObject{Id: "115", Name: []byte("John")}, testobj_ins.TestObjectInspector{})
		ctx.SetStatic("n", 3)
		ctx.SetStatic("four", 4)
		got, err := Render(c.key, ctx)
		if err != nil || string(got) != c.want {
			t.Errorf("%s: %s (len(user.Name)=4, len(user.Id)=3, n=3, four=4): got %q (err %v), want %q", c.key, c.tpl, got, err, c.want)
		}
	}
}
