package dyntpl

import (
	"testing"

	"github.com/koykov/inspector/testobj"
	"github.com/koykov/inspector/testobj_ins"
)

// TestAudit5: property C02, sentence "a switch takes the first matching case, otherwise its default, otherwise
// nothing", quantifier "len()/cap() conditions and condition helpers; for all nestings of if/else/switch".
//
// A case of an argument-less switch that is a len()/cap() comparison is taken by reSwitchCaseHelper for a condition
// helper called "len" / "cap"; the switch node has no len()/cap() mode, GetCondFn("len") is nil and the render fails
// with ErrCondHlpNotFound: neither the matching case nor the default is written. The same comparison in an if block
// (and in break-if / continue-if) works.
func TestAudit5(t *testing.T) {
	cases := []struct {
		key, tpl, want string
	}{
		{"audit5/if", `{% if len(user.Name) == 4 %}four{% else %}other{% endif %}`, "four"},
		{"audit5/switch", `{% switch %}{% case len(user.Name) == 4 %}four{% default %}other{% endswitch %}`, "four"},
		{"audit5/switchSecond", `{% switch %}{% case user.Status > 100 %}big{% case len(user.Name) > 10 %}long{% default %}other{% endswitch %}`, "other"},
		{"audit5/switchCap", `{% switch %}{% case cap(user.Name) == 0 %}none{% default %}some{% endswitch %}`, "some"},
	}
	for _, c := range cases {
		tree, err := Parse([]byte(c.tpl), false)
		if err != nil {
			t.Errorf("%s: parse error %v", c.key, err)
			continue
		}
		RegisterTplKey(c.key, tree)
		ctx := NewCtx()
		ctx.Set("user", &testobj.TestObject{Id: "115", Name: []byte("John"), Status: 78}, testobj_ins.TestObjectInspector{})
		got, err := Render(c.key, ctx)
		if err != nil || string(got) != c.want {
			t.Errorf("%s: %s (user.Name=\"John\"): got %q (err %v), want %q", c.key, c.tpl, got, err, c.want)
		}
	}
}
