package dyntpl

import (
	"strings"
	"testing"
)

// Property C08, first two sentences: "HTML-escape output contains none of < > \" ' and no '&' other than the start of a
// character reference; attribute-escape output contains only ASCII letters, digits, ... and character references" -
// quantified over "h, a, the modifiers".
//
// The repeat count of the modifiers (the argument the letters hh= / aaa= pass) is taken as is: with 0 or a negative
// number (a literal or a variable) the escaping loop does not run at all and the modifier hands the text back untouched.
func TestAudit3(t *testing.T) {
	const evil = `<i a="1" b='2'>&`
	for i, src := range []string{
		`{%= x|he(0) %}`,
		`{%= x|htmlEscape(-1) %}`,
		`{%= x|ae(0) %}`,
		`{%= x|attrEscape(-3) %}`,
		`{%= x|he(n) %}`, // n is a variable that holds "0"
	} {
		tree, err := Parse([]byte(src), false)
		if err != nil {
			t.Fatalf("%s: %v", src, err)
		}
		key := "audit3/" + string(rune('a'+i))
		RegisterTplKey(key, tree)
		ctx := NewCtx()
		ctx.SetString("x", evil)
		ctx.SetString("n", "0")
		out, err := Render(key, ctx)
		if err != nil {
			t.Fatalf("%s: %v", src, err)
		}
		if strings.ContainsAny(string(out), `<>"' =`) {
			t.Errorf("%s: output of the escape modifier contains markup characters:\n got  %q\n want no < > \" ' in it (e.g. %q)", src, out,
				`&lt;i a=&quot;1&quot; b=&#39;2&#39;&gt;&amp;`)
		}
	}
}
