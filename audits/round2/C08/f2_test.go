package dyntpl

import (
	"strings"
	"testing"
)

// Property C08, first two sentences: "HTML-escape output contains none of < > \" ' ...; attribute-escape output contains
// only ASCII letters, digits, the characters , . - _ and character references" - quantified over "h, a, the modifiers".
//
// The parser accepts a blank next to the name of the modifier (after the bar, before the bracket, before prefix /
// suffix), but then looks the name up together with the blank, finds nothing and silently drops the modifier: the same
// construct in another spelling renders the value unescaped. All of these templates parse without an error.
func TestAudit2(t *testing.T) {
	const evil = `<i a="1" b='2'>&`
	const wantH = `&lt;i a=&quot;1&quot; b=&#39;2&#39;&gt;&amp;`
	const wantA = `&lt;i&#x20;a&#x3d;&quot;1&quot;&#x20;b&#x3d;&#x27;2&#x27;&gt;&amp;`
	cases := []struct{ name, src, want string }{
		{"canonical he", `{%= x|he %}`, wantH},
		{"canonical ae", `{%= x|ae %}`, wantA},
		{"blank after the bar", `{%= x| he %}`, wantH},
		{"blank after the bar, long name", `{%= x| htmlEscape %}`, wantH},
		{"blank after the bar, attr", `{%= x| attrEscape %}`, wantA},
		{"blank before the brackets", `{%= x|he () %}`, wantH},
		{"blank before the next bar", `{%= x|he |default("-") %}`, wantH},
		{"two blanks before pfx", `{%= x|he  pfx [ %}`, `[` + wantH},
		{"two blanks before sfx", `{%= x|ae  sfx ] %}`, wantA + `]`},
		{"ctx tag, blank after the bar", `{% ctx y = x| he %}{%= y %}`, wantH},
	}
	for i, c := range cases {
		tree, err := Parse([]byte(c.src), false)
		if err != nil {
			t.Errorf("%s: %q rejected by the parser (%v) - that would be fine, but is not what happens", c.name, c.src, err)
			continue
		}
		key := "audit2/" + string(rune('a'+i))
		RegisterTplKey(key, tree)
		ctx := NewCtx()
		ctx.SetString("x", evil)
		out, err := Render(key, ctx)
		if err != nil {
			t.Errorf("%s: %q: %v", c.name, c.src, err)
			continue
		}
		if string(out) != c.want || strings.ContainsAny(string(out), `<>"'`) && !strings.ContainsAny(c.want, `<>"'`) {
			t.Errorf("%s: %s\n got  %q\n want %q", c.name, c.src, out, c.want)
		}
	}
}
