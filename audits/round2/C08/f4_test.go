package dyntpl

import (
	"html"
	"testing"
)

// Property C08: "Everything rendered inside an htmlescape region is HTML-escaped" and "Decoding ... with a standard
// HTML entity decoder returns the original text."
//
// State carried from one tag to a later tag: a {% continue %} / {% break %} (or an {% exit %} of an included template)
// that is executed between {% htmlescape %} and {% endhtmlescape %} skips the closing tag, the region stays on the
// run-time stack (Ctx.bnd). The next iteration of the loop pushes the region once more: the value is escaped twice,
// then three times..., and the text that follows the loop - outside of every region - is escaped as well. One decoding
// does not return the original text any more.
func TestAudit4(t *testing.T) {
	src := `{% for i := 0; i < 3; i++ %}{% htmlescape %}{%= x %}{% if i < 9 %}{% continue %}{% endif %};{% endhtmlescape %}{% endfor %}<hr>`
	tree, err := Parse([]byte(src), false)
	if err != nil {
		t.Fatal(err)
	}
	RegisterTplKey("audit4", tree)
	ctx := NewCtx()
	ctx.SetString("x", `<i>`)
	out, err := Render("audit4", ctx)
	if err != nil {
		t.Fatal(err)
	}
	want := `&lt;i&gt;&lt;i&gt;&lt;i&gt;<hr>`
	if string(out) != want {
		t.Errorf("region left open by continue: value escaped repeatedly, text after the loop escaped\n got  %q\n want %q\n decoded once: got %q, want %q",
			out, want, html.UnescapeString(string(out)), `<i><i><i><hr>`)
	}

	// The same with an included template that ends by exit inside its own region.
	sub, err := Parse([]byte(`{% htmlescape %}{%= x %}{% if x != "" %}{% exit %}{% endif %}!{% endhtmlescape %}`), false)
	if err != nil {
		t.Fatal(err)
	}
	RegisterTplKey("audit4/sub", sub)
	page, err := Parse([]byte(`<p>{% include audit4/sub %}</p>`), false)
	if err != nil {
		t.Fatal(err)
	}
	RegisterTplKey("audit4/page", page)
	out, err = Render("audit4/page", ctx)
	if err != nil {
		t.Fatal(err)
	}
	if want = `<p>&lt;i&gt;</p>`; string(out) != want {
		t.Errorf("region of the included template leaks into the including one:\n got  %q\n want %q", out, want)
	}
}
