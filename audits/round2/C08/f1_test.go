package dyntpl

import (
	"html"
	"strings"
	"testing"
)

// Property C08, last sentence: "Everything rendered inside an htmlescape region is HTML-escaped."
//
// Three constructs: a print tag after an include inside an htmlescape region. The included template holds an
// {% endhtmlescape %} of its own (the parser accepts a lone closing tag). The tag pops the region of the INCLUDING
// template off the run-time stack (Ctx.bnd), so everything the including template renders after the include - still
// lexically between its {% htmlescape %} and {% endhtmlescape %} - is written as is. The included template may be
// registered / replaced between two renderings: the first rendering is escaped, the second is not.
func TestAudit1(t *testing.T) {
	parse := func(src string) *Tree {
		tree, err := Parse([]byte(src), false)
		if err != nil {
			t.Fatalf("parse %q: %v", src, err)
		}
		return tree
	}
	RegisterTplKey("audit1/widget", parse(`[widget]`))
	RegisterTplKey("audit1/page", parse(`{% htmlescape %}{% include audit1/widget %}<b>{%= x %}</b>{% endhtmlescape %}`))

	const evil = `<script>alert('1')</script>`
	ctx := NewCtx()
	ctx.SetString("x", evil)

	out, err := Render("audit1/page", ctx)
	if err != nil {
		t.Fatal(err)
	}
	want := `[widget]&lt;b&gt;&lt;script&gt;alert(&#39;1&#39;)&lt;/script&gt;&lt;/b&gt;`
	if string(out) != want {
		t.Fatalf("first rendering (sanity): got %q, want %q", out, want)
	}

	// The widget is replaced between the renderings; it closes a region it has never opened.
	RegisterTplKey("audit1/widget", parse(`[widget]{% endhtmlescape %}`))
	out, err = Render("audit1/page", ctx)
	if err != nil {
		t.Fatal(err)
	}
	if strings.ContainsAny(string(out), `<>"'`) || html.UnescapeString(string(out)) != `[widget]<b>`+evil+`</b>` {
		t.Errorf("text and value inside {%% htmlescape %%} of the including template left unescaped:\n got  %q\n want %q", out, want)
	}
}
