package dyntpl

import (
	"strings"
	"testing"
)

// Property C08, last sentence: "Everything rendered inside an htmlescape region is HTML-escaped."
//
// A print tag that carries the pseudo modifier raw (alias noesc) is written past the region (dyntpl.go, writeNode,
// `if node.noesc { w.Write(b) }`): its value appears unescaped between {% htmlescape %} and {% endhtmlescape %}, in the
// including template and in every template included inside the region.
func TestAudit5(t *testing.T) {
	sub, err := Parse([]byte(`{%= x|noesc %}`), false)
	if err != nil {
		t.Fatal(err)
	}
	RegisterTplKey("audit5/sub", sub)
	tree, err := Parse([]byte(`{% htmlescape %}{%= x|raw %}|{% include audit5/sub %}{% endhtmlescape %}`), false)
	if err != nil {
		t.Fatal(err)
	}
	RegisterTplKey("audit5", tree)
	ctx := NewCtx()
	ctx.SetString("x", `<i a="1">`)
	out, err := Render("audit5", ctx)
	if err != nil {
		t.Fatal(err)
	}
	want := `&lt;i a=&quot;1&quot;&gt;|&lt;i a=&quot;1&quot;&gt;`
	if strings.ContainsAny(string(out), `<>"'`) {
		t.Errorf("unescaped output inside an htmlescape region:\n got  %q\n want %q", out, want)
	}
}
