package dyntpl

import (
	"fmt"
	"testing"

	"github.com/koykov/inspector/testobj"
	"github.com/koykov/inspector/testobj_ins"
)

// Property C05: "whatever was rendered with it before — including renders that failed ... — the next render produces
// exactly the output and error a fresh context would."
//
// Contradicted: Ctx.Reset relies on bytebuf.Accumulative.Reset for the public buffer Ctx.BufAcc ("external buffers to
// use in modifier and condition helpers"), but that Reset only truncates the bytes: the error of the last failed
// WriteX and the staked offset survive. A render that fails on a value BufAcc cannot print leaves BufAcc.Error() set;
// after Reset a modifier that builds its result with Write / WriteString (which do not touch the error) and then
// checks BufAcc.Error() - the way the built-in modifiers do after WriteX - sees the error of the PREVIOUS render.
func TestAudit4(t *testing.T) {
	RegisterModFn("audit2C05bold", "", func(ctx *Ctx, buf *any, val any, _ []any) error {
		b, ok := ConvBytes(val)
		if !ok {
			return ErrModNoStr
		}
		if err := ctx.BufAcc.StakeOut().WriteString("<b>").Write(b).WriteString("</b>").Error(); err != nil {
			return err
		}
		ctx.BufModOut(buf, ctx.BufAcc.StakedBytes())
		return nil
	})
	reg := func(key, src string) {
		tree, err := Parse([]byte(src), false)
		if err != nil {
			t.Fatal(err)
		}
		RegisterTplKey(key, tree)
	}
	// A struct cannot be printed: the render fails with x2bytes' "unknown type".
	reg("audit2C05f4fail", `{%= user.Finance %}`)
	reg("audit2C05f4", `[{%= s|audit2C05bold %}]`)

	render := func(key string, ctx *Ctx) string {
		b, err := Render(key, ctx)
		return fmt.Sprintf("%q, err=%v", b, err)
	}
	setup := func(ctx *Ctx) {
		ctx.Set("user", &testobj.TestObject{Finance: &testobj.TestFinance{}}, testobj_ins.TestObjectInspector{})
		ctx.SetBytes("s", []byte("x"))
	}

	fresh := NewCtx()
	setup(fresh)
	want := render("audit2C05f4", fresh)

	ctx := NewCtx()
	setup(ctx)
	if r := render("audit2C05f4fail", ctx); r == `"", err=<nil>` {
		t.Fatalf("the first render was expected to fail: %s", r)
	}
	ctx.Reset()
	if e := ctx.BufAcc.Error(); e != nil {
		t.Errorf("after Reset: ctx.BufAcc.Error() = %v, want <nil> as on a new context", e)
	}
	if o := ctx.BufAcc.StakedOffset(); o != 0 {
		t.Logf("after Reset: ctx.BufAcc.StakedOffset() = %d (0 on a new context)", o)
	}
	setup(ctx)
	if got := render("audit2C05f4", ctx); got != want {
		t.Errorf("render after a failed render and Reset: got %s, want (fresh context) %s", got, want)
	}
}
