package dyntpl

import (
	"fmt"
	"testing"
)

// Property C05: "A context that has been reset ... is observationally identical to a newly created one: ... the
// next render produces exactly the output and error a fresh context would."
//
// Same root cause as TestAudit1/TestAudit2, but the pointer is not stored by the ctx tag: a modifier that keeps one
// of its arguments in the context through the public Ctx.SetStatic (the repository's own testns::modCB does exactly
// this) is handed &ctx.vars[i].cntr for a counter argument (and &ctx.bufLC[idx] for a loop counter). Whether the
// variable it sets follows the counter afterwards depends on whether ctx.vars had spare capacity, i.e. on the history
// of the context: "00" on a fresh context, "01" on the same context after one render and Reset().
func TestAudit3(t *testing.T) {
	const key = "audit2C05f3"
	tree, err := Parse([]byte(`{% counter c = 0 %}{%= c|testns::modCB(c) %}{% counter c++ %}{%= testVar %}`), false)
	if err != nil {
		t.Fatal(err)
	}
	RegisterTplKey(key, tree)

	render := func(ctx *Ctx) string {
		b, err := Render(key, ctx)
		return fmt.Sprintf("%q, err=%v", b, err)
	}

	want := render(NewCtx())

	ctx := NewCtx()
	first := render(ctx)
	if first != want {
		t.Fatalf("two fresh contexts disagree: %s vs %s", first, want)
	}
	ctx.Reset()
	if got := render(ctx); got != want {
		t.Errorf("same template after Reset: got %s, want (fresh context) %s", got, want)
	}
}
