package dyntpl

import (
	"fmt"
	"testing"
)

// Property C05: "A context that has been reset ... is observationally identical to a newly created one: ... the
// next render produces exactly the output and error a fresh context would."
//
// Contradicted: {% ctx k = i %} inside a counter loop stores in k the pointer &ctx.bufLC[idx] (the cell of the loop
// counter). Ctx.cloop appends one cell per loop that starts and never gives cells back, so on a fresh context a
// nested loop moves ctx.bufLC (k keeps pointing into the abandoned array and stops following i), while on a reset
// context the capacity left by the previous render is enough, nothing moves, and k follows i to its final value.
// The SAME template gives "1" on a fresh context and "2" on the context that has rendered it once and was Reset().
func TestAudit2(t *testing.T) {
	const key = "audit2C05f2"
	tree, err := Parse([]byte(`{% for i := 0; i < 2; i++ %}{% ctx k = i %}{% for j := 0; j < 1; j++ %}{% endfor %}{% endfor %}{%= k %}`), false)
	if err != nil {
		t.Fatal(err)
	}
	RegisterTplKey(key, tree)

	render := func(ctx *Ctx) string {
		b, err := Render(key, ctx)
		return fmt.Sprintf("%q, err=%v", b, err)
	}

	want := render(NewCtx())

	ctx := NewCtx()
	first := render(ctx)
	if first != want {
		t.Fatalf("two fresh contexts disagree: %s vs %s", first, want)
	}
	ctx.Reset()
	if got := render(ctx); got != want {
		t.Errorf("same template after Reset: got %s, want (fresh context) %s", got, want)
	}
}
