package dyntpl

import (
	"fmt"
	"testing"
)

// Property C05: "A context that has been reset ... is observationally identical to a newly created one: ... the
// next render produces exactly the output and error a fresh context would."
//
// Third shape of the root cause of TestAudit1..3: for a bytes variable Ctx.get returns &ctx.vars[i].buf, a pointer to
// the slice HEADER kept in the slot. A modifier that stores this argument in the context (testns::modCB, through the
// public Ctx.SetStatic) makes ctx.vars grow on a fresh context: the stored pointer then refers to the abandoned copy
// of the header (old length, shared bytes), so after {% ctx s = "John" %} it reads the torn value "Jo"; on a reset
// context nothing moves and it reads "John".
func TestAudit5(t *testing.T) {
	const key = "audit2C05f5"
	tree, err := Parse([]byte(`{%= s|testns::modCB(s) %}{% ctx s = "John" %}{%= testVar %}`), false)
	if err != nil {
		t.Fatal(err)
	}
	RegisterTplKey(key, tree)

	render := func(ctx *Ctx) string {
		ctx.SetBytes("s", []byte("zz"))
		b, err := Render(key, ctx)
		return fmt.Sprintf("%q, err=%v", b, err)
	}

	want := render(NewCtx())

	ctx := NewCtx()
	first := render(ctx)
	if first != want {
		t.Fatalf("two fresh contexts disagree: %s vs %s", first, want)
	}
	ctx.Reset()
	if got := render(ctx); got != want {
		t.Errorf("same variables, same template after Reset: got %s, want (fresh context) %s", got, want)
	}
}
