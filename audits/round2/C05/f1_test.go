package dyntpl

import (
	"fmt"
	"testing"
)

// Property C05: "A context that has been reset or returned to the pool is observationally identical to a newly
// created one: whatever was rendered with it before ... the next render produces exactly the output and error a
// fresh context would."
//
// Contradicted: the SAME template rendered on a fresh context and on a context that has rendered it once and has
// been Reset() gives two different outputs. {% ctx k = c %} with a counter c stores in k the pointer &ctx.vars[i].cntr
// that Ctx.get returned. On a fresh context the append of the slot for k moves ctx.vars, so k keeps pointing into the
// old array (k stays 0); on a reset context the slots are there already, nothing moves, and k follows c (k becomes 1).
func TestAudit1(t *testing.T) {
	const key = "audit2C05f1"
	tree, err := Parse([]byte(`{% counter c = 0 %}{% ctx k = c %}{% counter c++ %}{%= k %}`), false)
	if err != nil {
		t.Fatal(err)
	}
	RegisterTplKey(key, tree)

	render := func(ctx *Ctx) string {
		b, err := Render(key, ctx)
		return fmt.Sprintf("%q, err=%v", b, err)
	}

	want := render(NewCtx())

	ctx := NewCtx()
	first := render(ctx)
	if first != want {
		t.Fatalf("two fresh contexts disagree: %s vs %s", first, want)
	}
	ctx.Reset()
	if got := render(ctx); got != want {
		t.Errorf("same template after Reset: got %s, want (fresh context) %s", got, want)
	}

	// The same through the pool.
	pc := AcquireCtx()
	_ = render(pc)
	ReleaseCtx(pc)
	pc = AcquireCtx()
	if got := render(pc); got != want {
		t.Errorf("same template on a pooled context: got %s, want (fresh context) %s", got, want)
	}
	ReleaseCtx(pc)
}
