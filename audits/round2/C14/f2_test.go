package dyntpl

import "testing"

// Property C14, first sentence: "given a depth N they end exactly the N innermost enclosing loops: none of those
// starts another iteration, while loops further out carry on."
//
// Parse() looks the source up in the registry by its CRC-64/ISO checksum alone and returns the tree registered for
// that checksum without comparing the sources. CRC-64/ISO (x^64+x^4+x^3+x+1) collides on sources that differ in
// three bytes: byte p by 0x02, byte p+7 by 0x60, byte p+8 by 0x03. "lazybreak 1" / "lazybreak 3" followed by a
// raw text is such a pair, so after the first template has been registered the second one is rendered with the
// depth of the first: "lazybreak 3" ends one loop instead of (all) two, the outer loop starts another iteration.
func TestAudit2(t *testing.T) {
	const (
		srcA = `{% for i:=0; i<2; i++ %}{% for j:=0; j<2; j++ %}{%= j %}{% lazybreak 1 %}abcQa{% endfor %}|{% endfor %}`
		srcB = `{% for i:=0; i<2; i++ %}{% for j:=0; j<2; j++ %}{%= j %}{% lazybreak 3 %}abc1b{% endfor %}|{% endfor %}`
	)
	treeA, err := Parse([]byte(srcA), false)
	if err != nil {
		t.Fatal(err)
	}
	RegisterTplKey("audit2/A", treeA)
	treeB, err := Parse([]byte(srcB), false)
	if err != nil {
		t.Fatal(err)
	}
	RegisterTplKey("audit2/B", treeB)

	got, err := Render("audit2/B", NewCtx())
	// lazybreak 3 in the inner loop: the iteration j=0 finishes, then both loops end.
	const want = "0abc1b|"
	if err != nil || string(got) != want {
		t.Errorf("tpl:  %s\n got:  %q, err %v\n want: %q, err <nil> (same tree returned for both sources: %v)", srcB, got, err, want, treeA == treeB)
	}
}
