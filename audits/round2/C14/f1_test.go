package dyntpl

import "testing"

// Property C14, last sentence: "The conditional forms (break if, break N if, lazybreak if, lazybreak N if,
// continue if) behave exactly like the same instruction wrapped in an if block."
//
// An if block may be an if-ok block ({% if v, ok := helper(x).(ins); ok %}...{% endif %}). The same condition after
// "break" / "lazybreak N" / "continue" is accepted by the parser, but it is not parsed as an if-ok condition: the
// text "v, ok := helper" becomes the name of a plain condition helper, and the render fails with
// ErrCondHlpNotFound, while the wrapped form renders.
func TestAudit1(t *testing.T) {
	RegisterCondOKFn("audit1IsOne", func(_ *Ctx, v *any, ok *bool, args []any) {
		if len(args) > 0 {
			if p, is := args[0].(*int64); is && *p == 1 {
				*v, *ok = p, true
			}
		}
	})
	render := func(key, src string) (string, error) {
		tree, err := Parse([]byte(src), false)
		if err != nil {
			t.Fatalf("%s: parse: %v", key, err)
		}
		RegisterTplKey(key, tree)
		out, err := Render(key, NewCtx())
		return string(out), err
	}
	pairs := [][3]string{
		{"break",
			`{% for i:=0; i<3; i++ %}{%= i %}{% if v, ok := audit1IsOne(i).(static); ok %}{% break %}{% endif %},{% endfor %}END`,
			`{% for i:=0; i<3; i++ %}{%= i %}{% break if v, ok := audit1IsOne(i).(static); ok %},{% endfor %}END`},
		{"lazybreak2",
			`{% for j:=0; j<2; j++ %}{% for i:=0; i<3; i++ %}{%= i %}{% if v, ok := audit1IsOne(i).(static); ok %}{% lazybreak 2 %}{% endif %},{% endfor %}|{% endfor %}END`,
			`{% for j:=0; j<2; j++ %}{% for i:=0; i<3; i++ %}{%= i %}{% lazybreak 2 if v, ok := audit1IsOne(i).(static); ok %},{% endfor %}|{% endfor %}END`},
		{"continue",
			`{% for i:=0; i<3; i++ %}{%= i %}{% if v, ok := audit1IsOne(i).(static); ok %}{% continue %}{% endif %},{% endfor %}END`,
			`{% for i:=0; i<3; i++ %}{%= i %}{% continue if v, ok := audit1IsOne(i).(static); ok %},{% endfor %}END`},
	}
	for _, p := range pairs {
		want, werr := render("audit1/"+p[0]+"/wrapped", p[1])
		got, gerr := render("audit1/"+p[0]+"/xif", p[2])
		if werr != nil {
			t.Fatalf("%s: wrapped form failed: %v", p[0], werr)
		}
		if got != want || gerr != nil {
			t.Errorf("%s: conditional form differs from the wrapped form\n tpl:  %s\n got:  %q, err %v\n want: %q, err <nil>", p[0], p[2], got, gerr, want)
		}
	}
}
