package dyntpl

import (
	"errors"
	"testing"
)

// Property C17 (title: "A failing output writer is always reported to the caller"), Statement: "If the destination
// writer returns an error at any write, the render call returns a non-nil error rather than reporting success".
//
// WriteDocgen is the one other public entry point of the package that renders into a caller's io.Writer. Every write
// it issues is `_, _ = w.Write(...)` (docgen.go: writeDocgenMarkdown, writeDocgenHTML, writeDocgenJSON, docgen.write),
// so a dead writer is reported as success for all three formats.
type audit2Writer struct {
	n   int
	err error
}

func (w *audit2Writer) Write(p []byte) (int, error) {
	w.n++
	return 0, w.err
}

func TestAudit2(t *testing.T) {
	for _, f := range []DocgenFormat{DocgenFormatMarkdown, DocgenFormatHTML, DocgenFormatJSON} {
		w := &audit2Writer{err: errors.New("connection reset")}
		err := WriteDocgen(w, f)
		if w.n == 0 {
			t.Fatalf("format %s: nothing was written", f)
		}
		if err == nil {
			t.Errorf("format %s: all %d writes failed: got err = nil (success); want a non-nil error", f, w.n)
		}
	}
}
