package dyntpl

import (
	"bytes"
	"testing"
)

// Property C17, Statement: "If the destination writer returns an error at any write, the render call returns a
// non-nil error rather than reporting success, and the bytes the writer accepted before the failure are a prefix of
// the fault-free output."
//
// The renderer signals exit / break / continue in-band, through the same `error` channel the writer's error travels
// on, and recognises the signals by identity (err == ErrInterrupt in writeTree, err != ErrBreakLoop && err !=
// ErrContLoop in cloop / RangeLoop.Iterate). A writer whose error IS one of these exported values (dyntpl.Write
// itself returns ErrBreakLoop / ErrContLoop to its caller for a break / continue outside a loop, so a writer that
// feeds a second dyntpl render hands them on) is taken for the template's own control flow:
//   - ErrInterrupt at any write: the render stops and reports success;
//   - ErrContLoop / ErrBreakLoop at a write of a loop body: the loop goes on writing to the dead writer and the render
//     reports success when the loop is the last thing of the template.
type audit1Writer struct {
	k   int   // 1-based index of the first failing write, this and all later ones fail
	err error // the error the failing writes return
	n   int
	acc bytes.Buffer
}

func (w *audit1Writer) Write(p []byte) (int, error) {
	w.n++
	if w.n >= w.k {
		return 0, w.err
	}
	w.acc.Write(p)
	return len(p), nil
}

func TestAudit1(t *testing.T) {
	reg := func(key, src string) {
		tree, err := Parse([]byte(src), true)
		if err != nil {
			t.Fatalf("parse %s: %v", key, err)
		}
		RegisterTplKey(key, tree)
	}
	reg("audit1_raw", "head {%= user.Id %} tail")
	reg("audit1_cloop", "list:{% for i := 0; i < 3; i++ %}<{%= i %}>{% endfor %}")
	reg("audit1_rloop", "list:{% for _, v := range user.Finance.History %}<{%= v.Comment %}>{% endfor %}")

	cases := []struct {
		key  string
		k    int
		werr error
	}{
		{"audit1_raw", 1, ErrInterrupt},
		{"audit1_raw", 2, ErrInterrupt},
		{"audit1_cloop", 3, ErrInterrupt},
		{"audit1_cloop", 2, ErrContLoop},
		{"audit1_cloop", 3, ErrBreakLoop},
		{"audit1_rloop", 2, ErrContLoop},
		{"audit1_rloop", 3, ErrBreakLoop},
	}
	for _, c := range cases {
		ctx := NewCtx()
		ctx.Set("user", user, ins)
		full, err := Render(c.key, ctx)
		if err != nil {
			t.Fatalf("%s: fault-free render failed: %v", c.key, err)
		}

		ctx = NewCtx()
		ctx.Set("user", user, ins)
		w := &audit1Writer{k: c.k, err: c.werr}
		err = Write(w, c.key, ctx)
		if w.n < c.k {
			t.Fatalf("%s: write #%d never happened", c.key, c.k)
		}
		if err == nil {
			t.Errorf("%s: writer failed %d write(s) from #%d on with %q: got err = nil (success), accepted %q of %q; want a non-nil error",
				c.key, w.n-c.k+1, c.k, c.werr, w.acc.Bytes(), full)
		}
	}
}
