package dyntpl

import (
	"bytes"
	"testing"
)

// Property C17, Quantifier: "a writer that accepts the first k-1 writes and fails the k-th and all later ones (also:
// short writes)"; Statement: "... the render call returns a non-nil error rather than reporting success".
//
// All three write sites of the renderer (dyntpl.go: writeBound, the noesc branch of the print tag, the include node)
// are `_, err = w.Write(p)`: the count is dropped. A writer that takes only a part of p and says so by the count alone
// (n < len(p), err == nil - what io.Copy and bufio.Writer turn into io.ErrShortWrite on behalf of the writer) loses
// bytes in the middle of the output and the render reports success; what the writer accepted is not a prefix of the
// fault-free output either.
type audit3Writer struct {
	max int // accepts at most max bytes per call
	acc bytes.Buffer
}

func (w *audit3Writer) Write(p []byte) (int, error) {
	if len(p) > w.max {
		p = p[:w.max]
	}
	w.acc.Write(p)
	return len(p), nil
}

func TestAudit3(t *testing.T) {
	tree, err := Parse([]byte("head {%= user.Id %} tail{% for i := 0; i < 2; i++ sep ---- %}[{%= i %}]{% endfor %}"), true)
	if err != nil {
		t.Fatal(err)
	}
	RegisterTplKey("audit3", tree)

	ctx := NewCtx()
	ctx.Set("user", user, ins)
	full, err := Render("audit3", ctx)
	if err != nil {
		t.Fatal(err)
	}

	ctx = NewCtx()
	ctx.Set("user", user, ins)
	w := &audit3Writer{max: 3}
	err = Write(w, "audit3", ctx)
	if err == nil && !bytes.Equal(w.acc.Bytes(), full) {
		t.Errorf("short writes: got err = nil (success) with output %q; want a non-nil error (io.ErrShortWrite), fault-free output is %q",
			w.acc.Bytes(), full)
	}
	if !bytes.HasPrefix(full, w.acc.Bytes()) {
		t.Errorf("short writes: accepted bytes %q are not a prefix of the fault-free output %q", w.acc.Bytes(), full)
	}
}
