package dyntpl

import (
	"testing"
)

// TestAudit2: property C09, last sentence: "Everything rendered inside a urlencode region is URL-encoded."
//
// A print tag whose modifier list carries raw (alias noesc) is written to the output with a bare w.Write, past
// writeBound: the value appears inside the region byte for byte - reserved characters, spaces, quotes. The same holds
// for the branch of a ternary print. (The prefix and the suffix of the very same tag ARE encoded.)
func TestAudit2(t *testing.T) {
	const val = `a b/c"d&e`
	for i, c := range []struct{ src, want string }{
		{`{% urlencode %}x y{%= s|raw %}{% endurlencode %}`, `x+ya+b%2Fc%22d%26e`},
		{`{% urlencode %}{%= s|noesc pfx < sfx > %}{% endurlencode %}`, `%3Ca+b%2Fc%22d%26e%3E`},
		{`{% urlencode %}{%= s|default("-")|raw %}{% endurlencode %}`, `a+b%2Fc%22d%26e`},
		{`{% urlencode %}{%= one == 1 ? s|raw : s %}{% endurlencode %}`, `a+b%2Fc%22d%26e`},
	} {
		key := "audit2" + string(rune('a'+i))
		tree, err := Parse([]byte(c.src), false)
		if err != nil {
			t.Fatalf("%s: parse: %v", c.src, err)
		}
		RegisterTplKey(key, tree)
		ctx := NewCtx()
		ctx.SetString("s", val)
		ctx.SetStatic("one", 1)
		out, err := Render(key, ctx)
		if err != nil {
			t.Fatalf("%s: render: %v", c.src, err)
		}
		if string(out) != c.want {
			t.Errorf("%s: got %q, want %q (everything inside the region URL-encoded)", c.src, out, c.want)
		}
	}
}
