package dyntpl

import (
	"net/url"
	"strings"
	"testing"
)

// TestAudit1: property C09, sentence 1: "URL-encode output consists only of ASCII letters, digits, the characters
// '-', '.', '_', '+' and %XX triplets ..., and query-string decoding returns exactly the original bytes; link-escape
// output contains no space and no double quote that is not preceded by a backslash" - quantified over "u, l, repeated
// letters, THE MODIFIERS and urlencode regions".
//
// The modifiers urlEncode / linkEscape (aliases ue / le) take a repeat count. A count of zero or below - written as a
// literal, or coming from the DATA through a bytes/string variable - makes the encode loop run zero times, and the
// modifier hands back the input untouched: reserved bytes, spaces, quotes and all.
func TestAudit1(t *testing.T) {
	const val = `a b/c"d&e=f?g#h` + "\xff\x00"
	safe := func(s string) bool {
		for i := 0; i < len(s); i++ {
			c := s[i]
			switch {
			case c >= 'a' && c <= 'z', c >= 'A' && c <= 'Z', c >= '0' && c <= '9', c == '-', c == '.', c == '_', c == '+':
			case c == '%' && i+2 < len(s) && strings.IndexByte("0123456789ABCDEF", s[i+1]) >= 0 && strings.IndexByte("0123456789ABCDEF", s[i+2]) >= 0:
				i += 2
			default:
				return false
			}
		}
		return true
	}
	linkOK := func(s string) bool {
		for i := 0; i < len(s); i++ {
			if s[i] == ' ' {
				return false
			}
			if s[i] == '"' && (i == 0 || s[i-1] != '\\') {
				return false
			}
		}
		return true
	}
	render := func(name, src string) string {
		tree, err := Parse([]byte(src), false)
		if err != nil {
			t.Fatalf("%s: parse: %v", src, err)
		}
		RegisterTplKey(name, tree)
		ctx := NewCtx()
		ctx.SetString("s", val)
		ctx.SetString("depth", "0")    // e.g. a "number of redirects" that comes with the request
		ctx.SetString("depthNeg", "-2")
		out, err := Render(name, ctx)
		if err != nil {
			t.Fatalf("%s: render: %v", src, err)
		}
		return string(out)
	}
	for i, src := range []string{
		`{%= s|urlEncode(0) %}`,
		`{%= s|urlEncode(-1) %}`,
		`{%= s|ue(00) %}`,
		`{%= s|urlEncode(depth) %}`,
		`{%= s|urlEncode(depthNeg) %}`,
	} {
		got := render("audit1u"+string(rune('a'+i)), src)
		if !safe(got) {
			t.Errorf("%s: got %q, want only [A-Za-z0-9-._+] and %%XX (e.g. %q)", src, got, url.QueryEscape(val))
		}
	}
	for i, src := range []string{
		`{%= s|linkEscape(0) %}`,
		`{%= s|le(depth) %}`,
	} {
		got := render("audit1l"+string(rune('a'+i)), src)
		if !linkOK(got) {
			t.Errorf("%s: got %q, want no space and no double quote without a backslash before it", src, got)
		}
	}
}
