package dyntpl

import (
	"testing"
)

// TestAudit3: property C09, sentence 1 ("URL-encode output consists only of ... via ... the modifiers"; "link-escape
// output contains no space and no double quote that is not preceded by a backslash").
//
// The parser accepts a blank between the bar and the modifier's name and between the name and its argument list, but
// looks the name up with the blank in it (" urlEncode", "urlEncode "), finds nothing and drops the modifier without a
// word: the tag that asks for URL encoding prints the value as it is. The spellings without the blank encode.
func TestAudit3(t *testing.T) {
	const val = `a b/c"d&e`
	for i, c := range []struct{ src, want string }{
		{`{%= s|urlEncode %}`, `a+b%2Fc%22d%26e`}, // reference spelling: passes
		{`{%= s| urlEncode %}`, `a+b%2Fc%22d%26e`},
		{`{%= s|urlEncode (2) %}`, `a%2Bb%252Fc%2522d%2526e`},
		{`{%= s| ue %}`, `a+b%2Fc%22d%26e`},
		{`{%= s| linkEscape %}`, `a+b/c\"d&e`},
	} {
		key := "audit3" + string(rune('a'+i))
		tree, err := Parse([]byte(c.src), false)
		if err != nil {
			t.Fatalf("%s: parse: %v", c.src, err)
		}
		RegisterTplKey(key, tree)
		ctx := NewCtx()
		ctx.SetString("s", val)
		out, err := Render(key, ctx)
		if err != nil {
			t.Fatalf("%s: render: %v", c.src, err)
		}
		if string(out) != c.want {
			t.Errorf("%s: got %q, want %q", c.src, out, c.want)
		}
	}
}
