package dyntpl

import (
	"bytes"
	"testing"
)

// Property C19, sentence contradicted: "... rendering again with them performs no heap allocation, for templates
// composed of the built-in constructs: prints, ESCAPE DIRECTIVES, ..., LOOPS ...".
//
// dyntpl's own code parses text with strconv at render time and throws the error away (or returns it) - the error
// value is a fresh *strconv.NumError each time:
//   - printIterations (mod.go): the first argument of every escape modifier is read as the repeat count; when it is
//     not a number the count is 1, silently - after 3 allocations;
//   - roundHelper -> if2int -> text2int (mod_builtin.go, conv.go): the precision of roundPrec / ceilPrec / floorPrec;
//   - cloopRange (cloop.go): a literal bound of a counter loop is parsed by ParseInt in every render; the parser accepts
//     "3.5" or "true" as a literal (isStatic), the render fails every time with 2-3 allocations instead of the parser
//     rejecting the loop (or the tree keeping the parsed bound).
func TestAudit5(t *testing.T) {
	cases := []struct {
		name, tpl string
		wantErr   bool
	}{
		{"escape modifier, repeat count is not a number", `{%= s|htmlEscape(s) %}`, false},
		{"roundPrec, precision is not a number", `{%= user.Finance.Balance|roundPrec("two") %}`, false},
		{"counter loop, literal bound is not an integer", `{% for i := 0; i < 3.5; i++ %}x{% endfor %}`, true},
		{"counter loop, bound variable is text", `{% for i := 0; i < s; i++ %}x{% endfor %}`, true},
	}
	for _, c := range cases {
		tree, err := Parse([]byte(c.tpl), false)
		if err != nil {
			t.Fatalf("%s: %v", c.name, err)
		}
		RegisterTplKey("audit5", tree)
		ctx := NewCtx()
		var out bytes.Buffer
		var rerr error
		render := func() {
			ctx.Reset()
			ctx.Set("user", user, ins)
			ctx.SetString("s", "a<b")
			out.Reset()
			rerr = Write(&out, "audit5", ctx)
		}
		for i := 0; i < 10; i++ {
			render()
		}
		if (rerr != nil) != c.wantErr {
			t.Fatalf("%s: unexpected error state: %v", c.name, rerr)
		}
		if got := testing.AllocsPerRun(100, render); got != 0 {
			t.Errorf("%s: got %v allocs per render (err=%v, output %q), want 0", c.name, got, rerr, out.String())
		}
	}
}
