package dyntpl

import (
	"bytes"
	"runtime"
	"testing"
)

// Property C19, sentence contradicted (read literally): "Once a context, an output buffer and a template have been
// used once, rendering again with them performs no heap allocation" - prints.
//
// The context is HELD and not reset between the renders (nothing in the sentence asks for a Reset; the variables stay
// set, the render is repeatable and gives the same output every time). Every print tag (and every escape modifier,
// every comparison of two variables, every [i] in a path) appends to Ctx.BufAcc after StakeOut(); nothing but
// Ctx.Reset truncates BufAcc, write() does not. So BufAcc grows by the size of what is printed in every render, and is
// reallocated (doubled) again and again, for ever: the very next render after the first one may already allocate, and
// the memory held by the context is unbounded. testing.AllocsPerRun hides this (it returns the integer quotient
// mallocs/runs, and the doublings are rare), the total count of mallocs does not.
func TestAudit2(t *testing.T) {
	tree, err := Parse([]byte(`<h1>Welcome, {%= user.Name %}!</h1><p>Status: {%= user.Status %}</p><p>Balance: {%= user.Finance.Balance %}</p>`), false)
	if err != nil {
		t.Fatal(err)
	}
	RegisterTplKey("audit2", tree)

	ctx := NewCtx()
	ctx.Set("user", user, ins)
	var out bytes.Buffer
	render := func() {
		out.Reset()
		if err := Write(&out, "audit2", ctx); err != nil {
			t.Fatal(err)
		}
	}
	render() // "used once"
	first := out.String()
	acc0 := ctx.BufAcc.Len()

	const runs = 5000
	defer runtime.GOMAXPROCS(runtime.GOMAXPROCS(1))
	var ms runtime.MemStats
	runtime.ReadMemStats(&ms)
	m0, b0 := ms.Mallocs, ms.TotalAlloc
	for i := 0; i < runs; i++ {
		render()
	}
	runtime.ReadMemStats(&ms)
	mallocs, bytes_ := ms.Mallocs-m0, ms.TotalAlloc-b0

	if out.String() != first {
		t.Fatalf("output changed: %q vs %q", out.String(), first)
	}
	if mallocs != 0 {
		t.Errorf("held context, no Reset: got %d heap allocations (%d bytes) in %d renders after the first one, want 0; "+
			"Ctx.BufAcc holds %d bytes now (%d after the first render) and %d bytes of capacity",
			mallocs, bytes_, runs, ctx.BufAcc.Len(), acc0, ctx.BufAcc.Cap())
	}
}
