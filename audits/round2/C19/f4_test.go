package dyntpl

import (
	"bytes"
	"testing"
)

// Property C19, sentence contradicted: "... rendering again with them performs no heap allocation, for templates
// composed of the built-in constructs: ... CONDITIONS, SWITCHES, loops ..., ctx and COUNTER tags".
//
// A comparison whose left operand is a number kept by the context itself (a counter, the counter of a counter loop,
// a ctx variable) or a numeric field, and whose right operand is text that is not a number, allocates in every
// evaluation: the right operand goes as text to Inspector.Compare, which parses it with strconv.ParseInt and gets a
// freshly allocated *strconv.NumError (3 allocations). dyntpl drops that error (for counters / loop counters /
// static variables StaticInspector.Compare returns nil; in the classic switch Ctx.Err is not looked at), the render
// SUCCEEDS and takes the else / default arm - but it has allocated. Reset + Set before every render, as the
// repository's benchmarks do.
func TestAudit4(t *testing.T) {
	cases := []struct{ name, tpl string }{
		// counter against a string variable
		{"counter == string var", `{% counter c = 0 %}{% if c == s %}a{% else %}b{% endif %}`},
		// loop counter against a string variable (3 iterations)
		{"loop counter == string var", `{% for i := 0; i < 3; i++ %}{% if i == s %}a{% else %}b{% endif %}{% endfor %}`},
		// classic switch on a numeric field with a text case
		{"switch int field, text case", `{% switch user.Status %}{% case "active" %}a{% case 78 %}b{% default %}d{% endswitch %}`},
	}
	for _, c := range cases {
		tree, err := Parse([]byte(c.tpl), false)
		if err != nil {
			t.Fatal(err)
		}
		RegisterTplKey("audit4", tree)
		ctx := NewCtx()
		var out bytes.Buffer
		render := func() {
			ctx.Reset()
			ctx.Set("user", user, ins)
			ctx.SetString("s", "n/a")
			out.Reset()
			if err := Write(&out, "audit4", ctx); err != nil {
				t.Fatalf("%s: %v", c.name, err)
			}
		}
		for i := 0; i < 10; i++ {
			render()
		}
		if got := testing.AllocsPerRun(100, render); got != 0 {
			t.Errorf("%s: got %v allocs per render (render ok, output %q), want 0", c.name, got, out.String())
		}
	}
}
