package dyntpl

import (
	"bytes"
	"runtime"
	"testing"
)

// Property C19, sentence contradicted (read literally): "Once a context, an output buffer and a template have been
// used once, rendering again with them performs no heap allocation" - loops with separators.
//
// Second grow-only buffer that only Ctx.Reset truncates: Ctx.bufLC, the values of the counters of the counter loops.
// Ctx.cloop appends one int64 per EXECUTION of a counter loop (not per nesting level) and never gives the cell back,
// neither at the end of the loop nor at the beginning of the next render. The template below prints nothing through
// BufAcc (no print tag at all), so this is the only thing that grows: a held context that is not reset between the
// renders reallocates bufLC again and again.
func TestAudit3(t *testing.T) {
	tree, err := Parse([]byte(`<ul>{% for i := 0; i < 3; i++ sep , %}<li>{% for j := 0; j < 2; j++ sep ; %}x{% endfor %}</li>{% endfor %}</ul>`), false)
	if err != nil {
		t.Fatal(err)
	}
	RegisterTplKey("audit3", tree)

	ctx := NewCtx()
	var out bytes.Buffer
	render := func() {
		out.Reset()
		if err := Write(&out, "audit3", ctx); err != nil {
			t.Fatal(err)
		}
	}
	render() // "used once"
	first := out.String()

	const runs = 5000
	defer runtime.GOMAXPROCS(runtime.GOMAXPROCS(1))
	var ms runtime.MemStats
	runtime.ReadMemStats(&ms)
	m0, b0 := ms.Mallocs, ms.TotalAlloc
	for i := 0; i < runs; i++ {
		render()
	}
	runtime.ReadMemStats(&ms)
	mallocs, bytes_ := ms.Mallocs-m0, ms.TotalAlloc-b0

	if out.String() != first {
		t.Fatalf("output changed: %q vs %q", out.String(), first)
	}
	if mallocs != 0 {
		t.Errorf("held context, no Reset, counter loops only: got %d heap allocations (%d bytes) in %d renders after the first one, want 0 (output %q)",
			mallocs, bytes_, runs, first)
	}
}
