package dyntpl

import (
	"bytes"
	"testing"
)

// Property C19, sentence contradicted: "Once a context, an output buffer and a template have been used once,
// rendering again with them performs no heap allocation, for templates composed of the built-in constructs:
// prints, escape directives, CONDITIONS, ..., ctx and counter tags".
//
// A len()/cap() condition whose right operand is a variable (a ctx variable, a field, a loop counter) is evaluated by
// Ctx.cmpLC with the NAME of the variable as the right operand: the name is never resolved, it goes as text into
// StaticInspector.Compare -> strconv.ParseInt("max") -> *strconv.NumError: 3 heap allocations per evaluation, in every
// render, in a render that succeeds (and, by the way, takes the wrong branch).
// The context is reset and filled again before every render (the protocol of the repository's benchmarks), the
// context and the output buffer are held and warmed.
func TestAudit1(t *testing.T) {
	tree, err := Parse([]byte(`{% ctx max = 3 %}{% if len(user.Name) > max %}long{% else %}short{% endif %}`), false)
	if err != nil {
		t.Fatal(err)
	}
	RegisterTplKey("audit1", tree)

	ctx := NewCtx()
	var out bytes.Buffer
	render := func() {
		ctx.Reset()
		ctx.Set("user", user, ins) // user.Name is "John"
		out.Reset()
		if err := Write(&out, "audit1", ctx); err != nil {
			t.Fatal(err)
		}
	}
	for i := 0; i < 10; i++ {
		render() // warm-up
	}
	got := testing.AllocsPerRun(100, render)
	if got != 0 {
		t.Errorf("len(x) > variable: got %v allocs per render (output %q), want 0", got, out.String())
	}

	// The same condition with a literal on the right does not allocate: the construct itself is alloc-free, it is the
	// unresolved operand that costs.
	tree, _ = Parse([]byte(`{% if len(user.Name) > 3 %}long{% else %}short{% endif %}`), false)
	RegisterTplKey("audit1", tree)
	render()
	if lit := testing.AllocsPerRun(100, render); lit != 0 {
		t.Errorf("len(x) > literal: got %v allocs per render, want 0", lit)
	}
}
