package dyntpl

import (
	"strings"
	"testing"
)

// TestAudit1: property C10, sentence "JS-escape output contains only ASCII letters, digits, the characters , . _ and
// backslash escapes - never a raw quote, angle bracket, ampersand, slash, line terminator ..." and "CSS-escape output
// contains only ASCII letters, digits and backslash-hex escapes ...".
//
// The parser accepts the modifier spelling of the two escapers with blanks around the name ({%= x| jsEscape %},
// {%= x|jsEscape (2) %}, {%= x|jsEscape | cssEscape %}) - Parse returns no error - but extractMods keeps the blanks in
// the name, does not find "jsEscape " / " jsEscape" in the registry and drops the modifier without a word: the value is
// rendered raw. The same tags without the blanks escape; blanks inside the parentheses ("jsEscape( 2 )") are trimmed.
func TestAudit1(t *testing.T) {
	const in = "</script>'\"&\n"
	jsAlphabet := func(s string) bool {
		return !strings.ContainsAny(s, "<>'\"&\n") && !strings.Contains(strings.ReplaceAll(s, `\/`, ""), "/")
	}
	cases := []struct {
		name, tpl, want string
	}{
		{"a1js0", `{%= x|jsEscape %}`, `\u003c\/script\u003e\u0027\u0022\u0026\n`}, // reference spelling: passes
		{"a1js1", `{%= x| jsEscape %}`, `\u003c\/script\u003e\u0027\u0022\u0026\n`},
		{"a1js2", `{%= x|jsEscape (1) %}`, `\u003c\/script\u003e\u0027\u0022\u0026\n`},
		{"a1js3", `{%= x|jse | default("z") %}`, `\u003c\/script\u003e\u0027\u0022\u0026\n`},
		{"a1css0", `{%= x|cssEscape %}`, `\3c \2f script\3e \27 \22 \26 \A `}, // reference spelling: passes
		{"a1css1", `{%= x| cssEscape %}`, `\3c \2f script\3e \27 \22 \26 \A `},
		{"a1css2", `{%= x|ce (1) %}`, `\3c \2f script\3e \27 \22 \26 \A `},
	}
	for _, c := range cases {
		tree, err := Parse([]byte(c.tpl), false)
		if err != nil {
			// A rejected template would be fine (not a wrong render).
			t.Logf("%s: rejected by the parser: %v", c.tpl, err)
			continue
		}
		RegisterTplKey(c.name, tree)
		ctx := NewCtx()
		ctx.SetStatic("x", in)
		out, err := Render(c.name, ctx)
		if err != nil {
			t.Logf("%s: render error %v", c.tpl, err)
			continue
		}
		got := strings.ToLower(string(out))
		if got != strings.ToLower(c.want) {
			t.Errorf("%s with x=%q:\n got  %q\n want %q", c.tpl, in, out, c.want)
		}
		if !jsAlphabet(string(out)) {
			t.Errorf("%s: output %q contains raw active characters", c.tpl, out)
		}
	}
}
