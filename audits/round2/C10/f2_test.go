package dyntpl

import (
	"strings"
	"testing"
)

// TestAudit2: property C10, sentences "JS-escape output contains only ASCII letters, digits, the characters , . _ and
// backslash escapes - never a raw quote, angle bracket, ampersand, slash, line terminator or other control character"
// and "CSS-escape output contains only ASCII letters, digits and backslash-hex escapes each terminated by a space".
//
// The repeat count of the escapers (the thing the repeated letters JJ / cc set) is taken by printIterations as it
// comes: a count of 0 or below makes `for i := 0; i < itr; i++` run no pass at all and modJSEscape / modCSSEscape
// hand the input back untouched. The count is reachable from a template through the modifier spelling
// (jsEscape(0), jse(-1), cssEscape(0)) and through a variable that holds the bytes "0".
func TestAudit2(t *testing.T) {
	const in = "</script>'\"&\n"
	cases := []struct {
		name, tpl string
		css       bool
	}{
		{"a2js0", `{%= x|jsEscape(0) %}`, false},
		{"a2js1", `{%= x|jse(-1) %}`, false},
		{"a2js2", `{%= x|jsEscape(n) %}`, false},
		{"a2css0", `{%= x|cssEscape(0) %}`, true},
		{"a2css1", `{%= x|ce(n) %}`, true},
	}
	for _, c := range cases {
		tree, err := Parse([]byte(c.tpl), false)
		if err != nil {
			t.Logf("%s: rejected by the parser: %v", c.tpl, err)
			continue
		}
		RegisterTplKey(c.name, tree)
		ctx := NewCtx()
		ctx.SetStatic("x", in)
		ctx.SetBytes("n", []byte("0"))
		out, err := Render(c.name, ctx)
		if err != nil {
			t.Logf("%s: render error %v", c.tpl, err)
			continue
		}
		bad := "<>'\"&\n"
		if c.css {
			bad += "/"
		}
		if strings.ContainsAny(string(out), bad) {
			t.Errorf("%s with x=%q:\n got  %q\n want escaper output without any of %q (or no output / an error)", c.tpl, in, out, bad)
		}
	}
	// The modifier function itself, as handed out by the public GetModFn.
	ctx := NewCtx()
	var res any
	zero := []byte("0")
	if err := GetModFn("jsEscape")(ctx, &res, in, []any{&zero}); err == nil {
		ctx.BufAcc.StakeOut().WriteX(res)
		if got := ctx.BufAcc.StakedString(); strings.ContainsAny(got, "<>'\"&\n") {
			t.Errorf("GetModFn(\"jsEscape\") with count 0: got %q, want escaped text", got)
		}
	}
}
