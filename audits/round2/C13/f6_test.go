package dyntpl

import (
	"testing"
	"time"
)

// Property C13, title and statement: "Rendering never panics or hangs inside dyntpl, whatever the template and data"
// / "without unbounded computation".
//
// Every {% jsonquote %} (htmlescape, urlencode) tag that is rendered pushes one entry on the context's stack of open
// bound tags (ctx.bnd); nothing limits the stack, and a tag inside a loop is pushed once per iteration. Every later
// write goes through ALL entries (Ctx.writeBound), and JSON escaping doubles a quote or a backslash on every pass:
// after n iterations one character is written as 2^n bytes. With n = 24 (from the data) the template below turns one
// quote into 16 MiB; with n = 40 it needs a terabyte and the render does not come back (out of memory).
func TestAudit6(t *testing.T) {
	src := `{% for i:=0; i<n; i++ %}{% jsonquote %}{% endfor %}"`
	tree, err := Parse([]byte(src), false)
	if err != nil {
		t.Fatalf("parse: %v", err)
	}
	RegisterTplKey("audit6", tree)
	const n = 24
	ctx := NewCtx()
	ctx.SetStatic("n", n)
	st := time.Now()
	out, err := Render("audit6", ctx)
	el := time.Since(st)
	if err == nil && len(out) > 1<<16 {
		t.Fatalf("%s with n=%d: got: %d bytes of output (2^n) for a text of one character, in %s, no error; want: an error (too many open bound tags) or output that does not double per open tag", src, n, len(out), el)
	}
}
