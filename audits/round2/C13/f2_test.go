package dyntpl

import (
	"testing"
	"time"
)

// Property C13, title and first sentence: "Rendering never panics or hangs inside dyntpl, whatever the template and
// data ... a bad loop bound ... surfaces as a returned error or as empty output."
//
// A counter loop whose bound (taken from the data) can not be reached by the step never ends: Ctx.cloop has no
// iteration limit and does not check the direction of the step against the condition.
func TestAudit2(t *testing.T) {
	cases := []struct {
		name, src string
		n         int
	}{
		{"!= with a bound below the start", `{% for i:=0; i!=n; i++ %}{% endfor %}done`, -1},
		{"< with a step that moves away", `{% for i:=0; i<n; i-- %}{% endfor %}done`, 3},
	}
	for i, c := range cases {
		tree, err := Parse([]byte(c.src), false)
		if err != nil {
			t.Fatalf("%s: parse: %v", c.name, err)
		}
		key := "audit2_" + string(rune('a'+i))
		RegisterTplKey(key, tree)
		ctx := NewCtx()
		ctx.SetStatic("n", c.n)
		done := make(chan struct{})
		go func() {
			defer func() { _ = recover(); close(done) }()
			_, _ = Render(key, ctx)
		}()
		select {
		case <-done:
		case <-time.After(2 * time.Second):
			t.Errorf("%s: %s with n=%d: got: Render still running after 2s; want: an error (bad loop bound) or empty output", c.name, c.src, c.n)
		}
	}
}
