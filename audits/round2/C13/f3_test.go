package dyntpl

import (
	"fmt"
	"testing"
	"time"
)

// Property C13, first sentence: "... a value of an unexpected type surfaces as a returned error or as empty output"
// (quantifier: "contexts holding values of every kind (incl. nil, wrong kinds ...)").
//
// A nil pointer of a scalar type in the context ((*int)(nil), (*string)(nil), (*time.Time)(nil)) is made a nil value
// by the print tag only for the value it reads first. Everywhere else dyntpl hands what it has read to the byte
// converter (bytebuf WriteX -> x2bytes), which dereferences the pointer: the render panics.
func TestAudit3(t *testing.T) {
	cases := []string{
		// the value a modifier takes from its argument is printed / passed on without the check
		`{%= missing|default(pint) %}`,
		`{%= yes|ifThen(pstr) %}`,
		`{%= yes|ifThenElse(ptime, 1) %}`,
		`{%= missing|default(pstr)|htmlEscape %}`,
		// the ctx tag has no check at all
		`{% ctx y = pstr|htmlEscape %}`,
		`{% ctx y = pint|jsonQuote %}`,
		// right operand of a comparison, of a ternary, of a case
		`{% if x == pint %}a{% endif %}`,
		`{%= x == pint ? 1 : 2 %}`,
		`{% switch x %}{% case pint %}a{% endswitch %}`,
		`{% switch %}{% case x == pstr %}a{% endswitch %}`,
		// index variable inside a counter loop
		`{% for i:=0; i<1; i++ %}{%= sl[pint] %}{% endfor %}`,
		// arguments the time modifiers turn to text
		`{%= x|time::now(pstr) %}`,
		`{%= x|time::format(pstr) %}`,
		`{%= x|time::add(pint) %}`,
	}
	for i, src := range cases {
		tree, err := Parse([]byte(src), false)
		if err != nil {
			t.Errorf("%s: parse: %v", src, err)
			continue
		}
		key := fmt.Sprintf("audit3_%d", i)
		RegisterTplKey(key, tree)
		ctx := NewCtx()
		ctx.SetStatic("pint", (*int)(nil))
		ctx.SetStatic("pstr", (*string)(nil))
		ctx.SetStatic("ptime", (*time.Time)(nil))
		ctx.SetStatic("x", 1)
		ctx.SetStatic("yes", true)
		ctx.SetStatic("sl", []string{"a"})
		func() {
			defer func() {
				if r := recover(); r != nil {
					t.Errorf("%s: got: panic %v; want: an error or empty output", src, r)
				}
			}()
			_, _ = Render(key, ctx)
		}()
	}
}
