package dyntpl

import (
	"testing"
	"time"
)

// Property C13, sentence: "Every built-in modifier and condition helper returns, for every argument of every type,
// without crashing and without unbounded computation." (edge values of the quantifier: "huge").
//
// The escape modifiers (htmlEscape, jsonEscape, jsonQuote, urlEncode, linkEscape, attrEscape, cssEscape, jsEscape) take
// their first argument as a repeat count (printIterations) and make that many passes over the value. The count has no
// upper limit and may come from the template text or from the data (a bytes/string variable): with
// 9223372036854775807 the modifier never returns.
func TestAudit1(t *testing.T) {
	cases := []struct {
		name, src string
		prep      func(ctx *Ctx)
	}{
		{"count from the data", `{%= v|htmlEscape(n) %}`, func(ctx *Ctx) {
			ctx.SetString("v", "a")
			ctx.SetString("n", "9223372036854775807")
		}},
		{"count as literal", `{%= v|urlEncode(9223372036854775807) %}`, func(ctx *Ctx) {
			ctx.SetString("v", "a")
		}},
	}
	for i, c := range cases {
		tree, err := Parse([]byte(c.src), false)
		if err != nil {
			t.Fatalf("%s: parse: %v", c.name, err)
		}
		key := "audit1_" + string(rune('a'+i))
		RegisterTplKey(key, tree)
		ctx := NewCtx()
		c.prep(ctx)
		done := make(chan struct{})
		go func() {
			defer func() { _ = recover(); close(done) }()
			_, _ = Render(key, ctx)
		}()
		select {
		case <-done:
		case <-time.After(2 * time.Second):
			t.Errorf("%s: %s: got: Render still running after 2s (the modifier makes 2^63-1 passes); want: it returns (output or error)", c.name, c.src)
		}
	}
}
