package dyntpl

import (
	"fmt"
	"testing"
	"time"
)

// Property C13, second sentence: "Every built-in modifier and condition helper returns, for every argument of every
// type, without crashing ..." (edge values: numbers, "non-numeric strings").
//
// time::add (alias time::date_modify) turns its argument to text and gives it to clock.Relative unchecked. For a text
// that is a number without a unit ("5", 5, "1", 14.3, "+1") clock.Relative indexes past the end of its token list:
// the modifier crashes the render instead of returning an error.
func TestAudit7(t *testing.T) {
	cases := []string{
		`{%= d|time::add(5) %}`,
		`{%= d|time::add("1") %}`,
		`{%= d|time::add("+1") %}`,
		`{%= d|time::date_modify(n) %}`,
	}
	for i, src := range cases {
		tree, err := Parse([]byte(src), false)
		if err != nil {
			t.Errorf("%s: parse: %v", src, err)
			continue
		}
		key := fmt.Sprintf("audit7_%d", i)
		RegisterTplKey(key, tree)
		ctx := NewCtx()
		ctx.SetStatic("d", time.Unix(1600000000, 0))
		ctx.SetStatic("n", 7)
		func() {
			defer func() {
				if r := recover(); r != nil {
					t.Errorf("%s: got: panic %v; want: an error or empty output", src, r)
				}
			}()
			_, _ = Render(key, ctx)
		}()
	}
}
