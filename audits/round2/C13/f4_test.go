package dyntpl

import (
	"fmt"
	"testing"
)

// Property C13, first sentence: "... a value of an unexpected type surfaces as a returned error or as empty output"
// (quantifier: "contexts holding values of every kind (incl. nil, wrong kinds ...)").
//
// The LEFT operand of a comparison (if, ternary, switch, case) and the argument of len() / cap() are not read through
// Ctx.get: Ctx.cmp and Ctx.cmpLC give the raw value of the variable to the inspector. For a static variable that holds
// a nil pointer ((*int)(nil), (*string)(nil)) StaticInspector.Compare / Length dereference it: the render panics.
func TestAudit4(t *testing.T) {
	cases := []string{
		`{% if pint == 1 %}a{% endif %}`,
		`{%= pint == 1 ? 1 : 2 %}`,
		`{% switch pint %}{% case 1 %}a{% endswitch %}`,
		`{% switch %}{% case pstr == "a" %}a{% endswitch %}`,
		`{% if len(pstr) == 1 %}a{% endif %}`,
		`{% if cap(pstr) == 1 %}a{% endif %}`,
	}
	for i, src := range cases {
		tree, err := Parse([]byte(src), false)
		if err != nil {
			t.Errorf("%s: parse: %v", src, err)
			continue
		}
		key := fmt.Sprintf("audit4_%d", i)
		RegisterTplKey(key, tree)
		ctx := NewCtx()
		ctx.SetStatic("pint", (*int)(nil))
		ctx.SetStatic("pstr", (*string)(nil))
		func() {
			defer func() {
				if r := recover(); r != nil {
					t.Errorf("%s: got: panic %v; want: an error or empty output", src, r)
				}
			}()
			_, _ = Render(key, ctx)
		}()
	}
}
