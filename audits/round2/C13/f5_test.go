package dyntpl

import (
	"testing"

	"github.com/koykov/inspector/testobj"
)

// Property C13, second sentence: "Every built-in modifier and condition helper returns, for every argument of every
// type, without crashing ..." and the first one: "never panics in dyntpl's own code".
//
// The condition-ok helper __testUserNextHistory999 (registered in init.go) asserts its argument to **TestFinance and
// dereferences it without looking whether the outer pointer is nil: the panic is in condOK.go, dyntpl's own code.
func TestAudit5(t *testing.T) {
	src := `{% if h, ok := __testUserNextHistory999(pp) as TestHistory; ok %}a{% else %}b{% endif %}`
	tree, err := Parse([]byte(src), false)
	if err != nil {
		t.Fatalf("parse: %v", err)
	}
	RegisterTplKey("audit5", tree)
	ctx := NewCtx()
	ctx.SetStatic("pp", (**testobj.TestFinance)(nil))
	defer func() {
		if r := recover(); r != nil {
			t.Fatalf("%s with pp=(**TestFinance)(nil): got: panic %v; want: \"b\" (not ok) or an error", src, r)
		}
	}()
	out, err := Render("audit5", ctx)
	t.Logf("out=%q err=%v", out, err)
}
