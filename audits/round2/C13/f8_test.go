package dyntpl

import (
	"testing"
	"time"
)

// Property C13, second sentence: "Every built-in modifier ... returns ... without unbounded computation" (mechanism:
// "iteration in modMathRadical"; edge values: "huge").
//
// math::rad limits its outer iteration to 65536 rounds, but a root order up to 65536 is computed by an inner loop of
// as many divisions per round, and the iteration does not converge for orders above 4. 2^64-1 | math::rad(65536)
// makes 65536 * 65535 = 4.3e9 dependent divisions: one print tag keeps the renderer busy for about 17 seconds
// (measured here), which a per-case watchdog reads as non-termination.
func TestAudit8(t *testing.T) {
	src := `{%= math::rad(18446744073709551615, 65536) %}`
	tree, err := Parse([]byte(src), false)
	if err != nil {
		t.Fatalf("parse: %v", err)
	}
	RegisterTplKey("audit8", tree)
	ctx := NewCtx()
	done := make(chan struct{})
	st := time.Now()
	go func() {
		defer func() { _ = recover(); close(done) }()
		_, _ = Render("audit8", ctx)
	}()
	select {
	case <-done:
		t.Logf("returned after %s", time.Since(st))
	case <-time.After(5 * time.Second):
		t.Fatalf("%s: got: Render still running after 5s; want: a result (or NaN) in bounded, short time", src)
	}
}
