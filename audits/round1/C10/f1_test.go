package dyntpl

import (
	"strings"
	"testing"
)

// Property C10, sentence contradicted: "JS-escape output contains only ASCII letters, digits, the characters , . _
// and backslash escapes — never a raw quote, angle bracket, ampersand, slash, line terminator ..." and
// "CSS-escape output contains only ASCII letters, digits and backslash-hex escapes" (quantifier: "via J, c and
// repeated letters").
//
// A print prefix in which the letter J (or c) directly follows an f / F precision letter written without ".N"
// (f, F, f2, ...) is accepted by the parser, but the J / c letter is silently skipped by the prefix scanner of
// parser.extractMods, so the value is printed raw.
func TestAudit1(t *testing.T) {
	const in = "</script>'\"&\n\\"
	const wantJS = `\u003c\/script\u003e\u0027\u0022\u0026\n\\`
	const wantCSS = `\3c \2f script\3e \27 \22 \26 \A \5c `
	cases := []struct{ tpl, want string }{
		{`{%J= v %}`, wantJS},   // control: passes
		{`{%Jf= v %}`, wantJS},  // control: passes (f after J is harmless for a string)
		{`{%f.2J= v %}`, wantJS}, // control: passes
		{`{%fJ= v %}`, wantJS},
		{`{%FJ= v %}`, wantJS},
		{`{%f2J= v %}`, wantJS},
		{`{%jfJ= v %}`, ``}, // only checked for active characters
		{`{%c= v %}`, wantCSS}, // control: passes
		{`{%fc= v %}`, wantCSS},
		{`{%Fc= v %}`, wantCSS},
	}
	for i, c := range cases {
		key := "audit1_" + string(rune('a'+i))
		tree, err := Parse([]byte(c.tpl), false)
		if err != nil {
			t.Errorf("%s: parse error %v", c.tpl, err)
			continue
		}
		RegisterTplKey(key, tree)
		ctx := AcquireCtx()
		ctx.SetString("v", in)
		out, err := Render(key, ctx)
		got := string(out)
		ReleaseCtx(ctx)
		if err != nil {
			t.Errorf("%s: render error %v", c.tpl, err)
			continue
		}
		if c.want != "" && got != c.want {
			t.Errorf("%s: got %q, want %q", c.tpl, got, c.want)
		}
		if strings.ContainsAny(got, "<>'\"&\n") {
			t.Errorf("%s: output %q contains raw active characters (angle bracket / quote / ampersand / line terminator)", c.tpl, got)
		}
	}
}
