package dyntpl

import "testing"

// Property C10, sentence contradicted: "... read as the body of a JavaScript string literal it evaluates to the
// original text" / "... decodes under the CSS escape rules to the original text".
//
// The call spelling of a modifier ({%= math::abs(num) %} — documented in init.go for the math modifiers and
// accepted by the parser for every modifier: extractMods, modNoVar) hands the value over as args[0] with val == nil.
// modJSEscape / modCSSEscape read only val (and take args[0] for the iteration count), so the text is lost:
// the print is empty, and no error is reported. (Weakest finding: nothing active is printed, but the output does
// not decode to the input.)
func TestAudit4(t *testing.T) {
	const in = "</script>'\"&\n\\"
	const wantJS = `\u003c\/script\u003e\u0027\u0022\u0026\n\\`
	const wantCSS = `\3c \2f script\3e \27 \22 \26 \A \5c `
	cases := []struct{ tpl, want string }{
		{`{%= v|jsEscape %}`, wantJS}, // control: passes
		{`{%= jsEscape(v) %}`, wantJS},
		{`{%J= jsEscape(v) %}`, `\\u003c\\\/script\\u003e\\u0027\\u0022\\u0026\\n\\\\`},
		{`{%= cssEscape(v) %}`, wantCSS},
	}
	for i, c := range cases {
		key := "audit4_" + string(rune('a'+i))
		tree, err := Parse([]byte(c.tpl), false)
		if err != nil {
			t.Errorf("%s: parse error %v", c.tpl, err)
			continue
		}
		RegisterTplKey(key, tree)
		ctx := AcquireCtx()
		ctx.SetString("v", in)
		out, err := Render(key, ctx)
		got := string(out)
		ReleaseCtx(ctx)
		if err != nil {
			t.Errorf("%s: render error %v", c.tpl, err)
			continue
		}
		if got != c.want {
			t.Errorf("%s: got %q, want %q", c.tpl, got, c.want)
		}
	}
}
