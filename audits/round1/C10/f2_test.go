package dyntpl

import (
	"strings"
	"testing"
)

// Property C10, sentence contradicted: "JS-escape output contains only ASCII letters, digits, the characters , . _
// and backslash escapes — never a raw quote, angle bracket, ampersand, slash, line terminator or other control
// character" and "CSS-escape output contains only ASCII letters, digits and backslash-hex escapes".
//
// The iteration count of jsEscape / cssEscape (the same argument the repeated letters JJ / cc fill in) is taken
// as is by printIterations: with a count of 0 or a negative count the escaping loop does not run at all and the
// modifier returns its input unchanged.
func TestAudit2(t *testing.T) {
	const in = "</script>'\"&\n\\"
	const wantJS = `\u003c\/script\u003e\u0027\u0022\u0026\n\\`
	const wantCSS = `\3c \2f script\3e \27 \22 \26 \A \5c `
	cases := []struct {
		tpl, want string
		set       func(ctx *Ctx)
	}{
		{`{%= v|jsEscape(1) %}`, wantJS, nil}, // control: passes
		{`{%= v|jsEscape(0) %}`, wantJS, nil},
		{`{%= v|jsEscape(-1) %}`, wantJS, nil},
		{`{%= v|jse(0) %}`, wantJS, nil},
		{`{%= v|cssEscape(0) %}`, wantCSS, nil},
		{`{%= v|ce(-2) %}`, wantCSS, nil},
		// The count may come from the data as well (a bytes variable).
		{`{%= v|jsEscape(n) %}`, wantJS, func(ctx *Ctx) { ctx.SetBytes("n", []byte("0")) }},
	}
	for i, c := range cases {
		key := "audit2_" + string(rune('a'+i))
		tree, err := Parse([]byte(c.tpl), false)
		if err != nil {
			t.Errorf("%s: parse error %v", c.tpl, err)
			continue
		}
		RegisterTplKey(key, tree)
		ctx := AcquireCtx()
		ctx.SetString("v", in)
		if c.set != nil {
			c.set(ctx)
		}
		out, err := Render(key, ctx)
		got := string(out)
		ReleaseCtx(ctx)
		if err != nil {
			t.Errorf("%s: render error %v", c.tpl, err)
			continue
		}
		if got != c.want {
			t.Errorf("%s: got %q, want %q (escaped once at least)", c.tpl, got, c.want)
		}
		if strings.ContainsAny(got, "<>'\"&\n") {
			t.Errorf("%s: output %q contains raw active characters", c.tpl, got)
		}
	}
}
