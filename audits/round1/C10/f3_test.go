package dyntpl

import (
	"strings"
	"testing"
)

// Property C10, sentence contradicted: "JS-escape output contains only ASCII letters, digits, the characters , . _
// and backslash escapes — never a raw quote, angle bracket, ampersand, slash, line terminator ..." (same for CSS).
//
// A blank between "|" and the modifier name, or between the name and "(", makes extractMods look up the name
// together with the blank (" jsEscape", "jsEscape "); the lookup fails and the modifier is silently dropped
// ("if fn == nil { continue }"), so a template that asks for JS / CSS escaping prints the value raw.
func TestAudit3(t *testing.T) {
	const in = "</script>'\"&\n\\"
	const wantJS = `\u003c\/script\u003e\u0027\u0022\u0026\n\\`
	const wantJS2 = `\\u003c\\\/script\\u003e\\u0027\\u0022\\u0026\\n\\\\`
	const wantCSS = `\3c \2f script\3e \27 \22 \26 \A \5c `
	cases := []struct{ tpl, want string }{
		{`{%= v|jsEscape %}`, wantJS},       // control: passes
		{`{%= v|jsEscape( 2 ) %}`, wantJS2}, // control: passes (blanks inside the parentheses are fine)
		{`{%= v| jsEscape %}`, wantJS},
		{`{%= v|jsEscape (2) %}`, wantJS2},
		{`{%= v| jse %}`, wantJS},
		{`{%= v| cssEscape %}`, wantCSS},
		{`{%= v|ce (1) %}`, wantCSS},
	}
	for i, c := range cases {
		key := "audit3_" + string(rune('a'+i))
		tree, err := Parse([]byte(c.tpl), false)
		if err != nil {
			t.Errorf("%s: parse error %v", c.tpl, err)
			continue
		}
		RegisterTplKey(key, tree)
		ctx := AcquireCtx()
		ctx.SetString("v", in)
		out, err := Render(key, ctx)
		got := string(out)
		ReleaseCtx(ctx)
		if err != nil {
			t.Errorf("%s: render error %v", c.tpl, err)
			continue
		}
		if got != c.want {
			t.Errorf("%s: got %q, want %q", c.tpl, got, c.want)
		}
		if strings.ContainsAny(got, "<>'\"&\n") {
			t.Errorf("%s: output %q contains raw active characters", c.tpl, got)
		}
	}
}
