package dyntpl

import (
	"fmt"
	"testing"

	"github.com/koykov/inspector/testobj"
	"github.com/koykov/inspector/testobj_ins"
)

// TestAudit2: property C13, sentence "Every built-in modifier and condition helper returns, for every argument of every
// type, without crashing" (and "Rendering ... never panics in dyntpl's own code").
//
// The condition-ok helper __testUserNextHistory999 (condOK.go, testCondOK; registered in init.go next to testns::modCB,
// whose argument-less call has already been repaired) indexes (*fin).History with the counter
// __testUserNextHistory999counter after checking the upper bound only, and dereferences *fin without a nil check:
//   - the counter is an ordinary context variable, `{% counter __testUserNextHistory999counter-- %}` makes it -1;
//   - user.Finance of an object without finance data is a nil *TestFinance (the inspector hands out **TestFinance).
func TestAudit2(t *testing.T) {
	run := func(name, src string, obj *testobj.TestObject) {
		tree, err := Parse([]byte(src), false)
		if err != nil {
			t.Fatalf("%s: parse: %v", name, err)
		}
		RegisterTplKey("audit2-"+name, tree)
		defer func() {
			if p := recover(); p != nil {
				t.Errorf("%s: template %q: got panic %q, want a returned error or the else branch (\"no\")", name, src, fmt.Sprint(p))
			}
		}()
		ctx := NewCtx()
		ctx.Set("user", obj, testobj_ins.TestObjectInspector{})
		out, err := Render("audit2-"+name, ctx)
		t.Logf("%s: ok, out=%q err=%v", name, out, err)
	}

	withHistory := &testobj.TestObject{Finance: &testobj.TestFinance{History: []testobj.TestHistory{{Cost: 1}, {Cost: 2}}}}
	run("negative-counter",
		`{% counter __testUserNextHistory999counter-- %}{% if h, ok := __testUserNextHistory999(user.Finance); ok %}{%= h.Cost %}{% else %}no{% endif %}`,
		withHistory)

	run("nil-finance",
		`{% if h, ok := __testUserNextHistory999(user.Finance); ok %}{%= h.Cost %}{% else %}no{% endif %}`,
		&testobj.TestObject{Id: "1"})
}
