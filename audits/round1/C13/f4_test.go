package dyntpl

import (
	"errors"
	"testing"
)

// TestAudit4: property C13, sentence "a bad loop bound ... surfaces as a returned error or as empty output"
// (quantifier: "extreme numbers", "huge", "non-numeric strings").
//
// A counter-loop bound taken from a variable goes through if2int (conv.go). For strings / bytes it calls
// strconv.ParseInt and drops the error: `r, _ = strconv.ParseInt(...)`. On a range error ParseInt returns the nearest
// representable value, so the text "99999999999999999999" silently becomes MaxInt64 and the loop runs
// 9223372036854775807 times, i.e. never ends. The very same text written as a literal bound in the template
// ({% for i:=0; i<99999999999999999999; i++ %}) is reported as an error by cloopRange.
//
// The writer below gives up after 1 MiB, which ends the rendering (cloop passes the write error on),
// so the test itself cannot hang.
type audit4Writer struct{ n, max int }

var errAudit4Full = errors.New("audit4: writer is full")

func (w *audit4Writer) Write(p []byte) (int, error) {
	w.n += len(p)
	if w.n > w.max {
		return 0, errAudit4Full
	}
	return len(p), nil
}

func TestAudit4(t *testing.T) {
	// Reference: the literal spelling is an error.
	treeLit, err := Parse([]byte(`{% for i:=0; i<99999999999999999999; i++ %}x{% endfor %}`), false)
	if err != nil {
		t.Fatalf("parse: %v", err)
	}
	RegisterTplKey("audit4-lit", treeLit)
	wl := &audit4Writer{max: 1 << 20}
	errLit := Write(wl, "audit4-lit", NewCtx())
	t.Logf("literal bound: %d bytes written, err=%v", wl.n, errLit)

	tree, err := Parse([]byte(`{% for i:=0; i<n; i++ %}x{% endfor %}`), false)
	if err != nil {
		t.Fatalf("parse: %v", err)
	}
	RegisterTplKey("audit4", tree)
	for _, set := range []struct {
		name string
		fn   func(ctx *Ctx)
	}{
		{"string variable", func(ctx *Ctx) { ctx.SetString("n", "99999999999999999999") }},
		{"*string via static inspector", func(ctx *Ctx) { s := "99999999999999999999"; ctx.SetStatic("n", &s) }},
		{"{% ctx n = 99999999999999999999 %}", nil},
	} {
		ctx := NewCtx()
		key := "audit4"
		if set.fn != nil {
			set.fn(ctx)
		} else {
			tree1, err := Parse([]byte(`{% ctx n = 99999999999999999999 %}{% for i:=0; i<n; i++ %}x{% endfor %}`), false)
			if err != nil {
				t.Fatalf("parse: %v", err)
			}
			key = "audit4-ctx"
			RegisterTplKey(key, tree1)
		}
		w := &audit4Writer{max: 1 << 20}
		err := Write(w, key, ctx)
		if err == errAudit4Full {
			t.Errorf("bound n = \"99999999999999999999\" (%s): got a loop that was still running after %d iterations (bound taken as MaxInt64; stopped only by the test's writer), want an error like for the literal bound (%v) or no iterations",
				set.name, w.n, errLit)
			continue
		}
		t.Logf("%s: ok, %d bytes, err=%v", set.name, w.n, err)
	}
}
