package dyntpl

import (
	"testing"
	"time"
)

// TestAudit3: property C13, sentence "Every built-in modifier ... returns, for every argument of every type, without
// crashing and without unbounded computation" (edge values: "huge").
//
// The escape modifiers (jsonEscape/je, jsonQuote/jq, htmlEscape/he, linkEscape/le, urlEncode/ue, attrEscape/ae,
// cssEscape/ce, jsEscape/jse) take their first argument as a repeat count (mod.go printIterations: that is how
// {%hh= %} is implemented) and run `for c := 0; c < itr; c++` with no upper limit, unlike math::fact / math::rad, which
// are capped by mathMaxIter. The value below needs no escaping at all, so the output is 2 bytes; the call still spins
// through 9e18 passes (and appends every pass to ctx.BufAcc). The count may come from the template text or from data.
//
// NB: the modifier cannot be interrupted, the goroutine is abandoned when the test fails (run this test alone).
func TestAudit3(t *testing.T) {
	tree, err := Parse([]byte(`{%= s|htmlEscape(9000000000000000000) %}`), false)
	if err != nil {
		t.Fatalf("parse: %v", err)
	}
	RegisterTplKey("audit3", tree)

	type res struct {
		out []byte
		err error
	}
	ch := make(chan res, 1)
	go func() {
		ctx := NewCtx()
		ctx.SetStatic("s", "ab")
		out, err := Render("audit3", ctx)
		ch <- res{out, err}
	}()
	const limit = 3 * time.Second
	select {
	case r := <-ch:
		t.Logf("ok: out=%q err=%v", r.out, r.err)
	case <-time.After(limit):
		t.Fatalf(`{%%= s|htmlEscape(9000000000000000000) %%} with s="ab": got no result after %v (1e7 passes take ~0.3s, 9e18 take thousands of years), want "ab" or an error at once`, limit)
	}
}
