package dyntpl

import (
	"fmt"
	"runtime"
	"strings"
	"testing"
	"time"
)

// TestAudit1: property C13, sentence "Rendering any successfully parsed template against any data never panics in
// dyntpl's own code: ... a value of an unexpected type surfaces as a returned error or as empty output" and the
// quantifier "contexts holding values of every kind (incl. nil, wrong kinds ...)".
//
// A context variable that holds a typed nil pointer ((*int)(nil), (*string)(nil), (*time.Time)(nil) ...) passes every
// "val == nil" guard (the interface is not nil) and is dereferenced by the type switches of conv.go (ConvInt, ConvFloat,
// ConvStr, ConvBytes, ConvBool, if2int), mod_math.go (floatConv) and mod_datetime.go (dateConv).
func TestAudit1(t *testing.T) {
	var (
		nilInt   *int
		nilI64   *int64
		nilUint  *uint32
		nilStr   *string
		nilFloat *float64
		nilTime  *time.Time
		nilBool  *bool
		nilBytes *[]byte
	)
	cases := []struct {
		name, src string
		val       any
	}{
		{"default/*int", `{%= p|default("x") %}`, nilInt},                      // EmptyCheck -> ConvInt
		{"default/*uint32", `{%= p|default("x") %}`, nilUint},                  // EmptyCheck -> ConvUint
		{"counter/*int", `{% counter p++ %}{%= p %}`, nilInt},                  // writeNode typeCounter -> ConvInt
		{"loop-limit/*int64", `{% for i:=0; i<p; i++ %}x{% endfor %}`, nilI64}, // cloopRange -> if2int
		{"loop-init/*string", `{% for i:=p; i<2; i++ %}x{% endfor %}`, nilStr}, // cloopRange -> if2int
		{"math::abs/*int", `{%= p|math::abs() %}`, nilInt},                     // floatConv
		{"math::add/arg *float64", `{%= f|math::add(p) %}`, nilFloat},          // floatConv on the argument
		{"round/*float64", `{%= p|round %}`, nilFloat},                         // ConvFloat
		{"f.2=/*float64", `{%f.2= p %}`, nilFloat},                             // ConvFloat
		{"time::date/*time.Time", `{%= p|time::date("%Y") %}`, nilTime},        // dateConv
		{"ifThen/*bool", `{%= p|ifThen("x") %}`, nilBool},                      // ConvBool
		{"lenEq0/*string", `{% if lenEq0(p) %}e{% endif %}`, nilStr},           // getLen -> ConvStr
		{"lenGt0/*[]byte", `{% if lenGt0(p) %}e{% endif %}`, nilBytes},         // getLen -> ConvBytes
		{"ctx/*string", `{% ctx q = p %}{%= q %}`, nilStr},                     // writeNode typeCtx -> ConvStr
		{"ctx/*[]byte", `{% ctx q = p %}{%= q %}`, nilBytes},                   // writeNode typeCtx -> ConvBytes
		{"roundPrec/arg *int", `{%= f|roundPrec(p) %}`, nilInt},                // roundHelper -> if2int
	}
	for i, c := range cases {
		tree, err := Parse([]byte(c.src), false)
		if err != nil {
			t.Fatalf("%s: parse: %v", c.name, err)
		}
		key := fmt.Sprintf("audit1-%d", i)
		RegisterTplKey(key, tree)
		func() {
			defer func() {
				if p := recover(); p != nil {
					t.Errorf("%s: template %q with p = %T(nil): got panic %q in %s, want a returned error or empty output", c.name, c.src, c.val, fmt.Sprint(p), audit1PanicSite())
				}
			}()
			ctx := NewCtx()
			ctx.SetStatic("p", c.val)
			ctx.SetStatic("f", 2.555)
			out, err := Render(key, ctx)
			t.Logf("%s: ok, out=%q err=%v", c.name, out, err)
		}()
	}
}

// audit1PanicSite names the function that panicked (first frame outside the runtime), called from a deferred func.
func audit1PanicSite() string {
	pcs := make([]uintptr, 32)
	n := runtime.Callers(3, pcs)
	fr := runtime.CallersFrames(pcs[:n])
	for {
		f, more := fr.Next()
		if !strings.HasPrefix(f.Function, "runtime.") {
			return fmt.Sprintf("%s (%s:%d)", f.Function, f.File[strings.LastIndex(f.File, "/")+1:], f.Line)
		}
		if !more {
			return "?"
		}
	}
}
