package dyntpl

import (
	"errors"
	"testing"
)

// TestAudit5: property C13, title and first sentence: "Rendering never panics or hangs inside dyntpl, whatever the
// template and data".
//
// The stack of open bound tags (ctx.bnd, dyntpl.go typeJsonQ/typeHtmlE/typeUrlEnc) has no depth limit and is popped
// only by the matching end tag. A region that is opened in a loop body and whose end tag is skipped by
// {% continue %} / {% break %} (or by {% include %} of a template that ends with continue, or simply is not closed)
// stays open, so iteration i writes under i+1 nested {% jsonquote %} levels. writeBound (dyntpl.go) escapes once per
// level and every level doubles the quotes and backslashes: the chunk written by iteration i is 2^(i+1) bytes.
// A balanced 95-byte template with a 64-iteration loop thus needs 2^65 bytes: the rendering never ends (or the process
// is killed for memory). The same happens when {% jsonquote %}"{% include <itself> %}{% endjsonquote %} recurses:
// the include-depth guard (maxIncDepth = 128) is never reached.
//
// The writer below refuses everything beyond 64 MiB, which ends the rendering, so the test itself cannot hang.
type audit5Writer struct{ n, max, biggest int }

var errAudit5Full = errors.New("audit5: writer is full")

func (w *audit5Writer) Write(p []byte) (int, error) {
	if len(p) > w.biggest {
		w.biggest = len(p)
	}
	w.n += len(p)
	if w.n > w.max {
		return 0, errAudit5Full
	}
	return len(p), nil
}

func TestAudit5(t *testing.T) {
	const src = `{% for i:=0; i<64; i++ %}{% jsonquote %}"{% continue if i >= 0 %}{% endjsonquote %}{% endfor %}`
	tree, err := Parse([]byte(src), false)
	if err != nil {
		t.Fatalf("parse: %v", err)
	}
	RegisterTplKey("audit5", tree)
	w := &audit5Writer{max: 64 << 20}
	ctx := NewCtx()
	err = Write(w, "audit5", ctx)
	if err == errAudit5Full {
		t.Fatalf("%d-byte template %s: got more than 64 MiB of output after %d of 64 iterations (one chunk of %d bytes for a single quote, %d regions open; the whole output needs 2^65 bytes), want 64 quotes each escaped once (128 bytes) or an error",
			len(src), src, len(ctx.bnd), w.biggest, len(ctx.bnd))
	}
	t.Logf("ok: %d bytes, err=%v", w.n, err)
}
