package dyntpl

import (
	"testing"
	"time"
)

// TestAudit6: property C13, sentence "Every built-in modifier ... returns, for every argument of every type, without
// crashing and without unbounded computation" (anchor: iteration in modMathRadical, mod_math.go).
//
// modMathRadical caps the outer Newton loop by mathMaxIter (65536) and switches to math.Pow only for orders ABOVE
// mathMaxIter, so for an order of up to 65536 the inner `for i := 1; i < int(d); i++ { rn = rn / root }` runs in every
// outer pass: up to 65536 x 65535 = 4.3e9 divisions in one call. The iteration it implements
// (root = (rn + root) / 2) frequently fails to settle within eps for big orders, so the cap is what ends it:
// 65535|math::rad(65535) needs 15-20 s, 32767|math::rad(32767) 7-9 s, 9223372036854775807|math::rad(65536) 16 s -
// one print tag, values from data or template text.
//
// NB: the call cannot be interrupted; the abandoned goroutine ends by itself after ~20 s.
func TestAudit6(t *testing.T) {
	tree, err := Parse([]byte(`{%= x|math::rad(n) %}`), false)
	if err != nil {
		t.Fatalf("parse: %v", err)
	}
	RegisterTplKey("audit6", tree)
	type res struct {
		out []byte
		err error
		d   time.Duration
	}
	ch := make(chan res, 1)
	go func() {
		ctx := NewCtx()
		ctx.SetStatic("x", uint16(65535))
		ctx.SetStatic("n", uint16(65535))
		st := time.Now()
		out, err := Render("audit6", ctx)
		ch <- res{out, err, time.Since(st)}
	}()
	const limit = 3 * time.Second
	select {
	case r := <-ch:
		t.Logf("ok: out=%q err=%v in %v", r.out, r.err, r.d)
	case <-time.After(limit):
		t.Fatalf("{%%= x|math::rad(n) %%} with x = n = 65535: got no result after %v (the call performs 65536 x 65534 divisions, ~17 s), want a result (1.00017) or NaN/error within milliseconds like for any other order", limit)
	}
}
