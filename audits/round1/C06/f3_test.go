package dyntpl

import (
	"bytes"
	"fmt"
	"os"
	"os/exec"
	"runtime"
	"strings"
	"sync"
	"sync/atomic"
	"testing"
	"time"
)

// Property C06, sentences contradicted:
//   "... any number of goroutines may render ... while other goroutines parse and re-register templates ...
//    never a crash ... No execution contains a data race."  (quantifier: writers that Parse and Register*)
//
// Only the TEMPLATE registry (db.go) is guarded. Every other Register* of the package writes a plain map / slice
// that renders and Parse read without any lock:
//   - condRegistry / condBuf       (cond.go)      read by every {% if helper(...) %} and helper case at render time
//   - condOKRegistry               (condOK.go)    read by every {% if v, ok := helper(...) %} at render time
//   - globIdx / globBuf            (global.go)    read at render time (global modifier arguments) and by Parse
//   - emptyCheckBuf                (empty_check.go) iterated by |default(...) at render time
//   - varInsRegistry               (var_ins.go)   read by {% ctx %} / if-ok at render time and by Parse
//   - modRegistry / modBuf         (mod.go)       read by Parse
//   - ipoolRegistry                (ipool.go)     read by Ctx.AcquireFrom / Ctx.Reset; acquire/release even WRITE
//                                                  (lazy init()) when no pool has been registered
// A writer that makes a new template available at run time together with the helper it uses
// (RegisterCondFn + Parse + RegisterTplKey) while other goroutines render templates with helper conditions kills
// the whole process with "fatal error: concurrent map read and map write" (not recoverable).
//
// The fatal error cannot be caught in-process, so the workload runs in a child process (the test binary itself).
func TestAudit3(t *testing.T) {
	if os.Getenv("AUDIT3_CHILD") == "1" {
		audit3Workload()
		return
	}
	for attempt := 0; attempt < 3; attempt++ {
		cmd := exec.Command(os.Args[0], "-test.run=^TestAudit3$", "-test.count=1")
		cmd.Env = append(os.Environ(), "AUDIT3_CHILD=1")
		out, err := cmd.CombinedOutput()
		if i := bytes.Index(out, []byte("fatal error: concurrent map")); i >= 0 {
			line := string(out[i:])
			if j := strings.IndexByte(line, '\n'); j >= 0 {
				line = line[:j]
			}
			t.Errorf("got: the process of renderers + one writer (RegisterCondFn, Parse, RegisterTplKey) died: %q (%v); want: no crash, no data race", line, err)
			return
		}
		if err != nil {
			t.Fatalf("child failed for another reason: %v\n%s", err, out)
		}
	}
	t.Log("crash not reproduced in 3 attempts (the unsynchronized access is still there, see go test -race)")
}

func audit3Workload() {
	runtime.GOMAXPROCS(8)
	RegisterCondFn("audit3Always", func(_ *Ctx, _ []any) bool { return true })
	tree, err := Parse([]byte(`{% for i := 0; i < 50; i++ %}{% if audit3Always(i) %}y{% endif %}{% endfor %}`), false)
	if err != nil {
		panic(err)
	}
	RegisterTplKey("audit3Main", tree)

	var (
		stop int32
		wg   sync.WaitGroup
	)
	for r := 0; r < 6; r++ {
		wg.Add(1)
		go func() {
			defer wg.Done()
			var buf bytes.Buffer
			for atomic.LoadInt32(&stop) == 0 {
				ctx := AcquireCtx()
				buf.Reset()
				if err := Write(&buf, "audit3Main", ctx); err != nil || buf.Len() != 50 {
					panic(fmt.Sprint("unexpected render: ", buf.String(), err))
				}
				ReleaseCtx(ctx)
			}
		}()
	}
	wg.Add(1)
	go func() {
		defer wg.Done()
		for i := 0; atomic.LoadInt32(&stop) == 0; i++ {
			// Deploy template #i together with its own helper.
			name := fmt.Sprintf("audit3Helper%d", i)
			RegisterCondFn(name, func(_ *Ctx, _ []any) bool { return true })
			tr, err := Parse([]byte(fmt.Sprintf(`{%% if %s(x) %%}new %d{%% endif %%}`, name, i)), false)
			if err != nil {
				panic(err)
			}
			RegisterTplKey(fmt.Sprintf("audit3Tpl%d", i%16), tr)
		}
	}()
	time.Sleep(3 * time.Second)
	atomic.StoreInt32(&stop, 1)
	wg.Wait()
}
