package dyntpl

import (
	"testing"
	"time"
)

// Property C06, sentences contradicted:
//   "... while other goroutines parse and re-register templates, and every render returns exactly what it would
//    return running alone ... — never a mixture, never a crash ..."  and  "re-registrations are safe and atomic".
//
// ParseFile returns a nil *Tree together with its error (missing / unreadable file), and Register* accepts any
// *Tree. db.set (db.go:32-64) takes db.mux.Lock(), swaps the slot and only then dereferences tree.hsum -- with
// a plain Unlock() at the end instead of a deferred one. With a nil tree the writer goroutine panics while it
// HOLDS the write lock. If the writer survives the panic (recover in a reload loop, an HTTP handler ...), the
// registry lock is never released: every later Render / Write / Parse / Register* of every goroutine blocks
// forever, also for names that have nothing to do with the failed registration. (And the registration is not
// atomic: the slot array has already been changed when the panic happens.)
func TestAudit2(t *testing.T) {
	tree, err := Parse([]byte(`hello`), false)
	if err != nil {
		t.Fatal(err)
	}
	RegisterTplKey("audit2Good", tree)

	// The writer goroutine: reloads a template from a file that is gone, logs the error, registers the result.
	wdone := make(chan any, 1)
	go func() {
		defer func() { wdone <- recover() }()
		tr, _ := ParseFile("testdata/audit2-no-such-file.tpl", false) // tr == nil, error ignored / only logged
		RegisterTplKey("audit2Reloaded", tr)
	}()
	var writerPanic any
	select {
	case writerPanic = <-wdone:
	case <-time.After(5 * time.Second):
		t.Fatal("writer goroutine did not return")
	}

	// A renderer of ANOTHER, healthy template.
	type res struct {
		out []byte
		err error
	}
	rdone := make(chan res, 1)
	go func() {
		ctx := AcquireCtx()
		out, err := Render("audit2Good", ctx)
		ReleaseCtx(ctx)
		rdone <- res{out, err}
	}()
	select {
	case r := <-rdone:
		if string(r.out) != "hello" || r.err != nil {
			t.Errorf("got %q, %v; want %q, <nil>", r.out, r.err, "hello")
		}
		if writerPanic != nil {
			t.Logf("writer panicked (%v) but the registry stayed usable", writerPanic)
		}
	case <-time.After(2 * time.Second):
		t.Errorf("got: Render(\"audit2Good\") blocked for 2s after a writer's RegisterTplKey panicked (%v) with the registry lock held; "+
			"want: %q, <nil> (renders of other names are not affected by a failed re-registration)", writerPanic, "hello")
		// Let the blocked goroutine go, so that the test binary can finish cleanly.
		tplDB.mux.Unlock()
		<-rdone
	}
}
