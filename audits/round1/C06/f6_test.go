package dyntpl

import "testing"

// Property C06, sentence contradicted:
//   "... and after a re-registration has returned, the new version."   (boundary values of the NAME)
//
// db.set (db.go:53-58) uses the key "-1" and negative IDs as in-band markers for "no key" / "no ID"
// (RegisterTplID passes the key "-1", RegisterTplKey passes the ID -1) and silently skips indexing them.
// A template registered under the perfectly legal key string "-1", or under a negative ID, is stored in a slot
// nobody can reach: Register* returns normally, but no render ever sees the version (and every repetition of the
// call appends one more unreachable slot to db.tpl).
func TestAudit6(t *testing.T) {
	tree, err := Parse([]byte(`minus one`), false)
	if err != nil {
		t.Fatal(err)
	}

	RegisterTplKey("-1", tree)
	ctx := AcquireCtx()
	got, err := Render("-1", ctx)
	ReleaseCtx(ctx)
	if err != nil || string(got) != "minus one" {
		t.Errorf("Render(\"-1\") after RegisterTplKey(\"-1\", tree) returned:\n got  %q, %v\n want %q, <nil>", got, err, "minus one")
	}

	RegisterTplID(-7, tree)
	ctx = AcquireCtx()
	got, err = RenderByID(-7, ctx)
	ReleaseCtx(ctx)
	if err != nil || string(got) != "minus one" {
		t.Errorf("RenderByID(-7) after RegisterTplID(-7, tree) returned:\n got  %q, %v\n want %q, <nil>", got, err, "minus one")
	}

	// The registrations are not only invisible, they accumulate.
	before := len(tplDB.tpl)
	for i := 0; i < 100; i++ {
		RegisterTplKey("-1", tree)
	}
	if after := len(tplDB.tpl); after != before {
		t.Errorf("100 re-registrations of the same name grew the slot array: got %d slots, want %d", after, before)
	}
}
