package dyntpl

import "testing"

// Property C06, sentence contradicted:
//   "... every render returns exactly what it would return running alone against one of the versions
//    REGISTERED FOR ITS NAME ... and after a re-registration has returned, the new version."
//
// db.set (db.go:32-64) finds the slot to overwrite by key first, then by ID (getIdxLF), swaps the slot and indexes
// the two names of the NEW registration -- but the other name of the OLD pair keeps pointing to the same slot.
// After RegisterTpl(id1, "k", A); RegisterTpl(id2, "k", B) the name id1 renders B, a tree that was never
// registered under id1 (its only registration, A, was never replaced under that name). The same happens the other
// way round for keys: RegisterTpl(id, "k1", A); RegisterTpl(id, "k2", B) makes "k1" render B.
// Under concurrency a writer that only ever touches (id2, "k") therefore changes what renderers of id1 get.
func TestAudit4(t *testing.T) {
	parse := func(s string) *Tree {
		tree, err := Parse([]byte(s), false)
		if err != nil {
			t.Fatal(err)
		}
		return tree
	}
	render := func(f func(ctx *Ctx) ([]byte, error)) string {
		ctx := AcquireCtx()
		defer ReleaseCtx(ctx)
		b, err := f(ctx)
		if err != nil {
			return "error: " + err.Error()
		}
		return string(b)
	}

	// Case 1: same key, another ID.
	RegisterTpl(930001, "audit4Key", parse("version A (930001, audit4Key)"))
	RegisterTpl(930002, "audit4Key", parse("version B (930002, audit4Key)"))
	got := render(func(ctx *Ctx) ([]byte, error) { return RenderByID(930001, ctx) })
	if want := "version A (930001, audit4Key)"; got != want {
		t.Errorf("RenderByID(930001):\n got  %q\n want %q (the only version ever registered for ID 930001)", got, want)
	}

	// Case 2: same ID, another key.
	RegisterTpl(930003, "audit4KeyX", parse("version C (930003, audit4KeyX)"))
	RegisterTpl(930003, "audit4KeyY", parse("version D (930003, audit4KeyY)"))
	got = render(func(ctx *Ctx) ([]byte, error) { return Render("audit4KeyX", ctx) })
	if want := "version C (930003, audit4KeyX)"; got != want {
		t.Errorf("Render(\"audit4KeyX\"):\n got  %q\n want %q (the only version ever registered for key audit4KeyX)", got, want)
	}
}
