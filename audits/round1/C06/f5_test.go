package dyntpl

import (
	"hash/crc64"
	"testing"
)

// Property C06, sentence contradicted:
//   "... writers that Parse and Register* over the same names ... and after a re-registration has returned,
//    the new version."
//
// Parse (parser.go:181-186) identifies a source by nothing but its CRC-64 and, when ANY registered tree has the
// same checksum, returns that registered tree instead of parsing (tplDB.getTreeByHash). CRC-64 is linear:
// XOR-ing the 9-byte pattern of the generator polynomial (01 00 00 00 00 00 00 b0 01) into a text leaves the
// checksum unchanged, so colliding sources are trivial to build (and will occur by accident in a large registry
// with probability ~n^2/2^65). A writer goroutine that does the documented "parse the new body, register it over
// the name" gets the tree of a DIFFERENT template, and from then on every render of the name returns the other
// template's output although the re-registration has returned.
func TestAudit5(t *testing.T) {
	srcA := []byte("AAAAAAAAA is the body of template A")
	srcB := append([]byte(nil), srcA...)
	for i, d := range []byte{0x01, 0, 0, 0, 0, 0, 0, 0xb0, 0x01} {
		srcB[i] ^= d
	}
	if string(srcA) == string(srcB) {
		t.Fatal("sources must differ")
	}
	tab := crc64.MakeTable(crc64.ISO)
	if crc64.Checksum(srcA, tab) != crc64.Checksum(srcB, tab) {
		t.Skip("sources do not collide")
	}

	treeA, err := Parse(srcA, true)
	if err != nil {
		t.Fatal(err)
	}
	RegisterTplKey("audit5A", treeA)

	// The writer: new version for another name.
	treeB, err := Parse(srcB, true)
	if err != nil {
		t.Fatal(err)
	}
	RegisterTplKey("audit5B", treeB)

	ctx := AcquireCtx()
	defer ReleaseCtx(ctx)
	got, err := Render("audit5B", ctx)
	if err != nil {
		t.Fatal(err)
	}
	if string(got) != string(srcB) {
		t.Errorf("render after Parse + RegisterTplKey of a new version:\n got  %q (the body of another registered template)\n want %q", got, srcB)
	}

	// Case 2, no collision needed: the tree depends on more than the text (modifiers and globals known at
	// parse time -- extractMods silently drops unknown modifiers, extractArgs marks globals), but the cache key
	// does not. Re-parsing and re-registering a source after its modifier has been registered (the remedy the
	// doc comment of RegisterGlobal asks for) returns the stale registered tree.
	src := []byte(`{%= v|audit5Upper %}`)
	tree1, err := Parse(src, false) // audit5Upper is unknown yet: dropped
	if err != nil {
		t.Fatal(err)
	}
	RegisterTplKey("audit5C", tree1)
	RegisterModFn("audit5Upper", "", func(ctx *Ctx, buf *any, val any, _ []any) error {
		b := ctx.BufAcc.StakeOut().WriteX(val).StakedBytes()
		up := make([]byte, len(b))
		for i, c := range b {
			if 'a' <= c && c <= 'z' {
				c -= 'a' - 'A'
			}
			up[i] = c
		}
		ctx.BufModOut(buf, up)
		return nil
	})
	tree2, err := Parse(src, false)
	if err != nil {
		t.Fatal(err)
	}
	RegisterTplKey("audit5C", tree2)
	ctx2 := AcquireCtx()
	defer ReleaseCtx(ctx2)
	ctx2.SetString("v", "hello")
	got, err = Render("audit5C", ctx2)
	if err != nil {
		t.Fatal(err)
	}
	if string(got) != "HELLO" {
		t.Errorf("render after re-Parse + re-registration (modifier registered in between):\n got  %q (Parse returned the old registered tree: %v)\n want %q", got, tree1 == tree2, "HELLO")
	}
}
