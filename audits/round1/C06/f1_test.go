package dyntpl

import (
	"bytes"
	"testing"
)

// Property C06, sentence contradicted:
//   "... every render returns exactly what it would return running alone against one of the versions
//    registered for its name — never a mixture ..." (quantifier: "shared templates incl. includes and loops").
//
// A template that includes the same sub-template more than once (here: from a loop) looks the sub-template up
// in the registry again for every {% include %} tag (dyntpl.go, writeNode, case typeInclude: tplDB.getBKeys).
// A writer goroutine that re-registers the sub-template between two iterations makes ONE render contain the
// output of TWO versions of the sub-template: neither the render against the old version nor the render
// against the new one.
//
// The interleaving is forced deterministically: the io.Writer of the render starts the writer goroutine and
// waits for its RegisterTplKey to return when it sees the loop separator for the first time.

type audit1Writer struct {
	buf  bytes.Buffer
	hook func()
	done bool
}

func (w *audit1Writer) Write(p []byte) (int, error) {
	if !w.done && bytes.Equal(p, []byte("|")) {
		w.done = true
		w.hook()
	}
	return w.buf.Write(p)
}

func TestAudit1(t *testing.T) {
	subV1, err := Parse([]byte(`<old>`), false)
	if err != nil {
		t.Fatal(err)
	}
	subV2, err := Parse([]byte(`<NEW>`), false)
	if err != nil {
		t.Fatal(err)
	}
	main, err := Parse([]byte(`{% for i := 0; i < 3; i++ sep | %}{% include audit1Sub %}{% endfor %}`), false)
	if err != nil {
		t.Fatal(err)
	}
	RegisterTplKey("audit1Sub", subV1)
	RegisterTplKey("audit1Main", main)

	w := &audit1Writer{}
	w.hook = func() {
		// The "other goroutine that re-registers templates".
		ch := make(chan struct{})
		go func() {
			RegisterTplKey("audit1Sub", subV2)
			close(ch)
		}()
		<-ch
	}
	ctx := AcquireCtx()
	defer ReleaseCtx(ctx)
	if err = Write(w, "audit1Main", ctx); err != nil {
		t.Fatal(err)
	}
	got := w.buf.String()
	wantOld, wantNew := "<old>|<old>|<old>", "<NEW>|<NEW>|<NEW>"
	if got != wantOld && got != wantNew {
		t.Errorf("one render mixes two versions of the included template:\n got  %q\n want %q (alone against the old version) or %q (alone against the new version)", got, wantOld, wantNew)
	}
}
