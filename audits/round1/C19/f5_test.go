package dyntpl

import (
	"bytes"
	"testing"
)

// Property C19, sentence: "... rendering again with them performs no heap allocation, for templates composed of
// the built-in constructs: prints, escape directives ..."
//
// The escape modifiers read their first argument as the number of passes (that is how {%jj= x %} is implemented:
// jsonEscape(2)). mod.go printIterations parses it with strconv.ParseInt and, when the text is not a number, falls
// back to one pass — after ParseInt has built (and the function has dropped) a *strconv.NumError. The print renders
// fine, every render allocates. Same for the round family: roundPrec("x") goes through conv.go if2int.
func TestAudit5(t *testing.T) {
	measure := func(key, tpl string) (float64, string) {
		tree, err := Parse([]byte(tpl), false)
		if err != nil {
			t.Fatalf("%s: parse: %v", key, err)
		}
		RegisterTplKey(key, tree)
		ctx := NewCtx()
		var buf bytes.Buffer
		title := `a <b> "c"`
		price := 3.14159
		cycle := func() {
			ctx.Reset()
			ctx.SetStatic("title", &title)
			ctx.SetStatic("price", &price)
			buf.Reset()
			if err := Write(&buf, key, ctx); err != nil {
				t.Fatalf("%s: render: %v", key, err)
			}
		}
		for i := 0; i < 10; i++ {
			cycle()
		}
		return testing.AllocsPerRun(200, cycle), buf.String()
	}

	if n, out := measure("audit19_f5_ctl", `{%= title|htmlEscape(2) %} {%= price|roundPrec(2) %}`); n != 0 {
		t.Fatalf("control: allocs per render got %v want 0, output %q", n, out)
	}
	for _, c := range []struct{ key, tpl, want string }{
		{"audit19_f5_a", `{%= title|htmlEscape("x") %}`, `a &lt;b&gt; &quot;c&quot;`},
		{"audit19_f5_b", `{%= title|jsonEscape(true) %}`, `a \u003cb> \"c\"`},
		{"audit19_f5_c", `{%= price|roundPrec("x") %}`, `3.14159`},
	} {
		n, out := measure(c.key, c.tpl)
		if out != c.want {
			t.Errorf("%s: output got %q want %q", c.key, out, c.want)
		}
		if n != 0 {
			t.Errorf("%s: steady-state allocs per render: got %v, want 0 (render succeeded, output %q)\n\ttemplate: %s", c.key, n, out, c.tpl)
		}
	}
}
