package dyntpl

import (
	"bytes"
	"testing"

	"github.com/koykov/inspector/testobj"
	"github.com/koykov/inspector/testobj_ins"
)

// Property C19, sentence: "Once a context, an output buffer and a template have been used once, rendering again
// with them performs no heap allocation, for templates composed of the built-in constructs: ... loops with
// separators, ctx and counter tags ..."
//
// A counter loop whose bound is a context variable holding text that strconv.ParseInt does not accept ("10.0",
// "5 ", a number beyond int64) renders successfully (no error, zero or saturated number of iterations), but every
// render allocates: conv.go if2int calls strconv.ParseInt and drops the *strconv.NumError it builds
// (error value + copy of the text + boxed string). The same template with the bound "10" does not allocate, so the
// harness itself is clean.
func TestAudit1(t *testing.T) {
	user := &testobj.TestObject{Id: "115", Name: []byte("John"), Status: 78}
	var ins testobj_ins.TestObjectInspector

	measure := func(key, tpl string, setup func(ctx *Ctx)) (float64, string) {
		tree, err := Parse([]byte(tpl), false)
		if err != nil {
			t.Fatalf("%s: parse: %v", key, err)
		}
		RegisterTplKey(key, tree)
		ctx := NewCtx() // held context
		var buf bytes.Buffer
		cycle := func() {
			ctx.Reset()
			ctx.Set("user", user, ins)
			if setup != nil {
				setup(ctx)
			}
			buf.Reset()
			if err := Write(&buf, key, ctx); err != nil {
				t.Fatalf("%s: render: %v", key, err)
			}
		}
		for i := 0; i < 10; i++ { // warm-up
			cycle()
		}
		return testing.AllocsPerRun(200, cycle), buf.String()
	}

	// Control: numeric text as the bound.
	if n, out := measure("audit19_f1_ctl", `{% ctx lim = 3 %}{% for i := 0; i < lim; i++ sep , %}{%= i %}{% else %}none{% endfor %}`, nil); n != 0 || out != "0,1,2" {
		t.Fatalf("control: allocs per render got %v want 0, output %q", n, out)
	}

	cases := []struct {
		key, tpl string
		setup    func(ctx *Ctx)
	}{
		// decimal text set by a ctx tag
		{"audit19_f1_a", `{% ctx lim = 3.0 %}{% for i := 0; i < lim; i++ sep , %}{%= i %}{% else %}none{% endfor %}`, nil},
		// text with a trailing blank set by the caller
		{"audit19_f1_b", `{% for i := 0; i < pageSize; i++ sep , %}{%= i %}{% else %}none{% endfor %}`, func(ctx *Ctx) { ctx.SetString("pageSize", "3 ") }},
		// bytes field of the data
		{"audit19_f1_c", `{% for i := 0; i < user.Name; i++ sep , %}{%= i %}{% else %}none{% endfor %}`, nil},
		// number beyond int64: the loop runs (saturated bound), every render allocates
		{"audit19_f1_d", `{% ctx lim = 99999999999999999999 %}{% for i := 0; i < lim; i++ sep , %}{%= i %}{% break if i == 2 %}{% endfor %}`, nil},
	}
	for _, c := range cases {
		n, out := measure(c.key, c.tpl, c.setup)
		if n != 0 {
			t.Errorf("%s: steady-state allocs per render: got %v, want 0 (render succeeded, output %q)\n\ttemplate: %s", c.key, n, out, c.tpl)
		}
	}
}
