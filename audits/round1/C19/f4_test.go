package dyntpl

import (
	"bytes"
	"testing"

	"github.com/koykov/inspector/testobj"
	"github.com/koykov/inspector/testobj_ins"
)

// Property C19, sentence: "... rendering again with them performs no heap allocation, for templates composed of
// the built-in constructs: ... switches ..."
//
// A classic switch over a numeric field with a case literal of another kind (10.5, "n/a") renders successfully —
// the matching later case is written, Write returns nil — but every render allocates: dyntpl.go (typeSwitch, classic
// form) hands the literal to Ctx.cmp → Inspector.Compare, which fails to parse it and returns a freshly built
// *strconv.NumError; the switch never looks at ctx.Err, so the error is dropped and the next case is tried.
// (In an {% if %} the same error at least ends the render.) The control switch with integer literals does not allocate.
func TestAudit4(t *testing.T) {
	user := &testobj.TestObject{Id: "115", Name: []byte("John"), Status: 78}
	var ins testobj_ins.TestObjectInspector

	measure := func(key, tpl string) (float64, string) {
		tree, err := Parse([]byte(tpl), false)
		if err != nil {
			t.Fatalf("%s: parse: %v", key, err)
		}
		RegisterTplKey(key, tree)
		ctx := NewCtx()
		var buf bytes.Buffer
		cycle := func() {
			ctx.Reset()
			ctx.Set("user", user, ins)
			buf.Reset()
			if err := Write(&buf, key, ctx); err != nil {
				t.Fatalf("%s: render: %v", key, err)
			}
		}
		for i := 0; i < 10; i++ {
			cycle()
		}
		return testing.AllocsPerRun(200, cycle), buf.String()
	}

	if n, out := measure("audit19_f4_ctl", `{% switch user.Status %}{% case 10 %}low{% case 78 %}high{% default %}?{% endswitch %}`); n != 0 || out != "high" {
		t.Fatalf("control: allocs per render got %v want 0, output %q", n, out)
	}
	for _, c := range []struct{ key, tpl string }{
		{"audit19_f4_a", `{% switch user.Status %}{% case 10.5 %}low{% case 78 %}high{% default %}?{% endswitch %}`},
		{"audit19_f4_b", `{% switch user.Status %}{% case "n/a" %}none{% case 78 %}high{% default %}?{% endswitch %}`},
	} {
		n, out := measure(c.key, c.tpl)
		if out != "high" {
			t.Errorf("%s: unexpected output %q", c.key, out)
		}
		if n != 0 {
			t.Errorf("%s: steady-state allocs per render: got %v, want 0 (render succeeded, output %q)\n\ttemplate: %s", c.key, n, out, c.tpl)
		}
	}
}
