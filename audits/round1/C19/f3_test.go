package dyntpl

import (
	"bytes"
	"runtime"
	"runtime/debug"
	"testing"

	"github.com/koykov/inspector/testobj"
	"github.com/koykov/inspector/testobj_ins"
)

// Property C19, sentence: "Once a context, an output buffer and a template have been used once, rendering AGAIN
// WITH THEM performs no heap allocation" / "measured after warm-up with a held context".
//
// Rendering again with the same (held) context — its variables are set once, Ctx.Reset is not called in between,
// which Write does not require and which works as far as the output goes — never reaches a steady state:
//   - ctx.BufAcc only moves its stake forward (StakeOut) and is rewound only by Ctx.Reset: every print, escape
//     directive, non-static comparison and indexed path appends to it for ever;
//   - ctx.bufLC gets one more element per executed counter loop (cloop.go) and is cut only by Ctx.Reset;
//   - ctx.kv / kvl (getW's sibling getKV) likewise.
// So the accumulating buffers are re-allocated again and again (amortised, so an *average* per render rounds to 0,
// but the renders that hit the growth do allocate, and memory grows without bound).
func TestAudit3(t *testing.T) {
	user := &testobj.TestObject{Id: "115", Name: []byte("John"), Status: 78}
	var ins testobj_ins.TestObjectInspector
	key := "audit19_f3"
	tree, err := Parse([]byte(`<h1>{%= user.Name %}</h1>{% for i := 0; i < 3; i++ sep , %}{%j= user.Id %}{% endfor %}`), false)
	if err != nil {
		t.Fatal(err)
	}
	RegisterTplKey(key, tree)

	ctx := NewCtx()
	ctx.Set("user", user, ins)
	var buf bytes.Buffer
	render := func() {
		buf.Reset()
		if err := Write(&buf, key, ctx); err != nil {
			t.Fatal(err)
		}
		if buf.String() != `<h1>John</h1>115,115,115` {
			t.Fatalf("unexpected output %q", buf.String())
		}
	}
	for i := 0; i < 100; i++ { // generous warm-up
		render()
	}
	defer debug.SetGCPercent(debug.SetGCPercent(-1))
	runtime.GC()
	cap0 := ctx.BufAcc.Cap()
	const runs = 20000
	allocating := 0
	var m0, m1 runtime.MemStats
	var total uint64
	for i := 0; i < runs; i++ {
		runtime.ReadMemStats(&m0)
		render()
		runtime.ReadMemStats(&m1)
		if d := m1.Mallocs - m0.Mallocs; d > 0 {
			allocating++
			total += m1.TotalAlloc - m0.TotalAlloc
		}
	}
	if allocating != 0 {
		t.Errorf("held context, %d renders after warm-up: renders that allocated: got %d, want 0 (%d bytes allocated; ctx.BufAcc capacity %d -> %d bytes)",
			runs, allocating, total, cap0, ctx.BufAcc.Cap())
	}
}
