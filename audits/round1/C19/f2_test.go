package dyntpl

import (
	"bytes"
	"testing"

	"github.com/koykov/inspector/testobj"
	"github.com/koykov/inspector/testobj_ins"
)

// Property C19, sentence: "Once a context, an output buffer and a template have been used ONCE, rendering again
// with them performs no heap allocation, for templates composed of the built-in constructs: ... includes."
//
// With nested includes (a includes b includes c) one use is not enough: the SECOND render allocates again.
// Ctx.getW (ctx.go) hands out &ctx.w[i]; the nested include appends to ctx.w, the slice is reallocated, and the
// outer include keeps writing into the bytes.Buffer of the OLD array. The copy that stays in ctx.w has the capacity
// the buffer had at the moment of the reallocation, so on the second render the outer buffers have to grow again.
// testing.AllocsPerRun(1, f) calls f once to warm up (render #1) and measures the next call (render #2).
func TestAudit2(t *testing.T) {
	user := &testobj.TestObject{Id: "115", Name: []byte("John"), Status: 78}
	var ins testobj_ins.TestObjectInspector
	filler := ` some longer text, so that what the template writes does not fit into the small bootstrap array of bytes.Buffer (64 bytes)`

	reg := func(key, tpl string) {
		tree, err := Parse([]byte(tpl), false)
		if err != nil {
			t.Fatalf("%s: parse: %v", key, err)
		}
		RegisterTplKey(key, tree)
	}
	reg("audit19_f2_c", `C:{%= user.Id %}`+filler)
	reg("audit19_f2_b", `B[{% include audit19_f2_c %}]{%= user.Name %}`+filler)
	reg("audit19_f2_a", `A[{% include audit19_f2_b %}]{%= user.Status %}`+filler)
	reg("audit19_f2_flat", `{% include audit19_f2_c %}|{% include audit19_f2_c %}`)
	reg("audit19_f2_nested", `{% include audit19_f2_a %}`)

	second := func(key string) float64 {
		ctx := NewCtx() // new context: the warm-up call of AllocsPerRun is its first use
		var buf bytes.Buffer
		// Let the output buffer have room, it is not what is measured.
		buf.Grow(4096)
		return testing.AllocsPerRun(1, func() {
			ctx.Reset()
			ctx.Set("user", user, ins)
			buf.Reset()
			if err := Write(&buf, key, ctx); err != nil {
				t.Fatalf("%s: render: %v", key, err)
			}
		})
	}

	// Control: includes that are not nested — the second render does not allocate.
	if n := second("audit19_f2_flat"); n != 0 {
		t.Fatalf("control (flat includes): allocs of the second render got %v want 0", n)
	}
	if n := second("audit19_f2_nested"); n != 0 {
		t.Errorf("nested includes: allocs of the second render with the same context, buffer and template: got %v, want 0", n)
	}
}
