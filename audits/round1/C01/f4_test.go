package dyntpl

import (
	"testing"

	"github.com/koykov/inspector/testobj"
	"github.com/koykov/inspector/testobj_ins"
)

// C01, sentences: "at each print tag, the canonical text of the addressed value" for "indexed paths", and
// "A missing ... value prints nothing".
//
// Ctx.replaceQB substitutes only the FIRST [..] pair of a path and looks the text between the brackets up as a variable
// only. So inside counter loops
//   - a path with two indexes (m[i][j]) is not resolved: render error `parsing "0[j]"`;
//   - a literal index (h[1]) or an index variable that is not set leaves an empty path step: render error `parsing ""`
//     instead of the element / of nothing.
func TestAudit4(t *testing.T) {
	o := &testobj.TestObject1{IntIntMapMap: map[int32]map[int32]int32{0: {0: 10, 1: 11}, 1: {0: 20, 1: 21}}}
	u := &testobj.TestObject{Finance: &testobj.TestFinance{History: []testobj.TestHistory{{Cost: 1.5}, {Cost: 2.5}}}}
	cases := []struct{ name, tpl, want string }{
		{"two indexes",
			"{% for i:=0; i<2; i++ %}{% for j:=0; j<2; j++ %}[{%= o.IntIntMapMap[i][j] %}]{% endfor %}{% endfor %}",
			"[10][11][20][21]"},
		{"index variable that is not set (missing value prints nothing)",
			"{% for i:=0; i<2; i++ %}[{%= user.Finance.History[k].Cost %}]{% endfor %}",
			"[][]"},
		{"literal index",
			"{% for i:=0; i<2; i++ %}[{%= user.Finance.History[1].Cost %}]{% endfor %}",
			"[2.5][2.5]"},
	}
	for _, c := range cases {
		key := "audit/C01/f4/" + c.name
		tree, err := Parse([]byte(c.tpl), false)
		if err != nil {
			t.Errorf("%s: parse error %v", c.name, err)
			continue
		}
		RegisterTplKey(key, tree)
		ctx := NewCtx()
		ctx.Set("o", o, testobj_ins.TestObject1Inspector{})
		ctx.Set("user", u, testobj_ins.TestObjectInspector{})
		b, err := Render(key, ctx)
		if err != nil || string(b) != c.want {
			t.Errorf("%s: %s\n\tgot  %q, err %v\n\twant %q, err <nil>", c.name, c.tpl, b, err, c.want)
		}
	}
}
