package dyntpl

import (
	"fmt"
	"testing"
)

// C01, sentence: "A missing, nil or empty value prints nothing" (quantifier: "... empty strings/bytes, nil pointers
// and missing fields").
//
// A variable whose value is a typed nil pointer to a supported scalar ((*string)(nil), (*int)(nil), (*[]byte)(nil), ...)
// makes the print tag PANIC: writeNode only tests `raw == nil` (untyped nil) and hands the pointer to
// BufAcc.WriteX -> x2bytes, which dereferences it.
func TestAudit1(t *testing.T) {
	cases := []struct {
		name string
		val  any
	}{
		{"*string", (*string)(nil)},
		{"*int", (*int)(nil)},
		{"*[]byte", (*[]byte)(nil)},
		{"*float64", (*float64)(nil)},
		{"*bool", (*bool)(nil)},
	}
	tree, err := Parse([]byte("[{%= p prefix < suffix > %}]"), false)
	if err != nil {
		t.Fatal(err)
	}
	RegisterTplKey("audit/C01/f1", tree)
	for _, c := range cases {
		got := func() (s string) {
			defer func() {
				if r := recover(); r != nil {
					s = fmt.Sprintf("PANIC: %v", r)
				}
			}()
			ctx := NewCtx()
			ctx.SetStatic("p", c.val)
			b, err := Render("audit/C01/f1", ctx)
			if err != nil {
				return fmt.Sprintf("%q, error: %v", b, err)
			}
			return string(b)
		}()
		if want := "[]"; got != want {
			t.Errorf("nil %s: got %s, want %q (nil value prints nothing, prefix and suffix included)", c.name, got, want)
		}
	}
}
