package dyntpl

import (
	"fmt"
	"testing"
)

// C01, sentence: "Rendering emits the template's static text byte-for-byte (after the documented removal of
// comments ...)"; quantifier: "for all templates composed of text, comments and print tags ... for both keep-format
// settings".
//
// reCutComments is `{#[^#]*#}`: a comment whose text contains a '#' is not removed but emitted as static text.
func TestAudit7(t *testing.T) {
	cases := []struct {
		tpl  string
		keep bool
		want string
	}{
		{"a{# see issue #12 #}b", false, "ab"},
		{"a{# see issue #12 #}b", true, "ab"},
		{"a{## banner ##}b", false, "ab"},
		{"{# todo: colour #fff #}{%= name %}", false, "Bob"},
	}
	for i, c := range cases {
		key := fmt.Sprintf("audit/C01/f7/%d", i)
		tree, err := Parse([]byte(c.tpl), c.keep)
		if err != nil {
			t.Fatal(err)
		}
		RegisterTplKey(key, tree)
		ctx := NewCtx()
		ctx.SetString("name", "Bob")
		b, err := Render(key, ctx)
		if err != nil || string(b) != c.want {
			t.Errorf("template %q keepFmt=%v: got %q (err %v), want %q", c.tpl, c.keep, b, err, c.want)
		}
	}
}
