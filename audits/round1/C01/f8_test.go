package dyntpl

import (
	"strconv"
	"testing"

	"github.com/koykov/inspector/testobj"
	"github.com/koykov/inspector/testobj_ins"
)

// C01, sentence: "at each print tag, the canonical text of the addressed value (decimal integers, shortest round-trip
// floats, ...)"; quantifier: "every supported scalar type".
//
// float32 is a supported scalar type (x2bytes.FloatToBytes accepts float32 / *float32), but writeNode passes it to
// WriteX, which widens it to float64 and formats with bit size 64: float32(0.1) prints as 0.10000000149011612 instead
// of the shortest text that round-trips the float32 value, 0.1.
func TestAudit8(t *testing.T) {
	tree, err := Parse([]byte("{%= f %}|{%= o.NestedStruct.F %}|{%= o.FloatSlice.0 %}"), false)
	if err != nil {
		t.Fatal(err)
	}
	RegisterTplKey("audit/C01/f8", tree)
	v := float32(0.1)
	o := &testobj.TestObject1{NestedStruct: testobj.TestStruct{F: v}, FloatSlice: testobj.TestFloatSlice{v}}
	ctx := NewCtx()
	ctx.SetStatic("f", v)
	ctx.Set("o", o, testobj_ins.TestObject1Inspector{})
	b, err := Render("audit/C01/f8", ctx)
	s := strconv.FormatFloat(float64(v), 'f', -1, 32) // "0.1"
	want := s + "|" + s + "|" + s
	if err != nil || string(b) != want {
		t.Errorf("float32(0.1): got %q (err %v), want %q", b, err, want)
	}
}
