package dyntpl

import (
	"fmt"
	"testing"

	"github.com/koykov/inspector/testobj"
	"github.com/koykov/inspector/testobj_ins"
)

// C01, sentences: "at each print tag, the canonical text of the addressed value" and "a print's prefix and suffix
// appear exactly when the printed value is non-empty".
//
// processCtl tries the ternary patterns (reTplTernary / reTplTernaryHelper) on the WHOLE tag before the prefix/suffix
// patterns. A plain print whose prefix or suffix text contains a comparison character followed by '?' and ':' (any
// HTML tag with a query string and a URL will do), or ')' followed by '?' and ':', becomes a condition node: the value,
// the prefix and the suffix are lost, or the render fails with "condition helper not found".
func TestAudit5(t *testing.T) {
	u := &testobj.TestObject{Name: []byte("John")}
	cases := []struct{ tpl, want string }{
		{`{%= user.Name prefix <a href="/?next=http://x"> suffix </a> %}`, `<a href="/?next=http://x">John</a>`},
		{`{%= user.Name prefix <b>Q?A: suffix </b> %}`, `<b>Q?A:John</b>`},
		{`{%= user.Name prefix (tel) ? a:b %}`, `(tel) ? a:bJohn`}, // render error "condition helper not found"
	}
	for i, c := range cases {
		key := fmt.Sprintf("audit/C01/f5/%d", i)
		tree, err := Parse([]byte(c.tpl), false)
		if err != nil {
			t.Errorf("%s: parse error %v", c.tpl, err)
			continue
		}
		RegisterTplKey(key, tree)
		ctx := NewCtx()
		ctx.Set("user", u, testobj_ins.TestObjectInspector{})
		b, err := Render(key, ctx)
		if err != nil || string(b) != c.want {
			t.Errorf("%s:\n\tgot  %q, err %v\n\twant %q, err <nil>", c.tpl, b, err, c.want)
		}
	}
}
