package dyntpl

import (
	"fmt"
	"testing"

	"github.com/koykov/inspector/testobj"
	"github.com/koykov/inspector/testobj_ins"
)

// C01, sentence: "A missing, nil or empty value prints nothing" (quantifier: "missing fields"; paths "of any depth").
//
// A path whose LAST steps do not exist (absent map key, index beyond the slice, unknown field of a nested struct) does
// not print nothing: the render stops with the error "unknown type" and the output is cut off in the middle, while
// a missing field on the first level (user.Nope) prints nothing as demanded. The inspector answers such paths with the
// enclosing container, and writeNode returns the WriteX conversion error as a render error.
func TestAudit3(t *testing.T) {
	u := &testobj.TestObject{
		Name:        []byte("John"),
		Flags:       testobj.TestFlag{"a": 1},
		HistoryTree: map[string]*testobj.TestHistory{"k": {Cost: 7}},
		Finance:     &testobj.TestFinance{Balance: 1, History: []testobj.TestHistory{{Cost: 1.5}}},
	}
	paths := []string{
		"user.Nope",                   // control: works
		"user.Flags.zz",               // absent map key
		"user.HistoryTree.q.Cost",     // absent map key, deeper
		"user.Finance.History.9.Cost", // index beyond the slice
		"user.Finance.Nope",           // unknown field of a nested struct
	}
	for i, p := range paths {
		key := fmt.Sprintf("audit/C01/f3/%d", i)
		tree, err := Parse([]byte("[{%= "+p+" prefix < suffix > %}]"), false)
		if err != nil {
			t.Fatal(err)
		}
		RegisterTplKey(key, tree)
		ctx := NewCtx()
		ctx.Set("user", u, testobj_ins.TestObjectInspector{})
		b, err := Render(key, ctx)
		if err != nil || string(b) != "[]" {
			t.Errorf("{%%= %s %%}: got %q, err %v; want \"[]\", err <nil>", p, b, err)
		}
	}
}
