package dyntpl

import (
	"fmt"
	"testing"

	"github.com/koykov/inspector/testobj"
	"github.com/koykov/inspector/testobj_ins"
)

// C01, sentence: "a print's prefix and suffix appear exactly when the printed value is non-empty" (and: the value is
// printed at each print tag), for "prefix/suffix in long and short spelling".
//
// processCtl trims the whole tag with the character SET "{}% " (ctlTrim), so a suffix (or a lone prefix) that ends with
// '%', '}' or '{' loses these characters; if nothing is left of it, the keyword becomes part of the path and the value
// is not printed at all.
func TestAudit2(t *testing.T) {
	u := &testobj.TestObject{Name: []byte("John")}
	cases := []struct{ tpl, want string }{
		{`{%= user.Name suffix 50% %}`, `John50%`},
		{`{%= user.Name suffix % %}`, `John%`},
		{`{%= user.Name sfx {x} %}`, `John{x}`},
		{`{%= user.Name prefix {" suffix "} %}`, `{"John"}`},
		{`{%= user.Name pfx { sfx } %}`, `{John}`},
	}
	for i, c := range cases {
		key := fmt.Sprintf("audit/C01/f2/%d", i)
		tree, err := Parse([]byte(c.tpl), false)
		if err != nil {
			t.Errorf("%s: parse error %v", c.tpl, err)
			continue
		}
		RegisterTplKey(key, tree)
		ctx := NewCtx()
		ctx.Set("user", u, testobj_ins.TestObjectInspector{})
		b, err := Render(key, ctx)
		if err != nil || string(b) != c.want {
			t.Errorf("%s: got %q (err %v), want %q", c.tpl, b, err, c.want)
		}
	}
}
