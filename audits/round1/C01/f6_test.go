package dyntpl

import (
	"fmt"
	"testing"
)

// C01, sentence: "Rendering emits the template's static text byte-for-byte (after the documented removal of comments
// and, unless formatting is kept, of line breaks with their indentation)".
//
// With keepFmt=false cutFmt removes more and less than "line breaks with their indentation":
//   - bytealg.Trim(p.tpl, " \t\n") also strips blanks and tabs at the very beginning and end of the template that do
//     not belong to any line break ("Dear " -> "Dear");
//   - the pattern `\n+\t*\s*` does not know the CRLF line break: of "\r\n" + indentation the '\r' stays in the output.
func TestAudit6(t *testing.T) {
	cases := []struct{ name, tpl, want string }{
		{"trailing blank, no line break", "Dear ", "Dear "},
		{"leading blank, no line break", " x", " x"},
		{"trailing blank after a print tag", "{%= name %}, ", "Bob, "},
		{"CRLF line break with indentation", "a\r\n  b", "ab"},
	}
	for i, c := range cases {
		key := fmt.Sprintf("audit/C01/f6/%d", i)
		tree, err := Parse([]byte(c.tpl), false)
		if err != nil {
			t.Fatal(err)
		}
		RegisterTplKey(key, tree)
		ctx := NewCtx()
		ctx.SetString("name", "Bob")
		b, err := Render(key, ctx)
		if err != nil || string(b) != c.want {
			t.Errorf("%s: template %q, keepFmt=false: got %q (err %v), want %q", c.name, c.tpl, b, err, c.want)
		}
	}
}
