package dyntpl

import (
	"hash/crc64"
	"testing"
)

// Property C04, sentence contradicted:
//   "Parsing a source always yields a tree that renders that source, regardless of which templates were parsed,
//    registered or replaced before."
// Parse() identifies a source by the CRC-64/ISO of its pre-processed text ONLY and, on a hit in the registry's hash
// index, returns the registered tree without comparing the texts. CRC-64/ISO has the sparse generator
// x^64+x^4+x^3+x+1: flipping bit 4 of byte i (xor 0x10) and xor-ing byte i+8 with 0x1b never changes the checksum.
// The two sources below differ in exactly that way ('a'->'q' at offset 4, ' '->';' at offset 12).
func TestAudit3(t *testing.T) {
	srcA := []byte("{%= a %} and {%= b %}")
	srcB := []byte("{%= q %} and;{%= b %}")
	tab := crc64.MakeTable(crc64.ISO)
	if crc64.Checksum(srcA, tab) != crc64.Checksum(srcB, tab) {
		t.Skip("sources do not collide (unexpected)")
	}

	treeA, err := Parse(srcA, false)
	if err != nil {
		t.Fatal(err)
	}
	RegisterTplKey("audit3-A", treeA)

	treeB, err := Parse(srcB, false)
	if err != nil {
		t.Fatal(err)
	}
	RegisterTplKey("audit3-B", treeB)

	ctx := NewCtx()
	ctx.SetStatic("a", 1).SetStatic("q", 2).SetStatic("b", 3)
	got, err := Render("audit3-B", ctx)
	const want = "2 and;3"
	if err != nil || string(got) != want {
		t.Errorf("source %q parsed after %q was registered renders %q (err %v); want %q (same tree pointer: %v)",
			srcB, srcA, got, err, want, treeA == treeB)
	}
}
