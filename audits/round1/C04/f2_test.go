package dyntpl

import "testing"

// Property C04, sentence contradicted:
//   "After any sequence of registrations, rendering ... by ID ... uses the template most recently registered under that
//    name ..."
// IDs are plain ints in the public API. db.set() indexes an ID only if it is >= 0, so a template registered under a
// negative ID (RegisterTplID(-7, ...) or RegisterTpl(-7, key, ...)) can never be rendered by that ID.
func TestAudit2(t *testing.T) {
	const want = "audit2 body"
	tree, err := Parse([]byte(want), false)
	if err != nil {
		t.Fatal(err)
	}
	RegisterTplID(-7, tree)

	ctx := NewCtx()
	got, err := RenderByID(-7, ctx)
	if err != nil || string(got) != want {
		t.Errorf("RenderByID(-7) after RegisterTplID(-7, ...): got %q, err %v; want %q, err <nil>", got, err, want)
	}

	// Same with the combined registration: the key works, the ID does not.
	RegisterTpl(-8, "audit2-key", tree)
	if got, err = Render("audit2-key", ctx); err != nil || string(got) != want {
		t.Errorf("Render(\"audit2-key\"): got %q, err %v; want %q", got, err, want)
	}
	got, err = RenderByID(-8, ctx)
	if err != nil || string(got) != want {
		t.Errorf("RenderByID(-8) after RegisterTpl(-8, \"audit2-key\", ...): got %q, err %v; want %q, err <nil>", got, err, want)
	}
}
