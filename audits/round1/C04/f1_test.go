package dyntpl

import "testing"

// Property C04, sentence contradicted:
//   "After any sequence of registrations, rendering by key, by ID, by key-with-fallback or through an include uses the
//    template most recently registered under that name ..."
// The key "-1" is an ordinary string for the public API (RegisterTplKey / RegisterTpl accept any key), but db.set() uses
// it as the internal "no key" sentinel and silently skips the key index. The template is stored in a slot nobody can
// reach: Render / RenderFallback / include report ErrTplNotFound for a name that HAS been registered.
func TestAudit1(t *testing.T) {
	const want = "audit1 body"
	tree, err := Parse([]byte(want), false)
	if err != nil {
		t.Fatal(err)
	}
	RegisterTplKey("-1", tree)

	ctx := NewCtx()
	got, err := Render("-1", ctx)
	if err != nil || string(got) != want {
		t.Errorf("Render(\"-1\") after RegisterTplKey(\"-1\", ...): got %q, err %v; want %q, err <nil>", got, err, want)
	}

	got, err = RenderFallback("audit1-unknown", "-1", ctx)
	if err != nil || string(got) != want {
		t.Errorf("RenderFallback(unknown, \"-1\"): got %q, err %v; want %q, err <nil>", got, err, want)
	}

	outer, err := Parse([]byte("[{% include -1 %}]"), false)
	if err != nil {
		t.Fatal(err)
	}
	RegisterTplKey("audit1-outer", outer)
	got, err = Render("audit1-outer", ctx)
	if err != nil || string(got) != "["+want+"]" {
		t.Errorf("include -1: got %q, err %v; want %q, err <nil>", got, err, "["+want+"]")
	}
}
