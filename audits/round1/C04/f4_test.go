package dyntpl

import "testing"

// Property C04, sentence contradicted:
//   "After any sequence of registrations, rendering by key ... uses the template most recently registered under that
//    name" (quantifier: "each key consistently paired with at most one ID" - here every key is paired with exactly one
//    ID; it is the ID that has two keys).
// RegisterTpl(id, "a", A) followed by RegisterTpl(id, "b", B): key "b" is new, so db.set() finds the slot through the
// ID, overwrites the slot of "a" in place and leaves idxKey["a"] pointing at it. Render("a") then yields B, although
// the most recent registration under the name "a" is A. What Render("a") yields even depends on a superseded
// registration: if "b" had been registered alone before, the same two calls leave "a" -> A.
func TestAudit4(t *testing.T) {
	parse := func(s string) *Tree {
		tree, err := Parse([]byte(s), false)
		if err != nil {
			t.Fatal(err)
		}
		return tree
	}
	ctx := NewCtx()

	// History 1.
	RegisterTpl(90401, "audit4-a1", parse("audit4 A1"))
	RegisterTpl(90401, "audit4-b1", parse("audit4 B1"))
	got1, err1 := Render("audit4-a1", ctx)

	// History 2: the same, but key b had an earlier (now superseded) registration of its own.
	RegisterTplKey("audit4-b2", parse("audit4 B2 old"))
	RegisterTpl(90402, "audit4-a2", parse("audit4 A2"))
	RegisterTpl(90402, "audit4-b2", parse("audit4 B2"))
	got2, err2 := Render("audit4-a2", ctx)

	if err1 != nil || string(got1) != "audit4 A1" {
		t.Errorf("history 1: Render(\"audit4-a1\"): got %q, err %v; want %q (the template most recently registered under that key)",
			got1, err1, "audit4 A1")
	}
	if err2 != nil || string(got2) != "audit4 A2" {
		t.Errorf("history 2: Render(\"audit4-a2\"): got %q, err %v; want %q", got2, err2, "audit4 A2")
	}
	t.Logf("history 1 (b new): a -> %q; history 2 (b registered alone before): a -> %q", got1, got2)
}
