package dyntpl

import "testing"

// Property C04, sentence contradicted:
//   "Parsing a source always yields a tree that renders that source, regardless of which templates were parsed,
//    registered or replaced before."
// The parser resolves modifiers at parse time (extractMods -> GetModFn) and silently drops a modifier that is not
// registered yet. Parsing the same source again after RegisterModFn gives a tree WITH the modifier - unless the first
// tree has been registered in between: then Parse() takes the getTreeByHash short-cut and hands out the stale tree.
// So what Parse(src) returns depends on whether a template was registered before, which the sentence excludes.
func TestAudit5(t *testing.T) {
	srcReg := []byte("reg:{%= v|audit5mod() %}")   // its first tree gets registered
	srcFree := []byte("free:{%= v|audit5mod() %}") // its first tree is thrown away

	t0, err := Parse(srcReg, false)
	if err != nil {
		t.Fatal(err)
	}
	if _, err = Parse(srcFree, false); err != nil {
		t.Fatal(err)
	}
	RegisterTplKey("audit5-early", t0)

	RegisterModFn("audit5mod", "", func(_ *Ctx, buf *any, _ any, _ []any) error {
		*buf = "MODIFIED"
		return nil
	})

	// Both sources are parsed again now that the modifier exists.
	t1, err := Parse(srcReg, false)
	if err != nil {
		t.Fatal(err)
	}
	t2, err := Parse(srcFree, false)
	if err != nil {
		t.Fatal(err)
	}
	RegisterTplKey("audit5-reg", t1)
	RegisterTplKey("audit5-free", t2)

	ctx := NewCtx()
	ctx.SetStatic("v", "plain")
	gotFree, errFree := Render("audit5-free", ctx)
	gotReg, errReg := Render("audit5-reg", ctx)
	if errFree != nil || string(gotFree) != "free:MODIFIED" {
		t.Fatalf("control: got %q, err %v; want %q", gotFree, errFree, "free:MODIFIED")
	}
	if errReg != nil || string(gotReg) != "reg:MODIFIED" {
		t.Errorf("Parse of %q after RegisterModFn: renders %q (err %v); want %q - the unregistered twin source renders %q (stale tree reused: %v)",
			srcReg, gotReg, errReg, "reg:MODIFIED", gotFree, t0 == t1)
	}
}
