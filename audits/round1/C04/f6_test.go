package dyntpl

import "testing"

// Property C04, sentence contradicted:
//   "Parsing a source always yields a tree that renders that source, regardless of which templates were parsed,
//    registered or replaced before."
// Parse() returns a non-nil, partial tree together with the error for a malformed source. Once such a tree sits in the
// registry (a caller that registers first and checks the error later, or that deliberately keeps the readable part),
// Parse() of the very same malformed source takes the getTreeByHash short-cut and returns that partial tree with a NIL
// error: the verdict of Parse on a source depends on what was registered before. The tree it returns does not render
// the source (the tail after the bad tag is missing) and the caller is no longer told.
func TestAudit6(t *testing.T) {
	bad := []byte("audit6 head {% bogus tag %} tail")

	t0, err0 := Parse(bad, false)
	if err0 == nil {
		t.Skip("source is not rejected (unexpected)")
	}
	if t0 == nil {
		t.Skip("no tree returned with the error")
	}
	// Control: without registration the verdict is stable.
	if _, err := Parse(bad, false); err == nil {
		t.Fatal("control: second Parse of the malformed source succeeded without any registration")
	}

	RegisterTplKey("audit6", t0)

	t1, err1 := Parse(bad, false)
	if err1 == nil {
		got, _ := Render("audit6", NewCtx())
		t.Errorf("Parse(%q) after its partial tree was registered: err = <nil>, want %q (same partial tree returned: %v; it renders %q)",
			bad, err0, t0 == t1, got)
	}
}
