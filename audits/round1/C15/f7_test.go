package dyntpl

import "testing"

// Property C15, sentence: "A counter holds its initial value plus the sum of the increments and decrements
// applied since."
//
// A counter tag that matches reCntr but none of reCntrInit / reCntrOp0 / reCntrOp1 is accepted by the parser and
// becomes a node without a variable name: it is executed as "SetCounter("", 0 - 0)" and changes nothing. That is the
// fate of a negative initial value and of the operators written with a space.
func TestAudit7(t *testing.T) {
	render := func(key, src string) string {
		tree, err := Parse([]byte(src), false)
		if err != nil {
			return "PARSE ERROR: " + err.Error()
		}
		RegisterTplKey(key, tree)
		ctx := NewCtx()
		out, err := Render(key, ctx)
		if err != nil {
			return string(out) + "RENDER ERROR: " + err.Error()
		}
		return string(out)
	}

	got := render("audit7_neg", `{% counter c = 5 %}{% counter c = -5 %}{% counter c++ %}[{%= c %}]`)
	if want := "[-4]"; got != want {
		t.Errorf("negative initial value: got %q, want %q (or a parse error)", got, want)
	}
	got = render("audit7_space", `{% counter c = 5 %}{% counter c ++ %}{% counter c + 2 %}{% counter c -1 %}[{%= c %}]`)
	if want := "[7]"; got != want {
		t.Errorf("operators with spaces: got %q, want %q (or a parse error)", got, want)
	}
}
