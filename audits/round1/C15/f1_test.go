package dyntpl

import "testing"

// Property C15, sentence: "Two different variables never alias: reading or passing one never changes what
// another reads." (and: "reading a variable yields the value most recently assigned to that name").
//
// {% ctx x = a %} with a counter (or a loop counter) as the source stores the POINTER to the source's storage
// (&ctxVar.cntr / &ctx.bufLC[i]) as the value of x: every later {% counter a++ %} / loop step changes what x reads.
func TestAudit1(t *testing.T) {
	render := func(key, src string) string {
		tree, err := Parse([]byte(src), false)
		if err != nil {
			t.Fatalf("%s: parse: %v", key, err)
		}
		RegisterTplKey(key, tree)
		ctx := NewCtx()
		// x exists already: the assignment updates the slot in place (no re-allocation of the variable list that
		// could hide the aliasing by accident).
		ctx.SetString("x", "old")
		ctx.SetString("pad0", "p").SetString("pad1", "p").SetString("pad2", "p")
		out, err := Render(key, ctx)
		if err != nil {
			t.Fatalf("%s: render: %v", key, err)
		}
		return string(out)
	}

	// 1. counter as the source: x was assigned 1; incrementing a must not change x.
	got := render("audit1_counter", `{% counter a = 1 %}{% ctx x = a %}[{%= x %}]{% counter a++ %}{% counter a++ %}[{%= x %}|{%= a %}]`)
	if want := "[1][1|3]"; got != want {
		t.Errorf("counter source: got %q, want %q", got, want)
	}

	// 2. loop counter as the source: x is assigned once, in the iteration i == 0.
	got = render("audit1_loop", `{% for i := 0; i < 3; i++ %}{% if i == 0 %}{% ctx x = i %}{% endif %}{% endfor %}[{%= x %}|{%= i %}]`)
	if want := "[0|3]"; got != want {
		t.Errorf("loop counter source: got %q, want %q", got, want)
	}

	// 3. counter passed as modifier argument: e is not set, so x is assigned the value of a (1).
	got = render("audit1_modarg", `{% counter a = 1 %}{% ctx x = e|default(a) %}{% counter a+10 %}[{%= x %}|{%= a %}]`)
	if want := "[1|11]"; got != want {
		t.Errorf("counter as modifier argument: got %q, want %q", got, want)
	}
}
