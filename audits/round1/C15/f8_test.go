package dyntpl

import "testing"

// Property C15, sentences: "reading a variable yields the value most recently assigned to that name ... whatever
// kind of value the name held before. A counter holds its initial value plus the sum of the increments and
// decrements applied since."
//
// {% counter c++ %} reads the current value with ConvInt, which knows the signed integer types only. A name that
// holds 5 as literal of a ctx tag (bytes), as string, as unsigned or as float restarts from 0, while int / int64 /
// SetCounter continue from 5. (Counter loops read the very same variables through if2int and do take 5.)
func TestAudit8(t *testing.T) {
	tree, err := Parse([]byte(`{% counter c++ %}{% counter c+2 %}[{%= c %}]`), false)
	if err != nil {
		t.Fatal(err)
	}
	RegisterTplKey("audit8", tree)
	tree, err = Parse([]byte(`{% ctx c = 5 %}{% counter c++ %}{% counter c+2 %}[{%= c %}]`), false)
	if err != nil {
		t.Fatal(err)
	}
	RegisterTplKey("audit8_ctx", tree)

	cases := []struct {
		name, key string
		prep      func(ctx *Ctx)
	}{
		{"SetCounter(5)", "audit8", func(ctx *Ctx) { ctx.SetCounter("c", 5) }},
		{"SetStatic(int64(5))", "audit8", func(ctx *Ctx) { ctx.SetStatic("c", int64(5)) }},
		{"SetStatic(uint(5))", "audit8", func(ctx *Ctx) { ctx.SetStatic("c", uint(5)) }},
		{"SetString(\"5\")", "audit8", func(ctx *Ctx) { ctx.SetString("c", "5") }},
		{"{% ctx c = 5 %}", "audit8_ctx", func(ctx *Ctx) {}},
	}
	for _, c := range cases {
		ctx := NewCtx()
		c.prep(ctx)
		got, err := Render(c.key, ctx)
		if err != nil {
			t.Errorf("%s: %v", c.name, err)
			continue
		}
		if want := "[8]"; string(got) != want {
			t.Errorf("c = 5 by %s, then c++ and c+2: got %q, want %q", c.name, got, want)
		}
	}
}
