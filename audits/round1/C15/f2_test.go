package dyntpl

import "testing"

// Property C15, sentence: "Two different variables never alias: reading or passing one never changes what
// another reads."
//
// {% ctx x = f|round %}: the built-in numeric modifiers (round*, ceil*, floor*, math::*) return &ctx.BufF, the
// time modifiers return &ctx.BufT; the ctx tag stores that pointer as the value of x. Two variables assigned from
// modifier sources are the same cell, and a plain print {%= g|round %} changes what x reads.
func TestAudit2(t *testing.T) {
	render := func(key, src string) string {
		tree, err := Parse([]byte(src), false)
		if err != nil {
			t.Fatalf("%s: parse: %v", key, err)
		}
		RegisterTplKey(key, tree)
		ctx := NewCtx()
		ctx.SetStatic("f", 1.4).SetStatic("g", 2.6)
		out, err := Render(key, ctx)
		if err != nil {
			t.Fatalf("%s: render: %v", key, err)
		}
		return string(out)
	}

	got := render("audit2_two", `{% ctx x = f|round %}{% ctx y = g|round %}[{%= x %}|{%= y %}]`)
	if want := "[1|3]"; got != want {
		t.Errorf("two variables from modifier sources: got %q, want %q", got, want)
	}

	got = render("audit2_print", `{% ctx x = f|round %}[{%= x %}]{%= g|round %}[{%= x %}]`)
	if want := "[1]3[1]"; got != want {
		t.Errorf("print of another variable through a modifier: got %q, want %q", got, want)
	}

	got = render("audit2_math", `{% ctx x = f|math::add(1) %}{% ctx y = f|math::add(2) %}[{%= x %}|{%= y %}]`)
	if want := "[2.4|3.4]"; got != want {
		t.Errorf("math::add: got %q, want %q", got, want)
	}
}
