package dyntpl

import "testing"

// Property C15, sentence: "reading a variable yields the value most recently assigned to that name ... whatever
// kind of value the name held before" (quantifier: "... interleaved with reads as print, as condition operand ...").
//
// A variable whose most recent assignment is an empty byte string (SetString / SetBytes) is compared as if it held
// nil: Ctx.cmp takes the bytes branch only for len(buf) > 0, so `e == ""` is false and even `e != "zz"` is false.
// The same value assigned by SetStatic("e", "") gives true for both.
func TestAudit5(t *testing.T) {
	src := `{% if e == "" %}Y{% else %}N{% endif %}{% if e != "zz" %}Y{% else %}N{% endif %}`
	tree, err := Parse([]byte(src), false)
	if err != nil {
		t.Fatal(err)
	}
	RegisterTplKey("audit5", tree)

	ctx := NewCtx()
	ctx.SetStatic("e", "")
	ref, err := Render("audit5", ctx)
	if err != nil {
		t.Fatal(err)
	}
	if string(ref) != "YY" {
		t.Fatalf("reference (SetStatic): got %q, want %q", ref, "YY")
	}

	ctx = NewCtx()
	ctx.SetString("e", "zz")
	ctx.SetString("e", "")
	got, err := Render("audit5", ctx)
	if err != nil {
		t.Fatal(err)
	}
	if want := "YY"; string(got) != want {
		t.Errorf("e assigned \"zz\", then \"\" by SetString: conditions [e == \"\"][e != \"zz\"]: got %q, want %q", got, want)
	}
}
