package dyntpl

import "testing"

// Property C15, sentence: "Within a render, reading a variable yields the value most recently assigned to that
// name - through any of the context's set methods, a ctx tag, ... - whatever kind of value the name held before."
//
// {% ctx x = e %} with an empty (or unset) source e is a no-op ("Empty value, nothing to set"): x keeps the value of
// the assignment before. The literal spelling of the same assignment does overwrite x, SetString("x", "") does as well.
func TestAudit3(t *testing.T) {
	render := func(key, src string) string {
		tree, err := Parse([]byte(src), false)
		if err != nil {
			t.Fatalf("%s: parse: %v", key, err)
		}
		RegisterTplKey(key, tree)
		ctx := NewCtx()
		ctx.SetString("e", "")
		ctx.SetStatic("es", "")
		out, err := Render(key, ctx)
		if err != nil {
			t.Fatalf("%s: render: %v", key, err)
		}
		return string(out)
	}

	got := render("audit3_bytes", `{% ctx x = "abc" %}[{%= x %}]{% ctx x, ok = e %}[{%= x %}|{%= ok %}]`)
	if want := "[abc][|false]"; got != want {
		t.Errorf("empty bytes source: got %q, want %q", got, want)
	}
	got = render("audit3_str", `{% ctx x = "abc" %}[{%= x %}]{% ctx x, ok = es %}[{%= x %}|{%= ok %}]`)
	if want := "[abc][|false]"; got != want {
		t.Errorf("empty string source: got %q, want %q", got, want)
	}
	got = render("audit3_cntr", `{% counter x = 7 %}{% ctx x = e %}[{%= x %}]`)
	if want := "[]"; got != want {
		t.Errorf("counter re-assigned from an empty source: got %q, want %q", got, want)
	}
}
