package dyntpl

import "testing"

// Property C15, sentences: "the ok-flag of a ctx assignment is true exactly when the source value was non-empty"
// and "reading a variable yields the value most recently assigned to that name".
//
// The quotes of a literal source are removed by reCtxS0 / reCtxS1 only. These need one character at least between
// the quotes, and they are tried AFTER reCtxAs / reCtxDot. So {% ctx x, ok = "" %} assigns the two characters `""`
// and sets ok = true, and {% ctx x = "abc" as static %} assigns `"abc"` with the quotes.
func TestAudit4(t *testing.T) {
	render := func(key, src string) string {
		tree, err := Parse([]byte(src), false)
		if err != nil {
			t.Fatalf("%s: parse: %v", key, err)
		}
		RegisterTplKey(key, tree)
		ctx := NewCtx()
		out, err := Render(key, ctx)
		if err != nil {
			t.Fatalf("%s: render: %v", key, err)
		}
		return string(out)
	}

	got := render("audit4_empty", `{% ctx x, ok = "" %}[{%= x %}|{%= ok %}]`)
	if want := "[|false]"; got != want {
		t.Errorf("empty literal: got %q, want %q", got, want)
	}
	got = render("audit4_empty1", `{% ctx x = "abc" %}{% ctx x, ok = '' %}[{%= x %}|{%= ok %}]`)
	if want := "[|false]"; got != want {
		t.Errorf("empty literal (single quotes): got %q, want %q", got, want)
	}
	got = render("audit4_as", `{% ctx x = "abc" %}[{%= x %}]{% ctx x = "abc" as static %}[{%= x %}]{% ctx x = "abc".(static) %}[{%= x %}]`)
	if want := "[abc][abc][abc]"; got != want {
		t.Errorf("literal with inspector: got %q, want %q", got, want)
	}
}
