package dyntpl

import "testing"

// Property C15, sentence: "reading a variable yields the value most recently assigned to that name - through ...
// a ctx tag ..." (quantifier: "{% ctx %} with literal ... sources").
//
// The text of a quoted literal is parsed like an expression: a `|` inside the quotes starts a modifier list (the
// value is cut there), ` as ` and `.(` inside the quotes are taken for the inspector suffix (the render fails with
// "unknown inspector").
func TestAudit6(t *testing.T) {
	render := func(key, src string) string {
		tree, err := Parse([]byte(src), false)
		if err != nil {
			return "PARSE ERROR: " + err.Error()
		}
		RegisterTplKey(key, tree)
		ctx := NewCtx()
		out, err := Render(key, ctx)
		if err != nil {
			return string(out) + "RENDER ERROR: " + err.Error()
		}
		return string(out)
	}

	got := render("audit6_vline", `{% ctx x = "a|b" %}[{%= x %}]`)
	if want := "[a|b]"; got != want {
		t.Errorf("literal with a vertical line: got %q, want %q", got, want)
	}
	got = render("audit6_as", `{% ctx x = "foo as bar" %}[{%= x %}]`)
	if want := "[foo as bar]"; got != want {
		t.Errorf("literal with ' as ': got %q, want %q", got, want)
	}
	got = render("audit6_dot", `{% ctx x = "a.(b)" %}[{%= x %}]`)
	if want := "[a.(b)]"; got != want {
		t.Errorf("literal with '.(': got %q, want %q", got, want)
	}
}
