package dyntpl

import "testing"

// TestAudit3 contradicts the sentence of C12:
//
//	"A template whose if, for and switch blocks are properly nested and closed parses successfully"
//
// A single, closed if block that compares a variable with a string literal (the documented form
// {% if leftVar == rightVar %}, cf. testdata/parser/conditionStr.tpl) is rejected with "too complex condition" as
// soon as the LITERAL contains "(", "||" or "&&": reCondComplex (`if .*&&|\|\||\(|\).*`) looks at the raw tag text,
// quoted text included. The same tag with any other literal parses.
func TestAudit3(t *testing.T) {
	ok := `{% if user.Name == "x" %}yes{% endif %}`
	if _, err := Parse([]byte(ok), false); err != nil {
		t.Fatalf("precondition: %q must parse, got %v", ok, err)
	}
	for _, src := range []string{
		`{% if user.Name == "(" %}yes{% endif %}`,
		`{% if user.Name == "a||b" %}yes{% endif %}`,
		`{% if user.Name == "R&&D" %}yes{% endif %}`,
		`{% for _, u := range users %}{% break if u.Name == "(" %}{% endfor %}`,
	} {
		if _, err := Parse([]byte(src), false); err != nil {
			t.Errorf("Parse(%q):\n got: error %q\nwant: nil error, the blocks are properly nested and closed", src, err)
		}
	}
}
