package dyntpl

import "testing"

// TestAudit6 contradicts the sentence of C12:
//
//	"A template whose if, for and switch blocks are properly nested and closed parses successfully"
//
// The padding inside "{% ... %}" is removed with bytealg.Trim(ctl, "{}% ") - blanks only. A closing (or opening) tag
// that is padded with a tab, or - when the format is kept - written on a line of its own inside the delimiters, is
// not recognised ("unknown control structure"), so a properly nested and closed template is rejected. The very same
// bytes of the second template ARE accepted with keepFmt=false, so the verdict on the nesting depends on the flag.
func TestAudit6(t *testing.T) {
	for _, c := range []struct {
		src  string
		keep bool
	}{
		{"{% if a %}x{%\tendif\t%}", false},
		{"{% if a %}x{%\tendif\t%}", true},
		{"{% if a %}\n  x\n{%\n  endif\n%}\n", true},
		{"{% if a %}\n  x\n{%\n  endif\n%}\n", false}, // accepted: cutFmt glues the tag together
		{"{%\tfor _, v := range list\t%}x{% endfor %}", true},
		{"{% switch a\t%}{% case 1 %}x{%\tendswitch %}", true},
	} {
		if _, err := Parse([]byte(c.src), c.keep); err != nil {
			t.Errorf("Parse(%q, keepFmt=%v):\n got: error %q\nwant: nil error, the block is properly nested and closed", c.src, c.keep, err)
		}
	}
}
