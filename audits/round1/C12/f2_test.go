package dyntpl

import "testing"

// TestAudit2 contradicts the sentence of C12:
//
//	"one with a missing, surplus or crossed closing tag, or an unterminated tag, is rejected with an error."
//
// Parse looks the checksum of the (cut) body up in the template registry BEFORE it parses anything and returns the
// registered tree with a nil error on a hit. Parse returns a non-nil (partial) tree together with its error, and the
// usage shown in readme.md ("tree, _ := dyntpl.Parse(tplData, false); dyntpl.RegisterTplKey(...)") registers that
// tree. From then on the very same malformed bytes are ACCEPTED by Parse: no error any more.
func TestAudit2(t *testing.T) {
	for _, src := range []string{
		`audit2-a {% if user.Id == 1 %}hello`,                                    // missing closing tag
		`audit2-b {% if user.Id == 1 %}hello{% endif %}{% endif %}`,              // surplus closing tag
		`audit2-c {% if x %}{% for _, v := range list %}{% endif %}{% endfor %}`, // crossed closing tags
		`audit2-d {% if user.Id == 1 %}hello{% endif %}{%= user.Name `,           // unterminated tag
	} {
		tree, err := Parse([]byte(src), false)
		if err == nil {
			t.Fatalf("precondition: first Parse(%q) must fail, got nil error", src)
		}
		if tree == nil {
			t.Skipf("Parse returned no tree with the error, nothing to register")
		}
		// readme.md: tree, _ := dyntpl.Parse(tplData, false); dyntpl.RegisterTplKey("tplData", tree)
		RegisterTplKey("audit2:"+src[:8], tree)

		_, err2 := Parse([]byte(src), false)
		if err2 == nil {
			t.Errorf("second Parse(%q):\n got: nil error (first Parse of the same bytes said: %v)\nwant: the same malformed template is rejected with an error every time", src, err)
		}
	}
}
