package dyntpl

import (
	"bytes"
	"context"
	"fmt"
	"os"
	"os/exec"
	"strings"
	"testing"
	"time"
)

// TestAudit1 contradicts the first sentence of C12:
//
//	"For every byte sequence Parse returns either a tree or an error: it never panics and always terminates."
//
// and the second one ("A template whose if, for and switch blocks are properly nested and closed parses
// successfully"): a properly nested and closed template of 120000 nested {%if a%} blocks (about 2 MB) does not make
// Parse return anything - the recursive descent parseTpl -> processCtl -> processCond -> parseTpl exhausts the
// goroutine stack and the Go runtime kills the whole process with "fatal error: stack overflow" (which recover()
// cannot intercept). The crash happens while descending, so the 120000 opening tags alone are enough as well.
//
// The parse runs in a child process (this test binary re-executed) so that `go test` reports a normal FAIL.
func TestAudit1(t *testing.T) {
	const depth = 120000
	if os.Getenv("DYNTPL_AUDIT1_CHILD") == "1" {
		src := bytes.Repeat([]byte("{%if a%}"), depth)
		src = append(src, bytes.Repeat([]byte("{%endif%}"), depth)...)
		tree, err := Parse(src, true)
		fmt.Printf("AUDIT1-CHILD-RETURNED tree=%v err=%v\n", tree != nil, err)
		return
	}

	ctx, cancel := context.WithTimeout(context.Background(), 5*time.Minute)
	defer cancel()
	cmd := exec.CommandContext(ctx, os.Args[0], "-test.run=^TestAudit1$", "-test.count=1", "-test.v")
	cmd.Env = append(os.Environ(), "DYNTPL_AUDIT1_CHILD=1")
	out, err := cmd.CombinedOutput()
	s := string(out)
	if ctx.Err() != nil {
		t.Fatalf("Parse of %d properly nested if blocks: got no result within 5 minutes, want a tree (or at least an error)", depth)
	}
	if strings.Contains(s, "AUDIT1-CHILD-RETURNED tree=true err=<nil>") && err == nil {
		return // property holds
	}
	head := s
	if len(head) > 400 {
		head = head[:400] + " ..."
	}
	if strings.Contains(s, "stack overflow") {
		t.Fatalf("Parse of %d properly nested and closed {%%if a%%} blocks:\n got: the process died (%v) with\n%s\nwant: Parse returns a tree and a nil error (it must never panic / crash)", depth, err, head)
	}
	t.Fatalf("Parse of %d properly nested and closed {%%if a%%} blocks:\n got: exit=%v output=%s\nwant: tree, nil error", depth, err, head)
}
