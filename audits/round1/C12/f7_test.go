package dyntpl

import (
	"strings"
	"testing"
	"time"
)

// TestAudit7 is about the first sentence of C12:
//
//	"For every byte sequence Parse returns either a tree or an error: it never panics and always terminates."
//
// Parse does terminate on the input below, but only in the mathematical sense: the loop over the print prefix in
// extractMods (parser.go, "for off := 0; off < len(outm);") runs the UNANCHORED regexp reModPfxF
// (`([fF]+)\.*(\d*).*`) over the whole rest of the prefix for every '.', digit or 'f' it stands on and then advances
// by one or two bytes, so a print tag whose prefix is n bytes of "." (or digits, or "f.1f.1...") costs n regexp
// searches of O(n) each. Measured on the unmodified code with dots: 5 KB -> 0.26 s, 10 KB -> 1 s, 20 KB -> 4 s,
// 60 KB -> 43 s; with "f.1f.1...": 300 KB -> 7.5 min (x4 per doubling); a 3 MB byte string is out of reach (about half
// a day). A fuzzer with a per-input timeout - the quantifier of C12 - sees a hang. The test gives a 100 KB template
// 20 seconds.
func TestAudit7(t *testing.T) {
	for _, n := range []int{5000, 10000, 20000} {
		st := time.Now()
		_, err := Parse([]byte("{%"+strings.Repeat(".", n)+"= user.Name %}"), true)
		t.Logf("prefix of %d dots: Parse took %v (err=%v)", n, time.Since(st), err)
	}

	const n = 100000
	src := []byte("{%" + strings.Repeat(".", n) + "= user.Name %}")
	done := make(chan error, 1)
	go func() {
		_, err := Parse(src, true)
		done <- err
	}()
	const budget = 20 * time.Second
	select {
	case err := <-done:
		t.Logf("Parse returned in time, err=%v", err)
	case <-time.After(budget):
		t.Fatalf("Parse of a single print tag of %d bytes:\n got: no result after %v (time quadruples with every doubling of the input, see the log above)\nwant: a tree or an error in time proportional to the input", len(src), budget)
	}
}
