package dyntpl

import (
	"bytes"
	"testing"
)

// TestAudit5 contradicts the sentence of C12:
//
//	"one with a missing, surplus or crossed closing tag, or an unterminated tag, is rejected with an error."
//
// A tag that is never terminated is only noticed when NO "%}" follows it anywhere in the rest of the template
// (parseTpl: e := bytealg.IndexAt(p.tpl, ctlClose, i)). When another tag follows, the unterminated tag swallows it up
// to that tag's "%}", the swallowed text - "{%" included - becomes part of a print / ctx / include instruction, and
// Parse reports success. Every template below has more "{%" than "%}", i.e. at least one tag without an end; in the
// second and third one the swallowed tag is a closing tag, so the visible tag sequence is additionally unbalanced
// (if, =, endif, endif / if, include, endif) and is accepted all the same.
func TestAudit5(t *testing.T) {
	for _, src := range []string{
		`{%= user.Name {%= user.Id %}`,
		`{% if a %}{%= user.Name {% endif %}{% endif %}`,
		`{% if a %}x{% endif %}{% include footer {% endif %}`,
		`{% ctx n = user.Name {% if n %}`,
	} {
		b := []byte(src)
		if o, c := bytes.Count(b, []byte("{%")), bytes.Count(b, []byte("%}")); o <= c {
			t.Fatalf("bad test input %q", src)
		}
		if _, err := Parse(b, true); err == nil {
			t.Errorf("Parse(%q) (%d tag openers, %d tag terminators):\n got: nil error\nwant: an error, one tag is never terminated", src, bytes.Count(b, []byte("{%")), bytes.Count(b, []byte("%}")))
		}
	}
}
