package dyntpl

import (
	"hash/crc64"
	"testing"
)

// TestAudit4 contradicts the sentence of C12:
//
//	"one with a missing, surplus or crossed closing tag, or an unterminated tag, is rejected with an error."
//
// (quantifier: "for all byte strings"). Parse decides by a 64-bit CRC of the body whether the template "is" one of the
// registered ones and then skips parsing altogether (parser.go, Parse: tplDB.getTreeByHash(hsum)). CRC-64 is linear
// over GF(2): for any registered template, eight filler bytes appended to an arbitrary malformed prefix that give the
// same checksum come out of a 64x64 linear system. The pair below was computed that way (filler restricted to
// printable text without '{', '}', '%', '#'). Parse accepts the malformed byte string without an error.
func TestAudit4(t *testing.T) {
	valid := []byte(`audit4 {% if user.Id == 1 %}registered and fine{% endif %}`)
	bad := []byte("audit4 {% if user.Id == 1 %}never closed, filler 4213011: `C,j!BCD") // the if is never closed
	nb := []byte("audit4 {% if user.Id == 1 %}never closed, filler 4213011: `C,j!BCE")  // neighbour, other checksum

	tab := crc64.MakeTable(crc64.ISO)
	if crc64.Checksum(valid, tab) != crc64.Checksum(bad, tab) {
		t.Skip("the hard-coded pair does not collide under this checksum any more")
	}
	if _, err := Parse(nb, true); err == nil {
		t.Fatalf("precondition: %q must be rejected", nb)
	}
	if _, err := Parse(bad, true); err == nil {
		t.Fatalf("precondition: %q must be rejected while nothing is registered", bad)
	}

	tree, err := Parse(valid, true)
	if err != nil {
		t.Fatalf("precondition: valid template rejected: %v", err)
	}
	RegisterTplKey("audit4", tree)

	if _, err = Parse(bad, true); err == nil {
		t.Fatalf("Parse(%q) (an {%% if %%} that is never closed) after a well-formed template with the same CRC-64 was registered:\n got: nil error\nwant: an error (ErrUnbalancedCtl), as before the registration and as for %q", bad, nb)
	}
}
