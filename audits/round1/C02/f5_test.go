package dyntpl

import "testing"

// Finding 5: a quoted string literal loses EVERY quote character (", ', `) at its ends, not only the pair that
// delimits it: "say 'hi'" is compared as  say 'hi  . An equal string compares unequal, a different string compares
// equal.
//
// Contradicts (C02 statement): "... the one selected by comparing the operands under the left operand's type
// (... byte-wise order for strings, equality for bytes ...), whether the operands are literals or variables".
func TestAudit5(t *testing.T) {
	render := func(name, tpl, s string) (string, error) {
		tree, err := Parse([]byte(tpl), false)
		if err != nil {
			t.Fatalf("%s: parse error %v", name, err)
		}
		RegisterTplKey("audit5/"+name, tree)
		ctx := NewCtx()
		ctx.SetString("s", s)
		out, err := Render("audit5/"+name, ctx)
		return string(out), err
	}

	// Control: quotes of the other kind inside the literal are fine.
	if got, err := render("ctl", `{% if s == "it's ok" %}T{% else %}F{% endif %}`, "it's ok"); got != "T" || err != nil {
		t.Fatalf("control: got %q err %v, want %q", got, err, "T")
	}

	cases := []struct{ name, tpl, s, want string }{
		{"if-equal", `{% if s == "say 'hi'" %}T{% else %}F{% endif %}`, "say 'hi'", "T"},
		{"if-different", `{% if s == "say 'hi'" %}T{% else %}F{% endif %}`, "say 'hi", "F"},
		{"if-literal-left", `{% if "'quoted'" == s %}T{% else %}F{% endif %}`, "'quoted'", "T"},
		{"ternary", `{%= s == "say 'hi'" ? s : nope %}`, "say 'hi'", "say 'hi'"},
		{"switch-case", `{% switch s %}{% case "say 'hi'" %}T{% default %}D{% endswitch %}`, "say 'hi'", "T"},
		{"noarg-switch-case", `{% switch %}{% case s == "say 'hi'" %}T{% default %}D{% endswitch %}`, "say 'hi'", "T"},
	}
	for _, c := range cases {
		got, err := render(c.name, c.tpl, c.s)
		if got != c.want || err != nil {
			t.Errorf("%s: template %s with s=%q: got %q err %v, want %q err <nil>", c.name, c.tpl, c.s, got, err, c.want)
		}
	}
}
