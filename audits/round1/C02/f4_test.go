package dyntpl

import "testing"

// Finding 4: a ternary print whose condition is a len()/cap() comparison always prints the FALSE alternative: the
// ternary regexp takes `len(s)` for the name of a variable, the comparison is made on a variable that does not exist.
//
// Contradicts (C02 statement): "An if/else block, a ternary print and a switch each render exactly one alternative:
// the one selected by comparing the operands", quantified over "len()/cap() conditions". The same condition in an
// if/else block selects the other branch.
func TestAudit4(t *testing.T) {
	render := func(name, tpl string) (string, error) {
		tree, err := Parse([]byte(tpl), false)
		if err != nil {
			t.Fatalf("%s: parse error %v", name, err)
		}
		RegisterTplKey("audit4/"+name, tree)
		ctx := NewCtx()
		ctx.SetString("s", "abcdef") // len 6
		ctx.SetString("a", "A")
		ctx.SetString("b", "B")
		out, err := Render("audit4/"+name, ctx)
		return string(out), err
	}

	// Control: if/else with the same condition, and a ternary on a plain variable.
	if got, err := render("ctl-if", `{% if len(s) > 3 %}{%= a %}{% else %}{%= b %}{% endif %}`); got != "A" || err != nil {
		t.Fatalf("control if/else: got %q err %v, want %q", got, err, "A")
	}

	cases := []struct{ name, tpl, want string }{
		{"len-gt", `{%= len(s) > 3 ? a : b %}`, "A"},
		{"len-eq", `{%= len(s) == 6 ? a : b %}`, "A"},
		{"cap-gtq", `{%= cap(s) >= 6 ? a : b %}`, "A"},
		{"len-lt-false", `{%= len(s) < 3 ? a : b %}`, "B"}, // passes by accident: everything is "false"
	}
	for _, c := range cases {
		got, err := render(c.name, c.tpl)
		if got != c.want || err != nil {
			t.Errorf("%s: template %s with s=\"abcdef\": got %q err %v, want %q err <nil>", c.name, c.tpl, got, err, c.want)
		}
	}
}
