package dyntpl

import "testing"

// Finding 8: a variable-vs-variable comparison whose RIGHT operand does not exist is not "false": the render fails
// with "unknown type" - but only if the condition has no else branch; with an else branch the same condition is
// silently false and the render goes on. In a switch a case naming a variable that does not exist aborts the whole
// switch: neither a later matching case nor the default is rendered. (A missing LEFT operand is quietly false.)
//
// Contradicts (C02 statement): "An if/else block ... and a switch each render exactly one alternative ...; a switch
// takes the first matching case, otherwise its default, otherwise nothing", quantified "for every sequence of
// conditions ... (including ones on missing fields)": the alternative chosen (nothing / else / later case / default)
// must be rendered and the template must go on.
func TestAudit8(t *testing.T) {
	render := func(name, tpl string) (string, error) {
		tree, err := Parse([]byte(tpl), false)
		if err != nil {
			t.Fatalf("%s: parse error %v", name, err)
		}
		RegisterTplKey("audit8/"+name, tree)
		ctx := NewCtx()
		ctx.SetStatic("x", 5)
		out, err := Render("audit8/"+name, ctx)
		return string(out), err
	}

	// Controls: the missing operand on the left, and on the right with an else branch, are plain "false".
	if got, err := render("ctl-left", `{% if nope == x %}A{% endif %}B`); got != "B" || err != nil {
		t.Fatalf("control (missing left): got %q err %v, want %q", got, err, "B")
	}
	if got, err := render("ctl-else", `{% if x == nope %}A{% else %}C{% endif %}B`); got != "CB" || err != nil {
		t.Fatalf("control (missing right, else branch): got %q err %v, want %q", got, err, "CB")
	}

	cases := []struct{ name, tpl, want string }{
		{"if-no-else", `{% if x == nope %}A{% endif %}B`, "B"},
		{"if-no-else-nq", `{% if x != nope %}A{% endif %}B`, "B"}, // "AB" would be defendable as well; an error is not
		{"switch-later-case", `{% switch x %}{% case nope %}A{% case 5 %}B{% default %}D{% endswitch %}`, "B"},
		{"switch-default", `{% switch x %}{% case nope %}A{% default %}D{% endswitch %}`, "D"},
		{"noarg-switch-later-case", `{% switch %}{% case x == nope %}A{% case x == 5 %}B{% default %}D{% endswitch %}`, "B"},
	}
	for _, c := range cases {
		got, err := render(c.name, c.tpl)
		if c.name == "if-no-else-nq" && err == nil && (got == "B" || got == "AB") {
			continue
		}
		if got != c.want || err != nil {
			t.Errorf("%s: template %s with x=5 and no variable nope: got %q err %v, want %q err <nil>", c.name, c.tpl, got, err, c.want)
		}
	}
}
