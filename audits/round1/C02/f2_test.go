package dyntpl

import "testing"

// Finding 2: in a switch without argument a case written with the one-character operators `>` or `<` is not
// recognised as a comparison; the render fails with "unknown type" and prints neither the case nor the default.
//
// Contradicts (C02 statement): "a switch takes the first matching case, otherwise its default, otherwise nothing"
// together with the quantifier "for all six comparison operators".
func TestAudit2(t *testing.T) {
	render := func(name, tpl string, x int) (string, error) {
		tree, err := Parse([]byte(tpl), false)
		if err != nil {
			t.Fatalf("%s: parse error %v", name, err)
		}
		RegisterTplKey("audit2/"+name, tree)
		ctx := NewCtx()
		ctx.SetStatic("x", x)
		out, err := Render("audit2/"+name, ctx)
		return string(out), err
	}

	// Control: the two-character operators work.
	if got, err := render("ctl", `{% switch %}{% case x >= 5 %}big{% default %}small{% endswitch %}`, 10); got != "big" || err != nil {
		t.Fatalf("control: got %q err %v, want %q", got, err, "big")
	}

	cases := []struct {
		name, tpl string
		x         int
		want      string
	}{
		{"gt-match", `{% switch %}{% case x > 5 %}big{% default %}small{% endswitch %}`, 10, "big"},
		{"gt-default", `{% switch %}{% case x > 5 %}big{% default %}small{% endswitch %}`, 1, "small"},
		{"lt-match", `{% switch %}{% case x < 5 %}small{% default %}big{% endswitch %}`, 1, "small"},
		{"gt-nospace", `{% switch %}{% case x>5 %}big{% default %}small{% endswitch %}`, 10, "big"},
		{"literal-left", `{% switch %}{% case 5 < x %}big{% default %}small{% endswitch %}`, 10, "big"},
	}
	for _, c := range cases {
		got, err := render(c.name, c.tpl, c.x)
		if got != c.want || err != nil {
			t.Errorf("%s: template %s with x=%d: got %q err %v, want %q err <nil>", c.name, c.tpl, c.x, got, err, c.want)
		}
	}
}
