package dyntpl

import "testing"

// Finding 7: a string literal operand that CONTAINS an operator character (<, >, !, = in a case; <, >, ==, != ... in an
// if) or a parenthesis is split at that character: the template is accepted by Parse, but the comparison is made on
// other operands (wrong branch) or the render fails ("unknown type" / "condition helper not found").
//
// Contradicts (C02 statement): "... render exactly one alternative: the one selected by comparing the operands under
// the left operand's type (... byte-wise order for strings ...), whether the operands are literals or variables".
func TestAudit7(t *testing.T) {
	render := func(name, tpl, s string) (string, error) {
		tree, err := Parse([]byte(tpl), false)
		if err != nil {
			t.Skipf("%s: parse error %v (a rejected template is not a finding)", name, err)
		}
		RegisterTplKey("audit7/"+name, tree)
		ctx := NewCtx()
		ctx.SetString("s", s)
		out, err := Render("audit7/"+name, ctx)
		return string(out), err
	}

	// Control.
	if got, err := render("ctl", `{% if s == "a-b" %}T{% else %}F{% endif %}`, "a-b"); got != "T" || err != nil {
		t.Fatalf("control: got %q err %v, want %q", got, err, "T")
	}

	cases := []struct{ name, tpl, s, want string }{
		{"if-gt-inside", `{% if s == "a>b" %}T{% else %}F{% endif %}`, "a>b", "T"},
		{"if-lt-inside-nq", `{% if s != "a<b" %}T{% else %}F{% endif %}`, "zzz", "T"},
		{"if-paren-inside", `{% if s == "a(b)" %}T{% else %}F{% endif %}`, "a(b)", "T"},
		{"case-bang-inside", `{% switch s %}{% case "hi!" %}T{% default %}D{% endswitch %}`, "hi!", "T"},
		{"case-bang-default", `{% switch s %}{% case "hi!" %}T{% default %}D{% endswitch %}`, "other", "D"},
	}
	for _, c := range cases {
		got, err := render(c.name, c.tpl, c.s)
		if got != c.want || err != nil {
			t.Errorf("%s: template %s with s=%q: got %q err %v, want %q err <nil>", c.name, c.tpl, c.s, got, err, c.want)
		}
	}
}
