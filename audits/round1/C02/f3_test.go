package dyntpl

import "testing"

// Finding 3: a len()/cap() condition whose other operand is a VARIABLE is always false (the name of the variable is
// handed to the numeric comparison as if it were the number), and with the literal on the LEFT it is not a len()
// condition at all (render fails with "condition helper not found").
//
// Contradicts (C02 statement): "... render exactly one alternative: the one selected by comparing the operands ...,
// whether the operands are literals or variables and whichever side the literal stands on", quantified over
// "all operand placements (var op literal, literal op var, var op var) ... len()/cap() conditions".
func TestAudit3(t *testing.T) {
	render := func(name, tpl string) (string, error) {
		tree, err := Parse([]byte(tpl), false)
		if err != nil {
			t.Fatalf("%s: parse error %v", name, err)
		}
		RegisterTplKey("audit3/"+name, tree)
		ctx := NewCtx()
		ctx.SetString("s", "abcdef") // len 6
		ctx.SetStatic("n", 3)
		ctx.SetStatic("m", 6)
		out, err := Render("audit3/"+name, ctx)
		return string(out), err
	}

	// Control: the literal on the right works.
	if got, err := render("ctl", `{% if len(s) > 3 %}T{% else %}F{% endif %}`); got != "T" || err != nil {
		t.Fatalf("control: got %q err %v, want %q", got, err, "T")
	}

	cases := []struct{ name, tpl, want string }{
		{"len-gt-var", `{% if len(s) > n %}T{% else %}F{% endif %}`, "T"},
		{"len-eq-var", `{% if len(s) == m %}T{% else %}F{% endif %}`, "T"},
		{"len-nq-var", `{% if len(s) != n %}T{% else %}F{% endif %}`, "T"},
		{"cap-gtq-var", `{% if cap(s) >= n %}T{% else %}F{% endif %}`, "T"},
		{"literal-left", `{% if 3 < len(s) %}T{% else %}F{% endif %}`, "T"},
	}
	for _, c := range cases {
		got, err := render(c.name, c.tpl)
		if got != c.want || err != nil {
			t.Errorf("%s: template %s with s=\"abcdef\", n=3, m=6: got %q err %v, want %q err <nil>", c.name, c.tpl, got, err, c.want)
		}
	}
}
