package dyntpl

import "testing"

// Finding 6: in a ternary print the condition is cut out by a second regexp (reTplTernaryCondExpr) that takes the
// LAST operator character of the whole tag. A `<`, `>` (or ==, != ...) inside one of the alternatives - for example
// in a modifier argument - becomes "the operator", the real condition becomes part of the left operand, and the
// FALSE alternative is printed whatever the operands are.
//
// Contradicts (C02 statement): "... a ternary print ... render[s] exactly one alternative: the one selected by
// comparing the operands".
func TestAudit6(t *testing.T) {
	render := func(name, tpl string, x int) (string, error) {
		tree, err := Parse([]byte(tpl), false)
		if err != nil {
			t.Fatalf("%s: parse error %v", name, err)
		}
		RegisterTplKey("audit6/"+name, tree)
		ctx := NewCtx()
		ctx.SetStatic("x", x)
		ctx.SetString("a", "A")
		ctx.SetString("b", "B")
		out, err := Render("audit6/"+name, ctx)
		return string(out), err
	}

	// Control: same ternary, the modifier argument has no operator character.
	if got, err := render("ctl", `{%= x == 1 ? a : b|default("none") %}`, 1); got != "A" || err != nil {
		t.Fatalf("control: got %q err %v, want %q", got, err, "A")
	}

	cases := []struct {
		name, tpl string
		x         int
		want      string
	}{
		{"gt-in-false-branch", `{%= x == 1 ? a : b|default("<none>") %}`, 1, "A"},
		{"gt-in-true-branch", `{%= x == 1 ? a|default("-->") : b %}`, 1, "A"},
		{"false-still-false", `{%= x == 1 ? a : b|default("<none>") %}`, 2, "B"}, // passes by accident
	}
	for _, c := range cases {
		got, err := render(c.name, c.tpl, c.x)
		if got != c.want || err != nil {
			t.Errorf("%s: template %s with x=%d a=\"A\" b=\"B\": got %q err %v, want %q err <nil>", c.name, c.tpl, c.x, got, err, c.want)
		}
	}
}
