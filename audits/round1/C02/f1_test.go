package dyntpl

import "testing"

// Finding 1: a bytes/string variable whose value is EMPTY is treated as if the variable did not exist.
//
// Contradicts (C02 statement): "... render exactly one alternative: the one selected by comparing the operands under
// the left operand's type (... equality for bytes ...)" and the quantifier "values on both sides of and exactly at the
// compared constant": with s = "" the comparison s == "" must select the true branch, s != "x" must select the true
// branch, and a switch on s must take `case ""`.
func TestAudit1(t *testing.T) {
	render := func(name, tpl string, set func(ctx *Ctx)) string {
		tree, err := Parse([]byte(tpl), false)
		if err != nil {
			t.Fatalf("%s: parse error %v", name, err)
		}
		RegisterTplKey("audit1/"+name, tree)
		ctx := NewCtx()
		set(ctx)
		out, err := Render("audit1/"+name, ctx)
		if err != nil {
			return string(out) + "<ERR " + err.Error() + ">"
		}
		return string(out)
	}
	emptyStr := func(ctx *Ctx) { ctx.SetString("s", "") }
	emptyBytes := func(ctx *Ctx) { ctx.SetBytes("s", []byte{}) }

	// Control: the same templates with a non-empty value behave.
	if got := render("ctl", `{% if s != "x" %}ne{% else %}eq{% endif %}`, func(ctx *Ctx) { ctx.SetString("s", "y") }); got != "ne" {
		t.Fatalf("control: got %q want %q", got, "ne")
	}

	cases := []struct {
		name, tpl string
		set       func(ctx *Ctx)
		want      string
	}{
		{"eq-empty", `{% if s == "" %}eq{% else %}ne{% endif %}`, emptyStr, "eq"},
		{"nq-x", `{% if s != "x" %}ne{% else %}eq{% endif %}`, emptyStr, "ne"},
		{"nq-x-literal-left", `{% if "x" != s %}ne{% else %}eq{% endif %}`, emptyStr, "ne"},
		{"ternary", `{%= s != "x" ? a : b %}`, func(ctx *Ctx) { ctx.SetString("s", ""); ctx.SetString("a", "ne"); ctx.SetString("b", "eq") }, "ne"},
		{"switch-case-empty", `{% switch s %}{% case "" %}empty{% default %}default{% endswitch %}`, emptyBytes, "empty"},
	}
	for _, c := range cases {
		if got := render(c.name, c.tpl, c.set); got != c.want {
			t.Errorf("%s: template %s with s=\"\": got %q want %q", c.name, c.tpl, got, c.want)
		}
	}
}
