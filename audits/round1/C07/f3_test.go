package dyntpl

import (
	"testing"
)

// Property C07, sentence contradicted:
//   "Everything rendered inside a jsonquote region — static text and printed values alike, except values marked
//    raw — is JSON-escaped once more than it would be outside."
//
// The region is not lexical: {% jsonquote %} pushes on a run-time stack and only an executed {% endjsonquote %}
// pops it. When control leaves the region without passing its end tag (continue / break in a loop whose body holds a
// complete, balanced region; exit in an included template), the entry stays on the stack. The next, perfectly
// balanced region then works two levels deep: its static text and its values are escaped TWICE more than outside.
func TestAudit3(t *testing.T) {
	render := func(key, src string) string {
		tree, err := Parse([]byte(src), false)
		if err != nil {
			t.Fatalf("%s: parse: %v", src, err)
		}
		RegisterTplKey(key, tree)
		ctx := NewCtx()
		ctx.SetString("s", `\`)
		out, err := Render(key, ctx)
		if err != nil {
			t.Fatalf("%s: render: %v", src, err)
		}
		return string(out)
	}

	// What one region with this body renders: `\"\\` (quote and backslash escaped once).
	ref := render("auditC07f3_ref", `{% jsonquote %}"{%= s %}{% endjsonquote %}`)
	if ref != `\"\\` {
		t.Fatalf("reference region: got %q, want %q", ref, `\"\\`)
	}

	// (a) continue inside a region that is complete inside the loop body: two iterations, the same region twice.
	srcA := `{% for i:=0; i<2; i++ %}{% jsonquote %}"{%= s %}{% if i == 0 %}{% continue %}{% endif %}{% endjsonquote %}{% endfor %}`
	if got, want := render("auditC07f3_a", srcA), ref+ref; got != want {
		t.Errorf("continue inside region:\n  tpl  %s\n  got  %q\n  want %q (every iteration escaped once)", srcA, got, want)
	}

	// (b) break inside a region of a loop, then an independent balanced region.
	srcB := `{% for i:=0; i<2; i++ %}{% jsonquote %}x{% break %}{% endjsonquote %}{% endfor %}{% jsonquote %}"{%= s %}{% endjsonquote %}`
	if got, want := render("auditC07f3_b", srcB), "x"+ref; got != want {
		t.Errorf("break inside region, then another region:\n  tpl  %s\n  got  %q\n  want %q", srcB, got, want)
	}

	// (c) an included template that ends by exit inside its own region, then a balanced region of the parent.
	inc, err := Parse([]byte(`{% jsonquote %}y{% exit %}{% endjsonquote %}`), false)
	if err != nil {
		t.Fatal(err)
	}
	RegisterTplKey("auditC07f3_inc", inc)
	srcC := `{% include auditC07f3_inc %}{% jsonquote %}"{%= s %}{% endjsonquote %}`
	if got, want := render("auditC07f3_c", srcC), "y"+ref; got != want {
		t.Errorf("exit inside region of an included template, then a region of the parent:\n  tpl  %s\n  got  %q\n  want %q", srcC, got, want)
	}
}
