package dyntpl

import (
	"encoding/json"
	"testing"
)

// Property C07, sentence contradicted:
//   "For every value, ... JSON-quote produces that literal including the quotes."
//
// The empty string is a value. When it reaches the context through the ordinary entry points for strings and
// bytes (Ctx.SetString / Ctx.SetBytes), {%q= v %} (and v|jsonQuote) prints NOTHING instead of `""`, so the
// surrounding JSON document becomes invalid ({"name":}). The same empty string given as a struct field or as
// a pointer to a Go string is printed as `""`, so the library itself agrees that `""` is the right answer.
func TestAudit1(t *testing.T) {
	const want = `{"name":""}`
	cases := []struct {
		name, src string
		setup     func(ctx *Ctx)
	}{
		{"SetString/q", `{"name":{%q= name %}}`, func(ctx *Ctx) { ctx.SetString("name", "") }},
		{"SetBytes/q", `{"name":{%q= name %}}`, func(ctx *Ctx) { ctx.SetBytes("name", []byte{}) }},
		{"SetString/jsonQuote", `{"name":{%= name|jsonQuote %}}`, func(ctx *Ctx) { ctx.SetString("name", "") }},
	}
	for i, c := range cases {
		tree, err := Parse([]byte(c.src), false)
		if err != nil {
			t.Fatalf("%s: parse: %v", c.name, err)
		}
		key := "auditC07f1_" + string(rune('a'+i))
		RegisterTplKey(key, tree)
		ctx := NewCtx()
		c.setup(ctx)
		out, err := Render(key, ctx)
		if err != nil {
			t.Fatalf("%s: render: %v", c.name, err)
		}
		if string(out) != want || !json.Valid(out) {
			t.Errorf("%s: template %s with name=\"\": got %q (valid JSON: %v), want %q",
				c.name, c.src, out, json.Valid(out), want)
		}
	}
}
