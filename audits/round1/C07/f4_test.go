package dyntpl

import (
	"encoding/json"
	"testing"
)

// Property C07, sentence contradicted (weaker finding, see findings.md):
//   "For every value, the JSON-escape directive produces text that, placed between double quotes, is a valid
//    JSON string literal decoding to the original value, and JSON-quote produces that literal including the
//    quotes; no quote, backslash or control character survives unescaped."
//   (quantifier: "... via j, q, the jsonEscape/jsonQuote modifiers ...")
//
// The modifiers take their repeat count from the first argument (that is how jj= / qq= are implemented) and accept any
// integer: with 0 or a negative number the loop body never runs and the value is printed untouched - no escaping,
// and for jsonQuote not even the quotes.
func TestAudit4(t *testing.T) {
	const val = "a\"b\\c\n"
	cases := []struct {
		src    string
		quoted bool
	}{
		{`{%= s|jsonEscape(0) %}`, false},
		{`{%= s|jsonEscape(-1) %}`, false},
		{`{%= s|jsonQuote(0) %}`, true},
		{`{%= s|jsonQuote(-1) %}`, true},
	}
	for i, c := range cases {
		tree, err := Parse([]byte(c.src), false)
		if err != nil {
			t.Fatalf("%s: parse: %v", c.src, err)
		}
		key := "auditC07f4_" + string(rune('a'+i))
		RegisterTplKey(key, tree)
		ctx := NewCtx()
		ctx.SetString("s", val)
		out, err := Render(key, ctx)
		if err != nil {
			// An error would be an acceptable answer to a senseless count as well.
			continue
		}
		lit := string(out)
		if !c.quoted {
			lit = `"` + lit + `"`
		}
		var back string
		if derr := json.Unmarshal([]byte(lit), &back); derr != nil {
			t.Errorf("%s with s=%q: got %q, want a valid JSON string (or an error); decode error: %v", c.src, val, out, derr)
		}
	}
}
