package dyntpl

import (
	"encoding/json"
	"testing"
)

// Property C07, sentences contradicted:
//   "For every value, the JSON-escape directive produces text that, placed between double quotes, is a valid
//    JSON string literal decoding to the original value, and JSON-quote produces that literal including the
//    quotes; no quote, backslash or control character survives unescaped."
//   (quantifier: "via j, q, ..."; the readme allows to "combine directives in any combinations")
//
// A j or q letter that directly follows an f / F letter written without ".<digits>" (or with digits but without the
// dot) is silently dropped by extractMods: the value is printed with no JSON escaping (and no quotes) at all.
// The same letters after "f.2" work, which shows that the directive is meant to apply.
func TestAudit2(t *testing.T) {
	const val = "a\"b\\c\n\x01"
	cases := []struct {
		src    string
		quoted bool
	}{
		{`{%fj= s %}`, false},
		{`{%Fj= s %}`, false},
		{`{%f2j= s %}`, false},
		{`{%fq= s %}`, true},
		{`{%Fq= s %}`, true},
		// control: the dotted spelling works
		{`{%f.2j= s %}`, false},
		{`{%f.2q= s %}`, true},
	}
	for i, c := range cases {
		tree, err := Parse([]byte(c.src), false)
		if err != nil {
			t.Fatalf("%s: parse: %v", c.src, err)
		}
		key := "auditC07f2_" + string(rune('a'+i))
		RegisterTplKey(key, tree)
		ctx := NewCtx()
		ctx.SetString("s", val)
		out, err := Render(key, ctx)
		if err != nil {
			t.Fatalf("%s: render: %v", c.src, err)
		}
		lit := string(out)
		if !c.quoted {
			lit = `"` + lit + `"`
		}
		var back string
		if derr := json.Unmarshal([]byte(lit), &back); derr != nil || back != val {
			wantLit, _ := json.Marshal(val)
			t.Errorf("%s with s=%q: got %q, want a JSON string (body) decoding to s, e.g. %s; decode error: %v",
				c.src, val, out, wantLit, derr)
		}
	}
}
