package dyntpl

import (
	"fmt"
	"testing"
)

// Property C11, sentence: "Modifiers chained with '|' run from left to right before any escape letter, each receiving
// the previous result together with its own arguments".
//
// The library has two spellings for the first modifier of a print tag: `{%= num|math::abs() %}` and the call form
// `{%= math::abs(num) %}` (both documented in init.go). The call form works alone and with escape letters, but as soon
// as another modifier is chained to it with '|', extractMods (parser.go) stops recognising it (`modNoVar` requires
// `!hasVline`, the loop over the chunks starts at index 1) and treats the text `math::abs(num)` as a VARIABLE NAME:
// the first modifier of the chain never runs, the rest of the chain receives nil.
func TestAudit4(t *testing.T) {
	render := func(key, tpl string) string {
		tree, err := Parse([]byte(tpl), false)
		if err != nil {
			t.Fatal(err)
		}
		RegisterTplKey(key, tree)
		ctx := NewCtx()
		ctx.SetStatic("n", -3.7)
		b, err := Render(key, ctx)
		if err != nil {
			t.Errorf("%s: unexpected error %v", tpl, err)
		}
		return string(b)
	}

	cases := []struct{ tpl, want string }{
		// Sanity: these three pass.
		{`{%= math::abs(n) %}`, "3.7"},
		{`{%u= math::abs(n) %}`, "3.7"},
		{`{%= n|math::abs()|round %}`, "4"},
		// The same chain, first modifier in the call form.
		{`{%= math::abs(n)|round %}`, "4"},
		{`{%= math::abs(n)|math::add(1) %}`, "4.7"},
		{`{%= math::abs(n)|default(1) %}`, "3.7"},
	}
	for i, c := range cases {
		if got := render(fmt.Sprintf("audit4_%d", i), c.tpl); got != c.want {
			t.Errorf("%s: got %q, want %q", c.tpl, got, c.want)
		}
	}
}
