package dyntpl

import (
	"fmt"
	"testing"
)

// Property C11, sentence: "Modifiers chained with '|' run from left to right before any escape letter, each receiving
// the previous result together with its own arguments".
//
// The chunks between the '|' are not trimmed (parser.go, extractMods). With a blank before '|' the variable name keeps
// a trailing blank ("x " is not a variable -> nil), with a blank after '|' or between the name and '(' the modifier
// name keeps the blank, GetModFn finds nothing and the modifier is silently dropped (`if fn == nil { continue }`).
// The template is accepted, renders without error, and the modifier did not run / the value is lost.
func TestAudit7(t *testing.T) {
	render := func(key, tpl string) string {
		tree, err := Parse([]byte(tpl), false)
		if err != nil {
			t.Fatalf("%s: %v", tpl, err)
		}
		RegisterTplKey(key, tree)
		ctx := NewCtx()
		ctx.SetStatic("lt", "<")
		b, err := Render(key, ctx)
		if err != nil {
			t.Errorf("%s: unexpected error %v", tpl, err)
		}
		return string(b)
	}

	cases := []struct{ tpl, want string }{
		// Sanity: pass.
		{`{%= lt|he %}`, "&lt;"},
		{`{%= x|default("d")|jq %}`, `"d"`},
		// The same with blanks around '|' or before '('.
		{`{%= lt | he %}`, "&lt;"},
		{`{%= lt| he %}`, "&lt;"},
		{`{%= lt |he %}`, "&lt;"},
		{`{%= x|default ("d") %}`, "d"},
		{`{%= x|default("d") | jq %}`, `"d"`},
	}
	for i, c := range cases {
		if got := render(fmt.Sprintf("audit7_%d", i), c.tpl); got != c.want {
			t.Errorf("%s: got %q, want %q", c.tpl, got, c.want)
		}
	}
}
