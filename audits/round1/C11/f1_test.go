package dyntpl

import (
	"fmt"
	"testing"
)

// Property C11, sentence: "default substitutes its argument exactly when the incoming value is empty
// (missing, nil, zero, false or of zero length)".
//
// A nil pointer of a scalar type (*string, *int, *bool, *float64, *[]byte ...) is a nil value. default must replace it
// by its argument. Instead EmptyCheck (empty_check.go) sees a non-nil interface, walks over the registered checks and
// the Conv* helpers (conv.go) dereference the typed nil pointer: the render panics.
func TestAudit1(t *testing.T) {
	tree, err := Parse([]byte(`{%= p|default("dflt") %}`), false)
	if err != nil {
		t.Fatal(err)
	}
	RegisterTplKey("audit1", tree)

	render := func(v any) (out string, err error) {
		defer func() {
			if r := recover(); r != nil {
				err = fmt.Errorf("PANIC: %v", r)
			}
		}()
		ctx := NewCtx()
		ctx.SetStatic("p", v)
		b, err := Render("audit1", ctx)
		return string(b), err
	}

	cases := []struct {
		name string
		val  any
	}{
		{"(*string)(nil)", (*string)(nil)},
		{"(*int)(nil)", (*int)(nil)},
		{"(*uint64)(nil)", (*uint64)(nil)},
		{"(*float64)(nil)", (*float64)(nil)},
		{"(*bool)(nil)", (*bool)(nil)},
		{"(*[]byte)(nil)", (*[]byte)(nil)},
	}
	for _, c := range cases {
		got, err := render(c.val)
		if err != nil || got != "dflt" {
			t.Errorf("p = %s: got %q (err: %v), want %q", c.name, got, err, "dflt")
		}
	}
}
