package dyntpl

import (
	"fmt"
	"testing"
)

// Property C11, sentence: "Modifiers chained with '|' run from left to right ..., each receiving the previous result
// together with its own arguments, which may be literals, variables or key-value groups".
//
// A quoted literal is not tokenised as a unit. extractMods splits the whole tag at every '|' (bytes.Split(t, vline)),
// reMod ends the argument list at the first ')', extractArgs splits at every ',' and a key-value pair at every ':',
// and processCtl looks for the words " prefix "/" suffix " in the whole tag - all of that also INSIDE quotes.
// The template is accepted, but the modifier receives a torn argument (that is then looked up as a variable -> nil),
// or none at all, and in the " prefix " case even a value that IS set is printed with garbage around it.
func TestAudit5(t *testing.T) {
	RegisterModFn("audit5Args", "", func(ctx *Ctx, buf *any, _ any, args []any) error {
		// Prints the arguments it got: positional as <v>, key-value as <k=v>.
		ctx.BufAcc.StakeOut()
		for _, a := range args {
			if kv, ok := a.(*KV); ok {
				ctx.BufAcc.WriteByte('<').Write(kv.K).WriteByte('=').WriteX(kv.V).WriteByte('>')
			} else {
				ctx.BufAcc.WriteByte('<').WriteX(a).WriteByte('>')
			}
		}
		ctx.BufModOut(buf, ctx.BufAcc.StakedBytes())
		return nil
	})

	render := func(key, tpl string) string {
		tree, err := Parse([]byte(tpl), false)
		if err != nil {
			t.Fatalf("%s: %v", tpl, err)
		}
		RegisterTplKey(key, tree)
		ctx := NewCtx()
		ctx.SetStatic("name", "Bob")
		b, err := Render(key, ctx)
		if err != nil {
			t.Errorf("%s: unexpected error %v", tpl, err)
		}
		return string(b)
	}

	cases := []struct{ tpl, want string }{
		// Sanity: pass.
		{`{%= x|default("a-b") %}`, "a-b"},
		{`{%= x|audit5Args("p", {k: "v"}) %}`, "<p><k=v>"},
		// Literals with the characters the parser splits at.
		{`{%= x|default("a|b") %}`, "a|b"},
		{`{%= x|default("a,b") %}`, "a,b"},
		{`{%= x|default("f(x)") %}`, "f(x)"},
		{`{%= x|audit5Args({url: "http://a"}) %}`, "<url=http://a>"},
		// The value is set here: default must not do anything at all.
		{`{%= name|default("no prefix given") %}`, "Bob"},
	}
	for i, c := range cases {
		if got := render(fmt.Sprintf("audit5_%d", i), c.tpl); got != c.want {
			t.Errorf("%s: got %q, want %q", c.tpl, got, c.want)
		}
	}
}
