package dyntpl

import (
	"fmt"
	"testing"
)

// Property C11, sentence: "... each receiving the previous result together with its own arguments, which may be
// literals ..."; "default substitutes its argument exactly when the incoming value is empty".
//
// extractArgs (parser.go) removes the quotes of a literal with bytealg.Trim(a, quotes) where quotes is the SET "\"'`":
// every quote character of any kind is cut from both ends, not just the one pair of delimiters. A literal that starts
// or ends with a quote character of the other kind loses it, a literal that consists of quote characters becomes
// empty. What default substitutes is then not "its argument".
func TestAudit6(t *testing.T) {
	render := func(key, tpl string) string {
		tree, err := Parse([]byte(tpl), false)
		if err != nil {
			t.Fatalf("%s: %v", tpl, err)
		}
		RegisterTplKey(key, tree)
		b, err := Render(key, NewCtx())
		if err != nil {
			t.Errorf("%s: unexpected error %v", tpl, err)
		}
		return string(b)
	}

	cases := []struct{ tpl, want string }{
		// Sanity: a quote of the other kind in the middle is kept, passes.
		{`{%= x|default("it's") %}`, `it's`},
		// Quote characters at the ends of the literal.
		{`{%= x|default('say "hi"') %}`, `say "hi"`},
		{`{%= x|default("'quoted'") %}`, `'quoted'`},
		{`{%= x|default("'") %}`, `'`},
		{"{%= x|default(\"`ls`\") %}", "`ls`"},
	}
	for i, c := range cases {
		if got := render(fmt.Sprintf("audit6_%d", i), c.tpl); got != c.want {
			t.Errorf("%s: got %q, want %q", c.tpl, got, c.want)
		}
	}
}
