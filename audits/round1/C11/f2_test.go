package dyntpl

import (
	"fmt"
	"testing"

	"github.com/koykov/inspector/testobj"
	"github.com/koykov/inspector/testobj_ins"
)

// Property C11, sentence: "default substitutes its argument exactly when the incoming value is empty
// (missing, nil, zero, false or of zero length)".
//
// The registered empty checks know ints, uints, floats, bool, string, []byte, []string and [][]byte only. A nil pointer
// to a struct (user.Permission), a nil map (user.Flags), a slice of zero length of any other element type
// (user.Finance.History, []int{}) and an empty map are not recognised as empty: default keeps them and the print tag
// then fails with "unknown type" instead of writing the default.
func TestAudit2(t *testing.T) {
	render := func(key, tpl string, set func(ctx *Ctx)) (out string, err error) {
		defer func() {
			if r := recover(); r != nil {
				err = fmt.Errorf("PANIC: %v", r)
			}
		}()
		tree, err := Parse([]byte(tpl), false)
		if err != nil {
			return "", err
		}
		RegisterTplKey(key, tree)
		ctx := NewCtx()
		set(ctx)
		b, err := Render(key, ctx)
		return string(b), err
	}

	// Permission is a nil pointer, Flags a nil map, Finance.History a slice of zero length.
	usr := &testobj.TestObject{Id: "1", Finance: &testobj.TestFinance{}}
	withUser := func(ctx *Ctx) { ctx.Set("user", usr, testobj_ins.TestObjectInspector{}) }

	cases := []struct {
		tpl string
		set func(ctx *Ctx)
	}{
		{`{%= user.Permission|default("none") %}`, withUser},
		{`{%= user.Flags|default("none") %}`, withUser},
		{`{%= user.Finance.History|default("none") %}`, withUser},
		{`{%= list|default("none") %}`, func(ctx *Ctx) { ctx.SetStatic("list", []int{}) }},
		{`{%= dict|default("none") %}`, func(ctx *Ctx) { ctx.SetStatic("dict", map[string]int{}) }},
	}
	for i, c := range cases {
		got, err := render(fmt.Sprintf("audit2_%d", i), c.tpl, c.set)
		if err != nil || got != "none" {
			t.Errorf("%s: got %q (err: %v), want %q", c.tpl, got, err, "none")
		}
	}
}
