package dyntpl

import (
	"fmt"
	"testing"
)

// Property C11, sentence: "Modifiers chained with '|' run from left to right ..., each receiving the previous result
// together with its own arguments" (quantifier: "built-in and harness-registered modifiers").
//
// writeNode hands the modifier a pointer to ctx.bufX as its output cell (dyntpl.go, typeTpl: `ctx.bufX = raw;
// mod_.fn(ctx, &ctx.bufX, ctx.bufX, ctx.bufA); raw = ctx.bufX`). The public Ctx.Get uses the very same ctx.bufX as
// its scratch cell. A registered modifier that only LOOKS at another context variable (the ModFn doc says "ctx provides
// access to additional variables") and leaves its buf untouched - i.e. a pass-through - therefore replaces the piped
// value by the variable it looked at (or by nil when that variable does not exist): the next modifier and the output
// get the wrong value.
func TestAudit3(t *testing.T) {
	RegisterModFn("audit3Peek", "", func(ctx *Ctx, _ *any, _ any, args []any) error {
		// Read-only look at another variable, result is not used. The modifier doesn't touch buf.
		_ = ctx.Get("other")
		return nil
	})
	RegisterModFn("audit3PeekMissing", "", func(ctx *Ctx, _ *any, _ any, args []any) error {
		_ = ctx.Get("noSuchVariable")
		return nil
	})
	RegisterModFn("audit3Wrap", "", func(ctx *Ctx, buf *any, val any, _ []any) error {
		s := ctx.BufAcc.StakeOut().WriteByte('[').WriteX(val).WriteByte(']').StakedString()
		ctx.BufModStrOut(buf, s)
		return nil
	})

	render := func(key, tpl string) string {
		tree, err := Parse([]byte(tpl), false)
		if err != nil {
			t.Fatal(err)
		}
		RegisterTplKey(key, tree)
		ctx := NewCtx()
		ctx.SetStatic("x", "X")
		ctx.SetStatic("other", "OTHER")
		b, err := Render(key, ctx)
		if err != nil {
			t.Errorf("%s: unexpected error %v", tpl, err)
		}
		return string(b)
	}

	cases := []struct{ tpl, want string }{
		{`{%= x|audit3Wrap %}`, "[X]"}, // sanity, passes
		{`{%= x|audit3Peek %}`, "X"},
		{`{%= x|audit3Peek|audit3Wrap %}`, "[X]"},
		{`{%h= x|audit3PeekMissing|default("dflt") %}`, "X"},
	}
	for i, c := range cases {
		if got := render(fmt.Sprintf("audit3_%d", i), c.tpl); got != c.want {
			t.Errorf("%s: got %q, want %q", c.tpl, got, c.want)
		}
	}
}
