package dyntpl

import (
	"fmt"
	"testing"
)

// Property C11, sentence: "... each receiving the previous result together with its own arguments, which may be
// literals, variables or key-value groups; default substitutes its argument ...".
//
// extractArgs (parser.go) strips the quotes of a literal and THEN asks `GetGlobal(a.val) != nil`; writeNode checks
// arg.global before arg.static. A quoted literal whose text happens to equal the name of a registered global
// ("time::Kitchen", or any application global) is therefore not passed as the literal but replaced by the value of the
// global: default substitutes something that is not its argument.
func TestAudit8(t *testing.T) {
	RegisterGlobal("Admin", "", "root@example.com")

	render := func(key, tpl string) string {
		tree, err := Parse([]byte(tpl), false)
		if err != nil {
			t.Fatalf("%s: %v", tpl, err)
		}
		RegisterTplKey(key, tree)
		b, err := Render(key, NewCtx())
		if err != nil {
			t.Errorf("%s: unexpected error %v", tpl, err)
		}
		return string(b)
	}

	cases := []struct{ tpl, want string }{
		// Sanity: the unquoted name is a reference to the global, the quoted text is a literal. Pass.
		{`{%= role|default(Admin) %}`, "root@example.com"},
		{`{%= role|default("Guest") %}`, "Guest"},
		// Quoted literals that equal the name of a global.
		{`{%= role|default("Admin") %}`, "Admin"},
		{`{%= layout|default("time::Kitchen") %}`, "time::Kitchen"},
	}
	for i, c := range cases {
		if got := render(fmt.Sprintf("audit8_%d", i), c.tpl); got != c.want {
			t.Errorf("%s: got %q, want %q", c.tpl, got, c.want)
		}
	}
}
