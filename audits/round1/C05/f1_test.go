package dyntpl

import (
	"testing"
)

// TestAudit1 contradicts the first sentence of property C05:
//
//	"A context that has been reset or returned to the pool is observationally identical to a newly
//	 created one: ... the next render produces exactly the output and error a fresh context would."
//
// {% ctx x = c %} with a counter c stores in x the POINTER &ctx.vars[i].cntr that Ctx.get() hands out, i.e. a
// pointer into the context's variable array. Whether x keeps following c afterwards depends on whether a later
// Set*() has to grow (reallocate) ctx.vars - and that depends on the capacity the array got in EARLIER renders,
// which Reset() keeps. A new context prints 5, a reset one prints 6.
func TestAudit1(t *testing.T) {
	const key = "audit1"
	tree, err := Parse([]byte(`{% counter c = 5 %}{% ctx x = c %}{% counter c++ %}{%= x %}`), false)
	if err != nil {
		t.Fatal(err)
	}
	RegisterTplKey(key, tree)

	// New context.
	want, wantErr := Render(key, NewCtx())

	// Context that served an earlier render with three variables and has been reset.
	ctx := NewCtx()
	ctx.SetStatic("a", 1).SetStatic("b", 2).SetStatic("d", 3)
	if _, err := Render(key, ctx); err != nil {
		t.Fatal(err)
	}
	ctx.Reset()
	got, gotErr := Render(key, ctx)

	if string(got) != string(want) || gotErr != wantErr {
		t.Errorf("reset context: got %q (err %v), want %q (err %v) as rendered with a new context", got, gotErr, want, wantErr)
	}

	// The same through the pool.
	pctx := AcquireCtx()
	pctx.SetStatic("a", 1).SetStatic("b", 2).SetStatic("d", 3)
	ReleaseCtx(pctx)
	pctx = AcquireCtx()
	got, gotErr = Render(key, pctx)
	ReleaseCtx(pctx)
	if string(got) != string(want) || gotErr != wantErr {
		t.Errorf("pooled context: got %q (err %v), want %q (err %v) as rendered with a new context", got, gotErr, want, wantErr)
	}
}
