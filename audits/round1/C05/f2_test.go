package dyntpl

import (
	"testing"
)

// TestAudit2 contradicts the first sentence of property C05:
//
//	"... whatever was rendered with it before ... the next render produces exactly the output and error a
//	 fresh context would."
//
// The variable of a counter loop is a pointer into ctx.bufLC (cloop.go: ctx.SetStatic(loopCnt, &ctx.bufLC[idxLC])).
// {% ctx x = i %} copies that pointer into x. A nested loop appends to ctx.bufLC; in a new context this reallocates
// the buffer, so x keeps pointing to the abandoned array and shows the value of i at the moment of the assignment.
// In a context whose bufLC got enough capacity in an earlier render (Reset() only truncates it) nothing moves and x
// follows the increments of i. New context: ";0;1;", reset context: ";1;2;".
func TestAudit2(t *testing.T) {
	reg := func(key, src string) {
		tree, err := Parse([]byte(src), false)
		if err != nil {
			t.Fatal(err)
		}
		RegisterTplKey(key, tree)
	}
	reg("audit2", `{% for i:=0; i<3; i++ %}{%= x %};{% ctx x = i %}{% for j:=0; j<1; j++ %}{% endfor %}{% endfor %}`)
	// Any earlier template with a couple of loops.
	reg("audit2warm", `{% for i:=0; i<2; i++ %}{% for j:=0; j<2; j++ %}{% for k:=0; k<2; k++ %}.{% endfor %}{% endfor %}{% endfor %}`)

	want, wantErr := Render("audit2", NewCtx())

	ctx := NewCtx()
	if _, err := Render("audit2warm", ctx); err != nil {
		t.Fatal(err)
	}
	ctx.Reset()
	got, gotErr := Render("audit2", ctx)

	if string(got) != string(want) || gotErr != wantErr {
		t.Errorf("reset context: got %q (err %v), want %q (err %v) as rendered with a new context", got, gotErr, want, wantErr)
	}
}
