package dyntpl

import (
	"testing"
)

// TestAudit3 contradicts the first sentence of property C05 ("... the next render produces exactly the output
// and error a fresh context would").
//
// Ctx.get() returns for a bytes variable the pointer &ctx.vars[i].buf - the address of a slice header that lives
// inside the context's variable array. A modifier that keeps its argument (the built-in testns::modCB does:
// ctx.SetStatic("testVar", args[0])) thereby stores a pointer into ctx.vars. In a new context the SetStatic itself
// reallocates ctx.vars, the stored pointer refers to the abandoned array: after {% ctx b = "xy" %} it still sees the
// old header (old length) over the overwritten bytes: "xyllo". In a reset context with spare slots nothing moves
// and the variable reads "xy".
func TestAudit3(t *testing.T) {
	const key = "audit3"
	tree, err := Parse([]byte(`{%= b|testns::modCB(b) %};{% ctx b = "xy" %}{%= testVar %}`), false)
	if err != nil {
		t.Fatal(err)
	}
	RegisterTplKey(key, tree)

	fresh := NewCtx()
	fresh.SetString("b", "hello")
	want, wantErr := Render(key, fresh)

	ctx := NewCtx()
	ctx.SetStatic("a", 1).SetStatic("c", 2).SetStatic("d", 3)
	ctx.Reset()
	ctx.SetString("b", "hello")
	got, gotErr := Render(key, ctx)

	if string(got) != string(want) || gotErr != wantErr {
		t.Errorf("reset context: got %q (err %v), want %q (err %v) as rendered with a new context", got, gotErr, want, wantErr)
	}
}
