package dyntpl

import "testing"

// Property C16, sentence 1: "An include tag renders the first registered template among its listed names".
// Two blanks between two names make the parser put an EMPTY name into the list (parser.go: bytes.Split(m[1], " ")).
// If a template is registered under the empty key (RegisterTplKey("", ...) is accepted), the include renders it,
// although the empty name is not listed, instead of the registered name that follows.
func TestAudit4(t *testing.T) {
	parse := func(src string) *Tree {
		tree, err := Parse([]byte(src), false)
		if err != nil {
			t.Fatalf("parse %q: %v", src, err)
		}
		return tree
	}
	RegisterTplKey("", parse("EMPTY-KEY"))
	RegisterTplKey("aud4_sub", parse("SUB"))
	RegisterTplKey("aud4_host", parse("[{% include aud4_nosuch  aud4_sub %}]"))

	got, err := Render("aud4_host", NewCtx())
	if err != nil || string(got) != "[SUB]" {
		t.Errorf("got %q, err %v; want %q, err <nil>", got, err, "[SUB]")
	}
}
