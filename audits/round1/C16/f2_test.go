package dyntpl

import "testing"

// Property C16, sentence 1: "An include tag renders ... template ... exactly as if that template's source stood in place
// of the tag".
// Parse(src, keepFmt=false) trims blanks and tabs from both ends of the WHOLE source (parser.go cutFmt():
// bytealg.Trim(p.tpl, " \t\n")). For an included template these blanks are in the middle of the output, not at its
// ends, so the include differs from the textually inlined template (parsed with the very same keepFmt=false).
func TestAudit2(t *testing.T) {
	const sub = "Hello, "
	const hostInc = "<p>{% include aud2_greet %}{%= name %}!</p>"
	const hostInl = "<p>" + sub + "{%= name %}!</p>"

	reg := func(key, src string) {
		tree, err := Parse([]byte(src), false)
		if err != nil {
			t.Fatalf("parse %q: %v", src, err)
		}
		RegisterTplKey(key, tree)
	}
	reg("aud2_greet", sub)
	reg("aud2_inc", hostInc)
	reg("aud2_inl", hostInl)

	render := func(key string) string {
		ctx := NewCtx()
		ctx.SetString("name", "World")
		b, err := Render(key, ctx)
		if err != nil {
			t.Fatalf("render %s: %v", key, err)
		}
		return string(b)
	}
	want := render("aud2_inl") // "<p>Hello, World!</p>"
	got := render("aud2_inc")  // "<p>Hello,World!</p>"
	if got != want {
		t.Errorf("include differs from inlined source: got %q, want %q", got, want)
	}
}
