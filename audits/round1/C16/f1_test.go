package dyntpl

import "testing"

// Property C16, sentence 1: "An include tag renders the first registered template among its listed names ...
// and fails with template-not-found when none is registered."
// Here one of the listed names IS registered, but the name list is written over two lines (the usual way to format a
// long tag). The parser accepts the template; the render fails with ErrTplNotFound:
//   - keepFmt=false: cutFmt() deletes "\n\t" WITHOUT leaving a separator, the two names are glued to one
//     ("aud1_nosuchaud1_sub");
//   - keepFmt=true: reInc's "(.*)" stops at the newline, every name after it is silently dropped;
//   - a tab between two names is not a separator at all (bytes.Split(m[1], " ")).
func TestAudit1(t *testing.T) {
	sub, err := Parse([]byte("SUB"), false)
	if err != nil {
		t.Fatal(err)
	}
	RegisterTplKey("aud1_sub", sub)

	for _, c := range []struct {
		name    string
		src     string
		keepFmt bool
	}{
		{"newline+tab, keepFmt=false", "[{% include aud1_nosuch\n\taud1_sub %}]", false},
		{"newline, keepFmt=true", "[{% include aud1_nosuch\naud1_sub %}]", true},
		{"tab, keepFmt=true", "[{% include aud1_nosuch\taud1_sub %}]", true},
	} {
		tree, err := Parse([]byte(c.src), c.keepFmt)
		if err != nil {
			// A rejected template would not be a finding.
			t.Logf("%s: parser rejects: %v", c.name, err)
			continue
		}
		RegisterTplKey("aud1_host", tree)
		got, err := Render("aud1_host", NewCtx())
		if err != nil || string(got) != "[SUB]" {
			t.Errorf("%s: src %q: got %q, err %v; want %q, err <nil> (aud1_sub is listed and registered)", c.name, c.src, got, err, "[SUB]")
		}
	}
}
