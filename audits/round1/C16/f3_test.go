package dyntpl

import "testing"

// Property C16, sentence 1: "An include tag renders the first registered template among its listed names".
// The name "aud3_old" was registered with template A and never re-registered. A later RegisterTpl() with the same ID
// but ANOTHER key reuses the slot (db.set -> getIdxLF finds the slot by ID) and leaves idxKey["aud3_old"] pointing to
// it. getBKeys() resolves include names through idxKey, so {% include aud3_old ... %} renders the template that was
// registered under the name "aud3_new": neither the template registered as aud3_old, nor (if one regards the old name
// as gone) the next registered name of the list.
func TestAudit3(t *testing.T) {
	parse := func(src string) *Tree {
		tree, err := Parse([]byte(src), false)
		if err != nil {
			t.Fatalf("parse %q: %v", src, err)
		}
		return tree
	}
	RegisterTpl(991603, "aud3_old", parse("A-registered-as-old"))
	RegisterTplKey("aud3_fallback", parse("FALLBACK"))
	RegisterTpl(991603, "aud3_new", parse("B-registered-as-new"))
	RegisterTplKey("aud3_host", parse("[{% include aud3_old aud3_fallback %}]"))

	got, err := Render("aud3_host", NewCtx())
	if err != nil {
		t.Fatalf("render: %v", err)
	}
	if s := string(got); s != "[A-registered-as-old]" && s != "[FALLBACK]" {
		t.Errorf("got %q; want %q (template registered under the listed name) or at least %q (next listed name); "+
			"the rendered template was registered under the name aud3_new, which is not in the list",
			s, "[A-registered-as-old]", "[FALLBACK]")
	}
}
