package dyntpl

import (
	"fmt"
	"testing"
	"time"
)

// Property C20: "the arithmetic modifiers return the float64 result of the named operation on value and argument",
// "adding a duration of fixed-length units yields the instant plus that duration".
//
// The result is returned as a pointer to the context's single scratch cell (ctx.BufF / ctx.BufT). When the result is
// kept ({% ctx y = x|math::add(1) %}), the variable holds that pointer, and the next arithmetic (time::add) modifier
// of the rendering overwrites it: y no longer is x+1.
func TestAudit4(t *testing.T) {
	render := func(tpl string, vars map[string]any) (s string) {
		defer func() {
			if r := recover(); r != nil {
				s = fmt.Sprintf("PANIC: %v", r)
			}
		}()
		key := fmt.Sprintf("audit4_%x", tpl)
		tree, err := Parse([]byte(tpl), false)
		if err != nil {
			return "PARSE ERROR: " + err.Error()
		}
		RegisterTplKey(key, tree)
		ctx := NewCtx()
		for k, v := range vars {
			ctx.SetStatic(k, v)
		}
		b, err := Render(key, ctx)
		if err != nil {
			return "RENDER ERROR: " + err.Error()
		}
		return string(b)
	}
	got := render(`{% ctx y = x|math::add(1) %}{%= z|math::mul(2) %};{%= y %}`, map[string]any{"x": 1.0, "z": 5.0})
	if want := "10;2"; got != want {
		t.Errorf("math::add kept in a variable: got %q, want %q", got, want)
	}
	got = render(`{% ctx y = math::add(x, 1) %}{% ctx w = math::sub(x, 1) %}{%= y %};{%= w %}`, map[string]any{"x": 1.0})
	if want := "2;0"; got != want {
		t.Errorf("two results kept in two variables: got %q, want %q", got, want)
	}
	dt := time.Date(2012, 2, 27, 20, 4, 26, 0, time.UTC)
	got = render(`{% ctx y = d|time::add("+1 day") %}{%= d|time::add("+2 days")|time::date("%d") %};{%= y|time::date("%d") %}`,
		map[string]any{"d": dt})
	if want := "29;28"; got != want {
		t.Errorf("time::add kept in a variable: got %q, want %q", got, want)
	}
}
