package dyntpl

import (
	"fmt"
	"testing"
	"time"
)

// Property C20, last clause: "adding a duration of fixed-length units yields the instant plus that duration"
// (quantifier: every documented fixed-length unit spelling, sign and spacing; boundary values).
//
// (a) A zero amount ("+0 days", "0 s") is a duration of fixed-length units; the instant plus zero is the instant.
//     modDateAdd hands the text to clock.Relative, which refuses n == 0 with ErrBadNum; modDateAdd returns that error
//     and the tag prints NOTHING (Render reports no error either).
// (b) The amount goes through time.Duration (int64 nanoseconds, about 292 years). "+110000 days" (301 years)
//     overflows silently inside clock.Relative and modDateAdd adds the wrapped value: the result lies 283 years in the
//     PAST of the instant. time.Time.AddDate / repeated Add would give the right instant.
func TestAudit8(t *testing.T) {
	render := func(tpl string, vars map[string]any) (s string) {
		defer func() {
			if r := recover(); r != nil {
				s = fmt.Sprintf("PANIC: %v", r)
			}
		}()
		key := fmt.Sprintf("audit8_%x", tpl)
		tree, err := Parse([]byte(tpl), false)
		if err != nil {
			return "PARSE ERROR: " + err.Error()
		}
		RegisterTplKey(key, tree)
		ctx := NewCtx()
		for k, v := range vars {
			ctx.SetStatic(k, v)
		}
		b, err := Render(key, ctx)
		if err != nil {
			return "RENDER ERROR: " + err.Error()
		}
		return string(b)
	}
	dt := time.Date(2012, 2, 29, 20, 4, 26, 0, time.UTC)
	const lay = "%Y-%m-%d %H:%M:%S"
	cases := []struct {
		arg  string
		want time.Time
	}{
		{"+1 day", dt.Add(24 * time.Hour)}, // passes
		{"+0 days", dt},
		{"-0 s", dt},
		{"0 weeks", dt},
		{"+1 day 0 hours", dt.Add(24 * time.Hour)},
		{"+100000 days", dt.AddDate(0, 0, 100000)}, // passes (273 years)
		{"+110000 days", dt.AddDate(0, 0, 110000)}, // got 1728-10-11 ...
		{"+16000 weeks", dt.AddDate(0, 0, 7*16000)},
		{"-3000000 hours", dt.AddDate(0, 0, -125000)},
	}
	for _, c := range cases {
		want := c.want.Format("2006-01-02 15:04:05")
		got := render(`{%= d|time::add("`+c.arg+`")|time::date("`+lay+`") %}`, map[string]any{"d": dt})
		if got != want {
			t.Errorf("time::add(%q): got %q, want %q", c.arg, got, want)
		}
	}
}
