package dyntpl

import (
	"fmt"
	"testing"
)

// Property C20, first sentence: rounding is "exact at the requested number of decimals", "precisions 1..15".
//
// A value that has ONE decimal and is exactly representable in binary (147574.5 = 295149/2) is already rounded at
// any number of decimals >= 1, whatever the direction. With 15 decimals the directives change it, and in the wrong
// direction: ceil returns a smaller value, floor a greater one.
func TestAudit2(t *testing.T) {
	render := func(tpl string, vars map[string]any) (s string) {
		defer func() {
			if r := recover(); r != nil {
				s = fmt.Sprintf("PANIC: %v", r)
			}
		}()
		key := fmt.Sprintf("audit2_%x", tpl)
		tree, err := Parse([]byte(tpl), false)
		if err != nil {
			return "PARSE ERROR: " + err.Error()
		}
		RegisterTplKey(key, tree)
		ctx := NewCtx()
		for k, v := range vars {
			ctx.SetStatic(k, v)
		}
		b, err := Render(key, ctx)
		if err != nil {
			return "RENDER ERROR: " + err.Error()
		}
		return string(b)
	}
	cases := []struct {
		tpl  string
		x    float64
		want string
	}{
		{`{%F.15= x %}`, 147574.5, "147574.5"},           // got 147574.49999999997: "rounded up" below the input
		{`{%= x|ceilPrec(15) %}`, 147574.5, "147574.5"},  // same through the modifier
		{`{%= x|roundPrec(15) %}`, 147574.5, "147574.5"}, // got 147574.49999999997
		{`{%f.15= x %}`, 147575.5, "147575.5"},           // got 147575.50000000003: "rounded down" above the input
		{`{%= x|floorPrec(15) %}`, 147575.5, "147575.5"},
		{`{%= x|floorPrec(15) %}`, 3279.2809615055885, "3279.2809615055885"}, // 13 decimals; got 3279.280961505589
		{`{%= x|ceilPrec(8) %}`, 2.1636837490167116e+14, "216368374901671.16"},
	}
	for _, c := range cases {
		if got := render(c.tpl, map[string]any{"x": c.x}); got != c.want {
			t.Errorf("%s with x=%v: got %q, want %q", c.tpl, c.x, got, c.want)
		}
	}
}
