package dyntpl

import (
	"fmt"
	"strconv"
	"testing"
)

// Property C20, first sentence: "The rounding directives and modifiers return the value rounded down, up,
// toward zero ... exact at the requested number of decimals" (quantifier: "values at rounding boundaries",
// "precision vs. binary representation").
//
// floorPrec returns a value GREATER than its input, ceilPrec a value SMALLER than its input, roundPrec (toward zero)
// a value farther from zero than its input, when value*10^prec rounds (in float64) onto the next integer.
// The inputs are ordinary results of float arithmetic: 0.1+0.7 = 0.7999999999999999, 1.1+2.2 = 3.3000000000000003.
func TestAudit1(t *testing.T) {
	render := func(tpl string, vars map[string]any) (s string) {
		defer func() {
			if r := recover(); r != nil {
				s = fmt.Sprintf("PANIC: %v", r)
			}
		}()
		key := fmt.Sprintf("audit1_%x", tpl)
		tree, err := Parse([]byte(tpl), false)
		if err != nil {
			return "PARSE ERROR: " + err.Error()
		}
		RegisterTplKey(key, tree)
		ctx := NewCtx()
		for k, v := range vars {
			ctx.SetStatic(k, v)
		}
		b, err := Render(key, ctx)
		if err != nil {
			return "RENDER ERROR: " + err.Error()
		}
		return string(b)
	}

	cases := []struct {
		tpl  string
		vars map[string]any
		want string
		// side: -1 the result must be <= input (floor), +1 it must be >= input (ceil), 0 |result| <= |input| (trunc).
		side int
		in   float64
	}{
		// 0.1+0.7 = 0.7999999999999999: two decimals, rounded down, are 0.79 (three decimals give 0.799, one gives 0.7).
		{`{%= a|math::add(b)|floorPrec(2) %}`, map[string]any{"a": 0.1, "b": 0.7}, "0.79", -1, 0.7999999999999999},
		{`{%f.2= x %}`, map[string]any{"x": 0.7999999999999999}, "0.79", -1, 0.7999999999999999},
		{`{%= x|roundPrec(2) %}`, map[string]any{"x": 0.7999999999999999}, "0.79", 0, 0.7999999999999999},
		// 1.1+2.2 = 3.3000000000000003: one decimal, rounded up, is 3.4; two decimals 3.31 (three decimals give 3.301).
		{`{%= a|math::add(b)|ceilPrec(1) %}`, map[string]any{"a": 1.1, "b": 2.2}, "3.4", 1, 3.3000000000000003},
		{`{%F.2= x %}`, map[string]any{"x": 3.3000000000000003}, "3.31", 1, 3.3000000000000003},
		// Other magnitudes, negatives.
		{`{%= x|floorPrec(1) %}`, map[string]any{"x": 30861.399999999998}, "30861.3", -1, 30861.399999999998},
		{`{%= x|ceilPrec(1) %}`, map[string]any{"x": 3654.7000000000003}, "3654.8", 1, 3654.7000000000003},
		{`{%= x|ceilPrec(2) %}`, map[string]any{"x": -249.82999999999998}, "-249.82", 1, -249.82999999999998},
		{`{%= x|floorPrec(4) %}`, map[string]any{"x": -3.9608000000000003}, "-3.9609", -1, -3.9608000000000003},
	}
	for _, c := range cases {
		got := render(c.tpl, c.vars)
		if got != c.want {
			t.Errorf("%s with %v: got %q, want %q", c.tpl, c.vars, got, c.want)
		}
		if g, err := strconv.ParseFloat(got, 64); err == nil {
			switch {
			case c.side < 0 && g > c.in:
				t.Errorf("%s: rounded DOWN value %v is greater than the input %v", c.tpl, g, c.in)
			case c.side > 0 && g < c.in:
				t.Errorf("%s: rounded UP value %v is smaller than the input %v", c.tpl, g, c.in)
			case c.side == 0 && (g > c.in) == (c.in > 0) && g != c.in:
				t.Errorf("%s: value rounded TOWARD ZERO %v is farther from zero than the input %v", c.tpl, g, c.in)
			}
		}
	}
}
