package dyntpl

import (
	"fmt"
	"testing"
)

// Property C20: "the arithmetic modifiers return the float64 result of the named operation on value and argument — in
// pipe form or in the documented function-call form".
//
// The function-call form is recognised only when the tag has no vertical line at all (extractMods: modNoVar :=
// reModNoVar.Match(t) && !hasVline). As soon as the call is followed by a pipe (to round the result, say) the text
// "math::add(x, 3)" becomes the NAME of the printed variable, which does not exist: nothing is printed.
// With an f./F. directive instead of the pipe the same call works.
func TestAudit7(t *testing.T) {
	render := func(tpl string, vars map[string]any) (s string) {
		defer func() {
			if r := recover(); r != nil {
				s = fmt.Sprintf("PANIC: %v", r)
			}
		}()
		key := fmt.Sprintf("audit7_%x", tpl)
		tree, err := Parse([]byte(tpl), false)
		if err != nil {
			return "PARSE ERROR: " + err.Error()
		}
		RegisterTplKey(key, tree)
		ctx := NewCtx()
		for k, v := range vars {
			ctx.SetStatic(k, v)
		}
		b, err := Render(key, ctx)
		if err != nil {
			return "RENDER ERROR: " + err.Error()
		}
		return string(b)
	}
	cases := []struct {
		tpl  string
		want string
	}{
		{`{%= math::add(x, 3) %}`, "4.55"},         // passes
		{`{%f.1= math::add(x, 3) %}`, "4.5"},       // passes
		{`{%= x|math::add(3)|floor() %}`, "4"},     // passes
		{`{%= math::add(x, 3)|floor() %}`, "4"},    // got ""
		{`{%= math::sqrt(x)|roundPrec(2) %}`, "1.24"}, // got ""
		{`{%= math::add(x, 3)|math::mul(2) %}`, "9.1"}, // got ""
		{`{%= math::abs(x)|default(0) %}`, "1.55"},  // got "0"
	}
	for _, c := range cases {
		if got := render(c.tpl, map[string]any{"x": 1.55}); got != c.want {
			t.Errorf("%s with x=1.55: got %q, want %q", c.tpl, got, c.want)
		}
	}
}
