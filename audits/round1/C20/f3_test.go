package dyntpl

import (
	"fmt"
	"testing"
	"time"

	"github.com/koykov/clock"
)

// Property C20, second sentence: "Formatting a time ... with a literal layout or a named layout global yields exactly
// the clock formatter's text for that instant and that layout."
//
// A LITERAL layout that contains a comma (the text of time::RFC1123, time::RFC1123Z, time::RFC850 written out), a
// closing parenthesis or a vertical line is cut into pieces by the parser (extractArgs splits at every comma, reMod
// stops at the first ')', extractMods splits at every '|', quotes are not honoured); the first piece is no longer a
// quoted literal, is looked up as a variable, and the time is formatted with an EMPTY layout: nothing is printed.
func TestAudit3(t *testing.T) {
	render := func(tpl string, vars map[string]any) (s string) {
		defer func() {
			if r := recover(); r != nil {
				s = fmt.Sprintf("PANIC: %v", r)
			}
		}()
		key := fmt.Sprintf("audit3_%x", tpl)
		tree, err := Parse([]byte(tpl), false)
		if err != nil {
			return "PARSE ERROR: " + err.Error()
		}
		RegisterTplKey(key, tree)
		ctx := NewCtx()
		for k, v := range vars {
			ctx.SetStatic(k, v)
		}
		b, err := Render(key, ctx)
		if err != nil {
			return "RENDER ERROR: " + err.Error()
		}
		return string(b)
	}
	dt := time.Date(2012, 2, 29, 20, 4, 26, 123456789, time.FixedZone("X", 5*3600+1800))
	layouts := []string{
		clock.RFC1123,  // "%a, %d %b %Y %H:%M:%S %Z"
		clock.RFC1123Z, // "%a, %d %b %Y %H:%M:%S %z"
		clock.RFC850,   // "%A, %d-%b-%y %H:%M:%S %Z"
		"%d.%m.%Y, %H:%M",
		"%H:%M (%Z)",
		"%Y-%m-%d | %H:%M",
	}
	for _, l := range layouts {
		wantB, _ := clock.Format(l, dt)
		want := string(wantB)
		if got := render(`{%= date|time::date("`+l+`") %}`, map[string]any{"date": dt}); got != want {
			t.Errorf("literal layout %q: got %q, want %q", l, got, want)
		}
	}
	// The same layout through the global is formatted.
	wantB, _ := clock.Format(clock.RFC1123, dt)
	if got := render(`{%= date|time::date(time::RFC1123) %}`, map[string]any{"date": dt}); got != string(wantB) {
		t.Errorf("global layout: got %q, want %q", got, wantB)
	}
}
