package dyntpl

import (
	"fmt"
	"testing"
	"time"
)

// Property C20: "The rounding directives and modifiers return the value rounded ..." / "the arithmetic modifiers
// return the float64 result ... whichever numeric type or numeric string the operands arrive as"; quantifier: "all
// integer and string encodings".
//
// (a) The six rounding modifiers and the f./F. directives convert the value with ConvFloat, which knows float32 and
//     float64 only: a numeric string ("3.7", []byte("3.7")) is printed unrounded. Every variable made by the template
//     itself from a literal ({% ctx pi = 3.1415 %}) is such a byte string, so the readme's own example value cannot be
//     rounded: {% ctx pi = 3.1415 %}{%f.3= pi %} prints 3.1415.
// (b) The arithmetic modifiers convert with floatConv, which knows string and []byte but not *bytebuf.Chain, the type
//     in which a modifier that produces text (time::date, default of a Chain, ...) hands its output to the next one.
func TestAudit5(t *testing.T) {
	render := func(tpl string, vars map[string]any) (s string) {
		defer func() {
			if r := recover(); r != nil {
				s = fmt.Sprintf("PANIC: %v", r)
			}
		}()
		key := fmt.Sprintf("audit5_%x", tpl)
		tree, err := Parse([]byte(tpl), false)
		if err != nil {
			return "PARSE ERROR: " + err.Error()
		}
		RegisterTplKey(key, tree)
		ctx := NewCtx()
		for k, v := range vars {
			ctx.SetStatic(k, v)
		}
		b, err := Render(key, ctx)
		if err != nil {
			return "RENDER ERROR: " + err.Error()
		}
		return string(b)
	}
	dt := time.Date(2012, 2, 29, 20, 4, 26, 0, time.UTC)
	cases := []struct {
		tpl  string
		vars map[string]any
		want string
	}{
		{`{% ctx pi = 3.1415 %}{%f.3= pi %}`, nil, "3.141"},
		{`{% ctx pi = 3.1415 %}{%F.3= pi %}`, nil, "3.142"},
		{`{% ctx pi = 3.1415 %}{%= pi|roundPrec(3) %}`, nil, "3.141"},
		{`{%= x|round() %}`, map[string]any{"x": "3.7"}, "4"},
		{`{%= x|floor() %}`, map[string]any{"x": []byte("3.7")}, "3"},
		{`{%= x|ceil() %}`, map[string]any{"x": "-3.7"}, "-3"},
		// The same strings are numbers for the arithmetic modifiers.
		{`{%= x|math::add(0) %}`, map[string]any{"x": "3.7"}, "3.7"},
		// (b) text produced by an earlier modifier.
		{`{%= d|time::date("%Y")|math::add(1) %}`, map[string]any{"d": dt}, "2013"},
	}
	for _, c := range cases {
		if got := render(c.tpl, c.vars); got != c.want {
			t.Errorf("%s with %v: got %q, want %q", c.tpl, c.vars, got, c.want)
		}
	}
}
