package dyntpl

import (
	"fmt"
	"testing"
)

// Property C20: "the arithmetic modifiers return the float64 result of the named operation on value and argument — in
// pipe form or in the documented function-call form — whichever numeric type or numeric string the operands arrive as"
// (quantifier: "all integer and string encodings").
//
// A numeric literal argument is recognised by isStaticRE `-?\d+\.*\d*` only. The spellings .5, -.5, +5, 1e3, 1.5e-3
// (all accepted by strconv.ParseFloat, and accepted by floatConv when they arrive quoted or in a variable) are taken
// for variable names, resolve to nil, and the modifier silently leaves the value as it was: x|math::add(.5) prints x.
func TestAudit6(t *testing.T) {
	render := func(tpl string, vars map[string]any) (s string) {
		defer func() {
			if r := recover(); r != nil {
				s = fmt.Sprintf("PANIC: %v", r)
			}
		}()
		key := fmt.Sprintf("audit6_%x", tpl)
		tree, err := Parse([]byte(tpl), false)
		if err != nil {
			return "PARSE ERROR: " + err.Error()
		}
		RegisterTplKey(key, tree)
		ctx := NewCtx()
		for k, v := range vars {
			ctx.SetStatic(k, v)
		}
		b, err := Render(key, ctx)
		if err != nil {
			return "RENDER ERROR: " + err.Error()
		}
		return string(b)
	}
	cases := []struct {
		tpl  string
		want string
	}{
		{`{%= x|math::add(.5) %}`, "1.5"},
		{`{%= x|math::add(-.5) %}`, "0.5"},
		{`{%= x|math::add(+5) %}`, "6"},
		{`{%= x|math::mul(1e3) %}`, "1000"},
		{`{%= x|math::mul(1.5e-3) %}`, "0.0015"},
		{`{%= math::add(x, .5) %}`, "1.5"},
		{`{%= math::max(x, 1e3) %}`, "1000"},
		// The quoted spellings work:
		{`{%= x|math::add(".5") %}`, "1.5"},
		{`{%= x|math::mul("1e3") %}`, "1000"},
	}
	for _, c := range cases {
		if got := render(c.tpl, map[string]any{"x": 1.0}); got != c.want {
			t.Errorf("%s with x=1: got %q, want %q", c.tpl, got, c.want)
		}
	}
}
