package dyntpl

import (
	"bytes"
	"testing"

	"github.com/koykov/inspector/testobj"
	"github.com/koykov/inspector/testobj_ins"
)

// Property C17, sentence contradicted:
//   "If the destination writer returns an error at any write, the render call returns a non-nil error
//    rather than reporting success".
// The renderer compares every node error BY IDENTITY with its own control-flow sentinels (ErrInterrupt in
// writeTree, ErrBreakLoop / ErrContLoop in cloop / RangeLoop.Iterate). The error returned by w.Write travels the
// same channel, so a destination writer whose error IS one of these exported values (e.g. a writer that itself
// renders a layout through dyntpl.Write and passes the error on: a stray {% break %} there yields ErrBreakLoop)
// is taken for exit / break / continue and the render reports success.

type audit1Writer struct {
	failFrom int   // 1-based index of the first failing write
	err      error // the error to fail with
	n        int
	acc      bytes.Buffer
}

func (w *audit1Writer) Write(p []byte) (int, error) {
	w.n++
	if w.n >= w.failFrom {
		return 0, w.err
	}
	w.acc.Write(p)
	return len(p), nil
}

func TestAudit1(t *testing.T) {
	user := &testobj.TestObject{Id: "115", Name: []byte("John"), Status: 78}
	reg := func(key, src string) {
		tree, err := Parse([]byte(src), false)
		if err != nil {
			t.Fatalf("parse %s: %v", key, err)
		}
		RegisterTplKey(key, tree)
	}
	reg("audit1_plain", `Hello, {%= user.Name %}! Bye.`)
	reg("audit1_cloop", `list:{% for i:=0; i<3; i++ %}[{%= i %}]{% endfor %}`)
	reg("audit1_rloop", `flags:{% for k, v := range user.Flags %}{%= k %};{% endfor %}`)
	user.Flags = testobj.TestFlag{"a": 1}

	cases := []struct {
		key  string
		fail int
		err  error
	}{
		{"audit1_plain", 1, ErrInterrupt}, // very first write fails: nothing reaches the client
		{"audit1_plain", 2, ErrInterrupt},
		{"audit1_cloop", 2, ErrBreakLoop}, // fails inside the loop body, template ends with the loop
		{"audit1_cloop", 2, ErrContLoop},
		{"audit1_cloop", 2, ErrInterrupt},
		{"audit1_rloop", 2, ErrBreakLoop},
		{"audit1_rloop", 2, ErrContLoop},
	}
	for _, c := range cases {
		// Sanity: the very same fault with an ordinary error value is reported.
		ctx := NewCtx()
		ctx.Set("user", user, testobj_ins.TestObjectInspector{})
		w := &audit1Writer{failFrom: c.fail, err: bytes.ErrTooLarge}
		if err := Write(w, c.key, ctx); err == nil {
			t.Errorf("%s fail@%d with ordinary error: got err=nil", c.key, c.fail)
		}

		ctx = NewCtx()
		ctx.Set("user", user, testobj_ins.TestObjectInspector{})
		w = &audit1Writer{failFrom: c.fail, err: c.err}
		err := Write(w, c.key, ctx)
		if err == nil {
			t.Errorf("%s: writer failed at write %d (and all later ones, %d Write calls in total) with %q, accepted only %q: got err=<nil> (success), want non-nil error",
				c.key, c.fail, w.n, c.err, w.acc.String())
		}
	}
}
