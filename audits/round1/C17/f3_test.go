package dyntpl

import (
	"errors"
	"testing"
)

// Property C17 (title): "A failing output writer is always reported to the caller"; sentence: "If the destination
// writer returns an error at any write, the ... call returns a non-nil error rather than reporting success".
// Not a template render, but the one other public entry point of the package that takes a destination io.Writer and
// returns an error: WriteDocgen. All three formats drop the result of every single w.Write
// (`_, _ = w.Write(...)`, `_ = tuple.write(...)`); Markdown / HTML end with `return nil`, JSON returns only the error
// of json.Marshal.

type audit3Writer struct{ n int }

var errAudit3 = errors.New("audit3: disk full")

func (w *audit3Writer) Write(p []byte) (int, error) { w.n++; return 0, errAudit3 }

func TestAudit3(t *testing.T) {
	for _, f := range []DocgenFormat{DocgenFormatMarkdown, DocgenFormatHTML, DocgenFormatJSON} {
		w := &audit3Writer{}
		err := WriteDocgen(w, f)
		if err == nil {
			t.Errorf("WriteDocgen(%v): writer failed all of its %d writes: got err=<nil>, want non-nil error", f, w.n)
		}
	}
}
