package dyntpl

import (
	"bytes"
	"errors"
	"testing"

	"github.com/koykov/inspector/testobj"
	"github.com/koykov/inspector/testobj_ins"
)

// Property C17, sentences contradicted (quantifier "... (also: short writes)"):
//   "the render call returns a non-nil error rather than reporting success, and the bytes the writer accepted
//    before the failure are a prefix of the fault-free output".
// Every write of the renderer is `_, err = w.Write(p)`: the count of accepted bytes is thrown away. A writer that
// takes only a part of p and reports it by n < len(p) alone (what bufio.Writer, io.Copy, io.MultiWriter ... guard
// against with io.ErrShortWrite) goes unnoticed: the render carries on behind the hole. Result (a): success is
// reported for truncated output; result (b): when a later write fails with an error, what the writer accepted is
// NOT a prefix of the fault-free output.

type audit2Writer struct {
	shortAt int // 1-based index of the write that is accepted only by half, no error
	failAt  int // 1-based index of the write that fails with an error (0: never)
	n       int
	acc     bytes.Buffer
}

var errAudit2 = errors.New("audit2: connection lost")

func (w *audit2Writer) Write(p []byte) (int, error) {
	w.n++
	if w.failAt > 0 && w.n >= w.failAt {
		return 0, errAudit2
	}
	if w.n == w.shortAt {
		h := len(p) / 2
		w.acc.Write(p[:h])
		return h, nil
	}
	w.acc.Write(p)
	return len(p), nil
}

func TestAudit2(t *testing.T) {
	user := &testobj.TestObject{Id: "115", Name: []byte("John"), Status: 78}
	tree, err := Parse([]byte(`name={%= user.Name %};{% for i:=0; i<3; i++ sep , %}item{%= i %}{% endfor %};end`), false)
	if err != nil {
		t.Fatal(err)
	}
	RegisterTplKey("audit2", tree)
	mk := func() *Ctx {
		ctx := NewCtx()
		ctx.Set("user", user, testobj_ins.TestObjectInspector{})
		return ctx
	}
	want, err := Render("audit2", mk())
	if err != nil {
		t.Fatal(err)
	}

	// (a) a short write and nothing else: truncated output, success reported.
	w := &audit2Writer{shortAt: 4} // 4th write is "item" of the first iteration
	err = Write(w, "audit2", mk())
	if err == nil && !bytes.Equal(w.acc.Bytes(), want) {
		t.Errorf("short write #4 (n<len(p)): got err=<nil> with accepted %q, want a non-nil error (e.g. io.ErrShortWrite) or the full output %q",
			w.acc.String(), want)
	}

	// (b) a short write, later a failing write: the error is reported, but the accepted bytes are no prefix.
	w = &audit2Writer{shortAt: 4, failAt: 8}
	err = Write(w, "audit2", mk())
	if err == nil {
		t.Errorf("short write #4, failing write #8: got err=<nil>")
	}
	if !bytes.HasPrefix(want, w.acc.Bytes()) {
		t.Errorf("short write #4, failing write #8: accepted %q is not a prefix of the fault-free output %q (render went on after the short write)",
			w.acc.String(), want)
	}
}
