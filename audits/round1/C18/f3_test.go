package dyntpl

import (
	"strings"
	"testing"
)

// Property C18, first sentence: deferred functions run "after the outermost template has finished producing output
// [...] and never earlier".
//
// write() (dyntpl.go) decides "I am the outermost template" by the entry point only: every call through the public
// Render / Write / WriteByID / WriteFallback runs ctx.defer_() when its tree is finished. A modifier that renders a
// partial with the context it was given (the only context it has) enters write() recursively — exactly the history of
// the include bug fixed in e4ffadc: everything deferred so far runs when the PARTIAL is finished, while the outermost
// template is still producing output.
func TestAudit3(t *testing.T) {
	var log []string
	RegisterModFn("aud3Defer", "", func(ctx *Ctx, buf *any, val any, args []any) error {
		tag := string(*args[0].(*[]byte))
		log = append(log, "reg"+tag)
		ctx.Defer(func() error {
			log = append(log, "run"+tag)
			return nil
		})
		return nil
	})
	RegisterModFn("aud3Partial", "", func(ctx *Ctx, buf *any, val any, args []any) error {
		b, err := Render(string(*args[0].(*[]byte)), ctx)
		if err != nil {
			return err
		}
		b = append([]byte(nil), b...)
		*buf = &b
		return nil
	})
	reg := func(key, src string) {
		tree, err := Parse([]byte(src), false)
		if err != nil {
			t.Fatalf("parse %s: %v", key, err)
		}
		RegisterTplKey(key, tree)
	}
	reg("aud3_partial", `(partial {%= a|aud3Defer("P") %})`)
	reg("aud3_main", `{%= a|aud3Defer("1") %}{%= a|aud3Partial("aud3_partial") %}{%= a|aud3Defer("2") %}tail`)

	ctx := NewCtx()
	ctx.SetStatic("a", "A")
	out, err := Render("aud3_main", ctx)
	ctx.Reset()
	got := strings.Join(log, ",")
	want := "reg1,regP,reg2,run1,runP,run2"
	if err != nil || string(out) != "A(partial A)Atail" {
		t.Fatalf("unexpected render result (%q, %v)", out, err)
	}
	if got != want {
		t.Errorf("history of registrations and runs: got [%s], want [%s] (no function runs before the outermost template has finished)", got, want)
	}
}
