package dyntpl

import (
	"errors"
	"strings"
	"testing"
)

// Property C18, first sentence: "Every function deferred through the context during a render runs exactly once,
// in registration order".
//
// ctx.defer_() (ctx.go) stops at the first deferred function that returns an error and then empties the list: the
// functions registered AFTER the failing one never run — not at the end of this render, not at the next render on
// the same context, not at Reset.
func TestAudit2(t *testing.T) {
	var log []string
	RegisterModFn("aud2Defer", "", func(ctx *Ctx, buf *any, val any, args []any) error {
		tag := string(*args[0].(*[]byte))
		ctx.Defer(func() error {
			log = append(log, tag)
			return nil
		})
		return nil
	})
	RegisterModFn("aud2DeferFailing", "", func(ctx *Ctx, buf *any, val any, args []any) error {
		tag := string(*args[0].(*[]byte))
		ctx.Defer(func() error {
			log = append(log, tag)
			return errors.New("aud2: deferred function failed")
		})
		return nil
	})
	reg := func(key, src string) {
		tree, err := Parse([]byte(src), false)
		if err != nil {
			t.Fatalf("parse %s: %v", key, err)
		}
		RegisterTplKey(key, tree)
	}
	reg("aud2_inc", `[inc {%= a|aud2Defer("3") %}]`)
	reg("aud2_main", `{%= a|aud2Defer("1") %}{%= a|aud2DeferFailing("2") %}{% include aud2_inc %}{%= a|aud2Defer("4") %}tail`)
	reg("aud2_plain", `plain`)

	ctx := NewCtx()
	ctx.SetStatic("a", "A")
	out, err := Render("aud2_main", ctx)
	first := strings.Join(log, ",")
	// Give the library every further chance to run them: another render on the same context, then Reset.
	_, _ = Render("aud2_plain", ctx)
	ctx.Reset()
	all := strings.Join(log, ",")
	if want := "1,2,3,4"; all != want {
		t.Errorf("render returned (%q, %v); deferred functions run at the end of the render: [%s]; until Reset: got [%s], want [%s] (each exactly once, in registration order)",
			out, err, first, all, want)
	}
}
